(* C12/Xsd.v — "children (in schema order)" against an oracle that is INDEPENDENT of the library's own
   c_child_order: the content models of the XML Schema files (src/saml2/data/schemas/*.xsd), translated by
   harness/c12.py into gen/C12Schema.v as, per class, a RANK for every child element name:

     sequence (once)          the particles get increasing blocks of ranks
     choice (once)            the alternatives start at the same rank
     anything repeatable      all element names inside share one rank (any interleaving is schema valid)
     one name at two ranks    the ranks between them are merged (over-approximation)

   so that in EVERY schema-valid element the ranks of the children (those that have one) never decrease.
   [xsd_ordered_b] is that necessary condition; it is evaluated on what the implementation writes.
   [xsd_consistent_b] is the (regenerated, vm_compute) obligation that the library's order table never
   contradicts the ranks; under it the order the model writes ([ordered_b], theorem c12_schema_order)
   is rank-monotone: [xsd_order].  Self-contained: Corr.v imports this file, not Proofs.v. *)
From Coq Require Import String List Bool Arith NArith Lia.
From Verif Require Import Base.Str Base.Xml Base.ClassTable C12.Model C12.Spec.
Import ListNotations.
Open Scope list_scope.

(* class index -> (child element name, rank) *)
Definition xsd_table := list (N * list (qname * nat)).

Fixpoint xsd_model (X : xsd_table) (c : N) : list (qname * nat) :=
  match X with
  | [] => []
  | (c', m) :: r => if N.eqb c' c then m else xsd_model r c
  end.

Definition xsd_rank (m : list (qname * nat)) (g : qname) : option nat := dget qname_eqb g m.

(* the ranks of the children that have one, document order *)
Definition ranks_of (m : list (qname * nat)) (kids : list tree) : list nat :=
  flat_map (fun k => match xsd_rank m (t_tag k) with Some r => [r] | None => [] end) kids.

Section Xsd.
  Variable T : table.
  Variable X : xsd_table.

  Fixpoint xsd_ordered_b (c : N) (t : tree) {struct t} : bool :=
    match t with
    | Node _ _ _ kids =>
        match class_at T c with
        | None => false
        | Some ci =>
            sorted_b (ranks_of (xsd_model X c) kids)
            && forallb (fun k => match find_child ci (t_tag k) with
                                 | Some s => match ch_class s with
                                             | Some c' => xsd_ordered_b c' k
                                             | None => true
                                             end
                                 | None => true
                                 end) kids
        end
    end.

  (* position of an element name in the library's order table (= Spec.kid_pos on the name) *)
  Definition pos_of (ci : class_info) (g : qname) : nat :=
    match find_child ci g with
    | Some s => index_of (ch_member s) (child_order ci)
    | None => length (child_order ci)
    end.

  (* the library's order never contradicts the ranks: written earlier-or-together => rank not greater *)
  Definition xsd_class_ok (ci : class_info) (m : list (qname * nat)) : bool :=
    forallb (fun a => forallb (fun b => negb (pos_of ci (fst a) <=? pos_of ci (fst b))%nat || (snd a <=? snd b)%nat) m) m.

  Definition xsd_consistent_b : bool :=
    forallb (fun cm => match class_at T (fst cm) with
                       | Some ci => xsd_class_ok ci (snd cm)
                       | None => false
                       end) X.

  (* the classes whose order table contradicts the schema (for the report) *)
  Definition xsd_bad_classes : list string :=
    flat_map (fun cm => match class_at T (fst cm) with
                        | Some ci => if xsd_class_ok ci (snd cm) then [] else [c_name ci]
                        | None => ["?"%string]
                        end) X.

  Lemma sorted_cons a l : sorted_b (a :: l) = true <-> (forall y, In y l -> a <= y) /\ sorted_b l = true.
  Proof.
    revert a. induction l as [|b r IH]; intros a.
    - cbn. split; [intros _; split; [intros y []|reflexivity]|reflexivity].
    - change (sorted_b (a :: b :: r)) with ((a <=? b)%nat && sorted_b (b :: r)).
      rewrite andb_true_iff, Nat.leb_le. split.
      + intros [H1 H2]. split; [|exact H2]. intros y [<-|Hy]; [exact H1|].
        apply IH in H2 as [H2 _]. specialize (H2 y Hy). lia.
      + intros [H1 H2]. split; [apply H1; left; reflexivity|exact H2].
  Qed.

  Lemma xsd_model_ok c ci :
    xsd_consistent_b = true -> class_at T c = Some ci -> xsd_class_ok ci (xsd_model X c) = true.
  Proof.
    unfold xsd_consistent_b. intros H E. induction X as [|[c' m] r IH]; cbn [xsd_model].
    - reflexivity.
    - cbn [forallb fst snd] in H. apply andb_true_iff in H as [H1 H2].
      destruct (N.eqb c' c) eqn:Ec.
      + apply N.eqb_eq in Ec. subst c'. rewrite E in H1. exact H1.
      + apply IH. exact H2.
  Qed.

  Lemma class_ok_pair ci m g1 r1 g2 r2 :
    xsd_class_ok ci m = true -> xsd_rank m g1 = Some r1 -> xsd_rank m g2 = Some r2 ->
    pos_of ci g1 <= pos_of ci g2 -> r1 <= r2.
  Proof.
    unfold xsd_class_ok, xsd_rank. intros H E1 E2 P.
    apply (dget_In qname_eqb qname_eqb_eq) in E1. apply (dget_In qname_eqb qname_eqb_eq) in E2.
    rewrite forallb_forall in H. specialize (H _ E1). rewrite forallb_forall in H. specialize (H _ E2).
    cbn [fst snd] in H. apply orb_true_iff in H as [H|H].
    - apply negb_true_iff in H. apply Nat.leb_gt in H. lia.
    - apply Nat.leb_le in H. exact H.
  Qed.

  Lemma In_ranks_of m kids y : In y (ranks_of m kids) -> exists k, In k kids /\ xsd_rank m (t_tag k) = Some y.
  Proof.
    unfold ranks_of. intros H. apply in_flat_map in H as [k [Hk Hy]]. exists k. split; [exact Hk|].
    destruct (xsd_rank m (t_tag k)) as [r|]; [destruct Hy as [<-|[]]; reflexivity|destruct Hy].
  Qed.

  (* one element: sorted by the library's positions => sorted by rank *)
  Lemma ranks_sorted ci m kids :
    xsd_class_ok ci m = true -> sorted_b (map (kid_pos ci) kids) = true -> sorted_b (ranks_of m kids) = true.
  Proof.
    intros OK. induction kids as [|k r IH]; intros S; [reflexivity|].
    cbn [map] in S. apply sorted_cons in S as [S1 S2]. specialize (IH S2).
    unfold ranks_of. cbn [flat_map]. fold (ranks_of m r).
    destruct (xsd_rank m (t_tag k)) as [rk|] eqn:Ek; cbn [app]; [|exact IH].
    apply sorted_cons. split; [|exact IH]. intros y Hy.
    apply In_ranks_of in Hy as [k' [Hk' Ey]].
    apply (class_ok_pair ci m (t_tag k) rk (t_tag k') y OK Ek Ey).
    change (pos_of ci (t_tag k)) with (kid_pos ci k). change (pos_of ci (t_tag k')) with (kid_pos ci k').
    apply S1. apply in_map. exact Hk'.
  Qed.

  (* every depth *)
  Theorem xsd_order t : forall c,
    xsd_consistent_b = true -> ordered_b T c t = true -> xsd_ordered_b c t = true.
  Proof.
    induction t as [g a x kids IH] using tree_ind'. intros c HX HO.
    cbn [ordered_b] in HO. cbn [xsd_ordered_b].
    destruct (class_at T c) as [ci|] eqn:Eci; [|discriminate].
    apply andb_true_iff in HO as [HS HK]. apply andb_true_iff. split.
    - apply (ranks_sorted ci); [apply (xsd_model_ok c ci HX Eci)|exact HS].
    - rewrite forallb_forall in HK. apply forallb_forall. intros k Hk. specialize (HK k Hk).
      rewrite Forall_forall in IH.
      destruct (find_child ci (t_tag k)) as [s|]; [|reflexivity].
      destruct (ch_class s) as [c'|]; [|reflexivity].
      apply (IH k Hk); [exact HX|exact HK].
  Qed.
End Xsd.

(* ---- the oracle has content of its own: a table that writes B before A while the schema says (A, B) is
   consistent in itself (ordered_b holds on what it writes) and is caught by the ranks *)
Definition xq (l : string) : qname := QN (Some "urn:t"%string) l.
Definition x_leaf (name l : string) : class_info :=
  {| c_name := name; c_tag := xq l; c_kind := KPlain; c_children := []; c_attributes := []; c_child_order := [];
     c_cardinality := []; c_any := None; c_any_attribute := None; c_value_type := None; c_parse_defaults := [] |}.
Definition x_box (order : list string) : class_info :=
  {| c_name := "Box"%string; c_tag := xq "Box"; c_kind := KPlain;
     c_children := [ {| ch_tag := xq "A"; ch_member := "a"%string; ch_class := Some 1%N; ch_list := false |};
                     {| ch_tag := xq "B"; ch_member := "b"%string; ch_class := Some 2%N; ch_list := true |} ];
     c_attributes := []; c_child_order := order;
     c_cardinality := []; c_any := None; c_any_attribute := None; c_value_type := None; c_parse_defaults := [] |}.
Definition x_table (order : list string) : table := [x_box order; x_leaf "A" "A"; x_leaf "B" "B"].
Definition x_xsd : xsd_table := [(0%N, [(xq "A", 0); (xq "B", 1)])].
Definition x_leaf_t (l : string) : tree := Node (xq l) [] ""%string [].
Definition x_doc_ab : tree := Node (xq "Box") [] ""%string [x_leaf_t "A"; x_leaf_t "B"; x_leaf_t "B"; Node (QN None "foreign"%string) [] ""%string []].
Definition x_doc_ba : tree := Node (xq "Box") [] ""%string [x_leaf_t "B"; x_leaf_t "A"].

Example xsd_sat :
  xsd_consistent_b (x_table ["a"; "b"]%string) x_xsd = true
  /\ ordered_b (x_table ["a"; "b"]%string) 0%N x_doc_ab = true
  /\ xsd_ordered_b (x_table ["a"; "b"]%string) x_xsd 0%N x_doc_ab = true
  /\ xsd_ordered_b (x_table ["a"; "b"]%string) x_xsd 0%N x_doc_ba = false.
Proof. vm_compute. repeat split. Qed.

Lemma xsd_swap_detected :
  exists T X c t, wf_table T = true /\ ordered_b T c t = true /\ xsd_ordered_b T X c t = false /\ xsd_consistent_b T X = false.
Proof. exists (x_table ["b"; "a"]%string), x_xsd, 0%N, x_doc_ba. vm_compute. repeat split. Qed.
