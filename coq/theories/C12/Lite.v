(* C12/Lite.v — the runner of the TABLE-FREE fallback.  When harness/classtables.py cannot translate the live
   class tables (it fails closed: the proof build breaks, no table, no model), harness/c12.py still runs an
   implementation-only battery that needs no table (round trip of an instance / a document that carries a foreign
   child named like an element ANOTHER live class registers) so that the alarm names a concrete failing input.
   A case is the verdict observed on the implementation; nothing is modelled here. *)
From Coq Require Import List Bool.
From Verif Require Import Base.Run.

Inductive lcase := LIMPL (ok : bool).

Definition lrun := run_cases (fun _ : lcase => true) (fun k => match k with LIMPL ok => ok end) (fun _ => 0).
