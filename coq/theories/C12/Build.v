(* C12/Build.v — how an AttributeValueBase INSTANCE comes to be (saml2/saml.py 150-350), restated:

     av_ctor v ext arg      AttributeValueBase.__init__(text=v, extension_elements=ext, extension_attributes=arg)
     av_set_text v xa       set_text(v)  =  instance.text = v  (__setattr__ forwards to set_text)
     av_ops / av_build      a RECIPE: the constructor followed by public calls (set_text, set_type, an item
                            assignment on extension_attributes)

   The property speaks about "every instance built from attribute values, text, child elements and foreign
   extension elements or attributes".  Until round 5 the correspondence built AttributeValue instances in ONE
   way (cls(); set_type; set_text) and judged "is this an instance in the sense of the property" by the fixpoint
   of the PARSING side (Spec.av_fix_b): a constructor that builds something parsing never delivers was outside
   the guard, hence invisible.  Here the building side is a model of its own; Corr.v compares it with the
   live constructor and demands the round trip of what was built WITHOUT that guard.

   Python values: what the callers hand over as text - None, str, bytes (decoded as UTF-8), int, bool, float.
   str(int) is carried as sign + canonical decimal digits (pyv_ok), str(float) is carried as given.

   Quirks restated (faithful model):
   * the constructor calls SamlBase.__init__(text=None): set_text(None) runs before extension_attributes
     exists and leaves _extatt = {xsi:type: ""}; the constructor then REPLACES extension_attributes by _extatt,
     so the extension_attributes ARGUMENT never reaches the instance (arg is ignored below);
   * a falsy text (None, "", b"", 0, False, 0.0) means "no value": xsi:nil="true" (no extension elements) or
     no attribute at all (extension elements);
   * set_text("") / .text = None on an existing instance do NOT mean "no value": they leave a typed (or
     type "") element with empty text and without xsi:nil  (typed: finding class 5, fixed on the parsing side by
     c1c601fb; type "": class 8, open).
   No proofs here. *)
From Coq Require Import String Ascii List Bool Arith NArith.
From Verif Require Import Base.Str Base.Xml Base.ClassTable C12.Model.
Import ListNotations.
Open Scope string_scope.
Open Scope list_scope.

Inductive pyv :=
| VNone
| VStr (s : string)
| VBytes (s : string)                    (* bytes that decode (UTF-8) to s *)
| VInt (neg : bool) (digits : string)    (* an int that is not a bool: str(v) = ["-"] digits *)
| VBool (b : bool)
| VFloat (zero : bool) (s : string).     (* a float: v == 0.0, str(v) *)

Inductive pty := TStr | TInt | TFloat | TBool | TNoneT | TDate.

Definition pty_eqb (a b : pty) : bool :=
  match a, b with
  | TStr, TStr | TInt, TInt | TFloat, TFloat | TBool, TBool | TNoneT, TNoneT | TDate, TDate => true
  | _, _ => false
  end.

(* if isinstance(value, bytes): value = value.decode("utf-8") *)
Definition norm_v (v : pyv) : pyv := match v with VBytes s => VStr s | _ => v end.

Definition py_type (v : pyv) : pty :=
  match v with
  | VNone => TNoneT | VStr _ | VBytes _ => TStr | VInt _ _ => TInt | VBool _ => TBool | VFloat _ _ => TFloat
  end.

(* bool(v) *)
Definition truthy (v : pyv) : bool :=
  match v with
  | VNone => false
  | VStr s | VBytes s => negb (is_empty s)
  | VInt _ d => negb (String.eqb d "0")
  | VBool b => b
  | VFloat z _ => negb z
  end.

(* the digits of an int are what str() prints: not empty, digits only, no leading zero, no "-0" *)
Definition pyv_ok (v : pyv) : bool :=
  match v with
  | VInt neg d => all_chars is_digit d && negb (is_empty d) && String.eqb (drop_zeros d) d
                  && negb (neg && String.eqb d "0")
  | _ => true
  end.

Definition int_text (neg : bool) (d : string) : string := if neg then String "-"%char d else d.

(* type_to_xsd *)
Definition type_to_xsd (t : pty) : string :=
  match t with TStr => "string" | TInt => "integer" | TFloat => "float" | TBool => "boolean" | _ => "" end.

Definition int_types : list string := ["integer"; "short"; "int"; "long"].

(* xsd_types_props[...]["type"]; names outside the table use the props of "string" *)
Definition valid_type (ty : string) (tv : pty) : pty :=
  if mem ty ["string"; "base64Binary"] then TStr
  else if mem ty int_types then TInt
  else if mem ty ["float"; "double"] then TFloat
  else if String.eqb ty "boolean" then TBool
  else if String.eqb ty "date" then TDate
  else if String.eqb ty "anyType" then tv
  else if String.eqb ty "" then TNoneT
  else TStr.

Inductive tres :=
| TOk (xa : attrs) (text : option string)
| TRaise                  (* ValueError *)
| TNonStr                 (* xs:anyType: to_text is the identity, the text member now holds an int / bool / float *)
| TUnmodelled.

Definition mk_type_name (ns ty : string) : string := if is_empty ns then ty else (ns ++ ":" ++ ty)%string.

(* set_text(value) on an instance whose extension_attributes are xa *)
Definition av_set_text (v0 : pyv) (xa : attrs) : tres :=
  let v := norm_v v0 in
  let t0 := av_get_type xa in
  let xs := if is_empty t0 then type_to_xsd (py_type v) else t0 in
  let '(ns, ty) := if is_empty xs then ("", "") else split_type xs in
  if negb (type_ok xs) then TRaise else
  let done (text : string) := TOk (av_set_type (mk_type_name ns ty) xa) (Some text) in
  match v with
  | VStr x => match av_convert ty x with
              | CText x2 => done x2
              | CRaise => TRaise
              | CUnmodelled => TUnmodelled
              end
  | _ =>
      if String.eqb ty "anyType" then                       (* valid type = type(value); to_text is the identity but for None *)
        match v with
        | VNone => done ""               (* since the repair of C12-F10: to_text maps None to "" *)
        | _ => TNonStr
        end
      else if negb (pty_eqb (py_type v) (valid_type ty (py_type v))) then TRaise
      else match v with
           | VNone => done ""
           | VInt neg d => done (int_text neg d)
           | VBool b => done (if b then "true" else "false")
           | VFloat _ s => done s
           | _ => TRaise
           end
  end.


(* set_text as it was BEFORE the repair of C12-F10 (kept for the refutation c12_av_anytype_none_v0_refuted and so that
   Corr.cls recognises a regression): under anyType to_text was the identity, None stayed None *)
Definition av_set_text_f10v0 (v0 : pyv) (xa : attrs) : tres :=
  let v := norm_v v0 in
  let t0 := av_get_type xa in
  let xs := if is_empty t0 then type_to_xsd (py_type v) else t0 in
  let '(ns, ty) := if is_empty xs then ("", "") else split_type xs in
  if negb (type_ok xs) then TRaise else
  let done (text : string) := TOk (av_set_type (mk_type_name ns ty) xa) (Some text) in
  match v with
  | VStr x => match av_convert ty x with
              | CText x2 => done x2
              | CRaise => TRaise
              | CUnmodelled => TUnmodelled
              end
  | _ =>
      if String.eqb ty "anyType" then                       (* valid type = type(value); to_text is the identity *)
        match v with
        | VNone => TOk (av_set_type (mk_type_name ns ty) xa) None
        | _ => TNonStr
        end
      else if negb (pty_eqb (py_type v) (valid_type ty (py_type v))) then TRaise
      else match v with
           | VNone => done ""
           | VInt neg d => done (int_text neg d)
           | VBool b => done (if b then "true" else "false")
           | VFloat _ s => done s
           | _ => TRaise
           end
  end.


(* what SamlBase.__init__(text=None) leaves in _extatt, which the constructor then installs *)
Definition av_ctor_xa0 : attrs := [(xsi_type, "")].

(* AttributeValueBase.__init__(text=v, extension_elements=ext, extension_attributes=arg) *)
Definition av_ctor (v : pyv) (ext : list ee) (arg : attrs) : tres :=
  if truthy v then av_set_text v av_ctor_xa0
  else if nonempty ext then TOk (ddel qname_eqb xsi_type av_ctor_xa0) (Some "")
  else TOk av_init_xattrs (Some "").

(* public calls on the instance *)
Inductive bop :=
| OSetText (v : pyv)                 (* inst.set_text(v)  /  inst.text = v *)
| OSetType (t : string)              (* inst.set_type(t) *)
| OClearType                         (* inst.clear_type() *)
| OXAttr (k : qname) (v : string).   (* inst.extension_attributes[k] = v *)

Fixpoint av_ops (ops : list bop) (xa : attrs) (tx : option string) : tres :=
  match ops with
  | [] => TOk xa tx
  | OSetText v :: r => match av_set_text v xa with
                       | TOk xa' tx' => av_ops r xa' tx'
                       | e => e
                       end
  | OSetType t :: r => av_ops r (av_set_type t xa) tx
  | OClearType :: r => av_ops r (ddel qname_eqb xsi_type xa) tx
  | OXAttr k v :: r => av_ops r (dset qname_eqb k v xa) tx
  end.

Record recipe := Recipe { r_text : pyv; r_ext : list ee; r_arg : attrs; r_ops : list bop }.

Definition av_build (b : recipe) : tres :=
  match av_ctor (r_text b) (r_ext b) (r_arg b) with
  | TOk xa tx => av_ops (r_ops b) xa tx
  | e => e
  end.

Fixpoint ops_ok (ops : list bop) : bool :=
  match ops with
  | [] => true
  | OSetText v :: r => pyv_ok v && ops_ok r
  | _ :: r => ops_ok r
  end.

Definition recipe_ok (b : recipe) : bool := pyv_ok (r_text b) && ops_ok (r_ops b).

(* ---- the recipes the property speaks about: the extension elements can be held by an instance as they are
   (Spec.ee_ok, spelled out here because Spec.v comes later), the item assignments use names that are foreign
   (neither xsi:type / xsi:nil, which the class manages itself, nor a namespace declaration in disguise), and
   a set_type / clear_type on an instance that has text is followed by the set_text that makes type and text agree.
   Nothing here depends on what the constructor or set_text DO with the value. *)
Fixpoint ee_holdable (e : ee) : bool :=
  match e with
  | EE _ _ a kids x =>
      attrs_ok a && negb (opt_eqb String.eqb x (Some "")) && forallb ee_holdable kids
  end.

Definition foreign_key (k : qname) : bool :=
  negb (qname_eqb k xsi_type) && negb (qname_eqb k xsi_nil) && negb (is_xmlns_name k).

Fixpoint ops_in_scope (ops : list bop) (xa : attrs) (tx : option string) : bool :=
  match ops with
  | [] => true
  | OSetText v :: r => match av_set_text v xa with
                       | TOk xa' tx' => ops_in_scope r xa' tx'
                       | _ => true
                       end
  | OSetType t :: r => (is_empty (text_str tx) || match r with OSetText _ :: _ => true | _ => false end)
                       && ops_in_scope r (av_set_type t xa) tx
  | OClearType :: r => (is_empty (text_str tx) || match r with OSetText _ :: _ => true | _ => false end)
                       && ops_in_scope r (ddel qname_eqb xsi_type xa) tx
  | OXAttr k v :: r => foreign_key k && ops_in_scope r (dset qname_eqb k v xa) tx
  end.

Definition recipe_in_scope (b : recipe) : bool :=
  forallb ee_holdable (r_ext b)
  && match av_ctor (r_text b) (r_ext b) (r_arg b) with
     | TOk xa tx => ops_in_scope (r_ops b) xa tx
     | _ => true
     end.

(* the instance a recipe builds, for a class c without schema attributes and children (every
   AttributeValueBase subclass of the live table) *)
Definition av_obj (c : N) (ext : list ee) (xa : attrs) (tx : option string) : obj := Obj c [] [] ext xa tx.

(* ------------------------------------------------------------------ built instances that do not survive
   the round trip on the code as it is (finding classes 6, 7, 8 open; 5 fixed; judged on what the MODEL builds, so that a
   constructor which starts to build such a thing is not excused by the class) *)

Definition is_some_str (x : option string) : bool := match x with Some _ => true | None => false end.

(* class 5 (C12-F5, FIXED by c1c601fb; kept so that Corr.cls recognises a regression): no text, no extension
   elements, no xsi:nil marker, but a declared type (set_text(""), a bare set_type(t)).  Before the fix parsing put
   xsi:nil="true" back and dropped the xmlns:xs pseudo attribute; now parsing reads the empty value of that type. *)
Definition av_typed_empty (ext : list ee) (xa : attrs) (tx : option string) : bool :=
  is_empty (text_str tx) && negb (nonempty ext) && negb (is_some_str (dget qname_eqb xsi_nil xa))
  && negb (is_empty (av_get_type xa)).

(* class 8 (C12-F8, what remains of F5 after the fix): the same without a type NAME - .text = None and set_type("")
   leave xsi:type="", clear_type() on such an instance leaves no attribute at all: parsing still marks it nil *)
Definition av_untyped_empty (ext : list ee) (xa : attrs) (tx : option string) : bool :=
  is_empty (text_str tx) && negb (nonempty ext) && negb (is_some_str (dget qname_eqb xsi_nil xa))
  && is_empty (av_get_type xa).

(* class 6: text with outer white space next to extension elements: parsing strips it (documented in
   harvest_element_tree: "if we have added children to this node we consider whitespace insignificant") *)
Definition av_ws_ext (ext : list ee) (xa : attrs) (tx : option string) : bool :=
  nonempty ext && negb (is_empty (text_str tx)) && negb (String.eqb (strip (text_str tx)) (text_str tx)).

(* class 7: set_type keeps the declaration of the xs: / xsd: prefix as a PSEUDO ATTRIBUTE "xmlns:xs"; parsing
   re-creates it at the END of the dict and only when there is text (or, since c1c601fb, an empty typed value), so an instance in which it is followed by
   another attribute, which carries one its type does not ask for, or which carries one without having text
   comes back in another order / without it: the second serialisation is not byte-identical *)
Definition av_xmlns_of (typ : string) : attrs :=
  (if String.prefix "xs:" typ then [(xmlns_xs, XS_NS)] else [])
  ++ (if String.prefix "xsd:" typ then [(xmlns_xsd, XS_NS)] else []).

Definition av_xmlns_misplaced (ext : list ee) (xa : attrs) (tx : option string) : bool :=
  negb (attrs_eqb (wire_attrs xa ++ (if negb (is_empty (text_str tx)) || av_typed_empty ext xa tx
                                     then av_xmlns_of (av_get_type xa) else [])) xa).

(* class 10 (C12-F10, FIXED: to_text of anyType maps None to ""; kept so that Corr.cls recognises a regression): the
   text member is None.  Before the repair set_text(None) / .text = None under a type whose local name is
   anyType got there (av_set_text_f10v0; every other path of the constructor and of set_text
   stores ""; now NO recipe builds it: BuildProofs.av_build_text_some): parsing never leaves None in an AttributeValue (a fresh instance has text "", av_finish delivers Some),
   so such an instance comes back with text "" - whatever else it carries *)
Definition av_text_none (tx : option string) : bool := match tx with None => true | Some _ => false end.

Definition av_known_class (ext : list ee) (xa : attrs) (tx : option string) : nat :=
  if av_text_none tx then 10
  else if av_untyped_empty ext xa tx then 8
  else if av_ws_ext ext xa tx then 6
  else if av_xmlns_misplaced ext xa tx then 7
  else if av_typed_empty ext xa tx then 5 else 0.
