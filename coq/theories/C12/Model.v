(* C12/Model.v — what saml2/__init__.py (ExtensionElement, ExtensionContainer, SamlBase) and
   saml2/saml.py (AttributeValueBase) DO when they parse an element tree into an object and when
   they turn an object into an element tree, over an ARBITRARY class table T.

     ee_of_tree / tree_of_ee   _extension_element_from_element_tree / ExtensionElement.transfer_to_element_tree
     harvest T c t             create_class_from_element_tree's body: target_class() then
                               harvest_element_tree(tree)  (_convert_element_tree_to_member,
                               _convert_element_attribute_to_member; AttributeValueBase's override)
     parse_root T c t          create_class_from_element_tree (root tag check, None on mismatch)
     harvest_status T c t      does harvest raise?
     to_tree T o               _to_element_tree / _add_members_to_element_tree
     wire t                    the tree an XML reader sees after ElementTree.tostring wrote [t]:
                               keys called "xmlns:..." have become namespace declarations, raw CR
                               in character data has been normalised to LF.

   Python objects: known attribute members are a list aligned with c_attributes (member, value or
   None), child members a list aligned with c_children (member, list of objects; a singleton member
   holds at most one), extension_elements, extension_attributes (insertion-ordered dict) and text.
   No proofs here. *)
From Coq Require Import String Ascii List Bool Arith NArith.
From Verif Require Import Base.Str Base.Xml Base.ClassTable.
Import ListNotations.
Open Scope string_scope.
Open Scope list_scope.

(* ------------------------------------------------------------------ ExtensionElement *)
Inductive ee : Type :=
  EE (ns : option string) (tag : string) (att : attrs) (kids : list ee) (text : option string).

Definition text_opt (x : string) : option string := if is_empty x then None else Some x.
Definition text_str (x : option string) : string := match x with Some s => s | None => "" end.

Definition adict (a : attrs) : attrs := dset_all qname_eqb [] a.      (* for k, v in items: d[k] = v *)

Fixpoint ee_of_tree (t : tree) : ee :=
  match t with
  | Node g a x kids => EE (q_ns g) (q_local g) (adict a) (map ee_of_tree kids) (text_opt x)
  end.

Fixpoint tree_of_ee (e : ee) : tree :=
  match e with
  | EE ns tag a kids x => Node (QN ns tag) (adict a) (text_str x) (map tree_of_ee kids)
  end.

Definition ee_name (e : ee) : qname := match e with EE ns tag _ _ _ => QN ns tag end.

(* ------------------------------------------------------------------ objects *)
Inductive obj : Type :=
  Obj (cls : N)
      (oattrs : list (string * option string))     (* attribute members *)
      (okids : list (string * list obj))            (* child members *)
      (oext : list ee)                              (* extension_elements *)
      (oxattrs : attrs)                             (* extension_attributes *)
      (otext : option string).

Definition o_cls (o : obj) : N := match o with Obj c _ _ _ _ _ => c end.
Definition o_attrs (o : obj) := match o with Obj _ a _ _ _ _ => a end.
Definition o_kids (o : obj) := match o with Obj _ _ k _ _ _ => k end.
Definition o_ext (o : obj) := match o with Obj _ _ _ e _ _ => e end.
Definition o_xattrs (o : obj) := match o with Obj _ _ _ _ x _ => x end.
Definition o_text (o : obj) := match o with Obj _ _ _ _ _ t => t end.

(* getattr / setattr on the aligned member lists *)
Definition get_member {A} (m : string) (l : list (string * A)) : option A :=
  match find (fun kv => String.eqb (fst kv) m) l with Some kv => Some (snd kv) | None => None end.

Definition get_list {A} (m : string) (l : list (string * list A)) : list A :=
  match get_member m l with Some v => v | None => [] end.

Definition set_member {A} (m : string) (v : A) (l : list (string * A)) : list (string * A) :=
  map (fun kv => if String.eqb (fst kv) m then (fst kv, v) else kv) l.

Definition app_member {A} (m : string) (v : A) (l : list (string * list A)) : list (string * list A) :=
  map (fun kv => if String.eqb (fst kv) m then (fst kv, snd kv ++ [v]) else kv) l.

(* ------------------------------------------------------------------ AttributeValueBase *)
(* XSI_NS, XS_NS, xsi_type, xsi_nil: Base/ClassTable.v *)
Definition xmlns_xs : qname := QN None "xmlns:xs".
Definition xmlns_xsd : qname := QN None "xmlns:xsd".

Definition c_colon : ascii := ":"%char.

(* s.split(":", 1) when ":" occurs: (before, after); None when it does not *)
Fixpoint split_colon (s : string) : option (string * string) :=
  match s with
  | EmptyString => None
  | String c r =>
      if Ascii.eqb c c_colon then Some (EmptyString, r)
      else match split_colon r with
           | Some (a, b) => Some (String c a, b)
           | None => None
           end
  end.

(* the keys of xsd_types_props *)
Definition av_known_types : list string :=
  ["string"; "integer"; "short"; "int"; "long"; "float"; "double"; "boolean"; "date"; "base64Binary"; "anyType"; ""].

Definition split_type (typ : string) : string * string :=
  match split_colon typ with
  | None => ((if mem typ av_known_types then "xs" else ""), typ)
  | Some p => p
  end.

Inductive conv := CText (s : string) | CRaise | CUnmodelled.

Definition is_digit (c : ascii) : bool := let n := code c in ((48 <=? n)%nat && (n <=? 57)%nat).
Definition c_us : ascii := "_"%char.
Definition c_zero : ascii := "0"%char.

(* Python's int(str) on an ASCII literal: digits, single underscores between digits *)
Fixpoint int_body_ok (prev_digit : bool) (s : string) : bool :=
  match s with
  | EmptyString => prev_digit
  | String c r =>
      if is_digit c then int_body_ok true r
      else if Ascii.eqb c c_us then prev_digit && int_body_ok false r
      else false
  end.

Fixpoint drop_us (s : string) : string :=
  match s with
  | EmptyString => EmptyString
  | String c r => if Ascii.eqb c c_us then drop_us r else String c (drop_us r)
  end.

Fixpoint drop_zeros (s : string) : string :=
  match s with
  | String c r => if Ascii.eqb c c_zero then match r with EmptyString => s | _ => drop_zeros r end else s
  | EmptyString => EmptyString
  end.

Definition is_ascii_str (s : string) : bool := all_chars (fun c => (code c <? 128)%nat) s.

Definition conv_int (x : string) : conv :=
  if negb (is_ascii_str x) then CUnmodelled else
  let s := strip x in
  let '(neg, body) := match s with
                      | String c r => if Ascii.eqb c "-"%char then (true, r)
                                      else if Ascii.eqb c "+"%char then (false, r) else (false, s)
                      | EmptyString => (false, s)
                      end in
  if int_body_ok false body then
    let d := drop_zeros (drop_us body) in
    CText (if neg && negb (String.eqb d "0") then String "-"%char d else d)
  else CRaise.

Definition conv_bool (x : string) : conv :=
  if negb (is_ascii_str x) then CUnmodelled else
  let l := lower x in
  if String.eqb l "true" || String.eqb l "false" then CText l else CRaise.

(* value := to_type(text); text := to_text(value)  for a str input *)
Definition av_convert (ty x : string) : conv :=
  if mem ty ["integer"; "short"; "int"; "long"] then conv_int x
  else if String.eqb ty "boolean" then conv_bool x
  else if mem ty ["float"; "double"; "date"] then CUnmodelled
  else if String.eqb ty "" then CText ""
  else CText x.                                    (* string, base64Binary, anyType, unknown names *)

Definition nonempty {A} (l : list A) : bool := match l with [] => false | _ => true end.

(* set_type(typ) *)
Definition av_set_type (typ : string) (xa : attrs) : attrs :=
  let xa := ddel qname_eqb xsi_nil xa in
  let xa := dset qname_eqb xsi_type typ xa in
  let xa := if String.prefix "xs:" typ then dset qname_eqb xmlns_xs XS_NS xa else xa in
  if String.prefix "xsd:" typ then dset qname_eqb xmlns_xsd XS_NS xa else xa.

Inductive av_result := AvOk (xa : attrs) (text : option string) | AvRaise | AvUnmodelled.

(* a type name with a colon must have a prefix and a local part (saml.py, fix 49fc7848: otherwise ValueError) *)
Definition type_ok (typ : string) : bool :=
  match split_colon typ with
  | Some (ns, ty) => negb (is_empty ns) && negb (is_empty ty)
  | None => true
  end.

(* get_type(): the xsi:type extension attribute or "" *)
Definition av_get_type (xa : attrs) : string :=
  match dget qname_eqb xsi_type xa with Some s => s | None => "" end.

(* the tail of AttributeValueBase.harvest_element_tree as it was BEFORE fix c1c601fb (finding C12-F5), after
   children and attributes were stored; a fresh instance has text "" and extension_attributes {xsi:nil: "true"}:
   an element without text and children kept the nil marker the constructor had put, whatever the document said *)
Definition av_finish_f5v0 (ext : list ee) (xa : attrs) (x : string) : av_result :=
  let x1 := if negb (is_empty x) && nonempty ext then strip x else x in
  if is_empty x1 then
    AvOk (if nonempty ext then ddel qname_eqb xsi_nil xa else xa) (Some "")
  else
    let typ := match dget qname_eqb xsi_type xa with
               | Some s => if is_empty s then "string" else s
               | None => "string"
               end in
    let '(ns, ty) := split_type typ in
    if negb (type_ok typ) then AvRaise else
    match av_convert ty x1 with
    | CRaise => AvRaise
    | CUnmodelled => AvUnmodelled
    | CText x2 =>
        let typ' := if is_empty ns then ty else (ns ++ ":" ++ ty)%string in
        AvOk (ddel qname_eqb xsi_nil (av_set_type typ' xa)) (Some x2)
    end.

(* ... and as it is NOW (c1c601fb): an element without text and children that DECLARES A TYPE and is NOT MARKED
   xsi:nil in the document ([docnil]: XSI_NIL in tree.attrib) is the empty value of that type - set_type(get_type())
   removes the marker the constructor put and restores the declaration of the xs: / xsd: prefix.  Everything else
   as before. *)
Definition av_retyped (docnil : bool) (ext : list ee) (xa : attrs) (x : string) : bool :=
  is_empty (if negb (is_empty x) && nonempty ext then strip x else x)
  && negb (nonempty ext) && negb docnil && negb (is_empty (av_get_type xa)).

Definition av_finish (docnil : bool) (ext : list ee) (xa : attrs) (x : string) : av_result :=
  if av_retyped docnil ext xa x then AvOk (av_set_type (av_get_type xa) xa) (Some "")
  else av_finish_f5v0 ext xa x.

(* the behaviour before fix 49fc7848 (finding C12-F3): no check of the type name *)
Definition av_finish_v0 (ext : list ee) (xa : attrs) (x : string) : av_result :=
  let x1 := if negb (is_empty x) && nonempty ext then strip x else x in
  if is_empty x1 then
    AvOk (if nonempty ext then ddel qname_eqb xsi_nil xa else xa) (Some "")
  else
    let typ := match dget qname_eqb xsi_type xa with
               | Some s => if is_empty s then "string" else s
               | None => "string"
               end in
    let '(ns, ty) := split_type typ in
    match av_convert ty x1 with
    | CRaise => AvRaise
    | CUnmodelled => AvUnmodelled
    | CText x2 =>
        let typ' := if is_empty ns then ty else (ns ++ ":" ++ ty)%string in
        AvOk (ddel qname_eqb xsi_nil (av_set_type typ' xa)) (Some x2)
    end.

Definition av_init_xattrs : attrs := [(xsi_nil, "true")].

(* ------------------------------------------------------------------ parsing *)
Inductive status := SOk | SRaise | SUnmodelled.

Definition st_join (a b : status) : status :=
  match a, b with
  | SUnmodelled, _ | _, SUnmodelled => SUnmodelled
  | SRaise, _ | _, SRaise => SRaise
  | SOk, SOk => SOk
  end.

Inductive slot :=
| SKnown (s : child_spec) (o : option obj)   (* o = None: create_class_from_element_tree returned None *)
| SBroken (s : child_spec)                   (* the table names no class: AttributeError *)
| SUnknown (e : ee).

Section Model.
  Variable T : table.

  Definition tag_is (c : N) (g : qname) : bool :=
    match class_at T c with Some ci => qname_eqb (c_tag ci) g | None => false end.

  Definition init_attrs (ci : class_info) : list (string * option string) :=
    map (fun a => (at_member a, dget String.eqb (at_member a) (c_parse_defaults ci))) (c_attributes ci).

  Definition init_kids (ci : class_info) : list (string * list obj) :=
    map (fun s => (ch_member s, [])) (c_children ci).

  Definition init_xattrs (ci : class_info) : attrs :=
    match c_kind ci with KPlain => [] | KAttrValue => av_init_xattrs end.

  (* _convert_element_tree_to_member, given the converted child *)
  Definition place (st : list (string * list obj) * list ee) (sl : slot) : list (string * list obj) * list ee :=
    match sl with
    | SKnown s (Some o) =>
        if ch_list s then (app_member (ch_member s) o (fst st), snd st)
        else (set_member (ch_member s) [o] (fst st), snd st)
    | SKnown s None => (set_member (ch_member s) [] (fst st), snd st)
    | SBroken _ => st
    | SUnknown e => (fst st, snd st ++ [e])
    end.

  (* _convert_element_attribute_to_member *)
  Definition place_attr (ci : class_info) (st : list (string * option string) * attrs) (kv : qname * string) :=
    match find_attr ci (fst kv) with
    | Some a => (set_member (at_member a) (Some (snd kv)) (fst st), snd st)
    | None => (fst st, dset qname_eqb (fst kv) (snd kv) (snd st))
    end.

  Definition assemble (ci : class_info) (c : N) (slots : list slot) (a : attrs) (x : string) : obj :=
    let ke := fold_left place slots (init_kids ci, []) in
    let ax := fold_left (place_attr ci) a (init_attrs ci, init_xattrs ci) in
    match c_kind ci with
    | KPlain => Obj c (fst ax) (fst ke) (snd ke) (snd ax) (text_opt x)
    | KAttrValue =>
        match av_finish (dmem qname_eqb xsi_nil a) (snd ke) (snd ax) x with
        | AvOk xa tx => Obj c (fst ax) (fst ke) (snd ke) xa tx
        | _ => Obj c (fst ax) (fst ke) (snd ke) (snd ax) (Some "")
        end
    end.

  Definition bad_obj (c : N) : obj := Obj c [] [] [] [] None.

  Fixpoint harvest (c : N) (t : tree) {struct t} : obj :=
    match t with
    | Node g a x kids =>
        match class_at T c with
        | None => bad_obj c
        | Some ci =>
            let slots :=
              map (fun k => match find_child ci (t_tag k) with
                            | Some s => match ch_class s with
                                        | Some c' => SKnown s (if tag_is c' (t_tag k) then Some (harvest c' k) else None)
                                        | None => SBroken s
                                        end
                            | None => SUnknown (ee_of_tree k)
                            end) kids in
            assemble ci c slots a x
        end
    end.

  (* create_class_from_element_tree *)
  Definition parse_root (c : N) (t : tree) : option obj :=
    match class_at T c with
    | Some ci => if qname_eqb (t_tag t) (c_tag ci) then Some (harvest c t) else None
    | None => None
    end.

  Definition ext_of (ci : class_info) (kids : list tree) : list ee :=
    flat_map (fun k => match find_child ci (t_tag k) with None => [ee_of_tree k] | Some _ => [] end) kids.

  Definition xattrs_of (ci : class_info) (a : attrs) : attrs :=
    snd (fold_left (place_attr ci) a (init_attrs ci, init_xattrs ci)).

  Fixpoint harvest_status (c : N) (t : tree) {struct t} : status :=
    match t with
    | Node g a x kids =>
        match class_at T c with
        | None => SRaise
        | Some ci =>
            let sub :=
              map (fun k => match find_child ci (t_tag k) with
                            | Some s => match ch_class s with
                                        | Some c' => if tag_is c' (t_tag k) then harvest_status c' k else SOk
                                        | None => SRaise
                                        end
                            | None => SOk
                            end) kids in
            let own := match c_kind ci with
                       | KPlain => SOk
                       | KAttrValue => match av_finish (dmem qname_eqb xsi_nil a) (ext_of ci kids) (xattrs_of ci a) x with
                                       | AvOk _ _ => SOk
                                       | AvRaise => SRaise
                                       | AvUnmodelled => SUnmodelled
                                       end
                       end in
            fold_right st_join own sub
        end
    end.

  (* ---------------------------------------------------------------- serialising *)
  Definition known_attrs (ci : class_info) (oa : list (string * option string)) : attrs :=
    flat_map (fun a => match get_member (at_member a) oa with
                       | Some (Some v) => [(at_name a, v)]
                       | _ => []
                       end) (c_attributes ci).

  Fixpoint to_tree (o : obj) : tree :=
    match o with
    | Obj c oa kids ext xa tx =>
        let ktrees := map (fun mk => (fst mk, map to_tree (snd mk))) kids in
        match class_at T c with
        | None => Node (QN None "") [] "" []
        | Some ci =>
            Node (c_tag ci)
                 (dset_all qname_eqb (adict (known_attrs ci oa)) xa)
                 (text_str tx)
                 (flat_map (fun m => get_list m ktrees) (child_order ci) ++ map tree_of_ee ext)
        end
    end.
End Model.

(* ------------------------------------------------------------------ the wire *)
Definition wire_attrs (a : attrs) : attrs := filter (fun kv => negb (is_xmlns_name (fst kv))) a.

Fixpoint wire (t : tree) : tree :=
  match t with
  | Node g a x kids => Node g (wire_attrs a) (norm_eol x) (map wire kids)
  end.

(* serialise, as read back by an XML reader *)
Definition ser (T : table) (o : obj) : tree := wire (to_tree T o).

(* ------------------------------------------------------------------ decidable equality on objects *)
Fixpoint ee_eqb (a b : ee) {struct a} : bool :=
  match a, b with
  | EE n1 g1 a1 k1 x1, EE n2 g2 a2 k2 x2 =>
      opt_eqb String.eqb n1 n2 && String.eqb g1 g2 && attrs_eqb a1 a2 && opt_eqb String.eqb x1 x2 &&
      (fix go (l1 l2 : list ee) {struct l1} : bool :=
         match l1, l2 with
         | [], [] => true
         | x :: r, y :: s => ee_eqb x y && go r s
         | _, _ => false
         end) k1 k2
  end.

Definition oattr_eqb (a b : string * option string) : bool :=
  String.eqb (fst a) (fst b) && opt_eqb String.eqb (snd a) (snd b).

Fixpoint obj_eqb (a b : obj) {struct a} : bool :=
  match a, b with
  | Obj c1 a1 k1 e1 x1 t1, Obj c2 a2 k2 e2 x2 t2 =>
      N.eqb c1 c2 && list_eqb oattr_eqb a1 a2 && list_eqb ee_eqb e1 e2 && attrs_eqb x1 x2 &&
      opt_eqb String.eqb t1 t2 &&
      (fix go (l1 l2 : list (string * list obj)) {struct l1} : bool :=
         match l1, l2 with
         | [], [] => true
         | (m1, os1) :: r, (m2, os2) :: s =>
             String.eqb m1 m2 &&
             (fix go2 (p q : list obj) {struct p} : bool :=
                match p, q with
                | [], [] => true
                | x :: p', y :: q' => obj_eqb x y && go2 p' q'
                | _, _ => false
                end) os1 os2 && go r s
         | _, _ => false
         end) k1 k2
  end.
