(* C12/XsdKept.v — "unknown children surface as extensions" judged by the schema files (Xsd.xsd_kept_b) follows
   from the table's own judgement (Spec.nd_b) whenever the table registers only children of the schema's content
   model (the regenerated obligation Xsd.xsd_known_b). *)
From Coq Require Import String List Bool Arith NArith.
From Verif Require Import Base.Str Base.Xml Base.ClassTable C12.Model C12.Spec C12.Xsd C12.Proofs.
Import ListNotations.
Open Scope list_scope.

Section Kept.
  Variable T : table.
  Variable X : xsd_table.
  Variable A : list (string * qname).

  Let EEQ := fun x y => ee_eqb_eq x y.

  Lemma xsd_known_model c ci :
    xsd_known_b T X A = true -> class_at T c = Some ci -> xsd_model X c <> [] -> xsd_known_class_ok A ci (xsd_model X c) = true.
  Proof.
    unfold xsd_known_b. intros H E. induction X as [|[c' m] r IH]; cbn [xsd_model]; [intros N; contradiction|].
    cbn [forallb fst snd] in H. apply andb_true_iff in H as [H1 H2].
    destruct (N.eqb c' c) eqn:Ec.
    - apply N.eqb_eq in Ec. subst c'. rewrite E in H1. intros _. exact H1.
    - apply IH. exact H2.
  Qed.

  Lemma find_child_tag ci g s : find_child ci g = Some s -> ch_tag s = g /\ In s (c_children ci).
  Proof.
    unfold find_child. intros H. apply find_some in H as [H1 H2]. apply qname_eqb_eq in H2. auto.
  Qed.

  (* under the obligation, "nothing dropped" as the table sees it (nd_b) is "nothing dropped" as the schema sees it *)
  Theorem nd_xsd_kept c t o :
    xsd_known_b T X A = true -> nd_b T c t o = true -> xsd_kept_b T X A c t o = true.
  Proof.
    intros HK ND. unfold xsd_kept_b. destruct o as [c0 oa kids ext xa tx]. cbn [nd_b] in ND.
    destruct (class_at T c) as [ci|] eqn:Eci; [|discriminate].
    apply andb_true_iff in ND as [ND _]. apply andb_true_iff in ND as [ND _].
    apply (list_eqb_eq ee_eqb EEQ) in ND.
    destruct (xsd_model X c) as [|p m] eqn:Em; [reflexivity|].
    assert (OK : xsd_known_class_ok A ci (p :: m) = true)
      by (rewrite <- Em; apply xsd_known_model; [exact HK|exact Eci|rewrite Em; discriminate]).
    apply forallb_forall. intros k Hk. cbn [o_ext].
    destruct (find_child ci (t_tag k)) as [s|] eqn:Ef.
    - destruct (find_child_tag ci _ s Ef) as [Tg In_s]. unfold xsd_known_class_ok in OK. rewrite forallb_forall in OK.
      specialize (OK s In_s). rewrite Tg in OK. rewrite OK. reflexivity.
    - rewrite ND. replace (existsb _ _) with true; [rewrite orb_true_r; reflexivity|]. symmetry.
      apply existsb_exists. exists (ee_of_tree k). split.
      + apply in_map. apply filter_In. split; [exact Hk|]. unfold known_tag. rewrite Ef. reflexivity.
      + apply EEQ. reflexivity.
  Qed.
End Kept.
