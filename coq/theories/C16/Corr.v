(* C16/Corr.v — correspondence runner: model output vs observed output, spec on the observed output *)
From Coq Require Import String List Bool Arith.
From Verif Require Import Base.Str Base.Run C16.Model C16.Spec C16.Classes.
Import ListNotations.

Definition case := (call * obs)%type.   (* abstract call, what was observed on the implementation *)

(* ss = where the five options of the Server entry come from (argument / None / not passed, IdP configuration);
   None: every option passed as it stands.  With sources the flags sr .. sc only document what the harness takes
   to be requested; model and spec compute their own reading (Model.gather, Spec.requested) *)
Definition mk (en : entry) (sr sa ea eadv sc pefim : bool) (md : list (use * cert)) (ca cadv : option cert)
              (subj : atom) (attrs : list atom) (leaves : list (bool * list atom)) (ss : option srcs)
              (res : result) (bytes : list atom) (trials : list (trial * ident)) : case :=
  ((mkinput en sr sa ea eadv sc pefim md ca cadv subj attrs leaves, ss), mkobs res bytes trials).
(* an option: how the argument was given, what the configuration says *)
Definition osrc (a : argst) (c : option bool) : optsrc := mkopt a c.

Definition sig_eqb (a b : sigst) : bool :=
  match a, b with Unsigned, Unsigned | Signed, Signed | Broken, Broken => true | _, _ => false end.
Definition atoms_eqb := list_eqb String.eqb.
Definition leaf_eqb (a b : leaf) : bool :=
  sig_eqb (l_sig a) (l_sig b) && Bool.eqb (l_wf a) (l_wf b) && atoms_eqb (l_attrs a) (l_attrs b).
Definition adv_eqb (a b : advice) : bool :=
  match a, b with
  | AdvPlain x, AdvPlain y => list_eqb leaf_eqb x y
  | AdvEnc c x, AdvEnc d y => cert_eqb c d && leaf_eqb x y
  | AdvBad, AdvBad => true
  | _, _ => false
  end.
Definition asrt_eqb (a b : asrt) : bool :=
  sig_eqb (a_sig a) (a_sig b) && String.eqb (a_subj a) (a_subj b) && atoms_eqb (a_attrs a) (a_attrs b)
  && adv_eqb (a_adv a) (a_adv b).
Definition top_eqb (a b : top) : bool :=
  match a, b with
  | TopPlain x, TopPlain y => asrt_eqb x y
  | TopEnc c x, TopEnc d y => cert_eqb c d && asrt_eqb x y
  | TopBad, TopBad => true
  | _, _ => false
  end.
Definition result_eqb (a b : result) : bool :=
  match a, b with
  | Error, Error => true
  | Wire x, Wire y => sig_eqb (w_sig x) (w_sig y) && top_eqb (w_top x) (w_top y)
  | _, _ => false
  end.
(* identities are compared as (subject, set of values); the values are distinct markers *)
Definition ident_eqb (a b : ident) : bool :=
  match a, b with
  | None, None => true
  | Some (s, l), Some (s', l') => String.eqb s s' && Nat.eqb (length l) (length l') && same_atoms_b l l'
  | _, _ => false
  end.

Definition agrees (c : case) : bool :=
  let (k, o) := c in
  let m := model_obs (gather k) (map fst (o_trials o)) in
  result_eqb (o_res m) (o_res o)
  && same_atoms_b (o_bytes m) (o_bytes o)
  && list_eqb ident_eqb (map snd (o_trials m)) (map snd (o_trials o)).

Definition holds (c : case) : bool := spec_call_b (fst c) (snd c).

(* finding class of a failing case: decided by the clause that fails AND the input region, so that a failure of
   another kind inside a region is still reported.  1 and 2 are the repaired classes (status fixed: the driver reports
   them as VIOLATION with the failing input), 3 is open. *)
Definition cls (c : case) : nat :=
  let (k, o) := c in
  let x := requested k in
  let e := effective x in
  if negb (nothing_more_b x o) then 0
  else if negb (conf_main_b x o) then 0
  else if negb (conf_adv_b x o) then (if region3 e then 3 else if region1 e then 1 else 0)
  else if negb (live_b x o) then (if region3 e then 3 else if region2 e then 2 else 0)
  else 0.

Definition run := run_cases agrees holds cls.

Definition explain (c : case) :=
  let (k, o) := c in
  let x := requested k in
  let m := model_obs (gather k) (map fst (o_trials o)) in
  ((sr x, sa x, ea x, eadv x, sc x), (let g := gather k in (sr g, sa g, ea g, eadv g, sc g)), o_res m, o_bytes m, map snd (o_trials m),
   (conf_main_b x o, conf_adv_b x o, live_b x o, recover_b x o, nothing_more_b x o),
   (region1 (effective x), region2 (effective x), region3 (effective x)), o_res (model_obs_v0 x [])).
