(* C16/Spec.v — the property, stated over the raw call (flags, certificate sources, identity) and what can be
   OBSERVED: the Response put on the wire (as a symbolic term, or an error), the secret values found in its bytes,
   and what recipients holding various private keys obtain from it (possibly after the ciphertext was damaged).
   Written from the property text; the model (idp, sp_parse) is not mentioned here.  Shared with Model.v: the term
   language of the wire and `damage` (what "corrupted ciphertext" means for a term).

   Reading of the text.
   * "assertion encryption is requested" = encrypt_assertion; "advice encryption is requested" =
     encrypted_advice_attributes, or the PEFIM profile at the server API (PEFIM is by definition: attributes travel
     in an encrypted assertion inside Advice).  What must then stay secret: for assertion encryption every value of
     the assertion (subject identifier, attribute values, advice included); for advice encryption alone the values
     inside the advice (the outer assertion with the subject identifier is, by the profile, in clear).
   * "the recipient has an encryption certificate" = among the certificates the IdP is given for the recipient
     (the explicit encrypt_cert_* argument if present, else the KeyDescriptors with use encryption / no use) one is
     usable.  These certificates ARE the recipient's (R): confidentiality is "every occurrence is under an
     encryption for a certificate of R".
   * "for every combination ... recovers exactly the assertion that was issued": when encryption is in force a
     Response IS produced (live) and a recipient holding the matching private keys, whose signature policy the
     request satisfies, obtains exactly subject + all attribute values (recover).
   * "a recipient without the right key, or given corrupted ciphertext, obtains no identity": whatever a recipient
     obtains can be derived from the (damaged) wire with the keys it holds (nothing_more); in particular nothing at
     all when the assertion itself was encrypted.
   * Encryption requested but NO usable certificate: outside the premise, the property makes no promise
     (what the code does there is described by theorem c16_nocert_cleartext). *)
From Coq Require Import String List Bool Arith.
From Verif Require Import Base.Str C16.Model.
Import ListNotations.
Open Scope string_scope.

(* ---- the recipient's encryption certificates, as handed to the IdP ---- *)
Definition published (x : input) : list cert :=
  flat_map (fun uc => match fst uc with USig => [] | _ => [snd uc] end) (md x).
Definition rcpt_main (x : input) : list cert := match cert_asrt x with Some c => [c] | None => published x end.
Definition rcpt_adv (x : input) : list cert := match cert_adv x with Some c => [c] | None => published x end.
Definition rcpt (x : input) : list cert := (rcpt_main x ++ rcpt_adv x)%list.
Definition usable (c : cert) : Prop := c <> BadCert.
Definition avail (cs : list cert) : Prop := exists c, In c cs /\ usable c.

(* ---- what was asked, what is secret ---- *)
Definition has_advice (x : input) : Prop :=
  match i_entry x with Server => pefim x = true | Entity => leaves x <> [] end.
Definition req_adv (x : input) : Prop :=
  match i_entry x with Server => pefim x = true \/ eadv x = true | Entity => eadv x = true end.
Definition adv_atoms (x : input) : list atom :=
  match i_entry x with Server => if pefim x then attrs x else [] | Entity => flat_map snd (leaves x) end.
Definition main_atoms (x : input) : list atom :=
  match i_entry x with Server => if pefim x then [] else attrs x | Entity => attrs x end.
Definition attr_atoms (x : input) : list atom := (main_atoms x ++ adv_atoms x)%list.
Definition all_atoms (x : input) : list atom := subj x :: attr_atoms x.
(* marker values: a value of the advice does not also occur in the outer assertion *)
Definition adv_distinct (x : input) : Prop := forall s, In s (adv_atoms x) -> ~ In s (subj x :: main_atoms x).

(* ---- symbolic reading of a wire term: what can be read off by someone able to open `opens` ---- *)
Section Derive.
  Variable opens : cert -> bool.
  Definition adv_derivable (a : advice) : list atom :=
    match a with
    | AdvPlain ls => flat_map l_attrs ls
    | AdvEnc c l => if opens c then l_attrs l else []
    | AdvBad => []
    end.
  Definition asrt_derivable (a : asrt) : list atom := a_subj a :: (a_attrs a ++ adv_derivable (a_adv a))%list.
  Definition derivable (w : wire) : list atom :=
    match w_top w with
    | TopPlain a => asrt_derivable a
    | TopEnc c a => if opens c then asrt_derivable a else []
    | TopBad => []
    end.
End Derive.
(* exposed: occurs somewhere that is not under an encryption for one of the recipient's certificates R *)
Definition exposed (R : list cert) (w : wire) : list atom :=
  derivable (fun c => negb (existsb (cert_eqb c) R)) w.
Definition opens_with (ks : list string) (c : cert) : bool := existsb (fun k => cert_eqb c (Good k)) ks.

Definition adv_cert (a : advice) : list cert := match a with AdvEnc c _ => [c] | _ => [] end.
Definition certs_used (w : wire) : list cert :=
  match w_top w with
  | TopEnc c a => c :: adv_cert (a_adv a)
  | TopPlain a => adv_cert (a_adv a)
  | TopBad => []
  end.
Definition covers (ks : list string) (w : wire) : Prop :=
  forall c, In c (certs_used w) -> exists k, In k ks /\ c = Good k.

(* ---- observations ---- *)
(* a recipient: configured encryption keys, signature policy, whether the ciphertext was damaged on the way,
   per-request keys (outstanding_certs) and whether they are filed under the Response's InResponseTo *)
Record trial := mktrial { t_keys : list string; t_wr : bool; t_wa : bool; t_damaged : bool;
                          t_req : list string; t_hit : bool }.
(* every private key the recipient holds for this exchange *)
Definition t_all (t : trial) : list string := key_list (t_hit t) (t_req t) (t_keys t).
Definition ident := option (atom * list atom).
Record obs := mkobs {
  o_res : result;                   (* the Response as a term, or Error *)
  o_bytes : list atom;              (* secret values found in the bytes of the Response *)
  o_trials : list (trial * ident)   (* what each recipient obtained *)
}.

Definition hidden (x : input) (o : obs) (secrets : list atom) : Prop :=
  forall w, o_res o = Wire w ->
  forall s, In s secrets -> ~ In s (o_bytes o) /\ ~ In s (exposed (rcpt x) w).

Definition conf_main (x : input) (o : obs) : Prop :=
  ea x = true -> avail (rcpt_main x) -> hidden x o (all_atoms x).
Definition conf_adv (x : input) (o : obs) : Prop :=
  req_adv x -> has_advice x -> avail (rcpt_adv x) -> adv_distinct x -> hidden x o (adv_atoms x).

Definition in_force (x : input) : Prop :=
  (ea x = true \/ (req_adv x /\ has_advice x))
  /\ (ea x = true -> avail (rcpt_main x))
  /\ (req_adv x -> has_advice x -> avail (rcpt_adv x)).
Definition live (x : input) (o : obs) : Prop := in_force x -> o_res o <> Error.

Definition valid_advice (x : input) : Prop := forall l, In l (leaves x) -> fst l = true.
Definition same_atoms (a b : list atom) : Prop := incl a b /\ incl b a.
Definition recover (x : input) (o : obs) : Prop :=
  in_force x -> valid_advice x ->
  forall w, o_res o = Wire w ->
  forall t r, In (t, r) (o_trials o) ->
    t_damaged t = false -> covers (t_all t) w ->
    (t_wr t = true -> sr x = true) -> (t_wa t = true -> sa x = true) ->
    exists l, r = Some (subj x, l) /\ same_atoms l (attr_atoms x).

Definition nothing_more (x : input) (o : obs) : Prop :=
  forall w, o_res o = Wire w ->
  forall t r, In (t, r) (o_trials o) ->
  forall s l, r = Some (s, l) ->
    let w' := if t_damaged t then damage w else w in
    In s (derivable (opens_with (t_all t)) w') /\ incl l (derivable (opens_with (t_all t)) w').

Definition spec (x : input) (o : obs) : Prop :=
  conf_main x o /\ conf_adv x o /\ live x o /\ recover x o /\ nothing_more x o.

(* ------------------------------------------------------------------------------------------------ *)
(* boolean version, evaluated on the implementation's observed output *)
Definition avail_b (cs : list cert) : bool := existsb is_good cs.
Definition has_advice_b (x : input) : bool :=
  match i_entry x with Server => pefim x | Entity => negb (is_nil (leaves x)) end.
Definition req_adv_b (x : input) : bool :=
  match i_entry x with Server => pefim x || eadv x | Entity => eadv x end.
Definition adv_distinct_b (x : input) : bool :=
  forallb (fun s => negb (mem s (subj x :: main_atoms x))) (adv_atoms x).
Definition none_in (secrets l : list atom) : bool := forallb (fun s => negb (mem s l)) secrets.

Definition hidden_b (x : input) (o : obs) (secrets : list atom) : bool :=
  match o_res o with
  | Wire w => none_in secrets (o_bytes o) && none_in secrets (exposed (rcpt x) w)
  | Error => true
  end.
Definition conf_main_b x o : bool := negb (ea x) || negb (avail_b (rcpt_main x)) || hidden_b x o (all_atoms x).
Definition conf_adv_b x o : bool :=
  negb (req_adv_b x) || negb (has_advice_b x) || negb (avail_b (rcpt_adv x)) || negb (adv_distinct_b x)
  || hidden_b x o (adv_atoms x).
Definition in_force_b (x : input) : bool :=
  (ea x || (req_adv_b x && has_advice_b x))
  && (negb (ea x) || avail_b (rcpt_main x))
  && (negb (req_adv_b x) || negb (has_advice_b x) || avail_b (rcpt_adv x)).
Definition live_b x o : bool := negb (in_force_b x) || match o_res o with Error => false | Wire _ => true end.
Definition valid_advice_b (x : input) : bool := forallb (fun l => fst l) (leaves x).
Definition same_atoms_b (a b : list atom) : bool := forallb (fun s => mem s b) a && forallb (fun s => mem s a) b.
Definition covers_b (ks : list string) (w : wire) : bool := forallb (opens_with ks) (certs_used w).
Definition recovered_b (x : input) (r : ident) : bool :=
  match r with Some (s, l) => String.eqb s (subj x) && same_atoms_b l (attr_atoms x) | None => false end.
Definition recover_b x o : bool :=
  negb (in_force_b x) || negb (valid_advice_b x) ||
  match o_res o with
  | Error => true
  | Wire w =>
      forallb (fun tr : trial * ident => let (t, r) := tr in
        t_damaged t || negb (covers_b (t_all t) w) || (t_wr t && negb (sr x)) || (t_wa t && negb (sa x))
        || recovered_b x r) (o_trials o)
  end.
Definition nothing_more_b (x : input) (o : obs) : bool :=
  match o_res o with
  | Error => true
  | Wire w =>
      forallb (fun tr : trial * ident => let (t, r) := tr in
        match r with
        | None => true
        | Some (s, l) =>
            let d := derivable (opens_with (t_all t)) (if t_damaged t then damage w else w) in
            mem s d && forallb (fun a => mem a d) l
        end) (o_trials o)
  end.
Definition spec_b (x : input) (o : obs) : bool :=
  conf_main_b x o && conf_adv_b x o && live_b x o && recover_b x o && nothing_more_b x o.

(* ------------------------------------------------------------------------------------------------ *)
(* What a call of the server API REQUESTS (from the documentation, not from the code: docstring of
   create_authn_response + docs/howto/config.rst, idp/aa directives sign_response, sign_assertion, encrypt_assertion,
   encrypted_advice_attributes, encrypt_assertion_self_contained, "Can be True or False. Default is ..."):
   an option is what the caller passes; if the caller passes nothing (or None) it is what the operator of the IdP put
   in the configuration; if that is silent too it is the documented default (False, False, False, False, True).
   The property is then read on the call so understood: "encryption is requested" includes "requested in the IdP
   configuration by a caller that passes no encrypt_assertion of its own". *)
Definition asked (doc_default : bool) (o : optsrc) : bool :=
  match o_arg o with
  | Passed b => b
  | _ => match o_cfg o with Some b => b | None => doc_default end
  end.
Definition requested (k : call) : input :=
  match k with
  | (x, None) => x
  | (x, Some s) =>
      match i_entry x with
      | Entity => x
      | Server => with_flags x (asked false (s_sr s)) (asked false (s_sa s)) (asked false (s_ea s))
                               (asked false (s_eadv s)) (asked true (s_sc s))
      end
  end.
Definition spec_call (k : call) (o : obs) : Prop := spec (requested k) o.
Definition spec_call_b (k : call) (o : obs) : bool := spec_b (requested k) o.
