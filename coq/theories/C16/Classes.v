(* C16/Classes.v — the input regions of the known-finding classes (on the effective call, i.e. after the PEFIM
   arm of Server._authn_response), the guard that excludes them, and the observation the MODEL predicts. *)
From Coq Require Import String List Bool Arith.
From Verif Require Import Base.Str C16.Model C16.Spec.
Import ListNotations.
Open Scope string_scope.

Definition lsigned (e : input) : bool := sa e && negb (pefim e).
Definition adv_req (e : input) : bool := eadv e && negb (is_nil (leaves e)).
Definition main_certs (e : input) : list cert := choose (cert_asrt e) (md e).
Definition adv_certs (e : input) : list cert := choose (cert_adv e) (md e).

(* class 1 (fixed by 316cbbe5; region kept so that a regression is recognised): to_sign and not sign and not
   encrypt_assertion -> early return before anything is encrypted: the advice goes out in clear *)
Definition region1 (e : input) : bool := negb (ea e) && sa e && negb (sr e) && adv_req e.
(* class 2 (fixed by a5d8e540): not self-contained and the part to encrypt not signed -> the message reached
   CryptoBackendXmlSec1.encrypt_assertion as an object, pre_encrypt_assertion was applied twice, EncryptError *)
Definition region2 (e : input) : bool :=
  negb (sc e) && ((ea e && negb (sa e)) || (adv_req e && negb (lsigned e))).
(* class 3 (open): two or more assertions in the Advice are never encrypted (clear text, or an exception when the
   assertion is encrypted as well) *)
Definition region3 (e : input) : bool := eadv e && Nat.leb 2 (length (leaves e)).

Definition guard_e (e : input) : bool := negb (region3 e).
Definition guard (x : input) : Prop := guard_e (effective x) = true.

(* what the model predicts will be observed *)
Definition run_trial (w : wire) (t : trial) : ident :=
  sp_receive string opens_named (t_hit t) (t_req t) (t_keys t) (t_wr t) (t_wa t) (if t_damaged t then damage w else w).
Definition in_clear (w : wire) : list atom := derivable (fun _ => false) w.
Definition bytes_of (x : input) (r : result) : list atom :=
  match r with
  | Wire w => filter (fun s => mem s (in_clear w)) (all_atoms x)
  | Error => []
  end.
Definition model_obs (x : input) (ts : list trial) : obs :=
  let r := idp x in
  mkobs r (bytes_of x r) (match r with Wire w => map (fun t => (t, run_trial w t)) ts | Error => [] end).

(* the same for the code before the two fixes *)
Definition model_obs_v0 (x : input) (ts : list trial) : obs :=
  let r := idp_v0 x in
  mkobs r (bytes_of x r) (match r with Wire w => map (fun t => (t, run_trial w t)) ts | Error => [] end).
