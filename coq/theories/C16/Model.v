(* C16/Model.v — assertion / advice encryption when a Response is built, and decryption at the SP, as coded.

   IdP side.  Mirrors server.Server._authn_response (server.py 444-609: PEFIM arm 516-552, to_sign 570-586) and
   entity.Entity._response (entity.py 758-925, after fixes 316cbbe5 and a5d8e540): the
   has_encrypt_cert_in_metadata switch-off, part B (advice), part C (assertion), part D (Response signature), the
   signing of the extra parts at the end; Entity._encrypt_assertion (647-682: explicit certificate, else metadata encryption certificates, first
   one that works; the exception of the last failure is re-raised); MetaData.certs(.., "any", "encryption")
   (mdstore.py 479-514: KeyDescriptors whose use is absent or "encryption").  response_v0 / idp_v0 restate the code
   before the two fixes (early return; the SamlBase branch of CryptoBackendXmlSec1.encrypt_assertion applying
   pre_encrypt_assertion a second time).

   SP side.  Mirrors entity.Entity._parse_response (two forced signature passes), StatusResponse signature check,
   AuthnResponse.parse_assertion / decrypt_assertions / _assertion / get_identity (response.py 660-690, 777-1006),
   SecurityContext.decrypt key loop (sigver.py 1322-1343), the schema validation inside
   SecurityContext._check_signature (a plain advice assertion without Issuer makes every enclosing signature check
   fail).

   The wire is a symbolic term; encryption is the constructor TopEnc / AdvEnc (certificate, plaintext).  What a
   private key can open is a parameter (can_open) of the SP model; Proofs.v states the ideal-encryption hypothesis
   (can_open k c = true <-> c = cert_of k) as a Section hypothesis and instantiates it. *)
From Coq Require Import String List Bool Arith.
From Verif Require Import Base.Str.
Import ListNotations.
Open Scope string_scope.

Definition atom := string.                         (* a secret value: subject identifier or attribute value *)
Inductive cert := Good (name : string) | BadCert.  (* BadCert: text xmlsec1 cannot load as a certificate *)
Inductive use := UEnc | USig | UNone.              (* KeyDescriptor/@use *)
Inductive sigst := Unsigned | Signed | Broken.     (* Broken: signature present, does not verify *)
Inductive entry := Server | Entity.                (* create_authn_response | _response called like _authn_response does *)

(* an assertion inside Advice: attribute carrier; l_wf = has an Issuer (schema-valid) *)
Record leaf := mkleaf { l_sig : sigst; l_wf : bool; l_attrs : list atom }.
Inductive advice :=
| AdvPlain (ls : list leaf)               (* Advice/Assertion* (no Advice = AdvPlain []) *)
| AdvEnc (c : cert) (l : leaf)            (* Advice/EncryptedAssertion/EncryptedData made for c *)
| AdvBad.                                 (* ... whose ciphertext or encrypted key was damaged *)
Record asrt := mkasrt { a_sig : sigst; a_subj : atom; a_attrs : list atom; a_adv : advice }.
Inductive top :=
| TopPlain (a : asrt)
| TopEnc (c : cert) (a : asrt)
| TopBad.
Record wire := mkwire { w_sig : sigst; w_top : top }.
Inductive result := Error | Wire (w : wire).

Record input := mkinput {
  i_entry : entry;
  sr : bool;                      (* sign_response *)
  sa : bool;                      (* sign_assertion *)
  ea : bool;                      (* encrypt_assertion *)
  eadv : bool;                    (* encrypted_advice_attributes *)
  sc : bool;                      (* encrypt_assertion_self_contained *)
  pefim : bool;
  md : list (use * cert);         (* KeyDescriptors of the SP in the IdP's metadata, document order *)
  cert_asrt : option cert;        (* encrypt_cert_assertion *)
  cert_adv : option cert;         (* encrypt_cert_advice *)
  subj : atom;
  attrs : list atom;              (* attribute values of the identity / of the main assertion *)
  leaves : list (bool * list atom)  (* Entity entry: advice assertions (has Issuer, attribute values) *)
}.

Definition cert_eqb (a b : cert) : bool :=
  match a, b with Good x, Good y => String.eqb x y | BadCert, BadCert => true | _, _ => false end.
Definition is_good (c : cert) : bool := match c with Good _ => true | BadCert => false end.
Definition is_some {A} (o : option A) : bool := match o with Some _ => true | None => false end.
Definition is_nil {A} (l : list A) : bool := match l with [] => true | _ => false end.
Definition sig_of (b : bool) : sigst := if b then Signed else Unsigned.

(* MetaData.certs(entity, "any", "encryption") *)
Definition enc_certs (m : list (use * cert)) : list cert :=
  map snd (filter (fun uc => match fst uc with USig => false | _ => true end) m).

(* Entity._encrypt_assertion: candidate certificates, then the first one xmlsec1 can use *)
Definition choose (explicit : option cert) (m : list (use * cert)) : list cert :=
  match explicit with Some c => [c] | None => enc_certs m end.
Definition first_good (cs : list cert) : option cert := find is_good cs.

(* Server._authn_response, PEFIM arm: the identity goes into one advice assertion built with the IdP as Issuer (fix 2aa196ec; the pinned snapshot built it WITHOUT Issuer), the main
   assertion carries no attributes, encrypted_advice_attributes and ..._self_contained are forced *)
Definition effective (x : input) : input :=
  match i_entry x with
  | Entity => x
  | Server =>
      if pefim x then
        mkinput Server (sr x) (sa x) (ea x) true true true (md x) (cert_asrt x) (cert_adv x) (subj x) [] [(true, attrs x)]
      else
        mkinput Server (sr x) (sa x) (ea x) (eadv x) (sc x) false (md x) (cert_asrt x) (cert_adv x) (subj x) (attrs x) []
  end.

Definition plain_adv (x : input) : advice :=
  AdvPlain (map (fun l => mkleaf Unsigned (fst l) (snd l)) (leaves x)).

(* part B of _response: the advice assertion is moved into Advice/EncryptedAssertion, signed if
   sign_assertion and not pefim, serialised (a5d8e540), encrypted.  None = an exception leaves _response.
   Two or more advice assertions: the second round works on a stale object / a list and always raises. *)
Definition part_b (x : input) : option advice :=
  match leaves x with
  | [l] =>
      match first_good (choose (cert_adv x) (md x)) with
      | None => None
      | Some c => Some (AdvEnc c (mkleaf (sig_of (sa x && negb (pefim x))) (fst l) (snd l)))
      end
  | _ => None
  end.

(* part C + D: sign the assertion if asked, serialise, encrypt it, sign the Response if asked *)
Definition part_c (x : input) (adv : advice) : result :=
  match first_good (choose (cert_asrt x) (md x)) with
  | None => Error
  | Some c => Wire (mkwire (sig_of (sr x)) (TopEnc c (mkasrt (sig_of (sa x)) (subj x) (attrs x) adv)))
  end.

(* Entity._response under the calling convention of _authn_response (to_sign = [assertion] iff
   sign_assertion and not encrypt_assertion).  Since 316cbbe5 the extra parts (to_sign) are signed at the end of
   every path, after any encryption. *)
Definition response (x : input) : result :=
  let tsm := negb (ea x) && sa x in
  let n := length (leaves x) in
  let padv := plain_adv x in
  let has := negb (is_nil (enc_certs (md x))) in
  let eadv' := eadv x && (has || is_some (cert_adv x)) in
  let ea' := ea x && (has || is_some (cert_asrt x)) in
  if ea' || (eadv' && Nat.eqb n 1) then
    match (if eadv' && Nat.leb 1 n then part_b x else Some padv) with
    | None => Error
    | Some adv =>
        if ea' then part_c x adv
        else Wire (mkwire (sig_of (sr x)) (TopPlain (mkasrt (sig_of tsm) (subj x) (attrs x) adv)))
    end
  else
    Wire (mkwire (sig_of (sr x)) (TopPlain (mkasrt (sig_of tsm) (subj x) (attrs x) padv))).

(* ---- the code before 316cbbe5 / a5d8e540 (kept for the refutation theorems and for Corr.cls) ----
   - early return `if to_sign and not sign and not encrypt_assertion` before anything is encrypted;
   - not self-contained and the part to encrypt not signed: the message is still an object,
     CryptoBackendXmlSec1.encrypt_assertion applies pre_encrypt_assertion to it again, the node to encrypt is gone,
     xmlsec1 fails for every certificate *)
Definition part_b_v0 (x : input) : option advice :=
  match leaves x with
  | [l] =>
      let lsigned := sa x && negb (pefim x) in
      if negb (sc x) && negb lsigned then None else
      match first_good (choose (cert_adv x) (md x)) with
      | None => None
      | Some c => Some (AdvEnc c (mkleaf (sig_of lsigned) (fst l) (snd l)))
      end
  | _ => None
  end.

Definition part_c_v0 (x : input) (adv : advice) : result :=
  if negb (sc x) && negb (sa x) then Error else
  match first_good (choose (cert_asrt x) (md x)) with
  | None => Error
  | Some c => Wire (mkwire (sig_of (sr x)) (TopEnc c (mkasrt (sig_of (sa x)) (subj x) (attrs x) adv)))
  end.

Definition response_v0 (x : input) : result :=
  let tsm := negb (ea x) && sa x in
  let n := length (leaves x) in
  let padv := plain_adv x in
  if tsm && negb (sr x) then
    Wire (mkwire Unsigned (TopPlain (mkasrt Signed (subj x) (attrs x) padv)))
  else
  let has := negb (is_nil (enc_certs (md x))) in
  let eadv' := eadv x && (has || is_some (cert_adv x)) in
  let ea' := ea x && (has || is_some (cert_asrt x)) in
  if ea' || (eadv' && Nat.eqb n 1) then
    match (if eadv' && Nat.leb 1 n then part_b_v0 x else Some padv) with
    | None => Error
    | Some adv =>
        if ea' then part_c_v0 x adv
        else Wire (mkwire (sig_of (sr x)) (TopPlain (mkasrt (sig_of tsm) (subj x) (attrs x) adv)))
    end
  else
    Wire (mkwire (sig_of (sr x)) (TopPlain (mkasrt (sig_of tsm) (subj x) (attrs x) padv))).

Definition idp_v0 (x : input) : result := response_v0 (effective x).

Definition idp (x : input) : result := response (effective x).

(* ------------------------------------------------------------------------------------------------ *)
(* damage to the first EncryptedData in document order (bit flip in ciphertext / encrypted key): the
   ciphertext becomes unopenable, every signature that covers it no longer verifies *)
Definition break (s : sigst) : sigst := match s with Signed => Broken | _ => s end.
Definition damage (w : wire) : wire :=
  match w_top w with
  | TopEnc _ _ => mkwire (break (w_sig w)) TopBad
  | TopPlain a =>
      match a_adv a with
      | AdvEnc _ _ => mkwire (break (w_sig w)) (TopPlain (mkasrt (break (a_sig a)) (a_subj a) (a_attrs a) AdvBad))
      | _ => w
      end
  | TopBad => w
  end.

(* ------------------------------------------------------------------------------------------------ *)
(* SP: Saml2Client.parse_authn_request_response on the wire, holding the private keys ks
   (encryption_keypairs, in order), with want_response_signed = wr, want_assertions_signed = wa,
   want_assertions_or_response_signed off; everything else about the Response is valid.
   Result: the identity obtained (NameID text, attribute values), None = exception or empty shell. *)
Section SP.
  Variable key : Type.
  Variable can_open : key -> cert -> bool.      (* xmlsec1 --decrypt with this key succeeds on a ciphertext made for c *)

  (* SecurityContext.decrypt: every key in turn, first success wins *)
  Definition try_keys (ks : list key) (c : cert) : bool := existsb (fun k => can_open k c) ks.

  (* validate_doc_with_schema(str(item)) inside _check_signature: plain advice assertions must have an Issuer *)
  Definition adv_schema_ok (a : advice) : bool :=
    match a with AdvPlain ls => forallb l_wf ls | _ => true end.

  (* Response signature over both passes of _parse_response *)
  Definition resp_sig_ok (wr : bool) (w : wire) : bool :=
    match w_sig w with
    | Unsigned => negb wr
    | Signed => match w_top w with TopPlain a => adv_schema_ok (a_adv a) | _ => true end
    | Broken => false
    end.

  (* signature of the (plain or just decrypted) main assertion over both passes; its advice is still as received *)
  Definition main_sig_ok (wa : bool) (a : asrt) : bool :=
    match a_sig a with
    | Unsigned => negb wa
    | Signed => adv_schema_ok (a_adv a)
    | Broken => false
    end.

  (* advice: plain advice assertions are read as they are (their signatures are never looked at); an encrypted
     one is decrypted if a key opens it, its signature (if any) is then checked; None = SignatureError *)
  Definition open_adv (ks : list key) (a : advice) : option (list atom) :=
    match a with
    | AdvPlain ls => Some (flat_map l_attrs ls)
    | AdvEnc c l =>
        if try_keys ks c then
          match l_sig l with
          | Unsigned => Some (l_attrs l)
          | Signed => if l_wf l then Some (l_attrs l) else None
          | Broken => None
          end
        else Some []
    | AdvBad => Some []
    end.

  Definition read_asrt (ks : list key) (wa : bool) (a : asrt) : option (atom * list atom) :=
    if main_sig_ok wa a then
      match open_adv ks (a_adv a) with
      | Some xs => Some (a_subj a, (xs ++ a_attrs a)%list)
      | None => None
      end
    else None.

  Definition sp_parse (ks : list key) (wr wa : bool) (w : wire) : option (atom * list atom) :=
    if resp_sig_ok wr w then
      match w_top w with
      | TopPlain a => read_asrt ks wa a
      | TopEnc c a => if try_keys ks c then read_asrt ks wa a else None
      | TopBad => None
      end
    else None.
End SP.

(* SecurityContext.decrypt (sigver.py 1322-1343): the key list is the per-request keys handed down from
   _parse_response (outstanding_certs[InResponseTo] -> verify(keys) -> decrypt_keys(keys)) FOLLOWED BY every configured
   encryption key (encryption_keypairs); tried in this order, the first that opens wins.  hit = outstanding_certs has an
   entry for the Response's InResponseTo (otherwise keys = None: configured keys only). *)
Definition key_list {key : Type} (hit : bool) (req conf : list key) : list key :=
  if hit then (req ++ conf)%list else conf.
Definition sp_receive (key : Type) (can_open : key -> cert -> bool)
           (hit : bool) (req conf : list key) (wr wa : bool) (w : wire) : option (atom * list atom) :=
  sp_parse key can_open (key_list hit req conf) wr wa w.

(* the instance used by the correspondence: a key is named like its certificate *)
Definition opens_named (k : string) (c : cert) : bool := cert_eqb c (Good k).
Definition sp_named := sp_parse string opens_named.

(* ------------------------------------------------------------------------------------------------ *)
(* How the five boolean options reach Server._authn_response when the call enters through the public API.
   Server.create_authn_response (server.py 776-871) has a default for every option in its SIGNATURE and hands all of
   them on as keywords; Server.gather_authn_response_args (696-718) then takes, per option,
       val_kw if val_kw is not None else val_config if val_config is not None else val_default
   (val_config = IdP configuration, service/idp/<option>; "true"/"false" strings were turned into booleans when the
   configuration was loaded).  An option the caller does not pass arrives as the signature default: None for
   sign_response / sign_assertion / encrypt_assertion (the configuration is consulted), False for
   encrypted_advice_attributes and True for encrypt_assertion_self_contained (the configuration is never consulted
   for these two unless the caller passes None explicitly).
   Server.create_authn_request_response (883-918) forwards sign_response / sign_assertion only: the other options are
   "not passed" there, pefim is False and there are no explicit certificates. *)
Inductive argst := NotPassed | PassedNone | Passed (b : bool).
Record optsrc := mkopt { o_arg : argst; o_cfg : option bool }.
Record srcs := mksrcs { s_sr : optsrc; s_sa : optsrc; s_ea : optsrc; s_eadv : optsrc; s_sc : optsrc }.
Record optdef := mkoptdef { sig_default : option bool; param_default : bool }.
Record deftab := mkdeftab { t_sr : optdef; t_sa : optdef; t_ea : optdef; t_eadv : optdef; t_sc : optdef }.

(* the defaults as they are in the code now (tied to the source text by Proofs.code_defaults_from_source) *)
Definition code_defaults : deftab :=
  mkdeftab (mkoptdef None false) (mkoptdef None false) (mkoptdef None false)
           (mkoptdef (Some false) false) (mkoptdef (Some true) true).

Definition kw_value (d : optdef) (a : argst) : option bool :=
  match a with NotPassed => sig_default d | PassedNone => None | Passed b => Some b end.
Definition pick (d : optdef) (o : optsrc) : bool :=
  match kw_value d (o_arg o) with
  | Some b => b
  | None => match o_cfg o with Some b => b | None => param_default d end
  end.

Definition with_flags (x : input) (sr' sa' ea' eadv' sc' : bool) : input :=
  mkinput (i_entry x) sr' sa' ea' eadv' sc' (pefim x) (md x) (cert_asrt x) (cert_adv x) (subj x) (attrs x) (leaves x).

(* a call: the abstract input, and — for the Server entry — where each option comes from (None: every option is
   passed as it stands in the input and the configuration is silent; the flag fields of the input are not looked at
   when sources are given) *)
Definition call := (input * option srcs)%type.

Definition gather_with (d : deftab) (k : call) : input :=
  match k with
  | (x, None) => x
  | (x, Some s) =>
      match i_entry x with
      | Entity => x          (* Entity._response takes its flags as they are: no configuration fallback *)
      | Server => with_flags x (pick (t_sr d) (s_sr s)) (pick (t_sa d) (s_sa s)) (pick (t_ea d) (s_ea s))
                               (pick (t_eadv d) (s_eadv s)) (pick (t_sc d) (s_sc s))
      end
  end.
Definition gather : call -> input := gather_with code_defaults.
Definition idp_call (k : call) : result := idp (gather k).
