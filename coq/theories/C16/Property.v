(* C16/Property.v — property theorems only. *)
From Coq Require Import String List Bool.
From Verif Require Import Base.Str Base.Py Base.Py2 C16.Model C16.Spec C16.Classes C16.Proofs C16.Source2 C16.Options.
From VerifGen Require Import C16Src2 C16Tables.
Import ListNotations.

(* C16, whole statement: for every flag combination, certificate source, identity and advice outside the one open
   finding class (guard = an Advice with two or more assertions is not asked to be encrypted), and every list of
   recipients (key set, signature policy, damaged or not), what the model produces satisfies confidentiality (bytes
   and term), liveness, recovery and nothing-more *)
Theorem c16_spec : forall x ts, guard x -> spec x (model_obs x ts).
Proof. exact spec_holds. Qed.
Print Assumptions c16_spec.

(* the boolean spec that Coq evaluates on the implementation's recorded output is the stated spec *)
Theorem c16_spec_reflect : forall x o, spec_b x o = true <-> spec x o.
Proof. exact spec_b_iff. Qed.
Print Assumptions c16_spec_reflect.

(* the same for calls through the public API (Server.create_authn_response / create_authn_request_response) with each
   of sign_response, sign_assertion, encrypt_assertion, encrypted_advice_attributes, encrypt_assertion_self_contained
   given by argument, given as None, or not given, and present or absent in the IdP configuration: the property read on
   what the call REQUESTS (argument, else configuration, else documented default) holds of what the model produces
   from what the code GATHERS (signature defaults of create_authn_response, then gather_authn_response_args) *)
Theorem c16_spec_call : forall k ts, guard (requested k) -> spec_call k (model_obs (gather k) ts).
Proof. exact spec_call_holds. Qed.
Print Assumptions c16_spec_call.

(* a request for assertion encryption that is made in the IdP configuration only (or per call) is honoured: whenever a
   Response comes out its assertion is encrypted for a usable certificate of the recipient *)
Theorem c16_config_request_encrypts : forall x s w,
  i_entry x = Server -> o_arg (s_ea s) <> Passed false -> (o_arg (s_ea s) = Passed true \/ o_cfg (s_ea s) = Some true) ->
  avail (rcpt_main x) -> idp_call (x, Some s) = Wire w ->
  exists c a, w_top w = TopEnc c a /\ In c (rcpt_main x) /\ usable c.
Proof. exact config_request_encrypts. Qed.
Print Assumptions c16_config_request_encrypts.

(* the statement is sensitive to the defaults: were the default of encrypt_assertion in the signature of
   create_authn_response False instead of None, a request made in the configuration would be lost and the property
   would fail on a concrete call (which the code as modelled satisfies) *)
Theorem c16_signature_default_matters :
  ea (requested k_config_only) = true /\ avail (rcpt_main (requested k_config_only))
  /\ spec_call k_config_only (model_obs (gather k_config_only) ts0)
  /\ ~ spec_call k_config_only (model_obs (gather_with defaults_ea_false k_config_only) ts0).
Proof. exact signature_default_matters. Qed.
Print Assumptions c16_signature_default_matters.

Open Scope string_scope.
(* the defaults, the precedence chain, the configuration context and the options the wrapper passes on are those of the
   source text as it reads now (coq/gen/C16Tables.v, regenerated on every run) *)
Theorem c16_option_defaults_from_source :
  create_authn_response_sig_defaults = combine option_names (map sig_default (optdefs code_defaults))
  /\ gather_param_defaults = combine option_names (map param_default (optdefs code_defaults))
  /\ gather_config_context = "idp"
  /\ wrapper_forwards = ["sign_response"; "sign_assertion"]
  /\ (forall d o, chain_value gather_precedence (kw_value d (o_arg o)) (o_cfg o) (param_default d) = Some (pick d o)).
Proof. exact option_defaults_from_source. Qed.
Print Assumptions c16_option_defaults_from_source.

(* confidentiality, symbolic: no secret occurs outside an encryption for a certificate of the recipient *)
Theorem c16_conf : forall x w, guard x -> idp x = Wire w ->
  (ea x = true -> avail (rcpt_main x) -> forall s, In s (all_atoms x) -> ~ In s (exposed (rcpt x) w))
  /\ (req_adv x -> has_advice x -> avail (rcpt_adv x) -> adv_distinct x ->
      forall s, In s (adv_atoms x) -> ~ In s (exposed (rcpt x) w)).
Proof. exact conf_symbolic. Qed.
Print Assumptions c16_conf.

(* ... so nobody whose private keys open none of the recipient's certificates derives a secret from the wire *)
Theorem c16_conf_outsiders :
  forall (key : Type) (can_open : key -> cert -> bool) (ks : list key) x w,
  guard x -> idp x = Wire w ->
  (forall k c, In k ks -> In c (rcpt x) -> can_open k c = false) ->
  (ea x = true -> avail (rcpt_main x) ->
     forall s, In s (all_atoms x) -> ~ In s (derivable (try_keys key can_open ks) w))
  /\ (req_adv x -> has_advice x -> avail (rcpt_adv x) -> adv_distinct x ->
     forall s, In s (adv_atoms x) -> ~ In s (derivable (try_keys key can_open ks) w)).
Proof. exact conf_against_outsiders. Qed.
Print Assumptions c16_conf_outsiders.

(* with encryption in force a Response is produced *)
Theorem c16_live : forall x, guard x -> in_force x -> idp x <> Error.
Proof. exact live_holds. Qed.
Print Assumptions c16_live.

(* ideal encryption (dec k (enc c p) succeeds iff c = cert_of k): the holder of the matching keys recovers exactly
   the subject and all attribute values that were issued, and the SP accepts; the key list is the one
   SecurityContext.decrypt builds: per-request keys (outstanding_certs hit) followed by the configured keys *)
Theorem c16_recover :
  forall (key : Type) (cert_of : key -> cert) (can_open : key -> cert -> bool),
  (forall k c, can_open k c = true <-> c = cert_of k) ->
  forall x w hit req conf wr wa,
  guard x -> in_force x -> valid_advice x -> idp x = Wire w ->
  (forall c, In c (certs_used w) -> exists k, In k (key_list hit req conf) /\ c = cert_of k) ->
  (wr = true -> sr x = true) -> (wa = true -> sa x = true) ->
  exists l, sp_receive key can_open hit req conf wr wa w = Some (subj x, l) /\ same_atoms l (attr_atoms x).
Proof. exact recover_ideal_keys. Qed.
Print Assumptions c16_recover.

(* only a holder of the matching key: any other key list (per-request ++ configured) obtains no identity from an
   encrypted assertion *)
Theorem c16_wrongkey :
  forall (key : Type) (cert_of : key -> cert) (can_open : key -> cert -> bool),
  (forall k c, can_open k c = true <-> c = cert_of k) ->
  forall x w hit req conf wr wa,
  guard x -> ea x = true -> avail (rcpt_main x) -> idp x = Wire w ->
  (forall k c, In k (key_list hit req conf) -> In c (rcpt_main x) -> cert_of k <> c) ->
  sp_receive key can_open hit req conf wr wa w = None.
Proof. exact wrongkey_ideal_keys. Qed.
Print Assumptions c16_wrongkey.

(* advice encryption alone: without a matching key no attribute of the advice is obtained *)
Theorem c16_wrongkey_advice :
  forall (key : Type) (cert_of : key -> cert) (can_open : key -> cert -> bool),
  (forall k c, can_open k c = true <-> c = cert_of k) ->
  forall x w ks wr wa s l,
  guard x -> idp x = Wire w ->
  (forall k c, In k ks -> In c (rcpt x) -> cert_of k <> c) ->
  req_adv x -> has_advice x -> avail (rcpt_adv x) -> adv_distinct x ->
  sp_parse key can_open ks wr wa w = Some (s, l) ->
  forall a, In a (adv_atoms x) -> ~ In a l.
Proof. exact wrongkey_advice_ideal. Qed.
Print Assumptions c16_wrongkey_advice.

(* corrupted ciphertext or encrypted key: no identity, whatever keys are held *)
Theorem c16_corrupted :
  forall (key : Type) (can_open : key -> cert -> bool) x w ks wr wa,
  guard x -> ea x = true -> avail (rcpt_main x) -> idp x = Wire w ->
  sp_parse key can_open ks wr wa (damage w) = None.
Proof. exact damaged_ideal. Qed.
Print Assumptions c16_corrupted.

(* for EVERY wire term (hostile ones included) the SP hands out only what the keys it holds can derive *)
Theorem c16_obtained_is_derivable :
  forall (key : Type) (can_open : key -> cert -> bool) ks wr wa w s l,
  sp_parse key can_open ks wr wa w = Some (s, l) ->
  In s (derivable (try_keys key can_open ks) w) /\ incl l (derivable (try_keys key can_open ks) w).
Proof. exact obtained_is_derivable. Qed.
Print Assumptions c16_obtained_is_derivable.

(* the ideal-encryption hypothesis is satisfiable (term algebra instance used by the correspondence) *)
Theorem c16_ideal_instance : forall k c, opens_named k c = true <-> c = Good k.
Proof. exact ideal_named. Qed.
Print Assumptions c16_ideal_instance.

(* outside the premise of the property — merely DESCRIBES the code: encryption requested, no certificate at all:
   never an encrypted assertion; an error, or the assertion in clear text and unsigned *)
Theorem c16_nocert_cleartext : forall x, ea x = true -> rcpt_main x = [] ->
  idp x = Error \/
  exists w a, idp x = Wire w /\ w_top w = TopPlain a /\ a_subj a = subj x /\ a_sig a = Unsigned.
Proof. exact nocert_cleartext. Qed.
Print Assumptions c16_nocert_cleartext.

(* the open finding class is a real violation of the property by the code as modelled *)
Theorem c16_class3_refuted : region3 (effective x_class3) = true /\ ~ spec x_class3 (model_obs x_class3 ts0).
Proof. exact class3_refuted. Qed.
Print Assumptions c16_class3_refuted.

(* the two repaired classes: the code before 316cbbe5 / a5d8e540 violated the property on these calls, the code as
   it is now satisfies it on the same calls *)
Theorem c16_class1_v0_refuted :
  region1 (effective x_class1) = true /\ ~ spec x_class1 (model_obs_v0 x_class1 ts0)
  /\ guard x_class1 /\ spec x_class1 (model_obs x_class1 ts0).
Proof. exact class1_v0_refuted. Qed.
Print Assumptions c16_class1_v0_refuted.
Theorem c16_class2_v0_refuted :
  region2 (effective x_class2) = true /\ ~ spec x_class2 (model_obs_v0 x_class2 ts0)
  /\ guard x_class2 /\ spec x_class2 (model_obs x_class2 ts0).
Proof. exact class2_v0_refuted. Qed.
Print Assumptions c16_class2_v0_refuted.

(* ================================================================================================== *)
(* Tie to the source TEXT (translator v2): the functions below are re-translated from /repo's current source on every
   run (coq/gen/C16Src2.v, harness/c16.py:regenerate_tables); each theorem says that the translated function, applied
   to the encoding of a model input, yields the encoding of what the model function it mirrors yields, for ALL inputs.
   Hypotheses = what is assumed about the external calls (C16/Source2.v shows each set satisfiable). *)
Open Scope string_scope.

(* Entity.has_encrypt_cert_in_metadata = the `has` switch of Model.response (Source2.response_uses_has_cert) *)
Theorem c16_source2_has_encrypt_cert_in_metadata :
  forall (certs_ext : pyval -> pyval -> pyval -> pyval -> pyval) (self : pyval) (cert_text : cert -> string)
         (m : list (use * cert)),
  (forall sp : string, certs_ext self (PStr sp) (PStr "any") (PStr "encryption")
                       = PList (map (enc_cert_entry cert_text) (enc_certs m))) ->
  forall sp : option string,
  src2_has_encrypt_cert_in_metadata certs_ext self (enc_opt_str sp)
  = PBool match sp with Some _ => has_cert m | None => false end.
Proof. exact src2_has_encrypt_cert_is_model. Qed.
Print Assumptions c16_source2_has_encrypt_cert_in_metadata.

(* Server._authn_response: flags of Model.effective, identity into the PEFIM advice assertion, to_sign iff
   sign_assertion and not encrypt_assertion, every argument of Entity._response in its place *)
Theorem c16_source2_authn_response :
  forall (issuer_f : pyval -> list (string * pyval)) (aid : pyval -> string)
         (afields : pyval -> list (string * pyval)) (advice_f : list (string * pyval))
         (presig_f : pyval -> list (string * pyval)) (cn : pyval -> string) (adv_append : pyval -> pyval -> pyval)
         (aidr aq : bool) (store_ext : pyval -> pyval -> pyval) (response_ext : pyval -> pyval)
         (cert_text : cert -> string) (salg dalg mycert irt url sp : string) (p : passthru),
  pass_good p ->
  forall x : input, i_entry x = Server ->
  src2_authn_response (issuer_ext issuer_f) (setup_ext aid afields) (advice_ext advice_f) adv_append
    (presig_ext presig_f) (class_name_ext cn) (PBool aidr) (PBool aq) store_ext response_ext
    (enc_server salg dalg mycert) (PStr irt) (PStr url) (PStr sp) (enc_atoms (attrs x)) (p_nid p) (p_status p)
    (p_authn p) (p_issuer p) (p_policy p) (PBool (sa x)) (PBool (sr x)) (p_be p) (PBool (ea x))
    (enc_optcert cert_text (cert_adv x)) (enc_optcert cert_text (cert_asrt x)) (p_astmt p) (PBool (sc x))
    (PBool (eadv x)) (PBool (pefim x)) (p_salg p) (p_dalg p) (p_farg p) (p_snoa p)
  = authn_response_model issuer_f aid afields advice_f presig_f cn adv_append aidr aq store_ext response_ext cert_text
      salg dalg mycert irt url sp p x.
Proof. exact src2_authn_response_is_model. Qed.
Print Assumptions c16_source2_authn_response.

(* SecurityContext.decrypt: per-request key files first, then the configured ones; first key that opens wins *)
Theorem c16_source2_decrypt :
  forall (crypto_decrypt : pyval -> pyval -> pyval) (ct : string) (outcome : string -> option string),
  (forall k : string, crypto_decrypt (PStr ct) (PStr k)
                      = match outcome k with Some t => PStr t | None => PExc "DecryptError" end) ->
  forall (conf : list string) (kf : option (list string)),
  src2_decrypt crypto_decrypt (enc_sec conf) (PStr ct) (enc_kf kf)
  = match find (opens outcome) (keys_tried kf conf) with
    | Some k => PStr (text_of outcome k)
    | None => PExc "DecryptError"
    end.
Proof. exact src2_decrypt_is_model. Qed.
Print Assumptions c16_source2_decrypt.

(* ... which is Model.try_keys over Model.key_list *)
Theorem c16_source2_decrypt_try_keys :
  forall (crypto_decrypt : pyval -> pyval -> pyval) (ct : string) (outcome : string -> option string),
  (forall k : string, crypto_decrypt (PStr ct) (PStr k)
                      = match outcome k with Some t => PStr t | None => PExc "DecryptError" end) ->
  forall (c : cert) (hit : bool) (req conf : list string),
  forallb nonempty (req ++ conf)%list = true ->
  (exists t : string,
     src2_decrypt crypto_decrypt (enc_sec conf) (PStr ct) (enc_kf (Some (if hit then req else []))) = PStr t
     /\ try_keys string (fun k _ => opens outcome k) (key_list hit req conf) c = true)
  \/ (src2_decrypt crypto_decrypt (enc_sec conf) (PStr ct) (enc_kf (Some (if hit then req else []))) = PExc "DecryptError"
      /\ try_keys string (fun k _ => opens outcome k) (key_list hit req conf) c = false).
Proof. exact src2_decrypt_try_keys. Qed.
Print Assumptions c16_source2_decrypt_try_keys.

(* AuthnResponse.find_encrypt_data_assertion / find_encrypt_data: is there anything to decrypt *)
Theorem c16_source2_find_encrypt_data_assertion : forall (self : pyval) (bs : list bool),
  src2_find_encrypt_data_assertion self (PList (map enc_ea bs)) = if existsb (fun b => b) bs then PBool true else PNone.
Proof. exact src2_find_encrypt_data_assertion_is_model. Qed.
Print Assumptions c16_source2_find_encrypt_data_assertion.

Theorem c16_source2_find_encrypt_data : forall (self : pyval) (d : doc),
  src2_find_encrypt_data self (enc_doc d) = PBool (doc_has_enc_data d).
Proof. exact src2_find_encrypt_data_is_model. Qed.
Print Assumptions c16_source2_find_encrypt_data.

(* ... on the model's wire: exactly the wires for which Model.sp_parse consults the keys *)
Theorem c16_source2_find_encrypt_data_on_wire : forall (self : pyval) (w : wire),
  src2_find_encrypt_data self (enc_doc (doc_of_wire w)) = PBool (wire_has_enc_data w)
  /\ (wire_has_enc_data w = false ->
      forall (key : Type) (can_open : key -> cert -> bool) ks ks' wr wa,
      sp_parse key can_open ks wr wa w = sp_parse key can_open ks' wr wa w).
Proof.
  exact (fun self w => conj (src2_find_encrypt_data_on_wire self w)
                            (fun H key can_open ks ks' wr wa => sp_parse_plain_keys_irrelevant key can_open ks ks' wr wa w H)).
Qed.
Print Assumptions c16_source2_find_encrypt_data_on_wire.

(* AuthnResponse.decrypt_assertions: signature check on decrypted assertions (Model.open_adv: Source2.open_adv_is_decrypt_assertions) *)
Theorem c16_source2_decrypt_assertions :
  forall (ee2e : pyval -> pyval) (check_sig : pyval -> pyval -> pyval -> pyval -> pyval)
         (class_name_ext : pyval -> pyval) (raises : leaf -> bool),
  (forall ls : list leaf, ee2e (PList (map enc_ext ls)) = PList (map enc_dleaf ls)) ->
  (forall v : pyval, is_bad (class_name_ext v) = false) ->
  (forall (l : leaf) (txt : string) (node iss : pyval), is_bad node = false -> is_bad iss = false ->
     check_sig (enc_dleaf l) (PStr txt) node iss
     = if match l_sig l with Signed => l_wf l | _ => false end then enc_dleaf l
       else if raises l then PExc "SignatureError" else PBool false) ->
  forall (self : pyval) (eas : list (list leaf)) (txt : string) (iss : pyval) (verified : bool),
  is_bad iss = false ->
  src2_decrypt_assertions ee2e check_sig class_name_ext self (PList (map enc_dea eas)) (PStr txt) iss (PBool verified)
  = match decrypt_assertions_model verified eas with
    | Some ls => PList (map enc_dleaf ls)
    | None => PExc "SignatureError"
    end.
Proof. exact src2_decrypt_assertions_is_model. Qed.
Print Assumptions c16_source2_decrypt_assertions.

Theorem c16_source2_decrypt_assertions_open_adv :
  forall (key : Type) (can_open : key -> cert -> bool) (ks : list key) (c : cert) (l : leaf),
  try_keys key can_open ks c = true ->
  open_adv key can_open ks (AdvEnc c l)
  = match decrypt_assertions_model false [[l]] with Some ls => Some (flat_map l_attrs ls) | None => None end.
Proof. exact open_adv_is_decrypt_assertions. Qed.
Print Assumptions c16_source2_decrypt_assertions_open_adv.

(* AuthnResponse._assertion: signature requirement on the main assertion (Model.main_sig_ok), then the other checks *)
Theorem c16_source2_assertion :
  forall (check_sig3 : pyval -> pyval -> pyval -> pyval) (class_name_ext : pyval -> pyval) (xml cnm : string),
  (forall i : ainput, class_name_ext (enc_masrt i) = PStr cnm) ->
  (forall i : ainput, check_sig3 (enc_masrt i) (PStr cnm) (PStr xml)
                      = match ai_check i with Some n => PExc n | None => enc_masrt i end) ->
  forall i : ainput,
  (forall t : string, ai_ai i = Some (Some t) -> end_ascii (strip t) = true) ->
  src2_assertion check_sig3 class_name_ext (const_ext (PStr (ai_ri i))) (const_ext (enc_raise (ai_stmt i)))
    (const_ext (PBool (ai_cond i))) (const_ext (enc_raise (ai_subj i))) (enc_aself xml i) (enc_masrt i)
    (PBool (ai_verified i))
  = assertion_model i.
Proof. exact src2_assertion_is_model. Qed.
Print Assumptions c16_source2_assertion.

Theorem c16_source2_assertion_main_sig_ok : forall (wa : bool) (a : asrt) (i : ainput),
  ai_wa i = wa -> ai_dnv i = false -> ai_verified i = false -> ai_sig i = a_sig a ->
  ai_check i = (if match a_sig a with Signed => adv_schema_ok (a_adv a) | _ => false end
                then None else Some "SignatureError") ->
  assertion_model i = if main_sig_ok wa a then assertion_rest i else PExc "SignatureError".
Proof. exact assertion_model_is_main_sig_ok. Qed.
Print Assumptions c16_source2_assertion_main_sig_ok.

(* sigver.pre_encrypt_assertion: no clear copy stays in the Response *)
Theorem c16_source2_pre_encrypt_assertion :
  forall (ea_f : list (string * pyval)) (add_el add_els : pyval -> pyval -> pyval) (old_ea rest : pyval) (a : asrt_slot),
  src2_pre_encrypt_assertion (mk_ea ea_f) add_el add_els (resp_obj rest (enc_slot a) old_ea)
  = match a with
    | SNone => pre_encrypted ea_f rest
    | SOne f => py_bind (add_el (mk_ea ea_f) (asrt_obj f)) (fun _ => pre_encrypted ea_f rest)
    | SMany l => py_bind (add_els (mk_ea ea_f) (PList l)) (fun _ => pre_encrypted ea_f rest)
    end.
Proof. exact src2_pre_encrypt_assertion_is_model. Qed.
Print Assumptions c16_source2_pre_encrypt_assertion.

Theorem c16_source2_pre_encrypt_assertion_no_clear_copy :
  forall (ea_f : list (string * pyval)) (add_el add_els : pyval -> pyval -> pyval) (old_ea rest : pyval)
         (a : asrt_slot) (r : pyval),
  src2_pre_encrypt_assertion (mk_ea ea_f) add_el add_els (resp_obj rest (enc_slot a) old_ea) = r ->
  is_bad r = false -> p2_attr r "assertion" = PNone /\ p2_attr r "encrypted_assertion" = mk_ea ea_f.
Proof. exact src2_pre_encrypt_assertion_no_clear_copy. Qed.
Print Assumptions c16_source2_pre_encrypt_assertion_no_clear_copy.

(* CryptoBackendXmlSec1.encrypt_assertion: the xmlsec1 command line, EncryptError whenever xmlsec1 fails *)
Theorem c16_source2_xmlsec_encrypt_assertion :
  forall (pre_f : list (string * pyval) -> list (string * pyval)) (ser : list (string * pyval) -> string)
         (tmpname : string -> string) (run_xmlsec : pyval -> pyval -> pyval) (decode_ext : pyval -> pyval)
         (xres : list pyval -> option pyval) (xmlsec_bin enc_key template key_type : string) (dtf : bool),
  (forall com extra : list pyval,
     run_xmlsec (PList com) (PList extra)
     = match xres (com ++ extra)%list with Some o => PList [PNone; PNone; o] | None => PExc "XmlsecError" end) ->
  forall (s : stmt_arg) (xpath node_id : option string),
  src2_xmlsec_encrypt_assertion (pre_enc_c pre_f) (make_temp_c tmpname) (to_str_c ser) run_xmlsec decode_ext
    (enc_backend xmlsec_bin dtf) (enc_stmt s) (PStr enc_key) (PStr template) (PStr key_type) (enc_opt_str xpath)
    (enc_opt_str node_id)
  = match xres (command_line pre_f ser tmpname xmlsec_bin enc_key template key_type s xpath node_id) with
    | Some o => decode_ext o
    | None => PExc "EncryptError"
    end.
Proof. exact src2_xmlsec_encrypt_assertion_is_model. Qed.
Print Assumptions c16_source2_xmlsec_encrypt_assertion.
