(* C16/Property.v — property theorems only. *)
From Coq Require Import String List Bool.
From Verif Require Import Base.Str C16.Model C16.Spec C16.Classes C16.Proofs.
Import ListNotations.

(* C16, whole statement: for every flag combination, certificate source, identity and advice outside the one open
   finding class (guard = an Advice with two or more assertions is not asked to be encrypted), and every list of
   recipients (key set, signature policy, damaged or not), what the model produces satisfies confidentiality (bytes
   and term), liveness, recovery and nothing-more *)
Theorem c16_spec : forall x ts, guard x -> spec x (model_obs x ts).
Proof. exact spec_holds. Qed.
Print Assumptions c16_spec.

(* the boolean spec that Coq evaluates on the implementation's recorded output is the stated spec *)
Theorem c16_spec_reflect : forall x o, spec_b x o = true <-> spec x o.
Proof. exact spec_b_iff. Qed.
Print Assumptions c16_spec_reflect.

(* confidentiality, symbolic: no secret occurs outside an encryption for a certificate of the recipient *)
Theorem c16_conf : forall x w, guard x -> idp x = Wire w ->
  (ea x = true -> avail (rcpt_main x) -> forall s, In s (all_atoms x) -> ~ In s (exposed (rcpt x) w))
  /\ (req_adv x -> has_advice x -> avail (rcpt_adv x) -> adv_distinct x ->
      forall s, In s (adv_atoms x) -> ~ In s (exposed (rcpt x) w)).
Proof. exact conf_symbolic. Qed.
Print Assumptions c16_conf.

(* ... so nobody whose private keys open none of the recipient's certificates derives a secret from the wire *)
Theorem c16_conf_outsiders :
  forall (key : Type) (can_open : key -> cert -> bool) (ks : list key) x w,
  guard x -> idp x = Wire w ->
  (forall k c, In k ks -> In c (rcpt x) -> can_open k c = false) ->
  (ea x = true -> avail (rcpt_main x) ->
     forall s, In s (all_atoms x) -> ~ In s (derivable (try_keys key can_open ks) w))
  /\ (req_adv x -> has_advice x -> avail (rcpt_adv x) -> adv_distinct x ->
     forall s, In s (adv_atoms x) -> ~ In s (derivable (try_keys key can_open ks) w)).
Proof. exact conf_against_outsiders. Qed.
Print Assumptions c16_conf_outsiders.

(* with encryption in force a Response is produced *)
Theorem c16_live : forall x, guard x -> in_force x -> idp x <> Error.
Proof. exact live_holds. Qed.
Print Assumptions c16_live.

(* ideal encryption (dec k (enc c p) succeeds iff c = cert_of k): the holder of the matching keys recovers exactly
   the subject and all attribute values that were issued, and the SP accepts; the key list is the one
   SecurityContext.decrypt builds: per-request keys (outstanding_certs hit) followed by the configured keys *)
Theorem c16_recover :
  forall (key : Type) (cert_of : key -> cert) (can_open : key -> cert -> bool),
  (forall k c, can_open k c = true <-> c = cert_of k) ->
  forall x w hit req conf wr wa,
  guard x -> in_force x -> valid_advice x -> idp x = Wire w ->
  (forall c, In c (certs_used w) -> exists k, In k (key_list hit req conf) /\ c = cert_of k) ->
  (wr = true -> sr x = true) -> (wa = true -> sa x = true) ->
  exists l, sp_receive key can_open hit req conf wr wa w = Some (subj x, l) /\ same_atoms l (attr_atoms x).
Proof. exact recover_ideal_keys. Qed.
Print Assumptions c16_recover.

(* only a holder of the matching key: any other key list (per-request ++ configured) obtains no identity from an
   encrypted assertion *)
Theorem c16_wrongkey :
  forall (key : Type) (cert_of : key -> cert) (can_open : key -> cert -> bool),
  (forall k c, can_open k c = true <-> c = cert_of k) ->
  forall x w hit req conf wr wa,
  guard x -> ea x = true -> avail (rcpt_main x) -> idp x = Wire w ->
  (forall k c, In k (key_list hit req conf) -> In c (rcpt_main x) -> cert_of k <> c) ->
  sp_receive key can_open hit req conf wr wa w = None.
Proof. exact wrongkey_ideal_keys. Qed.
Print Assumptions c16_wrongkey.

(* advice encryption alone: without a matching key no attribute of the advice is obtained *)
Theorem c16_wrongkey_advice :
  forall (key : Type) (cert_of : key -> cert) (can_open : key -> cert -> bool),
  (forall k c, can_open k c = true <-> c = cert_of k) ->
  forall x w ks wr wa s l,
  guard x -> idp x = Wire w ->
  (forall k c, In k ks -> In c (rcpt x) -> cert_of k <> c) ->
  req_adv x -> has_advice x -> avail (rcpt_adv x) -> adv_distinct x ->
  sp_parse key can_open ks wr wa w = Some (s, l) ->
  forall a, In a (adv_atoms x) -> ~ In a l.
Proof. exact wrongkey_advice_ideal. Qed.
Print Assumptions c16_wrongkey_advice.

(* corrupted ciphertext or encrypted key: no identity, whatever keys are held *)
Theorem c16_corrupted :
  forall (key : Type) (can_open : key -> cert -> bool) x w ks wr wa,
  guard x -> ea x = true -> avail (rcpt_main x) -> idp x = Wire w ->
  sp_parse key can_open ks wr wa (damage w) = None.
Proof. exact damaged_ideal. Qed.
Print Assumptions c16_corrupted.

(* for EVERY wire term (hostile ones included) the SP hands out only what the keys it holds can derive *)
Theorem c16_obtained_is_derivable :
  forall (key : Type) (can_open : key -> cert -> bool) ks wr wa w s l,
  sp_parse key can_open ks wr wa w = Some (s, l) ->
  In s (derivable (try_keys key can_open ks) w) /\ incl l (derivable (try_keys key can_open ks) w).
Proof. exact obtained_is_derivable. Qed.
Print Assumptions c16_obtained_is_derivable.

(* the ideal-encryption hypothesis is satisfiable (term algebra instance used by the correspondence) *)
Theorem c16_ideal_instance : forall k c, opens_named k c = true <-> c = Good k.
Proof. exact ideal_named. Qed.
Print Assumptions c16_ideal_instance.

(* outside the premise of the property — merely DESCRIBES the code: encryption requested, no certificate at all:
   never an encrypted assertion; an error, or the assertion in clear text and unsigned *)
Theorem c16_nocert_cleartext : forall x, ea x = true -> rcpt_main x = [] ->
  idp x = Error \/
  exists w a, idp x = Wire w /\ w_top w = TopPlain a /\ a_subj a = subj x /\ a_sig a = Unsigned.
Proof. exact nocert_cleartext. Qed.
Print Assumptions c16_nocert_cleartext.

(* the open finding class is a real violation of the property by the code as modelled *)
Theorem c16_class3_refuted : region3 (effective x_class3) = true /\ ~ spec x_class3 (model_obs x_class3 ts0).
Proof. exact class3_refuted. Qed.
Print Assumptions c16_class3_refuted.

(* the two repaired classes: the code before 316cbbe5 / a5d8e540 violated the property on these calls, the code as
   it is now satisfies it on the same calls *)
Theorem c16_class1_v0_refuted :
  region1 (effective x_class1) = true /\ ~ spec x_class1 (model_obs_v0 x_class1 ts0)
  /\ guard x_class1 /\ spec x_class1 (model_obs x_class1 ts0).
Proof. exact class1_v0_refuted. Qed.
Print Assumptions c16_class1_v0_refuted.
Theorem c16_class2_v0_refuted :
  region2 (effective x_class2) = true /\ ~ spec x_class2 (model_obs_v0 x_class2 ts0)
  /\ guard x_class2 /\ spec x_class2 (model_obs x_class2 ts0).
Proof. exact class2_v0_refuted. Qed.
Print Assumptions c16_class2_v0_refuted.
