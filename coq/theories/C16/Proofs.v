(* C16/Proofs.v — lemmas: reflection of the boolean spec, generic facts about the SP model under the
   ideal-encryption hypothesis, shape of the IdP model's output outside the finding classes, the property. *)
From Coq Require Import String List Bool Arith Lia.
From Verif Require Import Base.Str C16.Model C16.Spec C16.Classes.
Import ListNotations.
Open Scope string_scope.

(* ------------------------------------------------------------------------------------------------ *)
(* basics *)
Lemma cert_eqb_eq a b : cert_eqb a b = true <-> a = b.
Proof.
  destruct a as [x|], b as [y|]; cbn; split; intro H; try congruence; try discriminate.
  - apply String.eqb_eq in H. now subst.
  - inversion H. apply String.eqb_refl.
Qed.
Lemma cert_eqb_refl a : cert_eqb a a = true.
Proof. now apply cert_eqb_eq. Qed.

Lemma is_good_usable c : is_good c = true <-> usable c.
Proof. unfold usable. destruct c; cbn; split; intro H; congruence. Qed.

Lemma avail_b_iff cs : avail_b cs = true <-> avail cs.
Proof.
  unfold avail_b, avail. rewrite existsb_exists. split; intros [c [Hin Hc]]; exists c; split; auto; now apply is_good_usable.
Qed.
Lemma avail_b_false cs : avail_b cs = false <-> ~ avail cs.
Proof. rewrite <- avail_b_iff. destruct (avail_b cs); split; intro H; congruence. Qed.

Lemma negb_mem_iff s l : negb (mem s l) = true <-> ~ In s l.
Proof. rewrite negb_true_iff, <- mem_In. destruct (mem s l); split; intro H; congruence. Qed.

Lemma none_in_iff S l : none_in S l = true <-> (forall s, In s S -> ~ In s l).
Proof.
  unfold none_in. rewrite forallb_forall. split; intros H s Hs; specialize (H s Hs); now apply negb_mem_iff.
Qed.

Lemma incl_b_iff (a b : list atom) : forallb (fun s => mem s b) a = true <-> incl a b.
Proof. rewrite forallb_forall. unfold incl. split; intros H s Hs; specialize (H s Hs); now apply mem_In. Qed.

Lemma same_atoms_b_iff a b : same_atoms_b a b = true <-> same_atoms a b.
Proof. unfold same_atoms_b, same_atoms. now rewrite andb_true_iff, !incl_b_iff. Qed.

Lemma opens_with_iff ks c : opens_with ks c = true <-> exists k, In k ks /\ c = Good k.
Proof.
  unfold opens_with. rewrite existsb_exists. split; intros [k [Hk H]]; exists k; split; auto; now apply cert_eqb_eq.
Qed.

Lemma covers_b_iff ks w : covers_b ks w = true <-> covers ks w.
Proof.
  unfold covers_b, covers. rewrite forallb_forall. split; intros H c Hc; specialize (H c Hc); now apply opens_with_iff.
Qed.

Lemma is_nil_false {A} (l : list A) : negb (is_nil l) = true <-> l <> [].
Proof. destruct l; cbn; split; intro H; congruence. Qed.

Lemma has_advice_b_iff x : has_advice_b x = true <-> has_advice x.
Proof. unfold has_advice_b, has_advice. destruct (i_entry x); [tauto | apply is_nil_false]. Qed.

Lemma req_adv_b_iff x : req_adv_b x = true <-> req_adv x.
Proof. unfold req_adv_b, req_adv. destruct (i_entry x); [apply orb_true_iff | tauto]. Qed.

Lemma adv_distinct_b_iff x : adv_distinct_b x = true <-> adv_distinct x.
Proof.
  unfold adv_distinct_b, adv_distinct. rewrite forallb_forall.
  split; intros H s Hs; specialize (H s Hs); now apply negb_mem_iff.
Qed.

Lemma valid_advice_b_iff x : valid_advice_b x = true <-> valid_advice x.
Proof. unfold valid_advice_b, valid_advice. now rewrite forallb_forall. Qed.

Lemma in_force_b_iff x : in_force_b x = true <-> in_force x.
Proof.
  unfold in_force_b, in_force.
  rewrite !andb_true_iff, !orb_true_iff, andb_true_iff, !negb_true_iff.
  rewrite <- !avail_b_iff, <- req_adv_b_iff, <- has_advice_b_iff.
  destruct (ea x), (req_adv_b x), (has_advice_b x), (avail_b (rcpt_main x)), (avail_b (rcpt_adv x)); intuition congruence.
Qed.

(* ------------------------------------------------------------------------------------------------ *)
(* reflection, clause by clause *)
Lemma hidden_b_iff x o S : hidden_b x o S = true <-> hidden x o S.
Proof.
  unfold hidden_b, hidden. destruct (o_res o) as [|w].
  - split; [intros _ w Hw; discriminate | reflexivity].
  - rewrite andb_true_iff, !none_in_iff. split.
    + intros [H1 H2] w' Hw s Hs. inversion Hw; subst. split; auto.
    + intros H. split; intros s Hs; now apply (H w eq_refl s Hs).
Qed.

Lemma conf_main_b_iff x o : conf_main_b x o = true <-> conf_main x o.
Proof.
  unfold conf_main_b, conf_main. rewrite !orb_true_iff, !negb_true_iff, hidden_b_iff, <- avail_b_iff.
  destruct (ea x), (avail_b (rcpt_main x)); intuition congruence.
Qed.

Lemma conf_adv_b_iff x o : conf_adv_b x o = true <-> conf_adv x o.
Proof.
  unfold conf_adv_b, conf_adv.
  rewrite !orb_true_iff, !negb_true_iff, hidden_b_iff, <- avail_b_iff, <- req_adv_b_iff, <- has_advice_b_iff, <- adv_distinct_b_iff.
  destruct (req_adv_b x), (has_advice_b x), (avail_b (rcpt_adv x)), (adv_distinct_b x); intuition congruence.
Qed.

Lemma live_b_iff x o : live_b x o = true <-> live x o.
Proof.
  unfold live_b, live. rewrite orb_true_iff, negb_true_iff, <- in_force_b_iff.
  destruct (in_force_b x), (o_res o); intuition congruence.
Qed.

Lemma recovered_b_iff x r : recovered_b x r = true <-> exists l, r = Some (subj x, l) /\ same_atoms l (attr_atoms x).
Proof.
  unfold recovered_b. destruct r as [[s l]|].
  - rewrite andb_true_iff, String.eqb_eq, same_atoms_b_iff. split.
    + intros [-> H]. now exists l.
    + intros [l' [H1 H2]]. inversion H1; subst. auto.
  - split; [discriminate | intros [l [H _]]; discriminate].
Qed.

Lemma recover_b_iff x o : recover_b x o = true <-> recover x o.
Proof.
  unfold recover_b, recover.
  rewrite !orb_true_iff, !negb_true_iff, <- in_force_b_iff, <- valid_advice_b_iff.
  destruct (in_force_b x); [| split; [intros _ H; discriminate | auto]].
  destruct (valid_advice_b x); [| split; [intros _ _ H; discriminate | auto]].
  destruct (o_res o) as [|w].
  - split; [intros _ _ _ w Hw; discriminate | auto].
  - split.
    + intros [[H|H]|H]; try discriminate. intros _ _ w' Hw t r Hin Hd Hc Hwr Hwa. inversion Hw; subst w'.
      rewrite forallb_forall in H. specialize (H (t, r) Hin). cbn in H.
      rewrite !orb_true_iff, !andb_true_iff, !negb_true_iff in H.
      apply recovered_b_iff.
      destruct H as [[[[H|H]|H]|H]|H]; auto.
      * congruence.
      * apply covers_b_iff in Hc. congruence.
      * destruct H as [H1 H2]. rewrite (Hwr H1) in H2. discriminate.
      * destruct H as [H1 H2]. rewrite (Hwa H1) in H2. discriminate.
    + intros H. right. apply forallb_forall. intros [t r] Hin. cbn.
      specialize (H eq_refl eq_refl w eq_refl t r Hin).
      rewrite !orb_true_iff, !andb_true_iff, !negb_true_iff.
      destruct (t_damaged t) eqn:Ed; [auto|].
      destruct (covers_b (t_all t) w) eqn:Ec; [|auto].
      destruct (t_wr t) eqn:Ewr, (sr x) eqn:Esr; auto;
      destruct (t_wa t) eqn:Ewa, (sa x) eqn:Esa; auto;
      right; apply recovered_b_iff; apply H; auto; try (now apply covers_b_iff); congruence.
Qed.

Lemma nothing_more_b_iff x o : nothing_more_b x o = true <-> nothing_more x o.
Proof.
  unfold nothing_more_b, nothing_more. destruct (o_res o) as [|w].
  - split; [intros _ w Hw; discriminate | auto].
  - rewrite forallb_forall. split.
    + intros H w' Hw t r Hin s l Hr. inversion Hw; subst w'. specialize (H (t, r) Hin). cbn in H. subst r.
      rewrite andb_true_iff, incl_b_iff in H. destruct H as [H1 H2]. apply mem_In in H1. auto.
    + intros H [t r] Hin. cbn. destruct r as [[s l]|]; auto.
      destruct (H w eq_refl t _ Hin s l eq_refl) as [H1 H2].
      rewrite andb_true_iff, incl_b_iff. split; auto. now apply mem_In.
Qed.

Lemma spec_b_iff x o : spec_b x o = true <-> spec x o.
Proof.
  unfold spec_b, spec.
  rewrite !andb_true_iff, conf_main_b_iff, conf_adv_b_iff, live_b_iff, recover_b_iff, nothing_more_b_iff.
  tauto.
Qed.

(* ------------------------------------------------------------------------------------------------ *)
(* the SP model, for ANY wire term, any key type and any decryption oracle *)
Section AnyOracle.
  Variable key : Type.
  Variable can_open : key -> cert -> bool.
  Notation tk := (try_keys key can_open).

  Lemma open_adv_sound ks a xs :
    open_adv key can_open ks a = Some xs -> incl xs (adv_derivable (tk ks) a).
  Proof.
    destruct a as [ls|c l|]; cbn.
    - intros H; inversion H; subst. apply incl_refl.
    - destruct (tk ks c) eqn:E.
      + destruct (l_sig l); [| destruct (l_wf l) |]; intros H; inversion H; subst; apply incl_refl.
      + intros H; inversion H; subst. apply incl_nil_l.
    - intros H; inversion H; subst. apply incl_nil_l.
  Qed.

  Lemma read_asrt_sound ks wa a s l :
    read_asrt key can_open ks wa a = Some (s, l) ->
    In s (asrt_derivable (tk ks) a) /\ incl l (asrt_derivable (tk ks) a).
  Proof.
    unfold read_asrt. destruct (main_sig_ok wa a); [|discriminate].
    destruct (open_adv key can_open ks (a_adv a)) as [xs|] eqn:E; [|discriminate].
    intros H; inversion H; subst. unfold asrt_derivable. split; [now left|].
    apply open_adv_sound in E. intros y Hy. right.
    apply in_app_or in Hy. apply in_or_app. destruct Hy; [right; auto | now left].
  Qed.

  (* whatever the SP hands to the application can be read off the wire with the keys it holds *)
  Lemma sp_parse_sound ks wr wa w s l :
    sp_parse key can_open ks wr wa w = Some (s, l) ->
    In s (derivable (tk ks) w) /\ incl l (derivable (tk ks) w).
  Proof.
    unfold sp_parse, derivable. destruct (resp_sig_ok wr w); [|discriminate].
    destruct (w_top w) as [a|c a|]; [apply read_asrt_sound | | discriminate].
    destruct (tk ks c); [apply read_asrt_sound | discriminate].
  Qed.

  (* no identity at all when the assertion itself is encrypted and does not open, or is damaged *)
  Lemma sp_parse_hidden ks wr wa w :
    (w_top w = TopBad \/ exists c a, w_top w = TopEnc c a /\ tk ks c = false) ->
    sp_parse key can_open ks wr wa w = None.
  Proof.
    unfold sp_parse. destruct (resp_sig_ok wr w); auto.
    intros [H | [c [a [H E]]]]; rewrite H; auto. now rewrite E.
  Qed.

  Lemma sp_parse_damaged_top ks wr wa sg c a :
    sp_parse key can_open ks wr wa (damage (mkwire sg (TopEnc c a))) = None.
  Proof. apply sp_parse_hidden. now left. Qed.

  (* damage never lets the recipient learn more: the damaged advice yields no attribute *)
  Lemma damaged_advice_yields_nothing ks wr wa sg a c l s xs :
    a_adv a = AdvEnc c l ->
    sp_parse key can_open ks wr wa (damage (mkwire sg (TopPlain a))) = Some (s, xs) ->
    s = a_subj a /\ xs = a_attrs a.
  Proof.
    intros Ha. unfold damage. cbn. rewrite Ha. unfold sp_parse. cbn.
    destruct (resp_sig_ok wr _); [|discriminate]. unfold read_asrt. cbn.
    destruct (main_sig_ok wa _); [|discriminate]. intros H; inversion H; auto.
  Qed.
End AnyOracle.

(* ------------------------------------------------------------------------------------------------ *)
(* ideal encryption: a ciphertext made for certificate c opens with key k iff c is k's certificate *)
Section Ideal.
  Variable key : Type.
  Variable cert_of : key -> cert.
  Variable can_open : key -> cert -> bool.
  Hypothesis ideal : forall k c, can_open k c = true <-> c = cert_of k.
  Notation tk := (try_keys key can_open).

  Lemma try_keys_iff ks c : tk ks c = true <-> exists k, In k ks /\ c = cert_of k.
  Proof.
    unfold try_keys. rewrite existsb_exists. split; intros [k [Hk H]]; exists k; split; auto; now apply ideal.
  Qed.

  Lemma try_keys_wrong ks c : (forall k, In k ks -> cert_of k <> c) -> tk ks c = false.
  Proof.
    intros H. destruct (tk ks c) eqn:E; auto. apply try_keys_iff in E. destruct E as [k [Hk Hc]].
    exfalso. apply (H k Hk). now subst.
  Qed.

  (* wrong key: the encrypted assertion yields no identity *)
  Lemma wrong_key_no_identity ks wr wa sg c a :
    (forall k, In k ks -> cert_of k <> c) ->
    sp_parse key can_open ks wr wa (mkwire sg (TopEnc c a)) = None.
  Proof.
    intros H. apply sp_parse_hidden. right. exists c, a. split; auto. now apply try_keys_wrong.
  Qed.

  (* wrong key for the advice: the attributes inside it are not obtained *)
  Lemma wrong_key_no_advice ks wr wa sg a c l s xs :
    a_adv a = AdvEnc c l -> (forall k, In k ks -> cert_of k <> c) ->
    sp_parse key can_open ks wr wa (mkwire sg (TopPlain a)) = Some (s, xs) ->
    s = a_subj a /\ xs = a_attrs a.
  Proof.
    intros Ha Hk. unfold sp_parse. cbn. destruct (resp_sig_ok wr _); [|discriminate].
    unfold read_asrt. destruct (main_sig_ok wa a); [|discriminate]. rewrite Ha. cbn.
    rewrite (try_keys_wrong ks c Hk). intros H; inversion H; auto.
  Qed.
End Ideal.

(* the hypothesis is satisfiable: keys named like their certificates (the instance the correspondence uses) *)
Example ideal_named : forall k c, opens_named k c = true <-> c = Good k.
Proof. intros k c. unfold opens_named. apply cert_eqb_eq. Qed.

Lemma try_keys_named ks c : try_keys string opens_named ks c = opens_with ks c.
Proof. reflexivity. Qed.

(* ------------------------------------------------------------------------------------------------ *)
(* the IdP model outside the finding classes: shape of the result *)
Lemma first_good_none cs : first_good cs = None <-> avail_b cs = false.
Proof.
  unfold first_good, avail_b. induction cs as [|c cs IH]; cbn; [tauto|].
  destruct (is_good c); cbn; [split; discriminate | exact IH].
Qed.
Lemma first_good_some cs c : first_good cs = Some c -> In c cs /\ is_good c = true.
Proof. unfold first_good. intros H. apply find_some in H. exact H. Qed.
Lemma first_good_avail cs c : first_good cs = Some c -> avail_b cs = true.
Proof. intros H. destruct (avail_b cs) eqn:E; auto. apply first_good_none in E. congruence. Qed.
Lemma first_good_nil cs : is_nil cs = true -> first_good cs = None.
Proof. destruct cs; [reflexivity | discriminate]. Qed.

Lemma has_choose explicit m :
  (negb (is_nil (enc_certs m)) || is_some explicit) = negb (is_nil (choose explicit m)).
Proof. destruct explicit; cbn; [apply orb_true_r | apply orb_false_r]. Qed.

Definition enc_leaf (e : input) (l : bool * list atom) : leaf := mkleaf (sig_of (lsigned e)) (fst l) (snd l).
Definition main_of (e : input) (adv : advice) : asrt := mkasrt (sig_of (sa e)) (subj e) (attrs e) adv.
(* the assertion when it is not encrypted: signed iff it was in to_sign (sign_assertion and not encrypt_assertion) *)
Definition main_t (e : input) (adv : advice) : asrt :=
  mkasrt (sig_of (negb (ea e) && sa e)) (subj e) (attrs e) adv.
(* assertion encryption is not carried out: not requested, or no certificate at all *)
Definition ea_off (e : input) : Prop := ea e = false \/ is_nil (main_certs e) = true.
Definition adv_off (e : input) : Prop := adv_req e = false \/ is_nil (adv_certs e) = true.

Inductive shape (e : input) : result -> Prop :=
| ShPlain :
    ea_off e -> adv_off e ->
    shape e (Wire (mkwire (sig_of (sr e)) (TopPlain (main_t e (plain_adv e)))))
| ShAdv c2 l :
    ea_off e -> eadv e = true -> leaves e = [l] -> first_good (adv_certs e) = Some c2 ->
    shape e (Wire (mkwire (sig_of (sr e)) (TopPlain (main_t e (AdvEnc c2 (enc_leaf e l))))))
| ShMainPlain c :
    ea e = true -> first_good (main_certs e) = Some c -> adv_off e ->
    shape e (Wire (mkwire (sig_of (sr e)) (TopEnc c (main_of e (plain_adv e)))))
| ShMainAdv c c2 l :
    ea e = true -> first_good (main_certs e) = Some c ->
    eadv e = true -> leaves e = [l] -> first_good (adv_certs e) = Some c2 ->
    shape e (Wire (mkwire (sig_of (sr e)) (TopEnc c (main_of e (AdvEnc c2 (enc_leaf e l))))))
| ShErr :
    (ea e = true /\ avail_b (main_certs e) = false) \/ (adv_req e = true /\ avail_b (adv_certs e) = false) ->
    shape e Error.

Lemma response_shape e : guard_e e = true -> shape e (response e).
Proof.
  unfold guard_e, region3. intros Hg. apply negb_true_iff in Hg.
  unfold response. rewrite !has_choose. fold (main_certs e) (adv_certs e).
  assert (Hc : forall adv, part_c e adv =
            match first_good (main_certs e) with None => Error
            | Some c => Wire (mkwire (sig_of (sr e)) (TopEnc c (main_of e adv))) end) by reflexivity.
  assert (Hb : part_b e = match leaves e with
                          | [l] => match first_good (adv_certs e) with None => None
                                   | Some c => Some (AdvEnc c (enc_leaf e l)) end
                          | _ => None end) by reflexivity.
  fold (main_t e (plain_adv e)).
  destruct (ea e && negb (is_nil (main_certs e))) eqn:Eea'.
  - (* assertion encryption carried out *)
    apply andb_true_iff in Eea'. destruct Eea' as [Eea Enm]. cbn [orb].
    destruct (eadv e && negb (is_nil (adv_certs e)) && Nat.leb 1 (length (leaves e))) eqn:Eb.
    + (* part B runs *)
      apply andb_true_iff in Eb. destruct Eb as [Eb En]. apply andb_true_iff in Eb. destruct Eb as [Eeadv Ena].
      rewrite Hb. rewrite Eeadv in Hg. cbn [andb] in Hg.
      destruct (leaves e) as [|l [|l2 ls]] eqn:El; cbn in En, Hg; try discriminate.
      destruct (first_good (adv_certs e)) as [c2|] eqn:Ef2.
      * rewrite Hc. destruct (first_good (main_certs e)) as [c|] eqn:Ef.
        -- now apply ShMainAdv.
        -- apply ShErr. left. split; auto. now apply first_good_none.
      * apply ShErr. right. split; [unfold adv_req; now rewrite Eeadv, El | now apply first_good_none].
    + rewrite Hc. destruct (first_good (main_certs e)) as [c|] eqn:Ef.
      * apply ShMainPlain; auto. unfold adv_off, adv_req.
        destruct (eadv e); [|now left]. destruct (is_nil (adv_certs e)); [now right|]. left.
        cbn in Eb |- *. destruct (leaves e); [reflexivity | discriminate].
      * apply ShErr. left. split; auto. now apply first_good_none.
  - (* assertion encryption off *)
    assert (Hoff : ea_off e).
    { unfold ea_off. destruct (ea e); [right | now left]. cbn in Eea'. now apply negb_false_iff in Eea'. }
    cbn [orb].
    destruct (eadv e && negb (is_nil (adv_certs e)) && Nat.eqb (length (leaves e)) 1) eqn:Eb.
    + apply andb_true_iff in Eb. destruct Eb as [Eb En]. apply andb_true_iff in Eb. destruct Eb as [Eeadv Ena].
      rewrite Eeadv, Ena, Hb. cbn [andb].
      destruct (leaves e) as [|l [|l2 ls]] eqn:El; cbn in En; try discriminate. cbn [length Nat.leb].
      destruct (first_good (adv_certs e)) as [c2|] eqn:Ef2.
      * fold (main_t e (AdvEnc c2 (enc_leaf e l))). now apply ShAdv with (l := l).
      * apply ShErr. right. split; [unfold adv_req; now rewrite Eeadv, El | now apply first_good_none].
    + apply ShPlain; auto. unfold adv_off, adv_req.
      destruct (eadv e) eqn:Eeadv; [|now left]. destruct (is_nil (adv_certs e)); [now right|]. left.
      cbn in Eb, Hg |- *. destruct (leaves e) as [|l [|l2 ls]]; cbn in *; try reflexivity; discriminate.
Qed.

(* ------------------------------------------------------------------------------------------------ *)
(* raw call vs effective call *)
Lemma published_enc x : published x = enc_certs (md x).
Proof.
  unfold published, enc_certs. induction (md x) as [|[u c] m IH]; cbn; [reflexivity|].
  destruct u; cbn; now rewrite IH.
Qed.

Record bridge (x e : input) : Prop := mkbridge {
  b_sr : sr e = sr x; b_sa : sa e = sa x; b_ea : ea e = ea x;
  b_subj : subj e = subj x;
  b_rm : main_certs e = rcpt_main x;
  b_ra : adv_certs e = rcpt_adv x;
  b_main : attrs e = main_atoms x;
  b_adv : flat_map snd (leaves e) = adv_atoms x;
  b_req : eadv e = true <-> req_adv x;
  b_has : leaves e <> [] <-> has_advice x;
  b_valid : valid_advice x -> forall l, In l (leaves e) -> fst l = true \/ (adv_req e = true /\ lsigned e = false)
}.

Lemma enc_certs_flat m :
  enc_certs m = flat_map (fun uc : use * cert => match fst uc with USig => [] | _ => [snd uc] end) m.
Proof. unfold enc_certs. induction m as [|[u c] m IH]; cbn; [reflexivity|]. destruct u; cbn; now rewrite IH. Qed.

Lemma bridge_effective x : bridge x (effective x).
Proof.
  unfold effective. destruct x as [en sr0 sa0 ea0 eadv0 sc0 pf md0 ca cadv sj at0 lv].
  destruct en; [destruct pf|]; constructor; cbn;
    unfold main_certs, adv_certs, rcpt_main, rcpt_adv, main_atoms, adv_atoms, req_adv, has_advice, valid_advice,
           adv_req, lsigned, choose, published; cbn; try reflexivity; try tauto.
  all: try (match goal with |- match ?c with _ => _ end = _ => destruct c; [reflexivity | apply enc_certs_flat] end).
  all: try (now rewrite app_nil_r).
  - split; [reflexivity | discriminate].
  - intros _ l [H|[]]. subst l. right. split; [reflexivity | apply andb_false_r].
  - split; [now right | intros [H|H]; [discriminate | exact H]].
  - split; [intro H; now elim H | discriminate].
  - intros H l Hl. left. auto.
Qed.

Lemma in_existsb_cert c R : In c R -> existsb (cert_eqb c) R = true.
Proof. intros H. apply existsb_exists. exists c. split; auto. apply cert_eqb_refl. Qed.

Lemma exposed_topenc R sg c a : In c R -> exposed R (mkwire sg (TopEnc c a)) = [].
Proof. intros H. unfold exposed, derivable. cbn. now rewrite (in_existsb_cert c R H). Qed.

Lemma in_clear_topenc sg c a : in_clear (mkwire sg (TopEnc c a)) = [].
Proof. reflexivity. Qed.

Lemma bytes_nil x w : in_clear w = [] -> bytes_of x (Wire w) = [].
Proof. intros H. unfold bytes_of. rewrite H. induction (all_atoms x); cbn; auto. Qed.

Lemma avail_of_first_good cs c : first_good cs = Some c -> avail cs.
Proof. intros H. apply avail_b_iff. now apply first_good_avail with c. Qed.

Lemma avail_nil cs : is_nil cs = true -> ~ avail cs.
Proof. destruct cs; [intros _ [c [[] _]] | discriminate]. Qed.

Lemma ea_off_contra e : ea_off e -> ea e = true -> avail (main_certs e) -> False.
Proof. intros [H|H] Hea Hav; [congruence | exact (avail_nil _ H Hav)]. Qed.

Lemma adv_off_contra e : adv_off e -> adv_req e = true -> avail (adv_certs e) -> False.
Proof. intros [H|H] Hr Hav; [congruence | exact (avail_nil _ H Hav)]. Qed.

Section Main.
  Variables (x e : input) (ts : list trial).
  Hypothesis B : bridge x e.
  Hypothesis Hidp : idp x = response e.
  Hypothesis S : shape e (response e).
  Let o := model_obs x ts.

  Lemma obs_res : o_res o = response e.
  Proof. unfold o, model_obs. cbn. exact Hidp. Qed.

  Lemma adv_req_iff : adv_req e = true <-> req_adv x /\ has_advice x.
  Proof.
    unfold adv_req. rewrite andb_true_iff, is_nil_false, (b_req x e B), (b_has x e B). tauto.
  Qed.

  Lemma m_conf_main : conf_main x o.
  Proof.
    intros Hea Hav w Hw s Hs. rewrite obs_res in Hw.
    assert (Eb : o_bytes o = bytes_of x (Wire w)) by (unfold o, model_obs; cbn; now rewrite Hidp, Hw).
    rewrite <- (b_ea x e B) in Hea. rewrite <- (b_rm x e B) in Hav.
    inversion S as [E1 E2 Hr | c2 l E1 E2 E3 E4 Hr | c E1 E2 E3 Hr | c c2 l E1 E2 E3 E4 E5 Hr | E Hr];
      rewrite <- Hr in Hw; try discriminate; inversion Hw; subst w;
      try (exfalso; exact (ea_off_contra e E1 Hea Hav)).
    - rewrite Eb, bytes_nil by reflexivity. split; [intros []|].
      rewrite exposed_topenc; [intros []|]. unfold rcpt. apply in_or_app. left.
      rewrite <- (b_rm x e B). now apply first_good_some.
    - rewrite Eb, bytes_nil by reflexivity. split; [intros []|].
      rewrite exposed_topenc; [intros []|]. unfold rcpt. apply in_or_app. left.
      rewrite <- (b_rm x e B). now apply first_good_some.
  Qed.

  Lemma m_conf_adv : conf_adv x o.
  Proof.
    intros Hreq Hhas Hav Hdis w Hw s Hs. rewrite obs_res in Hw.
    assert (Eb : o_bytes o = bytes_of x (Wire w)) by (unfold o, model_obs; cbn; now rewrite Hidp, Hw).
    assert (Har : adv_req e = true) by (apply adv_req_iff; auto).
    rewrite <- (b_ra x e B) in Hav.
    inversion S as [E1 E2 Hr | c2 l E1 E2 E3 E4 Hr | c E1 E2 E3 Hr | c c2 l E1 E2 E3 E4 E5 Hr | E Hr];
      rewrite <- Hr in Hw; try discriminate; inversion Hw; subst w.
    - exfalso. exact (adv_off_contra e E2 Har Hav).
    - (* advice encrypted, assertion in clear *)
      assert (Hc2 : In c2 (rcpt x)).
      { unfold rcpt. apply in_or_app. right. rewrite <- (b_ra x e B). now apply first_good_some. }
      assert (Hns : ~ In s (subj e :: attrs e ++ [])%list).
      { rewrite app_nil_r, (b_subj x e B), (b_main x e B). now apply Hdis. }
      split.
      + rewrite Eb. unfold bytes_of. intros Hin. apply filter_In in Hin. destruct Hin as [_ Hm].
        apply mem_In in Hm. exact (Hns Hm).
      + unfold exposed, derivable, asrt_derivable. cbn. rewrite (in_existsb_cert c2 _ Hc2). cbn. exact Hns.
    - rewrite Eb, bytes_nil by reflexivity. split; [intros []|].
      rewrite exposed_topenc; [intros []|]. unfold rcpt. apply in_or_app. left.
      rewrite <- (b_rm x e B). now apply first_good_some.
    - rewrite Eb, bytes_nil by reflexivity. split; [intros []|].
      rewrite exposed_topenc; [intros []|]. unfold rcpt. apply in_or_app. left.
      rewrite <- (b_rm x e B). now apply first_good_some.
  Qed.

  Lemma in_force_e : in_force x ->
    (ea e = true \/ adv_req e = true) /\ (ea e = true -> avail (main_certs e)) /\ (adv_req e = true -> avail (adv_certs e)).
  Proof.
    intros [H1 [H2 H3]]. rewrite (b_ea x e B), (b_rm x e B), (b_ra x e B). split; [|split].
    - destruct H1 as [H1|H1]; [now left | right; now apply adv_req_iff].
    - exact H2.
    - intros H. apply adv_req_iff in H. now apply H3.
  Qed.

  Lemma m_live : live x o.
  Proof.
    intros Hf. apply in_force_e in Hf. destruct Hf as [_ [H2 H3]]. rewrite obs_res.
    inversion S as [E1 E2 Hr | c2 l E1 E2 E3 E4 Hr | c E1 E2 E3 Hr | c c2 l E1 E2 E3 E4 E5 Hr | E Hr]; try discriminate.
    exfalso. destruct E as [[E1 E2]|[E1 E2]]; apply avail_b_false in E2; auto.
  Qed.

  Lemma m_nothing_more : nothing_more x o.
  Proof.
    intros w Hw t r Hin s l Hr. rewrite obs_res in Hw.
    unfold o, model_obs in Hin. cbn in Hin. rewrite Hidp, Hw in Hin.
    apply in_map_iff in Hin. destruct Hin as [t' [Ht Hin]]. inversion Ht; subst t' r.
    unfold run_trial, sp_receive in H1. apply sp_parse_sound in H1. exact H1.
  Qed.
End Main.

Lemma sig_policy (b want ok : bool) :
  (want = true -> b = true) -> ok = true ->
  match sig_of b with Unsigned => negb want | Signed => ok | Broken => false end = true.
Proof. destruct b, want; cbn; intros H1 H2; auto; discriminate (H1 eq_refl). Qed.

Lemma flat_map_plain (lv : list (bool * list atom)) :
  flat_map l_attrs (map (fun l => mkleaf Unsigned (fst l) (snd l)) lv) = flat_map snd lv.
Proof. induction lv as [|l lv IH]; cbn; [reflexivity | now rewrite IH]. Qed.

Lemma forallb_plain (lv : list (bool * list atom)) :
  forallb l_wf (map (fun l => mkleaf Unsigned (fst l) (snd l)) lv) = forallb (fun l => fst l) lv.
Proof. induction lv as [|l lv IH]; cbn; [reflexivity | now rewrite IH]. Qed.

Lemma same_atoms_swap (a b : list atom) : same_atoms (a ++ b)%list (b ++ a)%list.
Proof. split; intros y Hy; apply in_app_or in Hy; apply in_or_app; tauto. Qed.

(* the recipient side of "recover", for any key type and decryption oracle that opens every ciphertext used *)
Section RecoverCore.
  Variable key : Type.
  Variable can_open : key -> cert -> bool.
  Variables (e : input) (ks : list key) (wr wa : bool) (w : wire).
  Hypothesis S : shape e (Wire w).
  Hypothesis Hany : ea e = true \/ adv_req e = true.
  Hypothesis Hm : ea e = true -> avail (main_certs e).
  Hypothesis Ha : adv_req e = true -> avail (adv_certs e).
  Hypothesis Hvalid : forall l, In l (leaves e) -> fst l = true \/ (adv_req e = true /\ lsigned e = false).
  Hypothesis Hwr : wr = true -> sr e = true.
  Hypothesis Hwa : wa = true -> sa e = true.
  Hypothesis Hopen : forall c, In c (certs_used w) -> try_keys key can_open ks c = true.

  Lemma enc_leaf_read l : In l (leaves e) ->
    match l_sig (enc_leaf e l) with
    | Unsigned => Some (l_attrs (enc_leaf e l))
    | Signed => if l_wf (enc_leaf e l) then Some (l_attrs (enc_leaf e l)) else None
    | Broken => None end = Some (snd l).
  Proof.
    intros Hl. unfold enc_leaf. cbn. destruct (lsigned e) eqn:Els; cbn; auto.
    destruct (Hvalid l Hl) as [Hwf|[_ Hwf]]; [now rewrite Hwf | congruence].
  Qed.

  Lemma recover_core :
    exists l, sp_parse key can_open ks wr wa w = Some (subj e, l)
              /\ same_atoms l (attrs e ++ flat_map snd (leaves e))%list.
  Proof.
    inversion S as [E1 E2 Hr | c2 l E1 E2 E3 E4 Hr | c E1 E2 E3 Hr | c c2 l E1 E2 E3 E4 E5 Hr | ]; subst w.
    - (* nothing in force *)
      exfalso. destruct Hany as [H|H]; [exact (ea_off_contra e E1 H (Hm H)) | exact (adv_off_contra e E2 H (Ha H))].
    - (* advice encrypted *)
      assert (Eea : ea e = false).
      { destruct (ea e) eqn:Eea; auto. exfalso. exact (ea_off_contra e E1 Eea (Hm eq_refl)). }
      unfold main_t. rewrite Eea. cbn [negb andb]. fold (main_of e (AdvEnc c2 (enc_leaf e l))).
      unfold sp_parse, resp_sig_ok. cbn [w_sig w_top main_of a_adv adv_schema_ok].
      rewrite (sig_policy (sr e) wr true Hwr eq_refl).
      unfold read_asrt, main_sig_ok. cbn [a_sig a_adv a_subj a_attrs main_of adv_schema_ok].
      rewrite (sig_policy (sa e) wa true Hwa eq_refl).
      cbn [open_adv]. rewrite (Hopen c2) by (cbn; now left).
      rewrite enc_leaf_read by (rewrite E3; now left).
      eexists. split; [reflexivity|]. rewrite E3. cbn. rewrite app_nil_r. apply same_atoms_swap.
    - (* assertion encrypted, advice (if any) plain inside it *)
      unfold sp_parse, resp_sig_ok. cbn [w_sig w_top].
      rewrite (sig_policy (sr e) wr true Hwr eq_refl).
      rewrite (Hopen c) by (cbn; now left).
      unfold read_asrt, main_sig_ok. cbn [a_sig a_adv a_subj a_attrs main_of].
      assert (Hwf : adv_schema_ok (plain_adv e) = true).
      { unfold plain_adv. cbn. rewrite forallb_plain. apply forallb_forall. intros l Hl.
        destruct (Hvalid l Hl) as [H|[H _]]; auto.
        exfalso. exact (adv_off_contra e E3 H (Ha H)). }
      rewrite (sig_policy (sa e) wa _ Hwa Hwf).
      unfold plain_adv. cbn [open_adv]. rewrite flat_map_plain.
      eexists. split; [reflexivity|]. apply same_atoms_swap.
    - (* both encrypted *)
      unfold sp_parse, resp_sig_ok. cbn [w_sig w_top].
      rewrite (sig_policy (sr e) wr true Hwr eq_refl).
      rewrite (Hopen c) by (cbn; now left).
      unfold read_asrt, main_sig_ok. cbn [a_sig a_adv a_subj a_attrs main_of adv_schema_ok].
      rewrite (sig_policy (sa e) wa true Hwa eq_refl).
      cbn [open_adv]. rewrite (Hopen c2) by (cbn; right; now left).
      rewrite enc_leaf_read by (rewrite E4; now left).
      eexists. split; [reflexivity|]. rewrite E4. cbn. rewrite app_nil_r. apply same_atoms_swap.
  Qed.
End RecoverCore.

Section Recover.
  Variables (x e : input) (ts : list trial).
  Hypothesis B : bridge x e.
  Hypothesis Hidp : idp x = response e.
  Hypothesis S : shape e (response e).
  Let o := model_obs x ts.

  Lemma m_recover : recover x o.
  Proof.
    intros Hf Hv w Hw t r Hin Hd Hc Hwr Hwa.
    assert (Hres : o_res o = response e) by (unfold o, model_obs; cbn; exact Hidp).
    rewrite Hres in Hw.
    unfold o, model_obs in Hin. cbn in Hin. rewrite Hidp, Hw in Hin.
    apply in_map_iff in Hin. destruct Hin as [t' [Ht Hin]]. inversion Ht; subst t'. clear Ht.
    unfold run_trial. rewrite Hd.
    pose proof (in_force_e x e B Hf) as [Hany [Hm Ha]].
    pose proof (b_valid x e B Hv) as Hvalid.
    rewrite <- (b_sr x e B) in Hwr. rewrite <- (b_sa x e B) in Hwa.
    unfold attr_atoms. rewrite <- (b_main x e B), <- (b_adv x e B), <- (b_subj x e B).
    rewrite Hw in S.
    unfold sp_receive. fold (t_all t).
    apply (recover_core string opens_named e (t_all t) (t_wr t) (t_wa t) w S Hany Hm Ha Hvalid Hwr Hwa).
    intros c Hcin. rewrite try_keys_named. apply opens_with_iff. now apply Hc.
  Qed.
End Recover.

(* ------------------------------------------------------------------------------------------------ *)
(* the property, for every call outside the finding classes and every set of recipients *)
Theorem spec_holds : forall x ts, guard x -> spec x (model_obs x ts).
Proof.
  intros x ts Hg. unfold guard in Hg.
  pose proof (bridge_effective x) as B.
  pose proof (response_shape (effective x) Hg) as S.
  assert (Hidp : idp x = response (effective x)) by reflexivity.
  unfold spec. refine (conj _ (conj _ (conj _ (conj _ _)))).
  - exact (m_conf_main x _ ts B Hidp S).
  - exact (m_conf_adv x _ ts B Hidp S).
  - exact (m_live x _ ts B Hidp S).
  - exact (m_recover x _ ts B Hidp S).
  - exact (m_nothing_more x _ ts Hidp).
Qed.

(* ------------------------------------------------------------------------------------------------ *)
(* headline statements *)

(* symbolic confidentiality: nothing that had to be secret occurs outside an encryption for the recipient *)
Theorem conf_symbolic : forall x w, guard x -> idp x = Wire w ->
  (ea x = true -> avail (rcpt_main x) -> forall s, In s (all_atoms x) -> ~ In s (exposed (rcpt x) w))
  /\ (req_adv x -> has_advice x -> avail (rcpt_adv x) -> adv_distinct x ->
      forall s, In s (adv_atoms x) -> ~ In s (exposed (rcpt x) w)).
Proof.
  intros x w Hg Hw. destruct (spec_holds x [] Hg) as [H1 [H2 _]]. split.
  - intros Hea Hav s Hs. now apply (H1 Hea Hav w Hw s Hs).
  - intros Hr Hh Hav Hd s Hs. now apply (H2 Hr Hh Hav Hd w Hw s Hs).
Qed.

Lemma derivable_mono (o1 o2 : cert -> bool) w :
  (forall c, o1 c = true -> o2 c = true) -> incl (derivable o1 w) (derivable o2 w).
Proof.
  intros H. unfold derivable, asrt_derivable.
  assert (Ha : forall a, incl (adv_derivable o1 a) (adv_derivable o2 a)).
  { intros [ls|c l|]; cbn; try apply incl_refl.
    destruct (o1 c) eqn:E; [rewrite (H c E); apply incl_refl | apply incl_nil_l]. }
  assert (Hs : forall a, incl (a_subj a :: a_attrs a ++ adv_derivable o1 (a_adv a))%list
                              (a_subj a :: a_attrs a ++ adv_derivable o2 (a_adv a))%list).
  { intros a y [Hy|Hy]; [now left|]. right. apply in_app_or in Hy. apply in_or_app.
    destruct Hy; [now left | right; now apply Ha]. }
  destruct (w_top w) as [a|c a|]; [apply Hs | | apply incl_refl].
  destruct (o1 c) eqn:E; [rewrite (H c E); apply Hs | apply incl_nil_l].
Qed.

(* ... hence against every holder of private keys none of which opens a certificate of the recipient *)
Theorem conf_against_outsiders :
  forall (key : Type) (can_open : key -> cert -> bool) (ks : list key) x w,
  guard x -> idp x = Wire w ->
  (forall k c, In k ks -> In c (rcpt x) -> can_open k c = false) ->
  (ea x = true -> avail (rcpt_main x) ->
     forall s, In s (all_atoms x) -> ~ In s (derivable (try_keys key can_open ks) w))
  /\ (req_adv x -> has_advice x -> avail (rcpt_adv x) -> adv_distinct x ->
     forall s, In s (adv_atoms x) -> ~ In s (derivable (try_keys key can_open ks) w)).
Proof.
  intros key can_open ks x w Hg Hw Hout.
  assert (Hincl : incl (derivable (try_keys key can_open ks) w) (exposed (rcpt x) w)).
  { apply derivable_mono. intros c Hc. apply negb_true_iff.
    destruct (existsb (cert_eqb c) (rcpt x)) eqn:E; auto.
    apply existsb_exists in E. destruct E as [c' [Hin Heq]]. apply cert_eqb_eq in Heq. subst c'.
    unfold try_keys in Hc. apply existsb_exists in Hc. destruct Hc as [k [Hk Ho]].
    rewrite (Hout k c Hk Hin) in Ho. discriminate. }
  destruct (conf_symbolic x w Hg Hw) as [H1 H2]. split.
  - intros Hea Hav s Hs Hd. exact (H1 Hea Hav s Hs (Hincl s Hd)).
  - intros Hr Hh Hav Hdi s Hs Hd. exact (H2 Hr Hh Hav Hdi s Hs (Hincl s Hd)).
Qed.

(* encryption in force: a Response is produced *)
Theorem live_holds : forall x, guard x -> in_force x -> idp x <> Error.
Proof. intros x Hg Hf. destruct (spec_holds x [] Hg) as [_ [_ [H _]]]. exact (H Hf). Qed.

(* the assertion itself was to be encrypted: it is, for a usable certificate of the recipient *)
Lemma main_encrypted : forall x w, guard x -> ea x = true -> avail (rcpt_main x) -> idp x = Wire w ->
  exists c a, w_top w = TopEnc c a /\ In c (rcpt_main x) /\ usable c.
Proof.
  intros x w Hg Hea Hav Hw. pose proof (bridge_effective x) as B.
  pose proof (response_shape (effective x) Hg) as S. unfold idp in Hw. rewrite Hw in S.
  rewrite <- (b_ea x _ B) in Hea. rewrite <- (b_rm x _ B) in Hav.
  inversion S as [E1 E2 Hr | c2 l E1 E2 E3 E4 Hr | c E1 E2 E3 Hr | c c2 l E1 E2 E3 E4 E5 Hr | ]; subst w;
    try (exfalso; exact (ea_off_contra _ E1 Hea Hav)).
  - exists c, (main_of (effective x) (plain_adv (effective x))). split; [reflexivity|].
    apply first_good_some in E2. destruct E2 as [Hin Hgd]. rewrite <- (b_rm x _ B). split; auto. now apply is_good_usable.
  - exists c, (main_of (effective x) (AdvEnc c2 (enc_leaf (effective x) l))). split; [reflexivity|].
    apply first_good_some in E2. destruct E2 as [Hin Hgd]. rewrite <- (b_rm x _ B). split; auto. now apply is_good_usable.
Qed.

Section IdealTheorems.
  Variable key : Type.
  Variable cert_of : key -> cert.
  Variable can_open : key -> cert -> bool.
  Hypothesis ideal : forall k c, can_open k c = true <-> c = cert_of k.

  (* the holder of the matching private keys recovers exactly what was issued, and the SP accepts,
     for every flag combination, certificate source and content outside the finding classes *)
  Theorem recover_ideal : forall x w ks wr wa,
    guard x -> in_force x -> valid_advice x -> idp x = Wire w ->
    (forall c, In c (certs_used w) -> exists k, In k ks /\ c = cert_of k) ->
    (wr = true -> sr x = true) -> (wa = true -> sa x = true) ->
    exists l, sp_parse key can_open ks wr wa w = Some (subj x, l) /\ same_atoms l (attr_atoms x).
  Proof.
    intros x w ks wr wa Hg Hf Hv Hw Hc Hwr Hwa.
    pose proof (bridge_effective x) as B.
    pose proof (response_shape (effective x) Hg) as S. unfold idp in Hw. rewrite Hw in S.
    pose proof (in_force_e x _ B Hf) as [Hany [Hm Ha]].
    pose proof (b_valid x _ B Hv) as Hvalid.
    rewrite <- (b_sr x _ B) in Hwr. rewrite <- (b_sa x _ B) in Hwa.
    unfold attr_atoms. rewrite <- (b_main x _ B), <- (b_adv x _ B), <- (b_subj x _ B).
    apply (recover_core key can_open (effective x) ks wr wa w S Hany Hm Ha Hvalid Hwr Hwa).
    intros c Hcin. apply (try_keys_iff key cert_of can_open ideal). now apply Hc.
  Qed.

  (* only a holder of the matching key: without it an encrypted assertion yields no identity at all *)
  Theorem wrongkey_ideal : forall x w ks wr wa,
    guard x -> ea x = true -> avail (rcpt_main x) -> idp x = Wire w ->
    (forall k c, In k ks -> In c (rcpt_main x) -> cert_of k <> c) ->
    sp_parse key can_open ks wr wa w = None.
  Proof.
    intros x w ks wr wa Hg Hea Hav Hw Hk.
    destruct (main_encrypted x w Hg Hea Hav Hw) as [c [a [Ht [Hin _]]]].
    apply sp_parse_hidden. right. exists c, a. split; auto.
    apply (try_keys_wrong key cert_of can_open ideal). intros k Hkin. now apply Hk.
  Qed.

  (* without the key of the advice certificate the attributes inside the advice are not obtained *)
  Theorem wrongkey_advice_ideal : forall x w ks wr wa s l,
    guard x -> idp x = Wire w ->
    (forall k c, In k ks -> In c (rcpt x) -> cert_of k <> c) ->
    req_adv x -> has_advice x -> avail (rcpt_adv x) -> adv_distinct x ->
    sp_parse key can_open ks wr wa w = Some (s, l) ->
    forall a, In a (adv_atoms x) -> ~ In a l.
  Proof.
    intros x w ks wr wa s l Hg Hw Hk Hr Hh Hav Hd Hsp a Ha Hal.
    apply sp_parse_sound in Hsp. destruct Hsp as [_ Hl].
    assert (Hout : forall k c, In k ks -> In c (rcpt x) -> can_open k c = false).
    { intros k c Hkin Hc. destruct (can_open k c) eqn:E; auto. apply ideal in E. exfalso. apply (Hk k c Hkin Hc). now subst. }
    destruct (conf_against_outsiders key can_open ks x w Hg Hw Hout) as [_ H2].
    exact (H2 Hr Hh Hav Hd a Ha (Hl a Hal)).
  Qed.

  (* damaged ciphertext / encrypted key: no identity *)
  Theorem damaged_ideal : forall x w ks wr wa,
    guard x -> ea x = true -> avail (rcpt_main x) -> idp x = Wire w ->
    sp_parse key can_open ks wr wa (damage w) = None.
  Proof.
    intros x w ks wr wa Hg Hea Hav Hw.
    destruct (main_encrypted x w Hg Hea Hav Hw) as [c [a [Ht _]]].
    destruct w as [sg tp]. cbn in Ht. subst tp. apply sp_parse_damaged_top.
  Qed.
  (* the same with the key list as SecurityContext.decrypt builds it: per-request keys, then configured keys *)
  Theorem recover_ideal_keys : forall x w hit req conf wr wa,
    guard x -> in_force x -> valid_advice x -> idp x = Wire w ->
    (forall c, In c (certs_used w) -> exists k, In k (key_list hit req conf) /\ c = cert_of k) ->
    (wr = true -> sr x = true) -> (wa = true -> sa x = true) ->
    exists l, sp_receive key can_open hit req conf wr wa w = Some (subj x, l) /\ same_atoms l (attr_atoms x).
  Proof. intros x w hit req conf wr wa. unfold sp_receive. apply recover_ideal. Qed.

  Theorem wrongkey_ideal_keys : forall x w hit req conf wr wa,
    guard x -> ea x = true -> avail (rcpt_main x) -> idp x = Wire w ->
    (forall k c, In k (key_list hit req conf) -> In c (rcpt_main x) -> cert_of k <> c) ->
    sp_receive key can_open hit req conf wr wa w = None.
  Proof. intros x w hit req conf wr wa. unfold sp_receive. apply wrongkey_ideal. Qed.

  (* a configured key that matches is enough whatever per-request keys are also supplied (and vice versa) *)
  Lemma key_list_conf hit (req conf : list key) k : In k conf -> In k (key_list hit req conf).
  Proof. unfold key_list. destruct hit; auto. intros H. apply in_or_app. now right. Qed.
  Lemma key_list_req (req conf : list key) k : In k req -> In k (key_list true req conf).
  Proof. intros H. apply in_or_app. now left. Qed.
End IdealTheorems.

(* whatever any recipient obtains from any (possibly damaged, possibly hostile) wire term is derivable from it
   with the keys held: stated for the correspondence instance in spec_holds, here for every oracle *)
Theorem obtained_is_derivable :
  forall (key : Type) (can_open : key -> cert -> bool) ks wr wa w s l,
  sp_parse key can_open ks wr wa w = Some (s, l) ->
  In s (derivable (try_keys key can_open ks) w) /\ incl l (derivable (try_keys key can_open ks) w).
Proof. intros. now apply sp_parse_sound with (wr := wr) (wa := wa). Qed.

(* ------------------------------------------------------------------------------------------------ *)
(* encryption requested, no certificate at all: has_encrypt_cert_in_metadata switches the request off;
   the assertion goes out in clear AND unsigned (to_sign was left empty because encryption was requested) *)
Theorem nocert_cleartext : forall x, ea x = true -> rcpt_main x = [] ->
  idp x = Error \/
  exists w a, idp x = Wire w /\ w_top w = TopPlain a /\ a_subj a = subj x /\ a_sig a = Unsigned.
Proof.
  intros x Hea Hn. pose proof (bridge_effective x) as B. set (e := effective x) in *.
  rewrite <- (b_ea x e B) in Hea. rewrite <- (b_rm x e B) in Hn. rewrite <- (b_subj x e B).
  unfold idp. fold e. unfold response. rewrite !has_choose. fold (main_certs e) (adv_certs e).
  rewrite Hea, Hn. cbn [negb andb orb is_nil].
  destruct (eadv e && negb (is_nil (adv_certs e)) && Nat.eqb (length (leaves e)) 1).
  - destruct (if eadv e && negb (is_nil (adv_certs e)) && Nat.leb 1 (length (leaves e)) then part_b e else Some (plain_adv e)) as [adv|];
      [right | now left].
    eexists. eexists. split; [reflexivity|]. cbn. auto.
  - right. eexists. eexists. split; [reflexivity|]. cbn. auto.
Qed.

(* class 3 is real: the faithful model violates the property there; classes 1 and 2 were real for the code
   before 316cbbe5 / a5d8e540 (idp_v0) and are gone now: the same calls satisfy the property *)
Definition ts0 : list trial := [mktrial ["sp"] false false false [] false].
Definition x_class1 : input :=   (* PEFIM, sign_assertion, Response unsigned, no assertion encryption *)
  mkinput Server false true false false true true [(UEnc, Good "sp")] None None "subject" ["value"] [].
Definition x_class2 : input :=   (* encrypt_assertion, not self-contained, assertion unsigned *)
  mkinput Server false false true false false false [(UEnc, Good "sp")] None None "subject" ["value"] [].
Definition x_class3 : input :=   (* two assertions in the Advice *)
  mkinput Entity false false false true true false [(UEnc, Good "sp")] None None "subject" ["value"]
          [(true, ["adv1"]); (true, ["adv2"])].

Lemma refute x o : spec_b x o = false -> ~ spec x o.
Proof. intros H Hs. apply spec_b_iff in Hs. congruence. Qed.

Theorem class1_v0_refuted :
  region1 (effective x_class1) = true /\ ~ spec x_class1 (model_obs_v0 x_class1 ts0)
  /\ guard x_class1 /\ spec x_class1 (model_obs x_class1 ts0).
Proof.
  split; [reflexivity|]. split; [apply refute; vm_compute; reflexivity|].
  split; [reflexivity | apply spec_b_iff; vm_compute; reflexivity].
Qed.
Theorem class2_v0_refuted :
  region2 (effective x_class2) = true /\ ~ spec x_class2 (model_obs_v0 x_class2 ts0)
  /\ guard x_class2 /\ spec x_class2 (model_obs x_class2 ts0).
Proof.
  split; [reflexivity|]. split; [apply refute; vm_compute; reflexivity|].
  split; [reflexivity | apply spec_b_iff; vm_compute; reflexivity].
Qed.
Theorem class3_refuted : region3 (effective x_class3) = true /\ ~ spec x_class3 (model_obs x_class3 ts0).
Proof. split; [reflexivity | apply refute; vm_compute; reflexivity]. Qed.

(* non-vacuity: a fully encrypted, signed PEFIM exchange satisfies every premise, and the recipient recovers *)
Definition x_good : input :=
  mkinput Server true true true false true true [(UEnc, Good "sp")] None (Some (Good "spenc2")) "subject" ["v1"; "v2"] [].
Example good_in_scope : guard x_good /\ in_force x_good /\ valid_advice x_good /\ adv_distinct x_good.
Proof.
  split; [reflexivity|]. split; [apply in_force_b_iff; reflexivity|].
  split; [apply valid_advice_b_iff; reflexivity | apply adv_distinct_b_iff; reflexivity].
Qed.
Example good_recovers :
  exists w, idp x_good = Wire w /\ certs_used w = [Good "sp"; Good "spenc2"]
  /\ sp_named ["spenc2"; "sp"] true true w = Some ("subject", ["v1"; "v2"])
  /\ sp_named ["sp"] true true w = Some ("subject", [])
  /\ sp_named ["spenc2"] true true w = None
  /\ sp_named ["sp"; "spenc2"] true true (damage w) = None
  /\ exposed (rcpt x_good) w = [].
Proof. eexists. repeat split. Qed.

(* ------------------------------------------------------------------------------------------------ *)
(* Options that come from the per-call argument, the IdP configuration or the defaults (Model.gather, Spec.requested) *)

(* an option whose signature default is None is exactly what was asked for: argument, else configuration, else default *)
Lemma pick_asked d o : sig_default d = None -> pick d o = asked (param_default d) o.
Proof. intros H. unfold pick, asked, kw_value. rewrite H. destruct (o_arg o); reflexivity. Qed.

(* the Server entry: encrypted_advice_attributes and encrypt_assertion_self_contained make no observable difference
   (an Advice exists there only under PEFIM, which forces both) — neither for the Response nor for what the property
   demands *)
Lemma server_eadv_sc_idp x e1 c1 e2 c2 : i_entry x = Server ->
  idp (with_flags x (sr x) (sa x) (ea x) e1 c1) = idp (with_flags x (sr x) (sa x) (ea x) e2 c2).
Proof.
  destruct x as [en sr0 sa0 ea0 eadv0 sc0 pf m ca cadv sj atv lv]. cbn. intros ->.
  unfold idp, effective, with_flags. cbn. destruct pf; [reflexivity|].
  unfold response. cbn. now rewrite !andb_false_r.
Qed.
Lemma server_guard x : i_entry x = Server -> guard x.
Proof.
  destruct x as [en sr0 sa0 ea0 eadv0 sc0 pf m ca cadv sj atv lv]. cbn. intros ->.
  unfold guard, guard_e, region3, effective. cbn. destruct pf; cbn; [reflexivity | now rewrite andb_false_r].
Qed.

Lemma model_obs_idp x y ts : idp x = idp y -> all_atoms x = all_atoms y -> model_obs x ts = model_obs y ts.
Proof. intros H1 H2. unfold model_obs, bytes_of. rewrite H1, H2. reflexivity. Qed.

(* the property for calls through the public API: whatever way the options are given (argument, None, configuration,
   nothing), what the model produces satisfies the property read on what was REQUESTED *)
Theorem spec_call_holds : forall k ts, guard (requested k) -> spec_call k (model_obs (gather k) ts).
Proof.
  intros [x [s|]] ts Hg; unfold spec_call; cbn in *; [|now apply spec_holds].
  unfold gather, gather_with. destruct (i_entry x) eqn:En; [|now apply spec_holds].
  rewrite !pick_asked by reflexivity. cbn [param_default code_defaults t_sr t_sa t_ea].
  set (a := asked false (s_sr s)). set (b := asked false (s_sa s)). set (c := asked false (s_ea s)).
  set (xr := with_flags x a b c (asked false (s_eadv s)) (asked true (s_sc s))).
  set (xg := with_flags x a b c (pick (t_eadv code_defaults) (s_eadv s)) (pick (t_sc code_defaults) (s_sc s))).
  assert (Er : i_entry xr = Server) by exact En.
  assert (Hi : idp xg = idp xr).
  { exact (server_eadv_sc_idp xr _ _ _ _ Er). }
  change (spec xr (model_obs xg ts)).
  rewrite (model_obs_idp xg xr ts Hi eq_refl). now apply spec_holds.
Qed.

(* ... and a request made in the configuration alone is a request: with a usable certificate of the recipient the
   assertion goes out encrypted *)
Theorem config_request_encrypts : forall x s w,
  i_entry x = Server -> o_arg (s_ea s) <> Passed false -> (o_arg (s_ea s) = Passed true \/ o_cfg (s_ea s) = Some true) ->
  avail (rcpt_main x) -> idp_call (x, Some s) = Wire w ->
  exists c a, w_top w = TopEnc c a /\ In c (rcpt_main x) /\ usable c.
Proof.
  intros x s w En Hnf Hreq Hav Hw. unfold idp_call, gather, gather_with in Hw. rewrite En in Hw.
  set (xg := with_flags x _ _ _ _ _) in Hw.
  assert (Eg : i_entry xg = Server) by exact En.
  apply (main_encrypted xg w (server_guard xg Eg)); auto.
  unfold xg, with_flags. cbn [ea]. rewrite pick_asked by reflexivity. unfold asked.
  destruct (o_arg (s_ea s)) as [| |[|]]; try reflexivity; try (now exfalso; apply Hnf);
    destruct Hreq as [Hq|Hq]; try discriminate; now rewrite Hq.
Qed.

(* the defaults matter: with the default of encrypt_assertion in the signature of create_authn_response set to False
   (instead of None) a request made in the IdP configuration is lost and the property fails on a concrete call *)
Definition k_config_only : call :=
  (mkinput Server false false false false true false [(UEnc, Good "sp")] None None "subject" ["value"] [],
   Some (mksrcs (mkopt NotPassed None) (mkopt NotPassed None) (mkopt NotPassed (Some true))
                (mkopt NotPassed None) (mkopt NotPassed None))).
Definition defaults_ea_false : deftab :=
  mkdeftab (t_sr code_defaults) (t_sa code_defaults) (mkoptdef (Some false) false) (t_eadv code_defaults) (t_sc code_defaults).
Theorem signature_default_matters :
  ea (requested k_config_only) = true /\ avail (rcpt_main (requested k_config_only))
  /\ spec_call k_config_only (model_obs (gather k_config_only) ts0)
  /\ ~ spec_call k_config_only (model_obs (gather_with defaults_ea_false k_config_only) ts0).
Proof.
  split; [reflexivity|]. split; [apply avail_b_iff; reflexivity|].
  split; [apply spec_b_iff; vm_compute; reflexivity | apply refute; vm_compute; reflexivity].
Qed.
