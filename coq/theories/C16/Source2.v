(* C16/Source2.v — tie of the hand-written model (C16/Model.v) to the source TEXT, translator v2.

   coq/gen/C16Src2.v is regenerated on every run by harness/c16.py:regenerate_tables (harness/py2coq2.py) from the
   CURRENT text of /repo/src/saml2.  Each theorem here says: the translated function, applied to the encoding of a model
   input, yields the encoding of what the model function it mirrors yields — for ALL inputs of the model's domain
   (induction for the loops), exceptions included.  External calls (metadata lookups, xmlsec1, XML object construction,
   other methods) are extra arguments of the translated definitions; what is assumed about them is stated as Section
   hypotheses, each Section has an Example that instantiates them.

     Entity.has_encrypt_cert_in_metadata   ~  the `has` switch of Model.response
     Server._authn_response                ~  Model.effective, to_sign (tsm of Model.response), argument routing
     SecurityContext.decrypt               ~  Model.try_keys over Model.key_list
     AuthnResponse.find_encrypt_data(_assertion) ~ "is there anything to decrypt" (case split of Model.sp_parse)
     AuthnResponse.decrypt_assertions      ~  signature check on decrypted assertions (Model.open_adv / main_sig_ok) *)
From Coq Require Import String Ascii List Bool ZArith Arith Lia.
From Verif Require Import Base.Str Base.Py Base.Py2 C16.Model.
From VerifGen Require Import C16Src2.
Import ListNotations.
Open Scope string_scope.

Ltac good := first [assumption | reflexivity].

(* ================================================================================================== *)
(* 1. Entity.has_encrypt_cert_in_metadata *)

(* the switch of Model.response, named *)
Definition has_cert (m : list (use * cert)) : bool := negb (is_nil (enc_certs m)).

(* Model.response is written with exactly this switch *)
Lemma response_uses_has_cert x :
  response x =
  (let tsm := negb (ea x) && sa x in
   let n := length (leaves x) in
   let padv := plain_adv x in
   let eadv' := eadv x && (has_cert (md x) || is_some (cert_adv x)) in
   let ea' := ea x && (has_cert (md x) || is_some (cert_asrt x)) in
   if ea' || (eadv' && Nat.eqb n 1) then
     match (if eadv' && Nat.leb 1 n then part_b x else Some padv) with
     | None => Error
     | Some adv =>
         if ea' then part_c x adv
         else Wire (mkwire (sig_of (sr x)) (TopPlain (mkasrt (sig_of tsm) (subj x) (attrs x) adv)))
     end
   else
     Wire (mkwire (sig_of (sr x)) (TopPlain (mkasrt (sig_of tsm) (subj x) (attrs x) padv)))).
Proof. reflexivity. Qed.

Section HasCert.
  Variable certs_ext : pyval -> pyval -> pyval -> pyval -> pyval.   (* self.metadata.certs(entity, descriptor, use) *)
  Variable self : pyval.
  Variable cert_text : cert -> string.                              (* the certificate as metadata carries it *)
  Variable m : list (use * cert).                                   (* KeyDescriptors of the SP *)

  (* MetaData.certs returns (key name, certificate) pairs *)
  Definition enc_cert_entry (c : cert) : pyval := PList [PNone; PStr (cert_text c)].

  Hypothesis certs_any_encryption : forall sp,
    certs_ext self (PStr sp) (PStr "any") (PStr "encryption") = PList (map enc_cert_entry (enc_certs m)).

  Definition enc_opt_str (o : option string) : pyval := match o with Some s => PStr s | None => PNone end.

  Theorem src2_has_encrypt_cert_is_model : forall sp,
    src2_has_encrypt_cert_in_metadata certs_ext self (enc_opt_str sp)
    = PBool (match sp with Some _ => has_cert m | None => false end).
  Proof.
    intros [s|]; unfold src2_has_encrypt_cert_in_metadata, has_cert; cbn [enc_opt_str]; [|reflexivity].
    cbn [p2_is_not_none s1 py_bind p2_branch py_truthy]. rewrite certs_any_encryption.
    destruct (enc_certs m) as [|c r]; reflexivity.
  Qed.
End HasCert.

Example has_cert_hypotheses_satisfiable :
  let m := [(UEnc, Good "sp"); (USig, Good "idp")] in
  let ct := fun c => match c with Good n => n | BadCert => "bad" end in
  let certs := fun _ _ _ _ : pyval => PList (map (enc_cert_entry ct) (enc_certs m)) in
  (forall sp, certs PNone (PStr sp) (PStr "any") (PStr "encryption") = PList (map (enc_cert_entry ct) (enc_certs m)))
  /\ src2_has_encrypt_cert_in_metadata certs PNone (PStr "sp") = PBool true.
Proof. split; reflexivity. Qed.

(* ================================================================================================== *)
(* 2. AuthnResponse.find_encrypt_data_assertion / find_encrypt_data: is there anything to decrypt *)

(* what the two functions look at: the Response's EncryptedAssertion elements (with / without EncryptedData) and, for
   every plain assertion, its Advice (None = no Advice) with the Advice's EncryptedAssertion elements *)
Record doc := mkdoc { d_enc : list bool; d_asrt : list (option (list bool)) }.

Definition adv_has (a : option (list bool)) : bool := match a with Some l => existsb (fun b => b) l | None => false end.
Definition doc_has_enc_data (d : doc) : bool := existsb (fun b => b) (d_enc d) || existsb adv_has (d_asrt d).

(* the model's wire as such a document; TopBad / AdvBad (damaged ciphertext) still carry an EncryptedData element *)
Definition doc_of_wire (w : wire) : doc :=
  match w_top w with
  | TopPlain a => mkdoc [] [match a_adv a with
                            | AdvPlain [] => None
                            | AdvPlain _ => Some []
                            | AdvEnc _ _ | AdvBad => Some [true]
                            end]
  | TopEnc _ _ | TopBad => mkdoc [true] []
  end.

(* the case split of Model.sp_parse: a decryption is attempted exactly for these wires *)
Definition wire_has_enc_data (w : wire) : bool :=
  match w_top w with
  | TopPlain a => match a_adv a with AdvPlain _ => false | _ => true end
  | _ => true
  end.

Lemma doc_of_wire_has w : doc_has_enc_data (doc_of_wire w) = wire_has_enc_data w.
Proof. destruct w as [s [a|c a|]]; try reflexivity. destruct a as [sg sb at_ [[|l ls]|c l|]]; reflexivity. Qed.

(* ... and when nothing is encrypted the recipient's keys play no role *)
Lemma sp_parse_plain_keys_irrelevant (key : Type) (can_open : key -> cert -> bool) ks ks' wr wa w :
  wire_has_enc_data w = false -> sp_parse key can_open ks wr wa w = sp_parse key can_open ks' wr wa w.
Proof.
  destruct w as [s [a|c a|]]; cbn; try discriminate. destruct a as [sg sb at_ [ls|c l|]]; cbn; try discriminate.
  reflexivity.
Qed.

Definition enc_ea (b : bool) : pyval :=
  PObj [("__class__", PStr "EncryptedAssertion");
        ("encrypted_data", if b then PObj [("__class__", PStr "EncryptedData")] else PNone)].
Definition enc_advice (l : list bool) : pyval :=
  PObj [("__class__", PStr "Advice"); ("encrypted_assertion", PList (map enc_ea l))].
Definition enc_plain_asrt (a : option (list bool)) : pyval :=
  PObj [("__class__", PStr "Assertion"); ("advice", match a with Some l => enc_advice l | None => PNone end)].
Definition enc_doc (d : doc) : pyval :=
  PObj [("__class__", PStr "Response"); ("encrypted_assertion", PList (map enc_ea (d_enc d)));
        ("assertion", PList (map enc_plain_asrt (d_asrt d)))].

(* find_encrypt_data_assertion answers True or (falling off the end) None *)
Theorem src2_find_encrypt_data_assertion_is_model : forall self bs,
  src2_find_encrypt_data_assertion self (PList (map enc_ea bs))
  = if existsb (fun b => b) bs then PBool true else PNone.
Proof.
  intros self bs. unfold src2_find_encrypt_data_assertion. rewrite p2_iter_check_list. cbn [py_bind py_iter2].
  match goal with |- context [pyfor2 _ _ ?B] => set (body := B) end.
  assert (Hb : forall b, body [] (enc_ea b) = if b then RetS (PBool true) else NextS []) by (intros []; reflexivity).
  clearbody body.
  assert (Hloop : pyfor2 (map enc_ea bs) [] body = if existsb (fun b => b) bs then RetS (PBool true) else NextS []).
  { induction bs as [|b r IH]; cbn [map pyfor2 existsb]; [reflexivity|]. rewrite Hb. destruct b; cbn [orb]; [reflexivity|exact IH]. }
  rewrite Hloop. destruct (existsb (fun b => b) bs); reflexivity.
Qed.

Theorem src2_find_encrypt_data_is_model : forall self d,
  src2_find_encrypt_data self (enc_doc d) = PBool (doc_has_enc_data d).
Proof.
  intros self [es asr]. unfold src2_find_encrypt_data, doc_has_enc_data. cbn [d_enc d_asrt].
  change (p2_attr (enc_doc (mkdoc es asr)) "encrypted_assertion") with (PList (map enc_ea es)).
  change (p2_attr (enc_doc (mkdoc es asr)) "assertion") with (PList (map enc_plain_asrt asr)).
  rewrite p2_iter_check_list. cbn [py_bind py_iter2].
  rewrite src2_find_encrypt_data_assertion_is_model.
  match goal with |- context [pyfor2 _ _ ?B] => set (body := B) end.
  assert (Hb : forall r0 a, body [r0] (enc_plain_asrt a)
                            = if adv_has a then RetS (PBool true)
                              else NextS [match a with Some (_ :: _) => PNone | _ => r0 end]).
  { intros r0 [[|b l]|]; try reflexivity. unfold body.
    change (p2_attr (enc_plain_asrt (Some (b :: l))) "advice") with (enc_advice (b :: l)).
    change (p2_attr (enc_advice (b :: l)) "encrypted_assertion") with (PList (map enc_ea (b :: l))).
    change (p2_branch (enc_advice (b :: l))) with BTrue.
    change (p2_branch (PList (map enc_ea (b :: l)))) with BTrue.
    cbn iota. cbn [py_bind]. rewrite src2_find_encrypt_data_assertion_is_model.
    unfold adv_has. destruct (existsb (fun b0 => b0) (b :: l)); reflexivity. }
  clearbody body.
  assert (Hloop : forall r0, exists r1,
             pyfor2 (map enc_plain_asrt asr) [r0] body = if existsb adv_has asr then RetS (PBool true) else NextS [r1]).
  { induction asr as [|a r IH]; intros r0; cbn [map pyfor2 existsb]; [exists r0; reflexivity|].
    rewrite Hb. destruct (adv_has a); cbn [orb]; [exists r0; reflexivity|apply IH]. }
  assert (Hrest : forall r0,
            match p2_branch (PList (map enc_plain_asrt asr)) with
            | BTrue => match pyfor2 (map enc_plain_asrt asr) [r0] body with
                       | NextS st => match st with [_] => PBool false | _ => PErr end
                       | BrkS _ => PErr
                       | RetS r => r
                       | ExcS n st => match st with [_] => PExc n | _ => PErr end
                       end
            | BFalse => PBool false
            | BExc n => PExc n
            | BErr => PErr
            end = PBool (existsb adv_has asr)).
  { intros r0. destruct asr as [|a r]; [reflexivity|]. change (p2_branch (PList (map enc_plain_asrt (a :: r)))) with BTrue.
    cbn iota. destruct (Hloop r0) as [r1 ->]. destruct (existsb adv_has (a :: r)); reflexivity. }
  destruct es as [|e es'].
  - cbn [map existsb orb]. change (p2_branch (PList [])) with BFalse. cbn iota beta. apply Hrest.
  - change (p2_branch (PList (map enc_ea (e :: es')))) with BTrue. cbn iota.
    destruct (existsb (fun b => b) (e :: es')); cbn [py_bind p2_branch py_truthy orb]; [reflexivity|]. apply Hrest.
Qed.

(* on the model's wire: find_encrypt_data is the case split of Model.sp_parse *)
Corollary src2_find_encrypt_data_on_wire : forall self w,
  src2_find_encrypt_data self (enc_doc (doc_of_wire w)) = PBool (wire_has_enc_data w).
Proof. intros. rewrite src2_find_encrypt_data_is_model, doc_of_wire_has. reflexivity. Qed.

(* ================================================================================================== *)
(* 3. SecurityContext.decrypt: every key in turn, per-request keys first, the first that opens wins *)

Definition nonempty (k : string) : bool := negb (is_empty k).

(* the key files the loop tries: the per-request ones (None when decrypt is called without), then the configured
   ones; empty entries are skipped (`if key`) *)
Definition keys_tried (kf : option (list string)) (conf : list string) : list string :=
  filter nonempty ((match kf with Some l => l | None => [] end) ++ conf).

Lemma listcomp_truthy_strs ks :
  listcomp_go (map PStr ks) (fun v => v) (fun v => v) = PList (map PStr (filter nonempty ks)).
Proof.
  induction ks as [|k r IH]; cbn [map listcomp_go filter]; [reflexivity|].
  cbn [p2_branch py_truthy]. unfold nonempty. destruct (is_empty k); cbn [negb]; [exact IH|].
  cbn [py_bind map]. rewrite IH. reflexivity.
Qed.

Section Decrypt.
  Variable crypto_decrypt : pyval -> pyval -> pyval.       (* self.crypto.decrypt(enctext, key_file) *)
  Variable ct : string.                                    (* the document with the EncryptedData *)
  Variable outcome : string -> option string.              (* xmlsec1 --decrypt with that key file: output text, or failure *)

  (* CryptoBackendXmlSec1.decrypt raises DecryptError when xmlsec1 fails *)
  Hypothesis crypto_decrypt_outcome : forall k,
    crypto_decrypt (PStr ct) (PStr k) = match outcome k with Some t => PStr t | None => PExc "DecryptError" end.

  (* a key opens the ciphertext when xmlsec1 succeeds AND prints something (`if dectext`) *)
  Definition opens (k : string) : bool := match outcome k with Some t => nonempty t | None => false end.
  Definition text_of (k : string) : string := match outcome k with Some t => t | None => "" end.

  Definition enc_sec (conf : list string) : pyval :=
    PObj [("__class__", PStr "SecurityContext"); ("enc_key_files", PList (map PStr conf))].
  Definition enc_kf (kf : option (list string)) : pyval :=
    match kf with Some l => PList (map PStr l) | None => PNone end.

  Ltac decrypt_loop ks :=
    let body := fresh "body" in let Hb := fresh "Hb" in let Hloop := fresh "Hloop" in
    rewrite listcomp_truthy_strs; cbn [py_bind]; rewrite p2_iter_check_list; cbn [py_bind py_iter2];
    match goal with |- context [pyfor2 _ _ ?B] => set (body := B) end;
    assert (Hb : forall kf0 d0 k, body [kf0; d0] (PStr k)
                 = match outcome k with
                   | Some t => if nonempty t then RetS (PStr t) else NextS [PStr k; PStr t]
                   | None => NextS [PStr k; d0]
                   end)
      by (intros kf0 d0 k; unfold body; cbn [py_bind]; rewrite crypto_decrypt_outcome;
          destruct (outcome k) as [t|]; [|reflexivity];
          cbn [py_bindS p2_bind p2_branch py_truthy]; unfold nonempty; destruct (is_empty t); reflexivity);
    clearbody body;
    assert (Hloop : forall ll kf0 d0, exists a b,
               pyfor2 (map PStr ll) [kf0; d0] body
               = match find opens ll with Some k => RetS (PStr (text_of k)) | None => NextS [a; b] end)
      by (intros ll; induction ll as [|k r IH]; intros kf0 d0; cbn [map pyfor2 find]; [exists kf0, d0; reflexivity|];
          rewrite Hb; unfold opens at 1; destruct (outcome k) as [t|] eqn:E;
          [destruct (nonempty t); [exists kf0, d0; unfold text_of; rewrite E; reflexivity|apply IH]|apply IH]);
    match goal with |- context [pyfor2 _ [?a0; ?b0] body] => destruct (Hloop ks a0 b0) as (a & b & ->) end;
    destruct (find opens ks); reflexivity.

  Theorem src2_decrypt_is_model : forall conf kf,
    src2_decrypt crypto_decrypt (enc_sec conf) (PStr ct) (enc_kf kf)
    = match find opens (keys_tried kf conf) with
      | Some k => PStr (text_of k)
      | None => PExc "DecryptError"
      end.
  Proof.
    intros conf [l|]; unfold src2_decrypt, keys_tried; cbv zeta; cbn [enc_kf].
    - change (p2_branch (p2_not (p2_isinstance (PList (map PStr l)) ["list"] []))) with BFalse. cbn iota.
      change (p2_attr (enc_sec conf) "enc_key_files") with (PList (map PStr conf)). cbn [py_bind].
      change (p2_add (p2_list (PList (map PStr l))) (p2_list (PList (map PStr conf))))
        with (PList (map PStr l ++ map PStr conf)).
      rewrite p2_listcomp_list, <- map_app.
      decrypt_loop (filter nonempty (l ++ conf)).
    - change (p2_branch (p2_not (p2_isinstance PNone ["list"] []))) with BTrue. cbn iota.
      change (p2_mklist [PNone]) with (PList [PNone]). cbn [py_bind].
      change (p2_attr (enc_sec conf) "enc_key_files") with (PList (map PStr conf)). cbn [py_bind].
      change (p2_add (p2_list (PList [PNone])) (p2_list (PList (map PStr conf))))
        with (PList (PNone :: map PStr conf)).
      rewrite p2_listcomp_list. cbn [listcomp_go p2_branch py_truthy app].
      decrypt_loop (filter nonempty conf).
  Qed.

  (* in the model's terms (Model.try_keys over Model.key_list): with non-empty key file names, decrypt_keys hands over
     the per-request keys (hit) or the empty list, and a plaintext comes back iff one of the keys opens *)
  Corollary src2_decrypt_try_keys : forall (c : cert) (hit : bool) (req conf : list string),
    forallb nonempty (req ++ conf)%list = true ->
    (exists t, src2_decrypt crypto_decrypt (enc_sec conf) (PStr ct) (enc_kf (Some (if hit then req else []))) = PStr t
               /\ try_keys string (fun k _ => opens k) (key_list hit req conf) c = true)
    \/ (src2_decrypt crypto_decrypt (enc_sec conf) (PStr ct) (enc_kf (Some (if hit then req else []))) = PExc "DecryptError"
        /\ try_keys string (fun k _ => opens k) (key_list hit req conf) c = false).
  Proof.
    intros c hit req conf Hne. rewrite src2_decrypt_is_model. unfold keys_tried, key_list, try_keys.
    assert (Hf : filter nonempty ((if hit then req else []) ++ conf)%list = (if hit then (req ++ conf)%list else conf)).
    { assert (Hall : forall l, forallb nonempty l = true -> filter nonempty l = l).
      { induction l as [|k r IH]; cbn [forallb filter]; [reflexivity|]. intros H. apply andb_true_iff in H as [H1 H2].
        rewrite H1, IH by exact H2. reflexivity. }
      destruct hit; [apply Hall, Hne|]. cbn [app]. apply Hall. rewrite forallb_app in Hne.
      apply andb_true_iff in Hne as [_ H]. exact H. }
    rewrite Hf. set (ks := if hit then (req ++ conf)%list else conf).
    destruct (find opens ks) as [k|] eqn:E.
    - left. exists (text_of k). split; [reflexivity|]. apply find_some in E as [Hin Ho].
      apply existsb_exists. exists k. split; assumption.
    - right. split; [reflexivity|]. destruct (existsb (fun k => opens k) ks) eqn:Ex; [|reflexivity].
      apply existsb_exists in Ex as (k & Hin & Ho). apply (find_none _ _ E) in Hin. congruence.
  Qed.
End Decrypt.

Example decrypt_hypotheses_satisfiable :
  let outcome := fun k => if String.eqb k "sp.key" then Some "<Response/>" else None in
  let dec := fun _ k : pyval => match k with
                                | PStr s => match outcome s with Some t => PStr t | None => PExc "DecryptError" end
                                | _ => PErr end in
  (forall k, dec (PStr "doc") (PStr k) = match outcome k with Some t => PStr t | None => PExc "DecryptError" end)
  /\ src2_decrypt dec (enc_sec ["other.key"; "sp.key"]) (PStr "doc") (enc_kf (Some ["req.key"])) = PStr "<Response/>"
  /\ src2_decrypt dec (enc_sec ["other.key"]) (PStr "doc") (enc_kf None) = PExc "DecryptError".
Proof. split; [reflexivity|split; reflexivity]. Qed.

(* ================================================================================================== *)
(* 4. AuthnResponse.decrypt_assertions: the signature check on decrypted assertions *)

(* a decrypted assertion passes when it carries no signature, when the caller says the signatures were verified
   already, or when its signature verifies (which includes the schema check: l_wf) *)
Definition leaf_passes (verified : bool) (l : leaf) : bool :=
  match l_sig l with Unsigned => true | Signed => verified || l_wf l | Broken => verified end.

Definition decrypt_assertions_model (verified : bool) (eas : list (list leaf)) : option (list leaf) :=
  if forallb (forallb (leaf_passes verified)) eas then Some (concat eas) else None.

(* Model.open_adv, for an advice ciphertext that one of the keys opens, is this check with verified = False
   (parse_assertion calls decrypt_assertions(tmp_ass.advice.encrypted_assertion, decr_text, tmp_ass.issuer)) *)
Lemma open_adv_is_decrypt_assertions (key : Type) (can_open : key -> cert -> bool) ks c l :
  try_keys key can_open ks c = true ->
  open_adv key can_open ks (AdvEnc c l)
  = match decrypt_assertions_model false [[l]] with Some ls => Some (flat_map l_attrs ls) | None => None end.
Proof.
  intros H. unfold open_adv, decrypt_assertions_model, leaf_passes. rewrite H. cbn [forallb andb orb concat app flat_map].
  destruct l as [[| |] wf at_]; cbn [l_sig l_wf l_attrs]; try destruct wf; cbn [andb flat_map l_attrs]; rewrite ?app_nil_r; reflexivity.
Qed.

Section DecryptAssertions.
  Variable ee2e : pyval -> pyval.                                   (* extension_elements_to_elements(.., [saml, samlp]) *)
  Variable check_sig : pyval -> pyval -> pyval -> pyval -> pyval.   (* self.sec.check_signature(item, origdoc=, node_name=, issuer=) *)
  Variable class_name_ext : pyval -> pyval.
  Variable raises : leaf -> bool.          (* a failing check raises SignatureError (what the real one does) or answers False *)

  Definition sig_field (l : leaf) : pyval :=
    match l_sig l with Unsigned => PNone | _ => PObj [("__class__", PStr "Signature")] end.
  Definition enc_sigst (s : sigst) : pyval := PStr (match s with Unsigned => "U" | Signed => "S" | Broken => "B" end).
  Definition enc_dleaf (l : leaf) : pyval :=
    PObj [("__class__", PStr "Assertion"); ("signature", sig_field l); ("sig", enc_sigst (l_sig l));
          ("wf", PBool (l_wf l)); ("attrs", PList (map PStr (l_attrs l)))].
  Definition enc_ext (l : leaf) : pyval := PObj [("__class__", PStr "ExtensionElement"); ("element", enc_dleaf l)].
  Definition enc_dea (ls : list leaf) : pyval :=
    PObj [("__class__", PStr "EncryptedAssertion"); ("extension_elements", PList (map enc_ext ls))].

  Hypothesis ee2e_elements : forall ls, ee2e (PList (map enc_ext ls)) = PList (map enc_dleaf ls).
  Hypothesis class_name_good : forall v, is_bad (class_name_ext v) = false.
  Hypothesis check_sig_outcome : forall l txt node iss,
    is_bad node = false -> is_bad iss = false ->
    check_sig (enc_dleaf l) (PStr txt) node iss
    = if match l_sig l with Signed => l_wf l | _ => false end then enc_dleaf l
      else if raises l then PExc "SignatureError" else PBool false.

  Theorem src2_decrypt_assertions_is_model : forall self eas txt iss verified,
    is_bad iss = false ->
    src2_decrypt_assertions ee2e check_sig class_name_ext self (PList (map enc_dea eas)) (PStr txt) iss (PBool verified)
    = match decrypt_assertions_model verified eas with
      | Some ls => PList (map enc_dleaf ls)
      | None => PExc "SignatureError"
      end.
  Proof.
    intros self eas txt iss verified Hiss. unfold src2_decrypt_assertions, decrypt_assertions_model.
    cbv zeta. rewrite p2_iter_check_list. cbn [py_bind py_iter2].
    match goal with |- context [pyfor2 _ _ ?B] => set (obody := B) end.
    assert (Hob : forall a acc ls, exists s1 s2,
               obody [a; PList acc] (enc_dea ls)
               = if forallb (leaf_passes verified) ls then NextS [s1; PList (acc ++ map enc_dleaf ls)]
                 else ExcS "SignatureError" [s1; s2]).
    { intros a acc [|l0 ls0].
      { exists a, PNone. cbn [map forallb]. rewrite app_nil_r. reflexivity. }
      set (ls := l0 :: ls0). unfold obody.
      change (p2_attr (enc_dea ls) "extension_elements") with (PList (map enc_ext ls)).
      change (p2_branch (PList (map enc_ext ls))) with BTrue. cbn iota. cbn [py_bind].
      change (p2_mklist [PNone; PNone]) with (PList [PNone; PNone]). cbn [py_bind].
      rewrite ee2e_elements. cbn [py_bindS p2_bind]. rewrite p2_iter_check_list. cbn [py_bindS p2_bind py_iter2].
      clearbody ls. clear l0 ls0.
      match goal with |- context [pyfor2 _ _ ?B] => set (ibody := B) end.
      assert (Hib : forall acc0 l,
                 ibody [PList acc0] (enc_dleaf l)
                 = if leaf_passes verified l then NextS [PList (acc0 ++ [enc_dleaf l])]
                   else ExcS "SignatureError" [PList acc0]).
      { intros acc0 l. unfold ibody, leaf_passes. cbv beta iota.
        change (p2_attr (enc_dleaf l) "signature") with (sig_field l).
        rewrite ?(py_bind_good (enc_dleaf l)) by reflexivity. rewrite ?(py_bind_good (PStr txt)) by reflexivity.
        rewrite ?(py_bind_good (enc_dleaf l)) by reflexivity.
        rewrite (py_bind_good (class_name_ext _)) by apply class_name_good.
        rewrite (py_bind_good iss) by exact Hiss.
        rewrite check_sig_outcome by (apply class_name_good || exact Hiss).
        unfold sig_field.
        destruct l as [sg wf at_]; cbn [l_sig l_wf]. destruct sg, verified; try reflexivity;
          try (destruct wf; try reflexivity; destruct (raises _); reflexivity). }
      clearbody ibody.
      assert (Hil : forall l acc0, exists s,
                 pyfor2 (map enc_dleaf l) [PList acc0] ibody
                 = if forallb (leaf_passes verified) l then NextS [PList (acc0 ++ map enc_dleaf l)]
                   else ExcS "SignatureError" [s]).
      { induction l as [|x r IH]; intros acc0; cbn [map pyfor2 forallb].
        - exists PNone. rewrite app_nil_r. reflexivity.
        - rewrite Hib. destruct (leaf_passes verified x); cbn [andb].
          + destruct (IH (acc0 ++ [enc_dleaf x])%list) as [s Hs]. exists s. rewrite Hs, <- app_assoc. reflexivity.
          + exists (PList acc0). reflexivity. }
      destruct (Hil ls acc) as [s ->]. exists (PList (map enc_dleaf ls)), s.
      destruct (forallb (leaf_passes verified) ls); reflexivity. }
    clearbody obody.
    assert (Hol : forall l a acc, exists s1 s2,
               pyfor2 (map enc_dea l) [a; PList acc] obody
               = if forallb (forallb (leaf_passes verified)) l then NextS [s1; PList (acc ++ map enc_dleaf (concat l))]
                 else ExcS "SignatureError" [s1; s2]).
    { induction l as [|x r IH]; intros a acc; cbn [map pyfor2 forallb concat].
      - exists a, PNone. rewrite app_nil_r. reflexivity.
      - destruct (Hob a acc x) as (s1 & s2 & ->). destruct (forallb (leaf_passes verified) x); cbn [andb].
        + destruct (IH s1 (acc ++ map enc_dleaf x)%list) as (t1 & t2 & Ht). exists t1, t2. rewrite Ht, map_app, app_assoc. reflexivity.
        + exists s1, s2. reflexivity. }
    destruct (Hol eas PErr []) as (s1 & s2 & ->).
    destruct (forallb (forallb (leaf_passes verified)) eas); reflexivity.
  Qed.
End DecryptAssertions.

Example decrypt_assertions_hypotheses_satisfiable :
  let raises := fun _ : leaf => true in
  let ee2e := fun v => match v with
                       | PList l => PList (map (fun e => p2_attr e "element") l)
                       | _ => PErr end in
  let cn := fun _ : pyval => PStr "urn:oasis:names:tc:SAML:2.0:assertion:Assertion" in
  let chk := fun item _ _ _ : pyval =>
               match p2_attr item "sig", p2_attr item "wf" with
               | PStr "S", PBool true => item
               | _, _ => PExc "SignatureError"
               end in
  (forall ls, ee2e (PList (map enc_ext ls)) = PList (map enc_dleaf ls))
  /\ (forall l txt node iss, chk (enc_dleaf l) (PStr txt) node iss
        = if match l_sig l with Signed => l_wf l | _ => false end then enc_dleaf l
          else if raises l then PExc "SignatureError" else PBool false)
  /\ src2_decrypt_assertions ee2e chk cn PNone (PList [enc_dea [mkleaf Signed true ["v"]]]) (PStr "doc") PNone (PBool false)
     = PList [enc_dleaf (mkleaf Signed true ["v"])]
  /\ src2_decrypt_assertions ee2e chk cn PNone (PList [enc_dea [mkleaf Broken true ["v"]]]) (PStr "doc") PNone (PBool false)
     = PExc "SignatureError".
Proof.
  split; [|split; [|split; reflexivity]].
  - intros ls. cbn beta iota. f_equal. induction ls as [|l r IH]; [reflexivity|]. cbn [map]. rewrite <- IH. reflexivity.
  - intros [[| |] [|] at_] txt node iss; reflexivity.
Qed.

(* ================================================================================================== *)
(* 5. Server._authn_response: the PEFIM arm (Model.effective), to_sign (tsm of Model.response), and which value
      goes into which argument of Entity._response *)

Lemma p2_or_good_good a b : is_bad a = false -> is_bad b = false -> is_bad (p2_or a b) = false.
Proof. intros Ha Hb. rewrite p2_or_good by exact Ha. destruct (py_truthy a); assumption. Qed.

Lemma p2_branch_or_bools a b : p2_branch (p2_or (PBool a) (PBool b)) = if a || b then BTrue else BFalse.
Proof. destruct a, b; reflexivity. Qed.

(* an Assertion object with the field list f *)
Definition asrt_obj (f : list (string * pyval)) : pyval := PObj (("__class__", PStr "Assertion") :: f).

Lemma setattr_asrt f name v :
  name <> "__class__" -> is_bad v = false -> p2_setattr (asrt_obj f) name v = asrt_obj (set_assoc name v f).
Proof. intros Hn Hv. apply p2_setattr_obj; assumption. Qed.

Definition enc_atoms (l : list atom) : pyval := PList (map PStr l).

(* arguments that _authn_response only hands on *)
Record passthru := mkpass {
  p_nid : pyval; p_status : pyval; p_authn : pyval; p_issuer : pyval; p_policy : pyval; p_be : pyval;
  p_astmt : pyval; p_salg : pyval; p_dalg : pyval; p_farg : pyval; p_snoa : pyval }.
Definition pass_good (p : passthru) : Prop :=
  is_bad (p_nid p) = false /\ is_bad (p_status p) = false /\ is_bad (p_authn p) = false /\ is_bad (p_issuer p) = false /\
  is_bad (p_policy p) = false /\ is_bad (p_be p) = false /\ is_bad (p_astmt p) = false /\ is_bad (p_salg p) = false /\
  is_bad (p_dalg p) = false /\ is_bad (p_farg p) = false /\ is_bad (p_snoa p) = false.

Section AuthnResponse.
  (* External calls.  Those whose RESULT the function goes on working with are given as arbitrary constructors of
     objects (any ID, any further fields); the three whose result is dropped or returned are arbitrary functions. *)
  Variable issuer_f : pyval -> list (string * pyval).   (* self._issuer(issuer): an Issuer object *)
  Variable aid : pyval -> string.                       (* self.setup_assertion(args): ID of the Assertion it builds *)
  Variable afields : pyval -> list (string * pyval).    (* ... and its other fields *)
  Variable advice_f : list (string * pyval).            (* saml.Advice() *)
  Variable presig_f : pyval -> list (string * pyval).   (* pre_signature_part(id, cert, 2, sign_alg=, digest_alg=) *)
  Variable cn : pyval -> string.                        (* class_name(x) *)
  Variable adv_append : pyval -> pyval -> pyval.        (* assertion.advice.assertion.append(x): external effect *)
  Variables aidr aq : bool.                             (* self.support_AssertionIDRequest(), self.support_AuthnQuery() *)
  Variable store_ext : pyval -> pyval -> pyval.         (* self.session_db.store_assertion(assertion, to_sign) *)
  Variable response_ext : pyval -> pyval.               (* self._response(6 positional + the keywords of harness RESPONSE_KW) *)
  Variable cert_text : cert -> string.
  Variables salg dalg mycert : string.                  (* the server's configured algorithms and signing certificate *)
  Variables irt url sp : string.
  Variable p : passthru.
  Hypothesis p_good : pass_good p.

  Definition issuer_ext (v : pyval) : pyval := PObj (("__class__", PStr "Issuer") :: issuer_f v).
  Definition built (a : pyval) : list (string * pyval) := ("id", PStr (aid a)) :: afields a.
  Definition setup_ext (a : pyval) : pyval := asrt_obj (built a).
  Definition advice_ext : pyval := PObj (("__class__", PStr "Advice") :: advice_f).
  Definition presig_ext (a : pyval) : pyval := PObj (("__class__", PStr "Signature") :: presig_f a).
  Definition class_name_ext (v : pyval) : pyval := PStr (cn v).

  Definition enc_server : pyval :=
    PObj [("__class__", PStr "Server"); ("signing_algorithm", PStr salg); ("digest_algorithm", PStr dalg);
          ("sec", PObj [("__class__", PStr "SecurityContext"); ("my_cert", PStr mycert)])].
  Definition enc_optcert (o : option cert) : pyval := match o with Some c => PStr (cert_text c) | None => PNone end.

  Definition the_issuer : pyval := issuer_ext (p_issuer p).

  (* arguments of setup_assertion for the main assertion (e = Model.effective x) *)
  Definition main_args (e : input) (px : bool) : pyval :=
    PList [p_authn p; PStr sp; PStr irt; PStr url; p_nid p; p_policy p; the_issuer; p_astmt p; enc_atoms (attrs e);
           (if px then PBool true else p_be p); PBool (sr e); p_farg p; p_snoa p].
  (* ... and for an advice assertion l = (has Issuer, attribute values) of Model.effective x *)
  Definition adv_args (e : input) (l : bool * list atom) : pyval :=
    PList [PNone; PStr sp; PNone; PNone; PNone; p_policy p; (if fst l then the_issuer else PNone); PNone;
           enc_atoms (snd l); p_be p; PBool (sr e); p_farg p; PNone].

  (* from `to_sign = []` on: A = fields of the main assertion, mid = its ID *)
  Definition finish (e : input) (A : list (string * pyval)) (mid : string) : pyval :=
    let tsm := negb (ea e) && sa e in
    let salg' := if tsm then p2_or (p_salg p) (PStr salg) else p_salg p in
    let dalg' := if tsm then p2_or (p_dalg p) (PStr dalg) else p_dalg p in
    let A' := if tsm then set_assoc "signature" (presig_ext (PList [PStr mid; PStr mycert; PInt 2; salg'; dalg'])) A else A in
    let ts := if tsm then PList [PList [class_name_ext (asrt_obj A'); PStr mid]] else PList [] in
    let call := response_ext (PList [PStr irt; PStr url; p_status p; p_issuer p; PBool (sr e); ts; PStr sp; PBool (ea e);
                                     enc_optcert (cert_adv e); enc_optcert (cert_asrt e); PBool (sc e); PBool (eadv e);
                                     PBool (sa e); PBool (pefim e); salg'; dalg'; asrt_obj A']) in
    if aidr || aq then py_bind (store_ext (asrt_obj A') ts) (fun _ => call) else call.

  Definition authn_response_model (x : input) : pyval :=
    let e := effective x in
    let a := main_args e (pefim x) in
    match leaves e with
    | [] => finish e (built a) (aid a)
    | [l] => let A := set_assoc "advice" advice_ext (built a) in
             py_bind (adv_append (asrt_obj A) (asrt_obj (built (adv_args e l)))) (fun _ => finish e A (aid a))
    | _ => PErr
    end.

  Lemma enc_optcert_good o : is_bad (enc_optcert o) = false.
  Proof. destruct o; reflexivity. Qed.

  (* a good value binds like a `let`; as an equation between FUNCTIONS it also rewrites occurrences under binders *)
  Lemma py_bind_good_fun e : is_bad e = false -> py_bind e = (fun k => k e).
  Proof. destruct e; cbn; intros H; try reflexivity; discriminate. Qed.

  Theorem src2_authn_response_is_model : forall x, i_entry x = Server ->
    src2_authn_response issuer_ext setup_ext advice_ext adv_append presig_ext class_name_ext (PBool aidr) (PBool aq)
      store_ext response_ext
      enc_server (PStr irt) (PStr url) (PStr sp) (enc_atoms (attrs x)) (p_nid p) (p_status p) (p_authn p) (p_issuer p)
      (p_policy p) (PBool (sa x)) (PBool (sr x)) (p_be p) (PBool (ea x)) (enc_optcert (cert_adv x))
      (enc_optcert (cert_asrt x)) (p_astmt p) (PBool (sc x)) (PBool (eadv x)) (PBool (pefim x)) (p_salg p) (p_dalg p)
      (p_farg p) (p_snoa p)
    = authn_response_model x.
  Proof.
    intros [en vsr vsa vea veadv vsc vpefim vmd vca vcadv vsubj vattrs vleaves] Hen. cbn [i_entry] in Hen. subst en.
    destruct p_good as (G1 & G2 & G3 & G4 & G5 & G6 & G7 & G8 & G9 & G10 & G11).
    unfold src2_authn_response.
    cbn [i_entry sr sa ea eadv sc pefim md cert_asrt cert_adv subj attrs leaves].
    (* the arguments handed on and the certificates are good values *)
    rewrite ?(py_bind_good_fun _ G1), ?(py_bind_good_fun _ G2), ?(py_bind_good_fun _ G3), ?(py_bind_good_fun _ G4),
      ?(py_bind_good_fun _ G5), ?(py_bind_good_fun _ G6), ?(py_bind_good_fun _ G7), ?(py_bind_good_fun _ G8),
      ?(py_bind_good_fun _ G9), ?(py_bind_good_fun _ G10), ?(py_bind_good_fun _ G11),
      ?(py_bind_good_fun _ (enc_optcert_good vca)), ?(py_bind_good_fun _ (enc_optcert_good vcadv)).
    change (p2_attr enc_server "signing_algorithm") with (PStr salg).
    change (p2_attr enc_server "digest_algorithm") with (PStr dalg).
    rewrite ?(py_bind_good_fun _ (p2_or_good_good _ (PStr salg) G8 eq_refl)),
      ?(py_bind_good_fun _ (p2_or_good_good _ (PStr dalg) G9 eq_refl)).
    rewrite p2_branch_or_bools. unfold authn_response_model, finish.
    destruct vpefim, vea, vsa, (aidr || aq).
    all: reflexivity.
  Qed.
End AuthnResponse.

Example authn_response_hypotheses_satisfiable :
  let p := mkpass PNone PNone (PObj [("class_ref", PStr "pw")]) PNone PNone (PBool false) PNone PNone PNone PNone PNone in
  let x := mkinput Server false true false false false true [(UEnc, Good "sp")] None None "subj" ["v1"] [] in
  pass_good p
  /\ exists sig_f,
     authn_response_model (fun _ => []) (fun _ => "id-1") (fun a => [("args", a)]) [] (fun _ => []) (fun _ => "Assertion")
                          (fun _ _ => PNone) false false (fun _ _ => PNone) (fun a => a)
                          (fun _ => "CERT") "rsa-sha256" "sha256" "MYCERT" "req-1" "https://sp/acs" "sp-entity" p x
     = PList [PStr "req-1"; PStr "https://sp/acs"; PNone; PNone; PBool false;
              PList [PList [PStr "Assertion"; PStr "id-1"]]; PStr "sp-entity"; PBool false; PNone; PNone;
              PBool true; PBool true; PBool true; PBool true; PStr "rsa-sha256"; PStr "sha256"; asrt_obj sig_f].
Proof. split; [repeat split|]. eexists. vm_compute. reflexivity. Qed.

(* ================================================================================================== *)
(* 6. sigver.pre_encrypt_assertion: the clear-text slot of the Response is emptied (Model: TopEnc has no clear copy) *)

Inductive asrt_slot :=
| SNone                                          (* response.assertion is None *)
| SOne (f : list (string * pyval))               (* one Assertion object *)
| SMany (l : list pyval).                        (* a list of them (after response_from_string) *)

Section PreEncrypt.
  Variable ea_f : list (string * pyval).                   (* EncryptedAssertion(): a fresh element *)
  Variable add_el add_els : pyval -> pyval -> pyval.       (* its add_extension_element / add_extension_elements *)
  Variable old_ea rest : pyval.                            (* what the Response had in encrypted_assertion, its other content *)

  Definition mk_ea : pyval := PObj (("__class__", PStr "EncryptedAssertion") :: ea_f).
  Definition enc_slot (a : asrt_slot) : pyval :=
    match a with SNone => PNone | SOne f => asrt_obj f | SMany l => PList l end.
  Definition resp_obj (a ea : pyval) : pyval :=
    PObj [("__class__", PStr "Response"); ("assertion", a); ("encrypted_assertion", ea); ("rest", rest)].

  (* the Response afterwards: no assertion in clear, the new EncryptedAssertion in place *)
  Definition pre_encrypted : pyval := resp_obj PNone mk_ea.

  Theorem src2_pre_encrypt_assertion_is_model : forall a,
    src2_pre_encrypt_assertion mk_ea add_el add_els (resp_obj (enc_slot a) old_ea)
    = match a with
      | SNone => pre_encrypted
      | SOne f => py_bind (add_el mk_ea (asrt_obj f)) (fun _ => pre_encrypted)
      | SMany l => py_bind (add_els mk_ea (PList l)) (fun _ => pre_encrypted)
      end.
  Proof.
    intros a. unfold src2_pre_encrypt_assertion, pre_encrypted, resp_obj.
    destruct a as [|f|l]; cbn [enc_slot]; reflexivity.
  Qed.

  (* whatever the add call does, a Response that comes back has its clear-text slot empty *)
  Corollary src2_pre_encrypt_assertion_no_clear_copy : forall a r,
    src2_pre_encrypt_assertion mk_ea add_el add_els (resp_obj (enc_slot a) old_ea) = r -> is_bad r = false ->
    p2_attr r "assertion" = PNone /\ p2_attr r "encrypted_assertion" = mk_ea.
  Proof.
    intros a r H Hr. rewrite src2_pre_encrypt_assertion_is_model in H. subst r.
    destruct a as [|f|l]; [split; reflexivity| |];
      match goal with |- context [py_bind ?e _] => destruct e; try discriminate; split; reflexivity end.
  Qed.
End PreEncrypt.

Example pre_encrypt_instance :
  src2_pre_encrypt_assertion (mk_ea []) (fun _ _ => PNone) (fun _ _ => PNone)
       (resp_obj PNone (enc_slot (SOne [("id", PStr "a1")])) (PList []))
     = pre_encrypted [] PNone.
Proof. reflexivity. Qed.

(* ================================================================================================== *)
(* 7. AuthnResponse._assertion: the signature requirement on the (plain or just decrypted) main assertion
      (Model.main_sig_ok), followed by the remaining checks of the assertion *)

Record ainput := mkain {
  ai_wa : bool;                      (* self.require_signature (want_assertions_signed) *)
  ai_dnv : bool;                     (* self.do_not_verify *)
  ai_verified : bool;                (* argument: the signatures were checked on the decrypted text already *)
  ai_sig : sigst;                    (* the assertion's Signature element: absent / present *)
  ai_check : option string;          (* sec.check_signature on it: returns (None) or raises that exception *)
  ai_ri : string;                    (* self.issuer(): Issuer of the Response, "" when it names none *)
  ai_ai : option (option string);    (* assertion.issuer (None = no element) and its text *)
  ai_ctx : string;                   (* self.context *)
  ai_stmt : option string;           (* self.authn_statement_ok(): returns or raises *)
  ai_cond : bool;                    (* self.condition_ok() *)
  ai_subj : option string;           (* self.get_subject(): returns or raises *)
  ai_asynchop : bool; ai_allow : bool; ai_came_from : option string }.

Definition issuer_txt (o : option (option string)) : string :=
  match o with Some (Some t) => strip t | _ => "" end.

(* everything after the signature step: the Issuer of the assertion has to be the one the Response names, then
   statement / conditions / subject *)
Definition assertion_tail (i : ainput) : pyval :=
  match (if String.eqb (ai_ctx i) "AuthnReq" then ai_stmt i else None) with
  | Some n => PExc n
  | None =>
      if negb (ai_cond i) then PExc "VerificationError" else
      match ai_subj i with
      | Some n => PExc n
      | None => if ai_asynchop i && negb (ai_allow i) && negb (is_some (ai_came_from i))
                then PExc "VerificationError" else PBool true
      end
  end.
Definition assertion_rest (i : ainput) : pyval :=
  if nonempty (ai_ri i) && negb (String.eqb (ai_ri i) (issuer_txt (ai_ai i))) then PExc "VerificationError"
  else assertion_tail i.

Definition assertion_model (i : ainput) : pyval :=
  match ai_sig i with
  | Unsigned => if ai_wa i then PExc "SignatureError" else assertion_rest i
  | _ => if negb (ai_verified i) && negb (ai_dnv i)
         then match ai_check i with Some n => PExc n | None => assertion_rest i end
         else assertion_rest i
  end.

(* Model.main_sig_ok is the signature step of this function for an assertion whose signatures were not verified
   before (verified = False, do_not_verify = False), check_signature failing with SignatureError exactly when the
   signature is broken or the schema validation refuses the assertion *)
Lemma assertion_model_is_main_sig_ok wa (a : asrt) i :
  ai_wa i = wa -> ai_dnv i = false -> ai_verified i = false -> ai_sig i = a_sig a ->
  ai_check i = (if match a_sig a with Signed => adv_schema_ok (a_adv a) | _ => false end then None else Some "SignatureError") ->
  assertion_model i = if main_sig_ok wa a then assertion_rest i else PExc "SignatureError".
Proof.
  intros Hwa Hd Hv Hs Hc. unfold assertion_model, main_sig_ok. rewrite Hwa, Hd, Hv, Hs, Hc.
  destruct (a_sig a); cbn [negb andb]; [destruct wa; reflexivity| |reflexivity].
  destruct (adv_schema_ok (a_adv a)); reflexivity.
Qed.

Definition const_ext (v : pyval) : pyval -> pyval := fun _ => v.
Definition enc_raise (o : option string) : pyval := match o with Some n => PExc n | None => PNone end.

Section Assertion.
  Variable check_sig3 : pyval -> pyval -> pyval -> pyval.      (* self.sec.check_signature(assertion, class_name(assertion), self.xmlstr) *)
  Variable class_name_ext : pyval -> pyval.
  Variables xml cnm : string.

  Definition enc_masrt (i : ainput) : pyval :=
    PObj [("__class__", PStr "Assertion");
          ("signature", match ai_sig i with Unsigned => PNone | _ => PObj [("__class__", PStr "Signature")] end);
          ("issuer", match ai_ai i with
                     | None => PNone
                     | Some t => PObj [("__class__", PStr "Issuer"); ("text", enc_opt_str t)]
                     end)].
  Definition enc_aself (i : ainput) : pyval :=
    PObj [("__class__", PStr "AuthnResponse"); ("require_signature", PBool (ai_wa i)); ("do_not_verify", PBool (ai_dnv i));
          ("xmlstr", PStr xml); ("context", PStr (ai_ctx i)); ("asynchop", PBool (ai_asynchop i));
          ("allow_unsolicited", PBool (ai_allow i)); ("came_from", enc_opt_str (ai_came_from i)); ("assertion", PNone)].

  Hypothesis class_name_of_assertion : forall i, class_name_ext (enc_masrt i) = PStr cnm.
  Hypothesis check_sig3_outcome : forall i,
    check_sig3 (enc_masrt i) (PStr cnm) (PStr xml) = match ai_check i with None => enc_masrt i | Some n => PExc n end.

  Theorem src2_assertion_is_model : forall i,
    (forall t, ai_ai i = Some (Some t) -> end_ascii (strip t) = true) ->
    src2_assertion check_sig3 class_name_ext (const_ext (PStr (ai_ri i))) (const_ext (enc_raise (ai_stmt i)))
                   (const_ext (PBool (ai_cond i))) (const_ext (enc_raise (ai_subj i)))
                   (enc_aself i) (enc_masrt i) (PBool (ai_verified i))
    = assertion_model i.
  Proof.
    intros i Hstrip. unfold src2_assertion, assertion_model. cbv beta zeta.
    match goal with |- context [py_bind (const_ext (PStr (ai_ri i)) (enc_aself i)) ?k] =>
      set (REST := py_bind (const_ext (PStr (ai_ri i)) (enc_aself i)) k) end.
    assert (HR : REST = assertion_rest i).
    { subst REST. unfold assertion_rest. unfold const_ext at 1. cbn [py_bind].
      destruct i as [wa dnv ver sg chk ri ai ctx stmt cond subj asy allow cf].
      cbn [ai_wa ai_dnv ai_verified ai_sig ai_check ai_ri ai_ai ai_ctx ai_stmt ai_cond ai_subj ai_asynchop ai_allow ai_came_from] in *.
      match goal with |- py_bind ?e _ = _ => assert (Hiss : e = PStr (issuer_txt ai)) end.
      { destruct ai as [[t|]|]; try reflexivity. destruct t as [|c t']; [reflexivity|].
        match goal with |- ?L = _ => change L with (guard_ends (strip (String c t'))) end.
        unfold guard_ends, issuer_txt. rewrite (Hstrip _ eq_refl). reflexivity. }
      rewrite Hiss. clear Hiss. cbn [py_bind]. rewrite p2_ne_str, p2_and_good by reflexivity. cbn [py_truthy].
      match goal with |- match _ with BTrue => _ | BFalse => ?T | BExc _ => _ | BErr => _ end = _ => set (TAIL := T) end.
      assert (HT : TAIL = assertion_tail (mkain wa dnv ver sg chk ri ai ctx stmt cond subj asy allow cf)).
      { subst TAIL. unfold assertion_tail, const_ext.
        cbn [ai_wa ai_dnv ai_verified ai_sig ai_check ai_ri ai_ai ai_ctx ai_stmt ai_cond ai_subj ai_asynchop ai_allow ai_came_from].
        cbn. destruct (String.eqb ctx "AuthnReq"), stmt, cond, subj, asy, allow, cf; reflexivity. }
      clearbody TAIL. subst TAIL. unfold assertion_rest, nonempty.
      cbn [ai_ri ai_ai]. destruct (is_empty ri) eqn:Eri; cbn [negb andb].
      + cbn [p2_branch py_truthy]. rewrite Eri. reflexivity.
      + destruct (String.eqb ri (issuer_txt ai)); reflexivity. }
    clearbody REST. subst REST.
    destruct i as [wa dnv ver sg chk ri ai ctx stmt cond subj asy allow cf].
    set (I := mkain wa dnv ver sg chk ri ai ctx stmt cond subj asy allow cf) in *.
    rewrite !(py_bind_good (enc_masrt I)) by reflexivity. rewrite class_name_of_assertion. cbn [py_bind].
    change (p2_attr (enc_aself I) "xmlstr") with (PStr xml). cbn [py_bind]. rewrite check_sig3_outcome.
    generalize (assertion_rest I). intros R. subst I.
    cbn [ai_wa ai_dnv ai_verified ai_sig ai_check].
    destruct sg, wa, ver, dnv, chk; reflexivity.
  Qed.
End Assertion.

Example assertion_hypotheses_satisfiable :
  let i := mkain true false false Signed None "https://idp" (Some (Some " https://idp ")) "AuthnReq" None true None
                 true false (Some "/") in
  let cn := fun _ : pyval => PStr "urn:oasis:names:tc:SAML:2.0:assertion:Assertion" in
  let chk := fun a _ _ : pyval => a in
  (forall j, cn (enc_masrt j) = PStr "urn:oasis:names:tc:SAML:2.0:assertion:Assertion")
  /\ chk (enc_masrt i) (PStr "urn:oasis:names:tc:SAML:2.0:assertion:Assertion") (PStr "<doc/>") = enc_masrt i
  /\ src2_assertion chk cn (const_ext (PStr (ai_ri i))) (const_ext (enc_raise (ai_stmt i))) (const_ext (PBool (ai_cond i)))
                    (const_ext (enc_raise (ai_subj i))) (enc_aself "<doc/>" i) (enc_masrt i) (PBool false) = PBool true.
Proof. repeat split. Qed.

(* ================================================================================================== *)
(* 8. CryptoBackendXmlSec1.encrypt_assertion: which node of which text is handed to xmlsec1 for which certificate, and
      EncryptError (nothing returned) whenever xmlsec1 fails — Model.first_good: a certificate xmlsec1 cannot use yields
      no ciphertext, never a clear-text fallback *)

Inductive stmt_arg :=
| SText (s : string)                          (* what Entity._response hands over since a5d8e540 *)
| SObj (f : list (string * pyval)).           (* a Response object: pre_encrypt_assertion is applied first *)

Definition or_default (o : option string) (d : string) : string :=
  match o with Some s => if is_empty s then d else s | None => d end.

Section XmlsecEncrypt.
  Variable pre_f : list (string * pyval) -> list (string * pyval).   (* pre_encrypt_assertion on a Response object *)
  Variable ser : list (string * pyval) -> string.                    (* str(response) *)
  Variable tmpname : string -> string.                               (* make_temp(text).name *)
  Variable run_xmlsec : pyval -> pyval -> pyval.                     (* self._run_xmlsec(com_list, extra_args) *)
  Variable decode_ext : pyval -> pyval.                              (* output.decode("utf-8") *)
  Variable xres : list pyval -> option pyval.                        (* xmlsec1 on that command line: output, or failure *)
  Variables xmlsec_bin enc_key template key_type : string.
  Variable dtf : bool.

  Definition resp_of (f : list (string * pyval)) : pyval := PObj (("__class__", PStr "Response") :: f).
  Definition pre_enc_c (v : pyval) : pyval :=
    match v with PObj (("__class__", PStr "Response") :: f) => resp_of (pre_f f) | _ => PErr end.
  Definition to_str_c (v : pyval) : pyval :=
    match v with PStr s => PStr s | PObj (("__class__", PStr "Response") :: f) => PStr (ser f) | _ => PErr end.
  Definition make_temp_c (v : pyval) : pyval :=
    match v with PStr s => PObj [("__class__", PStr "NamedTemporaryFile"); ("name", PStr (tmpname s))] | _ => PErr end.
  Definition enc_backend : pyval :=
    PObj [("__class__", PStr "CryptoBackendXmlSec1"); ("xmlsec", PStr xmlsec_bin); ("delete_tmpfiles", PBool dtf)].
  Definition enc_stmt (s : stmt_arg) : pyval := match s with SText t => PStr t | SObj f => resp_of f end.

  (* _run_xmlsec raises XmlsecError when xmlsec1 fails, else returns (stdout, stderr, output) *)
  Hypothesis run_xmlsec_outcome : forall com extra,
    run_xmlsec (PList com) (PList extra)
    = match xres (com ++ extra) with Some o => PList [PNone; PNone; o] | None => PExc "XmlsecError" end.

  Definition stmt_text (s : stmt_arg) : string := match s with SText t => t | SObj f => ser (pre_f f) end.
  Definition command_line (s : stmt_arg) (xpath node_id : option string) : list pyval :=
    ([PStr xmlsec_bin; PStr "--encrypt"; PStr "--pubkey-cert-pem"; PStr enc_key; PStr "--session-key"; PStr key_type;
      PStr "--xml-data"; PStr (tmpname (stmt_text s)); PStr "--node-xpath"; PStr (or_default xpath "ASSERT_XPATH")]
     ++ match node_id with
        | Some i => if is_empty i then [] else [PStr "--node-id"; PStr i]
        | None => []
        end
     ++ [PStr (tmpname template)])%list.

  Theorem src2_xmlsec_encrypt_assertion_is_model : forall s xpath node_id,
    src2_xmlsec_encrypt_assertion pre_enc_c make_temp_c to_str_c run_xmlsec decode_ext
      enc_backend (enc_stmt s) (PStr enc_key) (PStr template) (PStr key_type) (enc_opt_str xpath) (enc_opt_str node_id)
    = match xres (command_line s xpath node_id) with
      | Some o => decode_ext o
      | None => PExc "EncryptError"
      end.
  Proof.
    intros s xpath node_id.
    destruct s as [t|f], xpath as [[|xc xr]|], node_id as [[|ic ir]|].
    all: unfold src2_xmlsec_encrypt_assertion, command_line.
    all: cbn.
    all: rewrite run_xmlsec_outcome.
    all: cbn [app].
    all: match goal with |- context [xres ?l] => destruct (xres l) end.
    all: reflexivity.
  Qed.
End XmlsecEncrypt.

Example xmlsec_encrypt_hypotheses_satisfiable :
  let xres := fun com : list pyval =>
                match list_has (PStr "good-cert.pem") com with Some true => Some (PStr "<EncryptedData/>") | _ => None end in
  let run := fun com extra : pyval =>
               match com, extra with
               | PList c, PList e => match xres (c ++ e)%list with
                                     | Some o => PList [PNone; PNone; o]
                                     | None => PExc "XmlsecError" end
               | _, _ => PErr
               end in
  (forall com extra, run (PList com) (PList extra)
                     = match xres (com ++ extra)%list with Some o => PList [PNone; PNone; o] | None => PExc "XmlsecError" end)
  /\ src2_xmlsec_encrypt_assertion (pre_enc_c (fun f => f)) (make_temp_c (fun s => s)) (to_str_c (fun _ => "<Response/>"))
        run (fun o => o) (enc_backend "xmlsec1" false) (PStr "<Response/>") (PStr "good-cert.pem") (PStr "<template/>")
        (PStr "des-192") PNone PNone = PStr "<EncryptedData/>"
  /\ src2_xmlsec_encrypt_assertion (pre_enc_c (fun f => f)) (make_temp_c (fun s => s)) (to_str_c (fun _ => "<Response/>"))
        run (fun o => o) (enc_backend "xmlsec1" false) (PStr "<Response/>") (PStr "bad-cert.pem") (PStr "<template/>")
        (PStr "des-192") PNone PNone = PExc "EncryptError".
Proof. split; [reflexivity|split; reflexivity]. Qed.
