(* C16/Options.v — tie of Model.code_defaults / Model.pick / the wrapper convention to the source TEXT.
   coq/gen/C16Tables.v is regenerated on every run by harness/c16.py:option_tables (AST of saml2/server.py, fail
   closed): the defaults of the five options in the signature of Server.create_authn_response, their entries in
   param_defaults of gather_authn_response_args, the precedence chain of
       args[param] = val_kw if val_kw is not None else val_config if val_config is not None else val_default
   the context the configuration is read in, and which options create_authn_request_response passes on.  (The
   generator also insists that create_authn_response hands each option to gather_authn_response_args under its own
   name.)  If any of these is changed in the source the theorem below stops checking. *)
From Coq Require Import String List Bool.
From Verif Require Import Base.Str C16.Model.
From VerifGen Require Import C16Tables.
Import ListNotations.
Open Scope string_scope.

Definition option_names : list string :=
  ["sign_response"; "sign_assertion"; "encrypt_assertion"; "encrypted_advice_attributes";
   "encrypt_assertion_self_contained"].
Definition optdefs (d : deftab) : list optdef := [t_sr d; t_sa d; t_ea d; t_eadv d; t_sc d].

(* Model.pick, read as a chain: the first source that is not None wins *)
Definition chain_value (order : list string) (kw cfg : option bool) (dflt : bool) : option bool :=
  fold_right (fun name rest =>
                match (if String.eqb name "kw" then kw else if String.eqb name "config" then cfg
                       else if String.eqb name "default" then Some dflt else None) with
                | Some b => Some b
                | None => rest
                end) None order.

Theorem option_defaults_from_source :
  create_authn_response_sig_defaults = combine option_names (map sig_default (optdefs code_defaults))
  /\ gather_param_defaults = combine option_names (map param_default (optdefs code_defaults))
  /\ gather_config_context = "idp"
  /\ wrapper_forwards = ["sign_response"; "sign_assertion"]
  /\ (forall d o, chain_value gather_precedence (kw_value d (o_arg o)) (o_cfg o) (param_default d) = Some (pick d o)).
Proof.
  split; [reflexivity|]. split; [reflexivity|]. split; [reflexivity|]. split; [reflexivity|].
  intros d o. unfold pick. cbn. destruct (kw_value d (o_arg o)); [reflexivity|]. destruct (o_cfg o); reflexivity.
Qed.
