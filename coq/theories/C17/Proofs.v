(* C17/Proofs.v — lemmas and proofs about the converter model (generic part). *)
From Coq Require Import String List Bool Arith Lia.
From Verif Require Import Base.Str C17.Model C17.Spec.
Import ListNotations.
Open Scope string_scope.

(* ================================================================ small facts *)
Lemma eqb_refl' s : String.eqb s s = true.
Proof. apply String.eqb_refl. Qed.

Lemma is_empty_true s : is_empty s = true <-> s = "".
Proof. destruct s; cbn; split; congruence. Qed.

Lemma is_empty_false s : is_empty s = false <-> s <> "".
Proof. destruct s; cbn; split; congruence. Qed.

Lemma sopt_eqb_eq (a b : option string) : opt_eqb String.eqb a b = true <-> a = b.
Proof.
  destruct a as [x|], b as [y|]; cbn; try (split; congruence).
  rewrite String.eqb_eq. split; congruence.
Qed.

Lemma pair_eqb_eq (p q : string * string) :
  String.eqb (fst p) (fst q) && String.eqb (snd p) (snd q) = true <-> p = q.
Proof.
  destruct p as [a b], q as [c d]; cbn [fst snd].
  rewrite andb_true_iff, !String.eqb_eq. split; [intros [-> ->]; reflexivity|intros E; inversion E; auto].
Qed.

Lemma lval_eqb_eq a b : lval_eqb a b = true <-> a = b.
Proof.
  destruct a as [x|x], b as [y|y]; cbn [lval_eqb]; try (split; congruence).
  - rewrite String.eqb_eq. split; congruence.
  - rewrite (list_eqb_eq _ pair_eqb_eq). split; congruence.
Qed.

Lemma lvals_eqb_eq (a b : list lval) : list_eqb lval_eqb a b = true <-> a = b.
Proof. apply list_eqb_eq, lval_eqb_eq. Qed.

Lemma olvals_eqb_eq (a b : option (list lval)) : opt_eqb (list_eqb lval_eqb) a b = true <-> a = b.
Proof.
  destruct a as [x|], b as [y|]; cbn; try (split; congruence).
  rewrite lvals_eqb_eq. split; congruence.
Qed.

Lemma strs_eqb_eq (a b : list string) : list_eqb String.eqb a b = true <-> a = b.
Proof. apply list_eqb_eq, String.eqb_eq. Qed.

(* ================================================================ dictionaries *)
Lemma lookup_In {A} k (d : list (string * A)) v : lookup k d = Some v -> In (k, v) d.
Proof.
  induction d as [|[k' v'] r IH]; cbn [lookup]; [discriminate|].
  destruct (String.eqb k k') eqn:E.
  - apply String.eqb_eq in E. subst k'. intros H. inversion H. left. reflexivity.
  - intros H. right. exact (IH H).
Qed.

Lemma lookup_None_keys {A} k (d : list (string * A)) : lookup k d = None <-> ~ In k (map fst d).
Proof.
  induction d as [|[k' v'] r IH]; cbn [lookup map fst In]; [tauto|].
  destruct (String.eqb k k') eqn:E.
  - apply String.eqb_eq in E. subst k'. split; [discriminate|intros H; exfalso; apply H; left; reflexivity].
  - apply String.eqb_neq in E. rewrite IH. split; [intros H [H1|H1]; [congruence|tauto]|tauto].
Qed.

Lemma lookup_dset {A} k (v : A) d k' :
  lookup k' (dset k v d) = if String.eqb k' k then Some v else lookup k' d.
Proof.
  induction d as [|[k0 v0] r IH]; cbn [dset lookup].
  - reflexivity.
  - destruct (String.eqb k k0) eqn:E.
    + apply String.eqb_eq in E. subst k0. cbn [lookup]. destruct (String.eqb k' k); reflexivity.
    + cbn [lookup]. rewrite IH. destruct (String.eqb k' k0) eqn:E0; [|reflexivity].
      apply String.eqb_eq in E0. subst k0. rewrite String.eqb_sym, E. reflexivity.
Qed.

Lemma keys_dset {A} k (v : A) d :
  map fst (dset k v d) = if mem k (map fst d) then map fst d else (map fst d ++ [k])%list.
Proof.
  induction d as [|[k0 v0] r IH]; cbn [dset map fst mem app]; [reflexivity|].
  destruct (String.eqb k k0) eqn:E; cbn [orb map fst].
  - reflexivity.
  - rewrite IH. destruct (mem k (map fst r)); reflexivity.
Qed.

Lemma NoDup_app_single (l : list string) k : NoDup l -> ~ In k l -> NoDup (l ++ [k]).
Proof.
  induction l as [|x r IH]; cbn [app]; intros Hn Hk.
  - constructor; [intros []|constructor].
  - inversion Hn as [|? ? Hx Hr]; subst. constructor.
    + rewrite in_app_iff. intros [H|[H|[]]]; [tauto|]. subst. apply Hk. left. reflexivity.
    + apply IH; [assumption|]. intros H. apply Hk. right. exact H.
Qed.

Lemma mem_false_notin x l : mem x l = false <-> ~ In x l.
Proof. rewrite <- mem_In. destruct (mem x l); split; congruence. Qed.

Lemma NoDup_keys_dset {A} k (v : A) d : NoDup (map fst d) -> NoDup (map fst (dset k v d)).
Proof.
  intros H. rewrite keys_dset. destruct (mem k (map fst d)) eqn:E; [assumption|].
  apply NoDup_app_single; [assumption|]. apply mem_false_notin. exact E.
Qed.

Lemma from_items_acc_nodup {A} (l : list (string * A)) d :
  NoDup (map fst d) -> NoDup (map fst (fold_left (fun d kv => dset (fst kv) (snd kv) d) l d)).
Proof.
  revert d. induction l as [|e r IH]; intros d H; cbn [fold_left]; [assumption|].
  apply IH. apply NoDup_keys_dset. exact H.
Qed.

(* a Python dict has unique keys: so has every table built by from_dict *)
Lemma from_items_nodup {A} (l : list (string * A)) : NoDup (map fst (from_items l)).
Proof. apply from_items_acc_nodup. constructor. Qed.

Lemma lookup_from_items_acc {A} (l : list (string * A)) d k :
  lookup k (fold_left (fun d kv => dset (fst kv) (snd kv) d) l d) =
  match lookup k (rev l) with Some v => Some v | None => lookup k d end.
Proof.
  revert d. induction l as [|[k0 v0] r IH]; intros d; cbn [fold_left rev]; [reflexivity|].
  rewrite IH. cbn [fst snd]. rewrite lookup_dset.
  assert (Happ : forall (a b : list (string * A)), lookup k (a ++ b) =
            match lookup k a with Some v => Some v | None => lookup k b end).
  { induction a as [|[ka va] a IHa]; intros b; cbn [app lookup]; [reflexivity|].
    destruct (String.eqb k ka); [reflexivity|apply IHa]. }
  rewrite Happ. destruct (lookup k (rev r)); [reflexivity|].
  cbn [lookup]. destruct (String.eqb k k0); reflexivity.
Qed.

(* the comprehension keeps, per key, the LAST item *)
Lemma lookup_from_items {A} (l : list (string * A)) k : lookup k (from_items l) = lookup k (rev l).
Proof. unfold from_items. rewrite lookup_from_items_acc. destruct (lookup k (rev l)); reflexivity. Qed.

Lemma lookup_some_of_key {A} k (d : list (string * A)) : In k (map fst d) -> exists v, lookup k d = Some v.
Proof.
  intros H. destruct (lookup k d) as [v|] eqn:E; [eauto|].
  apply lookup_None_keys in E. contradiction.
Qed.

(* ================================================================ the result dictionary *)
Definition olist {A} (o : option A) : list A := match o with Some x => [x] | None => [] end.

Definition ext' (a : ava) (e : string * list lval) : ava := ext (fst e) (snd e) a.

(* what to_local builds from the per-attribute contributions *)
Definition collapse (l : list (string * list lval)) : ava := fold_left ext' l [].

Lemma to_local_acc acs allow ws a :
  fold_left (step acs allow) ws a = fold_left ext' (flat_map (fun w => olist (resolve acs allow w)) ws) a.
Proof.
  revert a. induction ws as [|w r IH]; intros a; cbn [fold_left flat_map]; [reflexivity|].
  rewrite fold_left_app, IH. unfold step.
  destruct (resolve acs allow w) as [[k vs]|]; reflexivity.
Qed.

Lemma to_local_collapse acs allow ws :
  to_local acs allow ws = collapse (flat_map (fun w => olist (resolve acs allow w)) ws).
Proof. apply to_local_acc. Qed.

Lemma lookup_ext k vs a c :
  lookup c (ext k vs a) =
  if String.eqb c k then Some (match lookup k a with Some old => old ++ vs | None => vs end)%list
  else lookup c a.
Proof.
  induction a as [|[k0 v0] r IH]; cbn [ext lookup].
  - destruct (String.eqb c k); reflexivity.
  - destruct (String.eqb k k0) eqn:E.
    + apply String.eqb_eq in E. subst k0. cbn [lookup]. destruct (String.eqb c k); reflexivity.
    + cbn [lookup]. rewrite IH. destruct (String.eqb c k0) eqn:E0; [|reflexivity].
      apply String.eqb_eq in E0. subst k0. rewrite String.eqb_sym, E. reflexivity.
Qed.

Lemma keys_ext k vs a :
  map fst (ext k vs a) = if mem k (map fst a) then map fst a else (map fst a ++ [k])%list.
Proof.
  induction a as [|[k0 v0] r IH]; cbn [ext map fst mem app]; [reflexivity|].
  destruct (String.eqb k k0) eqn:E; cbn [orb map fst].
  - reflexivity.
  - rewrite IH. destruct (mem k (map fst r)); reflexivity.
Qed.

Lemma NoDup_fold_ext l a : NoDup (map fst a) -> NoDup (map fst (fold_left ext' l a)).
Proof.
  revert a. induction l as [|e r IH]; intros a H; cbn [fold_left]; [assumption|].
  apply IH. unfold ext'. rewrite keys_ext. destruct (mem (fst e) (map fst a)) eqn:E; [assumption|].
  apply NoDup_app_single; [assumption|]. apply mem_false_notin. exact E.
Qed.

Lemma NoDup_collapse l : NoDup (map fst (collapse l)).
Proof. apply NoDup_fold_ext. constructor. Qed.

(* gather, unfolded *)
Definition gvals (c : string) (l : list (string * list lval)) : list lval :=
  concat (map snd (filter (fun e => String.eqb (fst e) c) l)).
Definition gany (c : string) (l : list (string * list lval)) : bool :=
  existsb (fun e => String.eqb (fst e) c) l.

Lemma gather_alt c l : gather c l = if gany c l then Some (gvals c l) else None.
Proof.
  unfold gather, gany, gvals.
  induction l as [|e r IH]; cbn [filter existsb]; [reflexivity|].
  destruct (String.eqb (fst e) c) eqn:E; cbn [orb]; [reflexivity|exact IH].
Qed.

Definition merge (o1 o2 : option (list lval)) : option (list lval) :=
  match o1, o2 with
  | Some x, Some y => Some (x ++ y)%list
  | Some x, None => Some x
  | None, o => o
  end.

Lemma gvals_nil c l : gany c l = false -> gvals c l = [].
Proof.
  unfold gany, gvals. induction l as [|e r IH]; cbn [existsb filter]; [reflexivity|].
  destruct (String.eqb (fst e) c); cbn [orb]; [discriminate|exact IH].
Qed.

Lemma lookup_fold_ext l a c : lookup c (fold_left ext' l a) = merge (lookup c a) (gather c l).
Proof.
  revert a. induction l as [|[k vs] r IH]; intros a; cbn [fold_left].
  - rewrite gather_alt. cbn. destruct (lookup c a); reflexivity.
  - rewrite IH. unfold ext' at 1. cbn [fst snd]. rewrite lookup_ext.
    rewrite !gather_alt.
    assert (Hg : gany c ((k, vs) :: r) = String.eqb c k || gany c r).
    { unfold gany. cbn [existsb fst]. rewrite (String.eqb_sym k c). reflexivity. }
    assert (Hv : gvals c ((k, vs) :: r) = if String.eqb c k then (vs ++ gvals c r)%list else gvals c r).
    { unfold gvals. cbn [filter fst]. rewrite (String.eqb_sym k c).
      destruct (String.eqb c k); reflexivity. }
    rewrite Hg, Hv.
    destruct (String.eqb c k) eqn:E; cbn [orb].
    + apply String.eqb_eq in E. subst k.
      destruct (gany c r) eqn:G.
      * destruct (lookup c a) as [old|]; cbn [merge]; rewrite ?app_assoc; reflexivity.
      * rewrite (gvals_nil _ _ G), app_nil_r.
        destruct (lookup c a) as [old|]; cbn [merge]; reflexivity.
    + reflexivity.
Qed.

(* the values found under c are exactly the contributions for c, concatenated in order *)
Lemma lookup_collapse l c : lookup c (collapse l) = gather c l.
Proof. unfold collapse. rewrite lookup_fold_ext. cbn. destruct (gather c l); reflexivity. Qed.

Lemma gather_None_keys c l : ~ In c (map fst l) -> gather c l = None.
Proof.
  intros H. rewrite gather_alt. unfold gany.
  destruct (existsb _ l) eqn:E; [|reflexivity].
  apply existsb_exists in E as [e [He Hc]]. apply String.eqb_eq in Hc. exfalso. apply H.
  rewrite <- Hc. apply in_map. exact He.
Qed.

(* ================================================================ choosing a converter *)
Lemma sender_some acs f s : sender acs f = Some s -> In s acs /\ nf s = f.
Proof.
  unfold sender. intros H. apply find_some in H as [H1 H2]. apply String.eqb_eq in H2. auto.
Qed.

Lemma sender_none acs f : sender acs f = None -> forall m, In m acs -> nf m <> f.
Proof.
  unfold sender. intros H m Hm E. pose proof (find_none _ _ H m Hm) as H1. cbn in H1.
  apply String.eqb_neq in H1. contradiction.
Qed.

Lemma receiver_some acs f r : receiver acs f = Some r -> In r acs /\ nf r = f.
Proof.
  unfold receiver. intros H. apply find_some in H as [H1 H2]. apply String.eqb_eq in H2.
  apply in_rev in H1. auto.
Qed.

Lemma receiver_none acs f : receiver acs f = None -> forall m, In m acs -> nf m <> f.
Proof.
  unfold receiver. intros H m Hm E. apply in_rev in Hm.
  pose proof (find_none _ _ H m Hm) as H1. cbn in H1. apply String.eqb_neq in H1. contradiction.
Qed.

Lemma sender_exists acs f m : In m acs -> nf m = f -> exists s, sender acs f = Some s.
Proof.
  intros Hm E. destruct (sender acs f) as [s|] eqn:S; [eauto|].
  exfalso. exact (sender_none _ _ S m Hm E).
Qed.

Lemma receiver_exists acs f m : In m acs -> nf m = f -> exists r, receiver acs f = Some r.
Proof.
  intros Hm E. destruct (receiver acs f) as [s|] eqn:S; [eauto|].
  exfalso. exact (receiver_none _ _ S m Hm E).
Qed.

(* one converter per name format: sender and receiver coincide *)
Lemma find_unique (acs : list conv) m :
  NoDup (map nf acs) -> In m acs -> find (fun x => String.eqb (nf x) (nf m)) acs = Some m.
Proof.
  induction acs as [|x r IH]; cbn [map In find]; intros Hn Hm; [contradiction|].
  inversion Hn as [|? ? Hx Hr]; subst.
  destruct Hm as [->|Hm].
  - rewrite String.eqb_refl. reflexivity.
  - destruct (String.eqb (nf x) (nf m)) eqn:E.
    + apply String.eqb_eq in E. exfalso. apply Hx. rewrite E. apply in_map. exact Hm.
    + apply IH; assumption.
Qed.

Lemma unique_sender acs m : NoDup (map nf acs) -> In m acs -> sender acs (nf m) = Some m.
Proof. apply find_unique. Qed.

Lemma unique_receiver acs m : NoDup (map nf acs) -> In m acs -> receiver acs (nf m) = Some m.
Proof.
  intros Hn Hm. unfold receiver. apply find_unique.
  - rewrite map_rev. apply NoDup_rev. exact Hn.
  - apply (proj1 (in_rev acs m)). exact Hm.
Qed.

(* ================================================================ receive *)
Definition kt_raw (acs : list conv) (n f : string) : list string :=
  flat_map (fun m => if String.eqb (nf m) f
                     then match local_name m n with Some c => [c] | None => [] end
                     else []) acs.

Lemma known_targets_raw acs n f : known_targets acs n f = dedup (kt_raw acs n f).
Proof. reflexivity. Qed.

Lemma dedup_all_eq a l : Forall (eq a) l -> l <> [] -> dedup l = [a].
Proof.
  induction l as [|x r IH]; intros Hall Hne; [congruence|].
  inversion Hall as [|? ? Hx Hr]; subst x. cbn [dedup].
  destruct (mem a r) eqn:E.
  - apply IH; [assumption|]. intros ->. cbn in E. discriminate.
  - destruct r as [|y r']; [reflexivity|].
    inversion Hr as [|? ? Hy _]; subst y. cbn [mem] in E. rewrite String.eqb_refl in E. discriminate.
Qed.

Lemma dedup_nil_iff l : dedup l = [] <-> l = [].
Proof.
  split; [|intros ->; reflexivity].
  induction l as [|x r IH]; [reflexivity|]. cbn [dedup].
  destruct (mem x r) eqn:E; [|discriminate].
  intros H. apply IH in H. subst r. cbn in E. discriminate.
Qed.

Lemma kt_raw_all acs n f a :
  (forall m, In m acs -> nf m = f -> local_name m n = Some a) -> Forall (eq a) (kt_raw acs n f).
Proof.
  unfold kt_raw. induction acs as [|m r IH]; intros H; cbn [flat_map]; [constructor|].
  apply Forall_app. split.
  - destruct (String.eqb (nf m) f) eqn:E; [|constructor].
    apply String.eqb_eq in E. rewrite (H m (or_introl eq_refl) E). constructor; [reflexivity|constructor].
  - apply IH. intros m' Hm'. apply H. right. exact Hm'.
Qed.

Lemma kt_raw_nonempty acs n f m a : In m acs -> nf m = f -> local_name m n = Some a -> kt_raw acs n f <> [].
Proof.
  unfold kt_raw. intros Hm Hf Hl H.
  assert (Hin : In a (flat_map (fun m => if String.eqb (nf m) f
                     then match local_name m n with Some c => [c] | None => [] end else []) acs)).
  { apply in_flat_map. exists m. split; [assumption|].
    apply String.eqb_eq in Hf. rewrite Hf, Hl. left. reflexivity. }
  rewrite H in Hin. contradiction.
Qed.

Lemma kt_raw_nil acs n f :
  (forall m, In m acs -> nf m = f -> local_name m n = None) -> kt_raw acs n f = [].
Proof.
  unfold kt_raw. induction acs as [|m r IH]; intros H; cbn [flat_map]; [reflexivity|].
  rewrite IH by (intros m' Hm'; apply H; right; exact Hm').
  destruct (String.eqb (nf m) f) eqn:E; [|reflexivity].
  apply String.eqb_eq in E. rewrite (H m (or_introl eq_refl) E). reflexivity.
Qed.

Lemma has_format_true acs f m : In m acs -> nf m = f -> has_format acs f = true.
Proof.
  intros Hm E. unfold has_format. apply existsb_exists. exists m. split; [assumption|].
  apply String.eqb_eq. exact E.
Qed.

Lemma has_format_false acs f : (forall m, In m acs -> nf m <> f) -> has_format acs f = false.
Proof.
  intros H. unfold has_format. destruct (existsb _ acs) eqn:E; [|reflexivity].
  apply existsb_exists in E as [m [Hm Hf]]. apply String.eqb_eq in Hf. exfalso. exact (H m Hm Hf).
Qed.

(* what finding class 1 excludes, per received attribute (class 2 — empty NameID text, local name
   eduPersonTargetedID in another case — is gone since 16472e5d, class 3 — another local name for
   the eduPersonTargetedID OID — since 09ff19a1): the converters that carry name format f agree on n *)
Definition recv_guard (acs : list conv) (w : wattr) : Prop :=
  forall n f, wname w = Some n -> wnf w = Some f ->
    forall m m', In m acs -> In m' acs -> nf m = f -> nf m' = f -> local_name m n = local_name m' n.

Lemma strip_oid : strip EPTID_OID = EPTID_OID.
Proof. vm_compute. reflexivity. Qed.

Lemma map_ext_In {A B} (f g : A -> B) l : (forall x, In x l -> f x = g x) -> map f l = map g l.
Proof.
  induction l as [|x r IH]; intros H; cbn [map]; [reflexivity|].
  rewrite (H x (or_introl eq_refl)), IH; [reflexivity|]. intros y Hy. apply H. right. exact Hy.
Qed.

Lemma flat_map_ext_In {A B} (f g : A -> list B) l : (forall x, In x l -> f x = g x) -> flat_map f l = flat_map g l.
Proof.
  induction l as [|x r IH]; intros H; cbn [flat_map]; [reflexivity|].
  rewrite (H x (or_introl eq_refl)), IH; [reflexivity|]. intros y Hy. apply H. right. exact Hy.
Qed.

Lemma no_wrapped vals : existsb is_wrapped vals = false -> forall v, In v vals -> is_wrapped v = false.
Proof.
  intros H v Hv. destruct (is_wrapped v) eqn:E; [|reflexivity].
  assert (existsb is_wrapped vals = true) by (apply existsb_exists; eauto). congruence.
Qed.

Lemma trimmed_lcd w : existsb is_wrapped (wvals w) = false -> trimmed w = map lcd_val (wvals w).
Proof.
  intros H. unfold trimmed. apply map_ext_In. intros v Hv.
  pose proof (no_wrapped _ H v Hv) as Hw. destruct v; cbn in *; [reflexivity|discriminate].
Qed.

(* per attribute, the model contributes exactly what the text prescribes *)
Lemma contrib_resolve acs allow w :
  in_scope_attr acs w -> recv_guard acs w -> contrib acs allow true w = olist (resolve acs allow w).
Proof.
  intros (n & f & Hn & Hf & Hwrap) G. pose proof (G n f Hn Hf) as G1.
  unfold contrib, resolve. rewrite Hn, Hf.
  destruct (receiver acs f) as [r|] eqn:R.
  - destruct (receiver_some _ _ _ R) as [Hr Hrf].
    unfold ava_from. rewrite Hn. fold (local_name r n).
    destruct (local_name r n) as [a|] eqn:L.
    + assert (Hkt : known_targets acs n f = [a]).
      { rewrite known_targets_raw. apply dedup_all_eq.
        - apply kt_raw_all. intros m Hm Hmf. rewrite (G1 m r Hm Hr Hmf Hrf). exact L.
        - exact (kt_raw_nonempty _ _ _ _ _ Hr Hrf L). }
      unfold targets. rewrite Hkt. cbn [map olist]. do 2 f_equal.
      unfold trimmed. apply map_ext_In. intros v Hv. destruct v as [s|at' s]; [reflexivity|].
      assert (Hex : existsb is_wrapped (wvals w) = true).
      { apply existsb_exists. exists (WNameID at' s). split; [exact Hv|reflexivity]. }
      destruct (Hwrap Hex) as [Hoid _].
      cbn [recv_val payload eptid_wire]. rewrite Hoid, String.eqb_refl, orb_true_r. reflexivity.
    + assert (Hkt : known_targets acs n f = []).
      { rewrite known_targets_raw, kt_raw_nil; [reflexivity|].
        intros m Hm Hmf. rewrite (G1 m r Hm Hr Hmf Hrf). exact L. }
      unfold targets. rewrite Hkt, (has_format_true _ _ _ Hr Hrf).
      cbn [negb]. rewrite andb_false_r, orb_false_r.
      destruct allow; [|reflexivity].
      unfold lcd. rewrite Hn. cbn [map olist]. do 2 f_equal.
      apply trimmed_lcd. destruct (existsb is_wrapped (wvals w)); [|reflexivity].
      destruct (Hwrap eq_refl) as [_ H]. congruence.
  - pose proof (receiver_none _ _ R) as Hno.
    assert (Hkt : known_targets acs n f = []).
    { rewrite known_targets_raw, kt_raw_nil; [reflexivity|]. intros m Hm Hmf. exfalso. exact (Hno m Hm Hmf). }
    unfold targets. rewrite Hkt, (has_format_false _ _ Hno). cbn [negb andb]. rewrite andb_true_r.
    rewrite orb_comm.
    destruct (String.eqb f NAME_FORMAT_UNSPECIFIED || allow); [|reflexivity].
    unfold lcd. rewrite Hn. cbn [map olist]. do 2 f_equal.
    apply trimmed_lcd. destruct (existsb is_wrapped (wvals w)); [|reflexivity].
    destruct (Hwrap eq_refl) as [_ H]. congruence.
Qed.

(* receive_exact: for every set of converters, every statement and either setting of
   allow_unknown_attributes, the result holds under each local name exactly the trimmed values
   of the attributes the maps lead there, in order; unknown ones are dropped / passed *)
Theorem recv_holds acs allow ws :
  (forall w, In w ws -> in_scope_attr acs w -> recv_guard acs w) ->
  spec_recv acs allow ws (to_local acs allow ws).
Proof.
  intros G S. rewrite to_local_collapse. split; [apply NoDup_collapse|].
  exists true. intros c. rewrite lookup_collapse. f_equal. symmetry.
  apply flat_map_ext_In. intros w Hw. apply contrib_resolve; auto.
Qed.

(* with one converter per name format and no NameID-wrapped values the guard is void *)
Lemma recv_guard_unique acs w :
  NoDup (map nf acs) -> existsb is_wrapped (wvals w) = false -> recv_guard acs w.
Proof.
  intros Hn Hw n f _ _ m m' Hm Hm' E E'. subst f.
  pose proof (unique_sender _ _ Hn Hm) as S1. pose proof (unique_sender _ _ Hn Hm') as S2.
  rewrite E' in S2. congruence.
Qed.

Definition unknown_to (acs : list conv) (n f : string) : Prop :=
  forall m, In m acs -> nf m = f -> local_name m n = None.

Lemma resolve_unknown acs allow w n f :
  wname w = Some n -> wnf w = Some f -> unknown_to acs n f ->
  resolve acs allow w =
    if allow || (String.eqb f NAME_FORMAT_UNSPECIFIED && negb (has_format acs f))
    then Some (strip n, map lcd_val (wvals w)) else None.
Proof.
  intros Hn Hf U. unfold resolve. rewrite Hf.
  destruct (receiver acs f) as [r|] eqn:R.
  - destruct (receiver_some _ _ _ R) as [Hr Hrf].
    unfold ava_from. rewrite Hn. fold (local_name r n). rewrite (U r Hr Hrf).
    rewrite (has_format_true _ _ _ Hr Hrf). cbn [negb]. rewrite andb_false_r, orb_false_r.
    destruct allow; [|reflexivity]. unfold lcd. rewrite Hn. reflexivity.
  - rewrite (has_format_false _ _ (receiver_none _ _ R)). cbn [negb]. rewrite andb_true_r.
    destruct allow, (String.eqb f NAME_FORMAT_UNSPECIFIED); cbn [orb]; unfold lcd; rewrite ?Hn; reflexivity.
Qed.

(* unknown name or unknown name format, unknown attributes not allowed: the attribute
   contributes nothing (the one exception in the code: name format *unspecified* when no
   converter carries it) *)
Theorem unknown_dropped_holds acs ws1 w ws2 n f :
  wname w = Some n -> wnf w = Some f -> unknown_to acs n f ->
  (f = NAME_FORMAT_UNSPECIFIED -> has_format acs f = true) ->
  to_local acs false (ws1 ++ w :: ws2) = to_local acs false (ws1 ++ ws2).
Proof.
  intros Hn Hf U Hu. rewrite !to_local_collapse, !flat_map_app. cbn [flat_map].
  rewrite (resolve_unknown _ _ _ _ _ Hn Hf U). cbn [orb].
  destruct (String.eqb f NAME_FORMAT_UNSPECIFIED) eqn:E.
  - apply String.eqb_eq in E. rewrite (Hu E). reflexivity.
  - reflexivity.
Qed.

(* unknown attributes allowed: it appears under its (trimmed) wire name with its trimmed values *)
Theorem unknown_allowed_holds acs ws1 w n f :
  wname w = Some n -> wnf w = Some f -> unknown_to acs n f -> existsb is_wrapped (wvals w) = false ->
  to_local acs true (ws1 ++ [w]) = ext (strip n) (trimmed w) (to_local acs true ws1).
Proof.
  intros Hn Hf U Hw. unfold to_local. rewrite fold_left_app. cbn [fold_left]. unfold step at 1.
  rewrite (resolve_unknown _ _ _ _ _ Hn Hf U). cbn [orb]. rewrite (trimmed_lcd _ Hw). reflexivity.
Qed.

(* ================================================================ send *)
Lemma payload_wrap at' vs : map payload (map (WNameID at') vs) = vs.
Proof. induction vs as [|v r IH]; cbn [map payload]; [reflexivity|rewrite IH; reflexivity]. Qed.

Lemma payload_text vs : map payload (map WText vs) = vs.
Proof. induction vs as [|v r IH]; cbn [map payload]; [reflexivity|rewrite IH; reflexivity]. Qed.

Lemma wire_name_spec m k n :
  wire_name m k = Some n <-> lookup (lower k) (to_ m) = Some n /\ is_empty n = false.
Proof.
  unfold wire_name. destruct (lookup (lower k) (to_ m)) as [x|]; [|split; [discriminate|intros [? _]; discriminate]].
  destruct (is_empty x) eqn:E; split.
  - discriminate.
  - intros [H1 H2]. inversion H1; subst. congruence.
  - intros H. inversion H; subst. auto.
  - intros [H1 _]. exact H1.
Qed.

(* the wire attribute a converter produces for a local name it defines *)
Lemma to_one_defined s k vs n :
  wire_name s k = Some n -> carries (to_one s (k, vs)) n (nf s) k vs.
Proof.
  intros H. apply wire_name_spec in H as [H1 H2].
  unfold to_one, carries. cbn [fst snd]. rewrite H1, H2. cbn [wname wnf wfriendly wvals].
  repeat split. destruct (String.eqb n EPTID_OID); [apply payload_wrap|apply payload_text].
Qed.

(* (class 1 excluded) the converters that carry f agree on the wire names of the attributes sent *)
Definition send_guard (acs : list conv) (f : string) (a : list (string * list string)) : Prop :=
  forall m m' e, In m acs -> In m' acs -> nf m = f -> nf m' = f -> In e a ->
    wire_name m (fst e) = wire_name m' (fst e).

Theorem send_holds acs f a : send_guard acs f a -> spec_send acs f a (from_local acs a f).
Proof.
  intros G m Hm Hf. destruct (sender_exists _ _ _ Hm Hf) as [s Hs].
  destruct (sender_some _ _ _ Hs) as [Hsin Hsf].
  unfold from_local. rewrite Hs. exists (conv_to s a). split; [reflexivity|].
  split; [apply map_length|].
  intros [k vs] n He Hw. cbn [fst snd] in *.
  exists (to_one s (k, vs)). split; [apply in_map; exact He|].
  rewrite <- Hsf. apply to_one_defined.
  pose proof (G m s (k, vs) Hm Hsin Hf Hsf He) as HG. cbn [fst] in HG. rewrite <- HG. exact Hw.
Qed.

Lemma send_guard_unique acs f a : NoDup (map nf acs) -> send_guard acs f a.
Proof.
  intros Hn m m' e Hm Hm' E E' _. subst f.
  pose proof (unique_sender _ _ Hn Hm) as S1. pose proof (unique_sender _ _ Hn Hm') as S2.
  rewrite E' in S2. congruence.
Qed.

(* ================================================================ send, then receive *)
(* where local name k ends up when s sends and r receives *)
Definition canon2 (s r : conv) (k : string) : option string :=
  match wire_name s k with
  | Some n => local_name r n
  | None => None
  end.

Definition canonical (s r : conv) (a : list (string * list string)) : ava :=
  collapse (flat_map (fun e => match canon2 s r (fst e) with
                               | Some c => [(c, map (fun v => LStr (strip v)) (snd e))]
                               | None => []
                               end) a).

Lemma harvest_some w f : wnf w = Some f -> harvest w = w.
Proof. destruct w as [a b c d]. cbn. intros ->. reflexivity. Qed.

Lemma resolve_sent acs s r allow e n c :
  receiver acs (nf s) = Some r -> wire_name s (fst e) = Some n -> local_name r n = Some c ->
  resolve acs allow (to_one s e) = Some (c, map (fun v => LStr (strip v)) (snd e)).
Proof.
  intros R Hw Hl. destruct e as [k vs]. cbn [fst snd] in *.
  pose proof Hw as Hw'. apply wire_name_spec in Hw' as [H1 H2].
  unfold resolve, to_one. cbn [fst snd]. rewrite H1, H2. cbn [wnf]. rewrite R.
  unfold ava_from. cbn [wname wvals]. fold (local_name r n). rewrite Hl.
  do 2 f_equal. destruct (String.eqb n EPTID_OID) eqn:E.
  - apply String.eqb_eq in E. subst n.
    rewrite map_map. apply map_ext_In. intros v Hin.
    cbn [recv_val eptid_wire]. rewrite strip_oid, String.eqb_refl, orb_true_r. reflexivity.
  - rewrite map_map. reflexivity.
Qed.

(* Generic round trip.  s = the converter from_local uses for the name format, r = the one
   list_to_local uses; every attribute sent is defined by s and known (by wire name) to r.
   Nothing is lost: the result is exactly the attributes regrouped under their canonical local
   names, values in order, trimmed — for ALL value lists, either transport, either setting
   of allow_unknown_attributes. *)
Theorem send_receive_set acs s r a allow xml :
  sender acs (nf s) = Some s -> receiver acs (nf s) = Some r ->
  (forall e, In e a -> canon2 s r (fst e) <> None) ->
  roundtrip acs a (nf s) allow xml = Some (canonical s r a).
Proof.
  intros S R H. unfold roundtrip, from_local. rewrite S. f_equal.
  assert (Hh : (if xml then map harvest (conv_to s a) else conv_to s a) = conv_to s a).
  { destruct xml; [|reflexivity]. unfold conv_to. rewrite map_map. apply map_ext_In.
    intros e _. apply harvest_some with (f := match lookup (lower (fst e)) (to_ s) with
                                               | Some n => if is_empty n then NAME_FORMAT_URI else nf s
                                               | None => NAME_FORMAT_URI end).
    unfold to_one. destruct (lookup (lower (fst e)) (to_ s)) as [n|]; [|reflexivity].
    destruct (is_empty n); reflexivity. }
  rewrite Hh, to_local_collapse. unfold canonical. f_equal. clear Hh.
  unfold conv_to. revert H. induction a as [|e a' IH]; intros H; cbn [map flat_map]; [reflexivity|].
  rewrite IH by (intros e' He'; apply H; right; exact He').
  f_equal. pose proof (H e (or_introl eq_refl)) as Hc.
  unfold canon2 in *. destruct (wire_name s (fst e)) as [n|] eqn:W; [|congruence].
  destruct (local_name r n) as [c|] eqn:L; [|congruence].
  rewrite (resolve_sent _ _ _ _ _ _ _ R W L). reflexivity.
Qed.

(* the symmetric single map of the design: to_local [m] (from_local [m] ava) = canonical ava *)
Definition map_symmetric (m : conv) : Prop :=
  forall k n, wire_name m k = Some n -> local_name m n <> None.

Definition covered (m : conv) (a : list (string * list string)) : Prop :=
  forall e, In e a -> wire_name m (fst e) <> None.

Theorem send_receive m a allow xml :
  map_symmetric m -> covered m a ->
  roundtrip [m] a (nf m) allow xml = Some (canonical m m a).
Proof.
  intros Hs Hc. apply send_receive_set.
  - unfold sender. cbn [find]. rewrite String.eqb_refl. reflexivity.
  - unfold receiver. cbn [rev app find]. rewrite String.eqb_refl. reflexivity.
  - intros e Hin.
    unfold canon2. specialize (Hc e Hin). destruct (wire_name m (fst e)) as [n|] eqn:W; [|congruence].
    apply (Hs _ _ W).
Qed.

(* what "canonical" means, read off the result: under each local name c, the trimmed values of
   all attributes whose canonical name is c, in the order sent; nothing else *)
Lemma canonical_lookup s r a c :
  lookup c (canonical s r a) =
  gather c (flat_map (fun e => match canon2 s r (fst e) with
                               | Some c' => [(c', map (fun v => LStr (strip v)) (snd e))]
                               | None => []
                               end) a).
Proof. apply lookup_collapse. Qed.

Lemma gany_app c x y : gany c (x ++ y) = gany c x || gany c y.
Proof. unfold gany. apply existsb_app. Qed.

Lemma gvals_app c x y : gvals c (x ++ y) = (gvals c x ++ gvals c y)%list.
Proof. unfold gvals. rewrite filter_app, map_app, concat_app. reflexivity. Qed.

Section GatherFlat.
  Variable g : string * list string -> option string.
  Variable tr : string * list string -> list lval.
  Let F := fun e => match g e with Some c' => [(c', tr e)] | None => [] end.

  Lemma gany_flat a c : gany c (flat_map F a) = existsb (fun e => opt_eqb String.eqb (g e) (Some c)) a.
  Proof.
    induction a as [|e r IH]; cbn [flat_map existsb]; [reflexivity|].
    rewrite gany_app, IH. f_equal. unfold F, gany. destruct (g e) as [c'|]; reflexivity || (cbn; apply orb_false_r).
  Qed.

  Lemma gvals_flat a c :
    gvals c (flat_map F a) = concat (map (fun e => if opt_eqb String.eqb (g e) (Some c) then tr e else []) a).
  Proof.
    induction a as [|e r IH]; cbn [flat_map map concat]; [reflexivity|].
    rewrite gvals_app, IH. f_equal. unfold F, gvals. destruct (g e) as [c'|]; [|reflexivity].
    cbn [filter fst opt_eqb]. destruct (String.eqb c' c); cbn; rewrite ?app_nil_r; reflexivity.
  Qed.

  Lemma gather_flat a c :
    gather c (flat_map F a) =
    if existsb (fun e => opt_eqb String.eqb (g e) (Some c)) a
    then Some (concat (map (fun e => if opt_eqb String.eqb (g e) (Some c) then tr e else []) a))
    else None.
  Proof. rewrite gather_alt, gany_flat, gvals_flat. reflexivity. Qed.
End GatherFlat.

(* what finding class 1 excludes for a round trip, plus: the maps are symmetric on what is sent *)
Definition round_guard (acs : list conv) (f : string) (a : list (string * list string)) : Prop :=
  forall e, In e a ->
    (* (class 1) the converters carrying f agree on the attribute, in both directions *)
    (forall m m', In m acs -> In m' acs -> nf m = f -> nf m' = f ->
       wire_name m (fst e) = wire_name m' (fst e) /\
       forall n, wire_name m (fst e) = Some n -> local_name m n = local_name m' n) /\
    (* the wire name a map gives leads back to a local name in that map *)
    (forall m n, In m acs -> nf m = f -> wire_name m (fst e) = Some n -> local_name m n <> None).

Theorem round_holds acs f a allow xml :
  round_guard acs f a -> spec_round acs f a (roundtrip acs a f allow xml).
Proof.
  intros G Scope m Hm Hf.
  destruct (sender_exists _ _ _ Hm Hf) as [s Hs]. destruct (sender_some _ _ _ Hs) as [Hsin Hsf].
  destruct (receiver_exists _ _ _ Hm Hf) as [r Hr]. destruct (receiver_some _ _ _ Hr) as [Hrin Hrf].
  (* every attribute sent is defined by s, known to r, and canon2 s r = canon of any map for f *)
  assert (Hcan : forall m', In m' acs -> nf m' = f -> forall e, In e a ->
                   canon2 s r (fst e) = canon m' (fst e) /\ canon2 s r (fst e) <> None).
  { intros m' Hm' Hf' e He. destruct (G e He) as (G1 & G2).
    destruct (Scope e He) as (m0 & Hm0 & Hf0 & Hw0).
    destruct (G1 s m0 Hsin Hm0 Hsf Hf0) as [E0 _].
    destruct (G1 s m' Hsin Hm' Hsf Hf') as [E1 L1].
    destruct (G1 s r Hsin Hrin Hsf Hrf) as [_ L2].
    destruct (G1 m' r Hm' Hrin Hf' Hrf) as [_ L3].
    unfold canon2, canon. rewrite <- E1.
    destruct (wire_name s (fst e)) as [n|] eqn:W; [|congruence].
    rewrite <- (L2 n eq_refl). split; [apply (L1 n eq_refl)|]. apply (G2 s n Hsin Hsf W). }
  subst f. rewrite <- Hsf.
  rewrite (send_receive_set acs s r a allow xml); [|rewrite Hsf; exact Hs|rewrite Hsf; exact Hr|].
  2:{ intros e He. destruct (Hcan m Hm eq_refl e He) as (_ & H2). auto. }
  exists (canonical s r a). split; [reflexivity|].
  intros e He Hw. destruct (Hcan m Hm eq_refl e He) as (H1 & H2).
  destruct (canon m (fst e)) as [c|] eqn:C; [|congruence].
  exists c. split; [reflexivity|].
  rewrite canonical_lookup.
  assert (HF : flat_map (fun e0 => match canon2 s r (fst e0) with
                                   | Some c' => [(c', map (fun v => LStr (strip v)) (snd e0))]
                                   | None => [] end) a =
               flat_map (fun e0 => match canon m (fst e0) with
                                   | Some c' => [(c', map (fun v => LStr (strip v)) (snd e0))]
                                   | None => [] end) a).
  { apply flat_map_ext_In. intros e0 He0. destruct (Hcan m Hm eq_refl e0 He0) as (E & _).
    rewrite E. reflexivity. }
  rewrite HF.
  rewrite (gather_flat (fun e0 => canon m (fst e0)) (fun e0 => map (fun v => LStr (strip v)) (snd e0))).
  assert (Hex : existsb (fun e0 => opt_eqb String.eqb (canon m (fst e0)) (Some c)) a = true).
  { apply existsb_exists. exists e. split; [exact He|]. rewrite C. cbn. apply String.eqb_refl. }
  rewrite Hex. reflexivity.
Qed.

(* with one converter per name format, class 1 is void *)
Lemma round_guard_unique acs f a :
  NoDup (map nf acs) ->
  (forall m, In m acs -> nf m = f -> map_symmetric m) ->
  round_guard acs f a.
Proof.
  intros Hn H e He. split.
  - intros m m' Hm Hm' E E'. subst f.
    pose proof (unique_sender _ _ Hn Hm) as S1. pose proof (unique_sender _ _ Hn Hm') as S2.
    rewrite E' in S2. assert (m = m') by congruence. subst m'. auto.
  - intros m n Hm Hf Hw. exact (H m Hm Hf _ _ Hw).
Qed.
