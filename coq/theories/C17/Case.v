(* C17/Case.v — Python's str.lower() on UTF-8 text (strengthening round 6).

   Python str = the Coq string of its UTF-8 bytes (Base/Str.v).  Base.Str.lower is the ASCII part of
   str.lower(); the attribute maps may hold any names (a German or Greek deployment has local names such as
   "Straße", "Größe", "κωδικός"), so the model of from_dict / adjust / to_ / ava_from needs the real thing.

   str.lower() maps a string code point by code point (unicodeobject.c do_lower -> lower_ucs4 ->
   _PyUnicode_ToLowerFull): an ASCII letter to its lower-case letter, any other code point to what the
   Unicode database says.  The database part is DATA: coq/gen/C17Case.v, regenerated on every run by
   harness/c17.py from str.lower() of the interpreter that runs the code under test, COMPLETE (every
   code point >= U+0080 whose lower() is not the code point itself; the harness checks for all code points
   that nothing else depends on the neighbours).  One character is outside this model: capital sigma
   U+03A3 lower-cases to final sigma (U+03C2) or sigma (U+03C3) depending on its neighbours; the table holds
   sigma for it and names with a capital sigma are not generated (harness ASSUMPTIONS).

   [lower] below cuts the byte string into UTF-8 characters by their lead byte (a byte that cannot start
   a character, or a character cut short by the end of the string, is left alone), looks every
   multi-byte character up in the table and lower-cases single bytes with Base.Str.lower_char.

   Proved here, for ALL byte strings (the table being checked once by computation, [table_ok_true] — a
   future Unicode table that breaks one of the facts breaks the build):
     lower_idem          lower (lower s) = lower s
     no_outer_ws_lower   no_outer_ws (lower s) = no_outer_ws s
     lower_single_bytes  on strings of single-byte characters lower is Base.Str.lower *)
From Coq Require Import String Ascii List Bool Arith NArith Lia.
From Verif Require Import Base.Str.
From VerifGen Require C17Case.
Import ListNotations.
Open Scope string_scope.

(* ---------------------------------------------------------------- the table, in normal form *)
Definition table : list (N * list (string * string)) := Eval vm_compute in C17Case.lower_table.

Fixpoint slookup (k : string) (d : list (string * string)) : option string :=
  match d with
  | [] => None
  | (k', v) :: r => if String.eqb k k' then Some v else slookup k r
  end.

Fixpoint blookup (n : N) (t : list (N * list (string * string))) : option (list (string * string)) :=
  match t with
  | [] => None
  | (n', b) :: r => if N.eqb n n' then Some b else blookup n r
  end.

(* the lower-case form of one multi-byte character c whose lead byte is a *)
Definition low_chunk (a : ascii) (c : string) : string :=
  match blookup (N_of_ascii a) table with
  | Some b => match slookup c b with Some v => v | None => c end
  | None => c
  end.

(* ---------------------------------------------------------------- UTF-8 characters by lead byte *)
Inductive clen_t := K1 | K2 | K3 | K4.

(* 0xxxxxxx, 10xxxxxx (cannot start a character), 11111xxx (not UTF-8): one byte;
   110xxxxx: two; 1110xxxx: three; 11110xxx: four *)
Definition clen (a : ascii) : clen_t :=
  match a with
  | Ascii _ _ _ b3 b4 b5 b6 b7 =>
      if b7 then if b6 then if b5 then if b4 then if b3 then K1 else K4 else K3 else K2 else K1 else K1
  end.

(* number of bytes that follow the lead byte *)
Definition need (a : ascii) : nat :=
  match clen a with K1 => 0 | K2 => 1 | K3 => 2 | K4 => 3 end.

Section Rec.
  Variable A : Type.
  Variable r_nil : A.
  Variable r_one : ascii -> A -> A.               (* a single byte, then the rest *)
  Variable r_short : string -> A.                 (* a character cut short by the end of the string *)
  Variable r_full : ascii -> string -> A -> A.    (* lead byte, the complete character, then the rest *)

  Fixpoint chunk_rec (s : string) : A :=
    match s with
    | EmptyString => r_nil
    | String a r1 =>
        match clen a with
        | K1 => r_one a (chunk_rec r1)
        | K2 => match r1 with
                | String b r2 => r_full a (String a (String b EmptyString)) (chunk_rec r2)
                | _ => r_short s
                end
        | K3 => match r1 with
                | String b (String c r3) => r_full a (String a (String b (String c EmptyString))) (chunk_rec r3)
                | _ => r_short s
                end
        | K4 => match r1 with
                | String b (String c (String d r4)) =>
                    r_full a (String a (String b (String c (String d EmptyString)))) (chunk_rec r4)
                | _ => r_short s
                end
        end
    end.

  Lemma chunk_rec_one a r : clen a = K1 -> chunk_rec (String a r) = r_one a (chunk_rec r).
  Proof. intros E. cbn [chunk_rec]. rewrite E. reflexivity. Qed.

  Lemma chunk_rec_short a r :
    clen a <> K1 -> String.length r < need a -> chunk_rec (String a r) = r_short (String a r).
  Proof.
    intros N1 L. unfold need in L. cbn [chunk_rec]. destruct (clen a); [congruence| | |].
    - destruct r as [|b r]; [reflexivity|cbn [String.length] in L; lia].
    - destruct r as [|b [|c r]]; try reflexivity. cbn [String.length] in L. lia.
    - destruct r as [|b [|c [|d r]]]; try reflexivity. cbn [String.length] in L. lia.
  Qed.

  Lemma chunk_rec_full a t r :
    clen a <> K1 -> String.length t = need a -> chunk_rec (String a (t ++ r)) = r_full a (String a t) (chunk_rec r).
  Proof.
    intros N1 L. unfold need in L. cbn [chunk_rec]. destruct (clen a); [congruence| | |].
    - destruct t as [|b [|? ?]]; cbn [String.length] in L; try lia. reflexivity.
    - destruct t as [|b [|c [|? ?]]]; cbn [String.length] in L; try lia. reflexivity.
    - destruct t as [|b [|c [|d [|? ?]]]]; cbn [String.length] in L; try lia. reflexivity.
  Qed.
End Rec.

(* ---------------------------------------------------------------- str.lower() *)
Definition lower : string -> string :=
  chunk_rec string EmptyString (fun a r => String (lower_char a) r) (fun s => s) (fun a c r => low_chunk a c ++ r).

(* every character of v is complete and is its own lower-case form *)
Definition fixed_b : string -> bool :=
  chunk_rec bool true (fun a r => Ascii.eqb (lower_char a) a && r) (fun _ => false)
            (fun a c r => String.eqb (low_chunk a c) c && r).

Lemma lower_one a r : clen a = K1 -> lower (String a r) = String (lower_char a) (lower r).
Proof. apply chunk_rec_one. Qed.

Lemma lower_short a r : clen a <> K1 -> String.length r < need a -> lower (String a r) = String a r.
Proof. apply chunk_rec_short. Qed.

Lemma lower_full a t r :
  clen a <> K1 -> String.length t = need a -> lower (String a (t ++ r)) = low_chunk a (String a t) ++ lower r.
Proof. apply chunk_rec_full. Qed.

(* ---------------------------------------------------------------- induction over the characters *)
Fixpoint stake (n : nat) (s : string) : string :=
  match n, s with
  | S k, String a r => String a (stake k r)
  | _, _ => EmptyString
  end.

Fixpoint sdrop (n : nat) (s : string) : string :=
  match n, s with
  | S k, String _ r => sdrop k r
  | _, _ => s
  end.

Lemma stake_sdrop n s : stake n s ++ sdrop n s = s.
Proof.
  revert s. induction n as [|k IH]; intros [|a r]; cbn [stake sdrop append]; try reflexivity.
  rewrite IH. reflexivity.
Qed.

Lemma stake_length n s : n <= String.length s -> String.length (stake n s) = n.
Proof.
  revert s. induction n as [|k IH]; intros [|a r] H; cbn [stake String.length] in *; try reflexivity; try lia.
  rewrite IH by lia. reflexivity.
Qed.

Lemma sdrop_length n s : String.length (sdrop n s) <= String.length s.
Proof.
  revert s. induction n as [|k IH]; intros [|a r]; cbn [sdrop String.length]; try lia.
  specialize (IH r). lia.
Qed.

Lemma chunk_ind (P : string -> Prop) :
  P EmptyString ->
  (forall a r, clen a = K1 -> P r -> P (String a r)) ->
  (forall a r, clen a <> K1 -> String.length r < need a -> P (String a r)) ->
  (forall a t r, clen a <> K1 -> String.length t = need a -> P r -> P (String a (t ++ r))) ->
  forall s, P s.
Proof.
  intros H0 H1 Hs Hf s.
  assert (G : forall n s, String.length s <= n -> P s).
  { clear s. induction n as [|n IH]; intros [|a r] L; cbn [String.length] in L; try exact H0; try lia.
    destruct (clen a) eqn:E.
    - apply H1; [exact E|]. apply IH. lia.
    - destruct (Nat.ltb (String.length r) (need a)) eqn:C.
      + apply Nat.ltb_lt in C. apply Hs; [congruence|exact C].
      + apply Nat.ltb_ge in C. rewrite <- (stake_sdrop (need a) r).
        apply Hf; [congruence|apply stake_length; exact C|]. apply IH. pose proof (sdrop_length (need a) r). lia.
    - destruct (Nat.ltb (String.length r) (need a)) eqn:C.
      + apply Nat.ltb_lt in C. apply Hs; [congruence|exact C].
      + apply Nat.ltb_ge in C. rewrite <- (stake_sdrop (need a) r).
        apply Hf; [congruence|apply stake_length; exact C|]. apply IH. pose proof (sdrop_length (need a) r). lia.
    - destruct (Nat.ltb (String.length r) (need a)) eqn:C.
      + apply Nat.ltb_lt in C. apply Hs; [congruence|exact C].
      + apply Nat.ltb_ge in C. rewrite <- (stake_sdrop (need a) r).
        apply Hf; [congruence|apply stake_length; exact C|]. apply IH. pose proof (sdrop_length (need a) r). lia. }
  apply (G (String.length s)). lia.
Qed.

(* ---------------------------------------------------------------- facts about single bytes *)
Lemma all_bytes (P : ascii -> Prop) :
  (forall b0 b1 b2 b3 b4 b5 b6 b7, P (Ascii b0 b1 b2 b3 b4 b5 b6 b7)) -> forall c, P c.
Proof. intros H [b0 b1 b2 b3 b4 b5 b6 b7]. apply H. Qed.

Lemma lower_char_idem c : lower_char (lower_char c) = lower_char c.
Proof.
  revert c. apply (all_bytes (fun c => lower_char (lower_char c) = lower_char c)).
  intros [] [] [] [] [] [] [] []; vm_compute; reflexivity.
Qed.

Lemma is_ws_lower_char c : is_ws (lower_char c) = is_ws c.
Proof.
  revert c. apply (all_bytes (fun c => is_ws (lower_char c) = is_ws c)).
  intros [] [] [] [] [] [] [] []; vm_compute; reflexivity.
Qed.

Definition is_K1 (k : clen_t) : bool := match k with K1 => true | _ => false end.

Lemma clen_lower_char c : clen c = K1 -> clen (lower_char c) = K1.
Proof.
  assert (H : forall c, implb (is_K1 (clen c)) (is_K1 (clen (lower_char c))) = true).
  { apply (all_bytes (fun c => implb (is_K1 (clen c)) (is_K1 (clen (lower_char c))) = true)).
    intros [] [] [] [] [] [] [] []; vm_compute; reflexivity. }
  intros E. specialize (H c). rewrite E in H. cbn in H. destruct (clen (lower_char c)); try reflexivity; discriminate.
Qed.

Lemma lead_not_ws c : clen c <> K1 -> is_ws c = false.
Proof.
  assert (H : forall c, is_K1 (clen c) || negb (is_ws c) = true).
  { apply (all_bytes (fun c => is_K1 (clen c) || negb (is_ws c) = true)).
    intros [] [] [] [] [] [] [] []; vm_compute; reflexivity. }
  intros N1. specialize (H c). destruct (clen c); try congruence; cbn in H; apply negb_true_iff in H; exact H.
Qed.

(* ---------------------------------------------------------------- the table is checked once *)
(* v is not empty and neither its first nor its last byte is (ASCII) whitespace *)
Definition solid (v : string) : bool :=
  match first_char v, last_char v with
  | Some x, Some y => negb (is_ws x) && negb (is_ws y)
  | _, _ => false
  end.

Definition entry_ok (kv : string * string) : bool := fixed_b (snd kv) && solid (snd kv) && solid (fst kv).

Definition tables_ok (t : list (N * list (string * string))) : bool := forallb (fun nb => forallb entry_ok (snd nb)) t.

Lemma table_ok_true : tables_ok table = true.
Proof. vm_compute. reflexivity. Qed.

Lemma slookup_In k d v : slookup k d = Some v -> In (k, v) d.
Proof.
  induction d as [|[k' v'] r IH]; cbn [slookup]; [discriminate|].
  destruct (String.eqb k k') eqn:E.
  - apply String.eqb_eq in E. subst k'. intros H. injection H as ->. left. reflexivity.
  - intros H. right. apply IH, H.
Qed.

Lemma blookup_In n t b : blookup n t = Some b -> In (n, b) t.
Proof.
  induction t as [|[n' b'] r IH]; cbn [blookup]; [discriminate|].
  destruct (N.eqb n n') eqn:E.
  - apply N.eqb_eq in E. subst n'. intros H. injection H as ->. left. reflexivity.
  - intros H. right. apply IH, H.
Qed.

(* a character is left alone or replaced by a checked table entry *)
Lemma checked_entry (t : list (N * list (string * string))) :
  tables_ok t = true ->
  forall n b c v, blookup n t = Some b -> slookup c b = Some v -> entry_ok (c, v) = true.
Proof.
  intros T n b c v B S. unfold tables_ok in T. rewrite forallb_forall in T.
  specialize (T _ (blookup_In _ _ _ B)). cbn [snd] in T. rewrite forallb_forall in T.
  exact (T _ (slookup_In _ _ _ S)).
Qed.

Lemma low_chunk_cases a c : low_chunk a c = c \/ entry_ok (c, low_chunk a c) = true.
Proof.
  unfold low_chunk. destruct (blookup (N_of_ascii a) table) as [b|] eqn:B; [|left; reflexivity].
  destruct (slookup c b) as [v|] eqn:S; [|left; reflexivity].
  right. exact (checked_entry table table_ok_true _ _ _ _ B S).
Qed.

(* ---------------------------------------------------------------- a fixed text stays put in front of any text *)
Lemma append_assoc (a b c : string) : (a ++ b) ++ c = a ++ (b ++ c).
Proof. induction a as [|x a IH]; cbn [append]; [reflexivity|]. rewrite IH. reflexivity. Qed.

Lemma append_nil_r (a : string) : a ++ EmptyString = a.
Proof. induction a as [|x a IH]; cbn [append]; [reflexivity|]. rewrite IH. reflexivity. Qed.

Lemma fixed_stable v : fixed_b v = true -> forall x, lower (v ++ x) = v ++ lower x.
Proof.
  revert v. apply (chunk_ind (fun v => fixed_b v = true -> forall x, lower (v ++ x) = v ++ lower x)).
  - intros _ x. reflexivity.
  - intros a r E IH H x. unfold fixed_b in H. rewrite chunk_rec_one in H by exact E.
    apply andb_true_iff in H as [Ha Hr]. apply Ascii.eqb_eq in Ha.
    cbn [append]. rewrite lower_one by exact E. rewrite Ha. rewrite (IH Hr). reflexivity.
  - intros a r N1 L H. unfold fixed_b in H. rewrite chunk_rec_short in H by assumption. discriminate.
  - intros a t r N1 L IH H x. unfold fixed_b in H. rewrite chunk_rec_full in H by assumption.
    apply andb_true_iff in H as [Hc Hr]. apply String.eqb_eq in Hc.
    cbn [append]. rewrite append_assoc. rewrite lower_full by assumption. rewrite Hc.
    rewrite (IH Hr). cbn [append]. rewrite append_assoc. reflexivity.
Qed.

Lemma low_chunk_stable a t :
  clen a <> K1 -> String.length t = need a ->
  forall x, lower (low_chunk a (String a t) ++ x) = low_chunk a (String a t) ++ lower x.
Proof.
  intros N1 L x. destruct (low_chunk_cases a (String a t)) as [E|E].
  - rewrite E. cbn [append]. rewrite lower_full by assumption. rewrite E. reflexivity.
  - unfold entry_ok in E. cbn [fst snd] in E. apply andb_true_iff in E as [E _]. apply andb_true_iff in E as [E _].
    apply fixed_stable. exact E.
Qed.

Theorem lower_idem s : lower (lower s) = lower s.
Proof.
  revert s. apply (chunk_ind (fun s => lower (lower s) = lower s)).
  - reflexivity.
  - intros a r E IH. rewrite lower_one by exact E. rewrite lower_one by (apply clen_lower_char; exact E).
    rewrite lower_char_idem, IH. reflexivity.
  - intros a r N1 L. rewrite lower_short by assumption. apply lower_short; assumption.
  - intros a t r N1 L IH. rewrite lower_full by assumption. rewrite low_chunk_stable by assumption.
    rewrite IH. reflexivity.
Qed.

(* ---------------------------------------------------------------- whitespace at the ends *)
Lemma solid_first v : solid v = true -> exists x r, v = String x r /\ is_ws x = false.
Proof.
  unfold solid. destruct v as [|x r]; cbn [first_char]; [discriminate|].
  destruct (last_char (String x r)); [|discriminate]. intros H. apply andb_true_iff in H as [H _].
  apply negb_true_iff in H. exists x, r. split; [reflexivity|exact H].
Qed.

Lemma solid_last v : solid v = true -> exists y, last_char v = Some y /\ is_ws y = false.
Proof.
  unfold solid. destruct (first_char v); [|discriminate]. destruct (last_char v) as [y|]; [|discriminate].
  intros H. apply andb_true_iff in H as [_ H]. apply negb_true_iff in H. exists y. split; [reflexivity|exact H].
Qed.

Lemma low_chunk_nonempty a t : low_chunk a (String a t) <> EmptyString.
Proof.
  destruct (low_chunk_cases a (String a t)) as [E|E]; [rewrite E; discriminate|].
  unfold entry_ok in E. cbn [fst snd] in E. apply andb_true_iff in E as [E _]. apply andb_true_iff in E as [_ E].
  destruct (solid_first _ E) as (x & r & -> & _). discriminate.
Qed.

Lemma lower_nonempty a r : lower (String a r) <> EmptyString.
Proof.
  destruct (clen a) eqn:E.
  - rewrite lower_one by exact E. discriminate.
  - destruct (Nat.ltb (String.length r) (need a)) eqn:C.
    + apply Nat.ltb_lt in C. rewrite lower_short by (congruence || exact C). discriminate.
    + apply Nat.ltb_ge in C. rewrite <- (stake_sdrop (need a) r). rewrite lower_full; [|congruence|apply stake_length; exact C].
      intros H. destruct (low_chunk a (String a (stake (need a) r))) eqn:Lc; [exact (low_chunk_nonempty _ _ Lc)|discriminate].
  - destruct (Nat.ltb (String.length r) (need a)) eqn:C.
    + apply Nat.ltb_lt in C. rewrite lower_short by (congruence || exact C). discriminate.
    + apply Nat.ltb_ge in C. rewrite <- (stake_sdrop (need a) r). rewrite lower_full; [|congruence|apply stake_length; exact C].
      intros H. destruct (low_chunk a (String a (stake (need a) r))) eqn:Lc; [exact (low_chunk_nonempty _ _ Lc)|discriminate].
  - destruct (Nat.ltb (String.length r) (need a)) eqn:C.
    + apply Nat.ltb_lt in C. rewrite lower_short by (congruence || exact C). discriminate.
    + apply Nat.ltb_ge in C. rewrite <- (stake_sdrop (need a) r). rewrite lower_full; [|congruence|apply stake_length; exact C].
      intros H. destruct (low_chunk a (String a (stake (need a) r))) eqn:Lc; [exact (low_chunk_nonempty _ _ Lc)|discriminate].
Qed.

Definition first_ws (s : string) : option bool := option_map is_ws (first_char s).
Definition last_ws (s : string) : option bool := option_map is_ws (last_char s).

Lemma no_outer_ws_ends s :
  no_outer_ws s = match first_ws s, last_ws s with Some x, Some y => negb x && negb y | _, _ => true end.
Proof.
  unfold no_outer_ws, first_ws, last_ws. destruct (first_char s), (last_char s); reflexivity.
Qed.

Lemma first_ws_app v x : v <> EmptyString -> first_ws (v ++ x) = first_ws v.
Proof. destruct v; [congruence|reflexivity]. Qed.

Lemma last_char_app v x :
  last_char (v ++ x) = match x with EmptyString => last_char v | _ => last_char x end.
Proof.
  induction v as [|c v IH]; cbn [append].
  - destruct x; reflexivity.
  - cbn [last_char]. destruct v as [|d v].
    + cbn [append]. destruct x; reflexivity.
    + cbn [append] in *. exact IH.
Qed.

Lemma last_char_cons c r : r <> EmptyString -> last_char (String c r) = last_char r.
Proof. destruct r; [congruence|reflexivity]. Qed.

Lemma first_ws_lower s : first_ws (lower s) = first_ws s.
Proof.
  destruct s as [|a r]; [reflexivity|].
  assert (Full : clen a <> K1 -> String.length r >= need a -> first_ws (lower (String a r)) = first_ws (String a r)).
  { intros N1 C. rewrite <- (stake_sdrop (need a) r). rewrite lower_full; [|exact N1|apply stake_length; exact C].
    rewrite first_ws_app by apply low_chunk_nonempty.
    destruct (low_chunk_cases a (String a (stake (need a) r))) as [E|E].
    - rewrite E. reflexivity.
    - unfold entry_ok in E. cbn [fst snd] in E. apply andb_true_iff in E as [E _]. apply andb_true_iff in E as [_ E].
      destruct (solid_first _ E) as (x & r' & -> & Hx). unfold first_ws. cbn [first_char option_map].
      rewrite Hx, (lead_not_ws a N1). reflexivity. }
  destruct (clen a) eqn:E.
  - rewrite lower_one by exact E. unfold first_ws. cbn [first_char option_map]. rewrite is_ws_lower_char. reflexivity.
  - destruct (Nat.ltb (String.length r) (need a)) eqn:C.
    + apply Nat.ltb_lt in C. rewrite lower_short by (congruence || exact C). reflexivity.
    + apply Nat.ltb_ge in C. apply Full; [congruence|exact C].
  - destruct (Nat.ltb (String.length r) (need a)) eqn:C.
    + apply Nat.ltb_lt in C. rewrite lower_short by (congruence || exact C). reflexivity.
    + apply Nat.ltb_ge in C. apply Full; [congruence|exact C].
  - destruct (Nat.ltb (String.length r) (need a)) eqn:C.
    + apply Nat.ltb_lt in C. rewrite lower_short by (congruence || exact C). reflexivity.
    + apply Nat.ltb_ge in C. apply Full; [congruence|exact C].
Qed.

Lemma last_ws_lower s : last_ws (lower s) = last_ws s.
Proof.
  revert s. apply (chunk_ind (fun s => last_ws (lower s) = last_ws s)).
  - reflexivity.
  - intros a r E IH. rewrite lower_one by exact E. destruct r as [|b r].
    + unfold last_ws. cbn. rewrite is_ws_lower_char. reflexivity.
    + unfold last_ws in *. rewrite last_char_cons by apply lower_nonempty. rewrite IH. reflexivity.
  - intros a r N1 L. rewrite lower_short by assumption. reflexivity.
  - intros a t r N1 L IH. rewrite lower_full by assumption. unfold last_ws in *.
    change (String a (t ++ r)) with (String a t ++ r). rewrite !last_char_app. destruct r as [|b r].
    + change (lower EmptyString) with EmptyString. cbn iota.
      destruct (low_chunk_cases a (String a t)) as [E|E]; [rewrite E; reflexivity|].
      unfold entry_ok in E. cbn [fst snd] in E. apply andb_true_iff in E as [E Ek]. apply andb_true_iff in E as [_ Ev].
      destruct (solid_last _ Ev) as (y & -> & Hy). destruct (solid_last _ Ek) as (z & -> & Hz).
      cbn [option_map]. rewrite Hy, Hz. reflexivity.
    + destruct (lower (String b r)) eqn:Lw; [exact (False_ind _ (lower_nonempty _ _ Lw))|]. exact IH.
Qed.

Theorem no_outer_ws_lower s : no_outer_ws (lower s) = no_outer_ws s.
Proof. rewrite !no_outer_ws_ends, first_ws_lower, last_ws_lower. reflexivity. Qed.

(* ---------------------------------------------------------------- single bytes: the ASCII lower() *)
Theorem lower_single_bytes s : all_chars (fun a => is_K1 (clen a)) s = true -> lower s = Str.lower s.
Proof.
  induction s as [|a r IH]; cbn [all_chars]; [reflexivity|].
  intros H. apply andb_true_iff in H as [Ha Hr]. rewrite lower_one by (destruct (clen a); try discriminate; reflexivity).
  cbn [Str.lower]. rewrite (IH Hr). reflexivity.
Qed.

Lemma ascii_is_K1 a : (code a <? 128)%nat = true -> is_K1 (clen a) = true.
Proof.
  assert (H : forall c, implb (code c <? 128)%nat (is_K1 (clen c)) = true).
  { apply (all_bytes (fun c => implb (code c <? 128)%nat (is_K1 (clen c)) = true)).
    intros [] [] [] [] [] [] [] []; vm_compute; reflexivity. }
  intros E. specialize (H a). rewrite E in H. exact H.
Qed.

(* examples: what the table says for the characters the seeded changes of this neighbourhood turn on
   (the values are those of the generated table: if Python's answer changes, the example stops checking
   and says so; nothing else depends on them) *)
Example lower_examples :
  lower "Stra" = "stra" /\
  lower (sb [83;116;114;97;195;159;101]%N) = sb [115;116;114;97;195;159;101]%N          (* "Straße" -> "straße" *)
  /\ lower (sb [195;132;82;71;69;82]%N) = sb [195;164;114;103;101;114]%N                (* "ÄRGER" -> "ärger" *)
  /\ lower (sb [196;176]%N) = sb [105;204;135]%N                                         (* U+0130 -> "i" U+0307 *)
  /\ lower (sb [226;132;170]%N) = "k"                                                     (* KELVIN SIGN -> "k" *)
  /\ lower (sb [240;144;144;128;195]%N) = sb [240;144;144;168;195]%N.                    (* U+10400, then a cut character *)
Proof. vm_compute. repeat split. Qed.
