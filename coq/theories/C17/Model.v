(* C17/Model.v — attribute converters, as coded NOW (after repairs 16472e5d and 09ff19a1 of
   ava_from; the earlier behaviours are kept as the *_v0 / *_v1 definitions at the end of this file).
   Mirrors src/saml2/attribute_converter.py: AttributeConverter.from_dict (248-268),
   adjust (238-246), to_ (428-455) with to_eptid_value (457-490), ava_from (305-342),
   lcd_ava_from (270-279), list_to_local / to_local (108-162), from_local (165-172);
   s_utils.do_ava (307-327) for lists of str; saml.AttributeType_.__init__ (NameFormat
   defaults to ...:uri when an Attribute object is built) and
   AttributeType_.harvest_element_tree (NameFormat defaults to ...:unspecified when parsed).

   Abstractions (see harness/c17.py ASSUMPTIONS):
   * a Python dict is an association list with unique keys in insertion order;
   * an AttributeValue is either plain text (None and "" identified: the code only ever
     tests `not value.text`) or one NameID extension element (attributes that are set,
     as (python member name, value) pairs sorted by name, and its text);
   * local attribute values are lists of str;
   * str.lower() is Case.lower (C17/Case.v): ASCII letters by Base.Str.lower_char, every other UTF-8
     character by the table coq/gen/C17Case.v that the harness reads from the interpreter's str.lower()
     on every run (all code points; capital sigma, whose image depends on its neighbours, is the one
     character outside the model); str.strip() is Base.Str.strip (ASCII whitespace). *)
From Coq Require Import String List Bool Arith.
From Verif Require Import Base.Str.
(* str.lower(): C17/Case.v (UTF-8 aware; the Unicode part is the table coq/gen/C17Case.v read from Python on
   every run).  From here on `lower` is Case.lower, in this file and in every file that imports it. *)
From Verif Require Export C17.Case.
Import ListNotations.
Open Scope string_scope.

Definition NAME_FORMAT_UNSPECIFIED := "urn:oasis:names:tc:SAML:2.0:attrname-format:unspecified".
Definition NAME_FORMAT_URI := "urn:oasis:names:tc:SAML:2.0:attrname-format:uri".
Definition NAMEID_FORMAT_PERSISTENT := "urn:oasis:names:tc:SAML:2.0:nameid-format:persistent".
Definition EPTID_OID := "urn:oid:1.3.6.1.4.1.5923.1.1.1.10".
Definition EPTID_LOCAL := "eduPersonTargetedID".
Definition EPTID_LOCAL_LC := "edupersontargetedid".

(* ---------------------------------------------------------------- dictionaries *)
Fixpoint lookup {A} (k : string) (d : list (string * A)) : option A :=
  match d with
  | [] => None
  | (k', v) :: r => if String.eqb k k' then Some v else lookup k r
  end.

(* d[k] = v : replace in place, else append *)
Fixpoint dset {A} (k : string) (v : A) (d : list (string * A)) : list (string * A) :=
  match d with
  | [] => [(k, v)]
  | (k', v') :: r => if String.eqb k k' then (k', v) :: r else (k', v') :: dset k v r
  end.

(* {k: v for k, v in items}: later items overwrite earlier ones *)
Definition from_items {A} (l : list (string * A)) : list (string * A) :=
  fold_left (fun d kv => dset (fst kv) (snd kv) d) l [].

Definition dict := list (string * string).

(* {k.lower(): v for k, v in d.items()} *)
Definition lower_keys (d : dict) : dict := from_items (map (fun kv => (lower (fst kv), snd kv)) d).
(* {value.lower(): key for key, value in d.items()} *)
Definition mirror (d : dict) : dict := from_items (map (fun kv => (lower (snd kv), fst kv)) d).

(* ---------------------------------------------------------------- converters *)
Record conv := { nf : string; to_ : dict; fro : dict }.

(* a map dictionary as written in a map module: identifier, optional "to", optional "fro" *)
Record srcmap := { s_ident : string; s_to : option dict; s_fro : option dict }.

(* AttributeConverter().from_dict(mapdict); None = ConverterError("Missing specifications") *)
Definition from_dict (s : srcmap) : option conv :=
  match s_fro s, s_to s with
  | None, None => None
  | Some f, Some t => Some {| nf := s_ident s; to_ := lower_keys t; fro := lower_keys f |}
  | None, Some t => let t' := lower_keys t in Some {| nf := s_ident s; to_ := t'; fro := mirror t' |}
  | Some f, None => let f' := lower_keys f in Some {| nf := s_ident s; to_ := mirror f'; fro := f' |}
  end.

(* ---------------------------------------------------------------- wire attributes *)
Inductive wval :=
| WText (s : string)
| WNameID (attrs : list (string * string)) (s : string).

Record wattr := { wname : option string; wnf : option string; wfriendly : option string; wvals : list wval }.

(* local values as to_local reports them: str, or {"NameID": {...}} *)
Inductive lval :=
| LStr (s : string)
| LNameID (kv : list (string * string)).

Definition ava := list (string * list lval).

(* ---------------------------------------------------------------- local -> wire *)
Definition to_one (m : conv) (kv : string * list string) : wattr :=
  let k := fst kv in
  let vs := snd kv in
  let unknown := {| wname := Some k; wnf := Some NAME_FORMAT_URI; wfriendly := None; wvals := map WText vs |} in
  match lookup (lower k) (to_ m) with
  | Some n =>
      if is_empty n then unknown
      else {| wname := Some n; wnf := Some (nf m); wfriendly := Some k;
              wvals := if String.eqb n EPTID_OID
                       then map (WNameID [("format", NAMEID_FORMAT_PERSISTENT)]) vs
                       else map WText vs |}
  | None => unknown
  end.

Definition conv_to (m : conv) (a : list (string * list string)) : list wattr := map (to_one m) a.

(* from_local: the FIRST converter with that name format *)
Definition sender (acs : list conv) (f : string) : option conv :=
  find (fun m => String.eqb (nf m) f) acs.

Definition from_local (acs : list conv) (a : list (string * list string)) (f : string) : option (list wattr) :=
  match sender acs f with
  | Some m => Some (conv_to m a)
  | None => None
  end.

(* ---------------------------------------------------------------- wire -> local *)
Inductive res := Ok (k : string) (vs : list lval) | KeyErr | AttrErr.

(* attr.lower() == "edupersontargetedid" *)
Definition eptid_name (attr : string) : bool := String.eqb (lower attr) EPTID_LOCAL_LC.

(* ava_from, per AttributeValue (since 16472e5d and 09ff19a1): a NameID element gives
   (ex.text or "").strip() when the local name is eduPersonTargetedID up to case OR the attribute's
   wire name is the eduPersonTargetedID OID ((attribute.name or "").strip() == OID, the mirror image
   of the test in to_()); otherwise the dict {"NameID": {attributes that are set, "value": text if any}} *)
Definition eptid_wire (wn : option string) : bool :=
  match wn with Some n => String.eqb (strip n) EPTID_OID | None => false end.

Definition recv_val (attr : string) (wn : option string) (v : wval) : lval :=
  match v with
  | WText s => LStr (strip s)
  | WNameID attrs s =>
      if eptid_name attr || eptid_wire wn then LStr (strip s)
      else LNameID (attrs ++ (if is_empty s then [] else [("value", strip s)]))%list
  end.

Definition ava_from (m : conv) (w : wattr) : res :=
  match wname w with
  | Some n =>
      match lookup (lower (strip n)) (fro m) with
      | Some a => Ok a (map (recv_val a (wname w)) (wvals w))
      | None => KeyErr
      end
  | None =>
      match wfriendly w with
      | Some f => let a := lower (strip f) in Ok a (map (recv_val a (wname w)) (wvals w))
      | None => AttrErr
      end
  end.

(* value.text of an AttributeValue that holds an element is None *)
Definition lcd_val (v : wval) : lval :=
  match v with
  | WText s => LStr (strip s)
  | WNameID _ _ => LStr ""
  end.

Definition lcd (w : wattr) : res :=
  match wname w with
  | Some n => Ok (strip n) (map lcd_val (wvals w))
  | None => AttrErr
  end.

(* acsd = {a.name_format: a for a in acs}: the LAST converter with that name format *)
Definition receiver (acs : list conv) (f : string) : option conv :=
  find (fun m => String.eqb (nf m) f) (rev acs).

(* what one Attribute contributes: Some (key, values), or None when it is skipped *)
Definition resolve (acs : list conv) (allow : bool) (w : wattr) : option (string * list lval) :=
  let first :=
    match wnf w with
    | Some f =>
        match receiver acs f with
        | Some m => Some (ava_from m w)
        | None => if String.eqb f NAME_FORMAT_UNSPECIFIED || allow then Some (lcd w) else None
        end
    | None => if allow then Some (lcd w) else None
    end in
  match first with
  | None => None
  | Some (Ok k vs) => Some (k, vs)
  | Some KeyErr =>
      if allow then match lcd w with Ok k vs => Some (k, vs) | _ => None end else None
  | Some AttrErr => None
  end.

(* ava[key].extend(val) / ava[key] = val *)
Fixpoint ext (k : string) (vs : list lval) (a : ava) : ava :=
  match a with
  | [] => [(k, vs)]
  | (k', vs') :: r => if String.eqb k k' then (k', (vs' ++ vs)%list) :: r else (k', vs') :: ext k vs r
  end.

Definition step (acs : list conv) (allow : bool) (a : ava) (w : wattr) : ava :=
  match resolve acs allow w with
  | Some (k, vs) => ext k vs a
  | None => a
  end.

Definition to_local (acs : list conv) (allow : bool) (ws : list wattr) : ava :=
  fold_left (step acs allow) ws [].

(* an Attribute read from XML: absent NameFormat becomes ...:unspecified *)
Definition harvest (w : wattr) : wattr :=
  {| wname := wname w;
     wnf := match wnf w with Some f => Some f | None => Some NAME_FORMAT_UNSPECIFIED end;
     wfriendly := wfriendly w; wvals := wvals w |}.

(* send, (optionally) serialise and parse, receive — with the same converters *)
Definition roundtrip (acs : list conv) (a : list (string * list string)) (f : string) (allow xml : bool) : option ava :=
  match from_local acs a f with
  | Some ws => Some (to_local acs allow (if xml then map harvest ws else ws))
  | None => None
  end.

(* ---------------------------------------------------------------- earlier versions of ava_from
   v0 (before 16472e5d): the NameID was unwrapped only `if attr == "eduPersonTargetedID" and ex.text`:
      not for an empty text and not for a local name spelled differently (adjust() lower-cases the
      local names of one-directional maps) — finding C17-F2;
   v1 (16472e5d .. 09ff19a1): `if attr.lower() == "edupersontargetedid" and ex.c_tag == "NameID"`:
      not for a map that gives the OID another local name — finding C17-F3.
   Kept to state what the repairs changed.  The chain below is the one above with the
   per-value function as a parameter. *)
Definition recv_val_v0 (attr : string) (v : wval) : lval :=
  match v with
  | WText s => LStr (strip s)
  | WNameID attrs s =>
      if String.eqb attr EPTID_LOCAL && negb (is_empty s) then LStr (strip s)
      else LNameID (attrs ++ (if is_empty s then [] else [("value", strip s)]))%list
  end.

Definition recv_val_v1 (attr : string) (v : wval) : lval :=
  match v with
  | WText s => LStr (strip s)
  | WNameID attrs s =>
      if eptid_name attr then LStr (strip s)
      else LNameID (attrs ++ (if is_empty s then [] else [("value", strip s)]))%list
  end.

Section Older.
  Variable rv : string -> wval -> lval.

  Definition ava_from_with (m : conv) (w : wattr) : res :=
    match wname w with
    | Some n =>
        match lookup (lower (strip n)) (fro m) with
        | Some a => Ok a (map (rv a) (wvals w))
        | None => KeyErr
        end
    | None =>
        match wfriendly w with
        | Some f => let a := lower (strip f) in Ok a (map (rv a) (wvals w))
        | None => AttrErr
        end
    end.

  Definition resolve_with (acs : list conv) (allow : bool) (w : wattr) : option (string * list lval) :=
    let first :=
      match wnf w with
      | Some f =>
          match receiver acs f with
          | Some m => Some (ava_from_with m w)
          | None => if String.eqb f NAME_FORMAT_UNSPECIFIED || allow then Some (lcd w) else None
          end
      | None => if allow then Some (lcd w) else None
      end in
    match first with
    | None => None
    | Some (Ok k vs) => Some (k, vs)
    | Some KeyErr =>
        if allow then match lcd w with Ok k vs => Some (k, vs) | _ => None end else None
    | Some AttrErr => None
    end.

  Definition step_with (acs : list conv) (allow : bool) (a : ava) (w : wattr) : ava :=
    match resolve_with acs allow w with
    | Some (k, vs) => ext k vs a
    | None => a
    end.

  Definition to_local_with (acs : list conv) (allow : bool) (ws : list wattr) : ava :=
    fold_left (step_with acs allow) ws [].

  Definition roundtrip_with (acs : list conv) (a : list (string * list string)) (f : string) (allow xml : bool) : option ava :=
    match from_local acs a f with
    | Some ws => Some (to_local_with acs allow (if xml then map harvest ws else ws))
    | None => None
    end.
End Older.

Definition to_local_v0 := to_local_with recv_val_v0.
Definition roundtrip_v0 := roundtrip_with recv_val_v0.
Definition to_local_v1 := to_local_with recv_val_v1.
Definition roundtrip_v1 := roundtrip_with recv_val_v1.

(* ================================================================ Python values (strengthening round 2)
   from_local / to_() are handed a dictionary local name -> VALUE, where a value is a list of Python
   objects or a single object (s_utils.do_ava, 307-328, as coded NOW, after repair 33a3a3a1):
     str                -> one AttributeValue, set_text(str): xsi:type xs:string, the text itself
     list               -> [do_ava(v)[0] for v in val], left to right
     None               -> do_ava returns None (inside a list: None[0] raises TypeError)
     val or isinstance(val, (bool, int, float))
                        -> set_text(val): bool -> xs:boolean "true"/"false" (str(x).lower()),
                           int -> xs:integer str(x), float -> xs:float str(x)
                           (saml.AttributeValueBase.set_text, type_to_xsd)
     anything else      -> raise OtherError (falsy objects of other types; not modelled)
   Before 33a3a3a1 the test was `val or val is False` and came BEFORE the None test: the integer 0 and
   the float 0.0 (falsy, not False, not None) raised OtherError("strange value type on: 0") — finding
   C17-F4, kept as do_ava1_v0 and the *_v0 chain at the end of this file.
   A float is PFloat r z: r = str(x) as Python prints it (data of the case, Coq has no floats here),
   z = (x == 0).
   The eduPersonTargetedID branch (wire name = the OID) does not go through do_ava:
   to_eptid_value wraps every item as it is (str items; a single str is one item).
   Not modelled (DRaise UNMODELLED, never equal to an observed exception name, so a generated case
   of that kind is reported as a disagreement): a single None (the Attribute object gets
   attribute_value = None), non-str items for the OID, nan/inf, bytes, nested lists, dicts. *)
From Coq Require Import ZArith DecimalString.

Inductive pyval := PStr (s : string) | PBool (b : bool) | PInt (z : Z) | PFloat (r : string) (zero : bool) | PNone.
Inductive pyvalue := VList (l : list pyval) | VOne (v : pyval).
Definition pava := list (string * pyvalue).

Inductive dres (A : Type) := DOk (x : A) | DRaise (e : string).
Arguments DOk {A} x.
Arguments DRaise {A} e.

Definition UNMODELLED := "unmodelled".

(* str(z) *)
Definition dec_of_Z (z : Z) : string := NilZero.string_of_int (Z.to_int z).

(* do_ava(v) for v that is not a list: (xsi:type, text) of the AttributeValue; None = returns None *)
Definition do_ava1 (v : pyval) : dres (option (string * string)) :=
  match v with
  | PStr s => DOk (Some ("xs:string", s))
  | PBool b => DOk (Some ("xs:boolean", if b then "true" else "false"))
  | PInt z => DOk (Some ("xs:integer", dec_of_Z z))
  | PFloat r _ => DOk (Some ("xs:float", r))
  | PNone => DOk None
  end.

(* before 33a3a3a1: `elif val or val is False:` *)
Definition do_ava1_v0 (v : pyval) : dres (option (string * string)) :=
  match v with
  | PInt z => if Z.eqb z 0 then DRaise "OtherError" else do_ava1 v
  | PFloat _ zero => if zero then DRaise "OtherError" else do_ava1 v
  | _ => do_ava1 v
  end.

(* [do_ava(v)[0] for v in val] *)
Fixpoint do_ava_list (l : list pyval) : dres (list (string * string)) :=
  match l with
  | [] => DOk []
  | v :: r =>
      match do_ava1 v with
      | DRaise e => DRaise e
      | DOk None => DRaise "TypeError"
      | DOk (Some x) => match do_ava_list r with DOk xs => DOk (x :: xs) | DRaise e => DRaise e end
      end
  end.

Definition do_ava (v : pyvalue) : dres (list (string * string)) :=
  match v with
  | VList l => do_ava_list l
  | VOne x =>
      match do_ava1 x with
      | DOk (Some tv) => DOk [tv]
      | DOk None => DRaise UNMODELLED
      | DRaise e => DRaise e
      end
  end.

Fixpoint all_str (l : list pyval) : option (list string) :=
  match l with
  | [] => Some []
  | PStr s :: r => match all_str r with Some vs => Some (s :: vs) | None => None end
  | _ :: _ => None
  end.

(* to_eptid_value: str items only *)
Definition eptid_value (v : pyvalue) : dres (list string) :=
  match v with
  | VList l => match all_str l with Some vs => DOk vs | None => DRaise UNMODELLED end
  | VOne (PStr s) => DOk [s]
  | VOne _ => DRaise UNMODELLED
  end.

(* name == "urn:oid:1.3.6.1.4.1.5923.1.1.1.10" in to_() *)
Definition sends_eptid (m : conv) (k : string) : bool :=
  match lookup (lower k) (to_ m) with Some n => String.eqb n EPTID_OID | None => false end.

(* one wire attribute plus what the AttributeValue objects carry besides the text: their xsi:type
   ("" for the NameID-wrapped values, which have none) *)
Definition to_one_py (m : conv) (kv : string * pyvalue) : dres (wattr * list string) :=
  if sends_eptid m (fst kv)
  then match eptid_value (snd kv) with
       | DOk vs => DOk (to_one m (fst kv, vs), map (fun _ => "") vs)
       | DRaise e => DRaise e
       end
  else match do_ava (snd kv) with
       | DOk tvs => DOk (to_one m (fst kv, map snd tvs), map fst tvs)
       | DRaise e => DRaise e
       end.

(* for key, value in attrvals.items(): the first exception ends the loop *)
Fixpoint dseq {A} (l : list (dres A)) : dres (list A) :=
  match l with
  | [] => DOk []
  | DRaise e :: _ => DRaise e
  | DOk x :: r => match dseq r with DOk xs => DOk (x :: xs) | DRaise e => DRaise e end
  end.

Definition conv_to_py (m : conv) (a : pava) : dres (list (wattr * list string)) := dseq (map (to_one_py m) a).

(* from_local: None without a converter for the name format (the values are not looked at) *)
Inductive sres := SOk (ws : list (wattr * list string)) | SNone | SExc (e : string).

Definition from_local_py (acs : list conv) (a : pava) (f : string) : sres :=
  match sender acs f with
  | Some m => match conv_to_py m a with DOk ws => SOk ws | DRaise e => SExc e end
  | None => SNone
  end.

Inductive rres := ROk (r : ava) | RNone | RExc (e : string).

(* the AttributeValue texts are str objects whatever the Python type was; parsing an xs:boolean /
   xs:integer value whose text is what set_text wrote gives that text back *)
Definition roundtrip_py (acs : list conv) (a : pava) (f : string) (allow xml : bool) : rres :=
  match from_local_py acs a f with
  | SOk ws => ROk (to_local acs allow (if xml then map harvest (map fst ws) else map fst ws))
  | SNone => RNone
  | SExc e => RExc e
  end.

(* ---------------------------------------------------------------- do_ava before 33a3a3a1 (finding
   C17-F4): the chain above with the per-object function as a parameter *)
Section OlderTyped.
  Variable d1 : pyval -> dres (option (string * string)).

  Fixpoint do_ava_list_with (l : list pyval) : dres (list (string * string)) :=
    match l with
    | [] => DOk []
    | v :: r =>
        match d1 v with
        | DRaise e => DRaise e
        | DOk None => DRaise "TypeError"
        | DOk (Some x) => match do_ava_list_with r with DOk xs => DOk (x :: xs) | DRaise e => DRaise e end
        end
    end.

  Definition do_ava_with (v : pyvalue) : dres (list (string * string)) :=
    match v with
    | VList l => do_ava_list_with l
    | VOne x =>
        match d1 x with
        | DOk (Some tv) => DOk [tv]
        | DOk None => DRaise UNMODELLED
        | DRaise e => DRaise e
        end
    end.

  Definition to_one_py_with (m : conv) (kv : string * pyvalue) : dres (wattr * list string) :=
    if sends_eptid m (fst kv)
    then match eptid_value (snd kv) with
         | DOk vs => DOk (to_one m (fst kv, vs), map (fun _ => "") vs)
         | DRaise e => DRaise e
         end
    else match do_ava_with (snd kv) with
         | DOk tvs => DOk (to_one m (fst kv, map snd tvs), map fst tvs)
         | DRaise e => DRaise e
         end.

  Definition from_local_py_with (acs : list conv) (a : pava) (f : string) : sres :=
    match sender acs f with
    | Some m => match dseq (map (to_one_py_with m) a) with DOk ws => SOk ws | DRaise e => SExc e end
    | None => SNone
    end.

  Definition roundtrip_py_with (acs : list conv) (a : pava) (f : string) (allow xml : bool) : rres :=
    match from_local_py_with acs a f with
    | SOk ws => ROk (to_local acs allow (if xml then map harvest (map fst ws) else map fst ws))
    | SNone => RNone
    | SExc e => RExc e
    end.
End OlderTyped.

Definition from_local_py_v0 := from_local_py_with do_ava1_v0.
Definition roundtrip_py_v0 := roundtrip_py_with do_ava1_v0.
