(* C17/Corr.v — correspondence runner: model output vs observed output, spec on observed output *)
From Coq Require Import String List Bool Arith.
From Verif Require Import Base.Str Base.Run C17.Model C17.Spec C17.Classes C17.Typed C17.Tables.
Import ListNotations.
Open Scope string_scope.

(* which converters a case runs with *)
Inductive acs_spec :=
| Bundled                              (* ac_factory() *)
| BundledSub (idx : list nat)          (* [ac_factory()[i] for i in idx] *)
| Custom (srcs : list srcmap).         (* [AttributeConverter().from_dict(s) for s in srcs] *)

Definition acs_of (a : acs_spec) : list conv :=
  match a with
  | Bundled => bundled
  | BundledSub idx => flat_map (fun i => match nth_error bundled i with Some m => [m] | None => [] end) idx
  | Custom srcs => flat_map (fun s => match from_dict s with Some m => [m] | None => [] end) srcs
  end.

(* local values are Python objects (Model.pyvalue: a list of str / bool / int / None items, or one
   such object); a send observes, per wire attribute, also the xsi:type of every AttributeValue
   ("<type>" or "<type>/nil" when xsi:nil is set); exceptions are observed by type name *)
Inductive case :=
| CSend (a : acs_spec) (av : pava) (f : string) (obs : sres)
| CRecv (a : acs_spec) (allow xml : bool) (ws : list wattr) (obs : option ava)
| CRound (a : acs_spec) (av : pava) (f : string) (allow xml : bool) (obs : rres)
| CLoad (s : srcmap) (obs : option (string * (dict * dict))).

(* ---------------------------------------------------------------- comparisons (order-free) *)
Definition pair_eqb (p q : string * string) : bool := String.eqb (fst p) (fst q) && String.eqb (snd p) (snd q).

Definition wval_eqb (a b : wval) : bool :=
  match a, b with
  | WText x, WText y => String.eqb x y
  | WNameID k x, WNameID l y => list_eqb pair_eqb k l && String.eqb x y
  | _, _ => false
  end.

Definition wattr_eqb (a b : wattr) : bool :=
  sopt_eqb (wname a) (wname b) && sopt_eqb (wnf a) (wnf b) && sopt_eqb (wfriendly a) (wfriendly b)
  && list_eqb wval_eqb (wvals a) (wvals b).

Definition count {A} (eqb : A -> A -> bool) (x : A) (l : list A) : nat := length (filter (eqb x) l).
Definition perm_eqb {A} (eqb : A -> A -> bool) (a b : list A) : bool :=
  (length a =? length b)%nat && forallb (fun x => (count eqb x a =? count eqb x b)%nat) a.

(* two dictionaries with unique keys hold the same items *)
Definition ava_eqb (a b : ava) : bool :=
  (length a =? length b)%nat && nodup_b (map fst a) && nodup_b (map fst b)
  && forallb (fun e => opt_eqb (list_eqb lval_eqb) (lookup (fst e) b) (Some (snd e))) a.

Definition dict_eqb (a b : dict) : bool :=
  (length a =? length b)%nat && nodup_b (map fst a) && nodup_b (map fst b)
  && forallb (fun e => sopt_eqb (lookup (fst e) b) (Some (snd e))) a.

Definition typed_wattr_eqb (a b : wattr * list string) : bool :=
  wattr_eqb (fst a) (fst b) && list_eqb String.eqb (snd a) (snd b).

Definition sres_eqb (a b : sres) : bool :=
  match a, b with
  | SOk x, SOk y => perm_eqb typed_wattr_eqb x y
  | SNone, SNone => true
  | SExc x, SExc y => String.eqb x y
  | _, _ => false
  end.

Definition rres_eqb (a b : rres) : bool :=
  match a, b with
  | ROk x, ROk y => ava_eqb x y
  | RNone, RNone => true
  | RExc x, RExc y => String.eqb x y
  | _, _ => false
  end.

Definition recv_input (xml : bool) (ws : list wattr) : list wattr := if xml then map harvest ws else ws.

Definition agrees (c : case) : bool :=
  match c with
  | CSend a av f obs => sres_eqb (from_local_py (acs_of a) av f) obs
  | CRecv a allow xml ws obs =>
      match obs with
      | Some r => ava_eqb (to_local (acs_of a) allow (recv_input xml ws)) r
      | None => false
      end
  | CRound a av f allow xml obs => rres_eqb (roundtrip_py (acs_of a) av f allow xml) obs
  | CLoad s obs =>
      match from_dict s, obs with
      | None, None => true
      | Some m, Some (f, (t, fr)) => String.eqb (nf m) f && dict_eqb (to_ m) t && dict_eqb (fro m) fr
      | _, _ => false
      end
  end.

Definition holds (c : case) : bool :=
  match c with
  | CSend a av f obs => spec_send_py_b (acs_of a) f av obs
  | CRecv a allow xml ws obs =>
      match obs with
      | Some r => spec_recv_b (acs_of a) allow (recv_input xml ws) r
      | None => negb (forallb (in_scope_attr_b (acs_of a)) (recv_input xml ws))
      end
  | CRound a av f allow xml obs => spec_round_py_b (acs_of a) f av obs
  | CLoad _ _ => true
  end.

(* finding classes: defined in C17/Classes.v (send_cls, recv_cls, round_cls: the OPEN class 1, for
   which it is proved there that class 0 implies the guards of the theorems; *_cls_reg adds
   recognition of classes 2 and 3, repaired by 16472e5d and 09ff19a1 — findings C17-F2 / C17-F3 being
   closed, the driver reports a case that fails the spec inside them as VIOLATION with that input);
   Typed.v adds class 4 (the integer 0 / float 0.0 among the values: do_ava raised OtherError, C17-F4,
   repaired by 33a3a3a1), recognised after class 1 in the same way *)
Definition cls (c : case) : nat :=
  match c with
  | CSend a av f _ => send_cls_reg_py (acs_of a) f av
  | CRecv a allow xml ws _ => recv_cls_reg (acs_of a) (recv_input xml ws)
  | CRound a av f _ _ _ => round_cls_reg_py (acs_of a) f av
  | CLoad _ _ => 0
  end.

Definition run := run_cases agrees holds cls.

(* (wire attributes the model sends NOW and, for a send, those of the pre-33a3a3a1 model in the second
    component; result of the model NOW, results of the pre-16472e5d (v0) and
    pre-09ff19a1 (v1) models, converter the model loads, holds, cls) *)
Definition explain (c : case) :=
  match c with
  | CSend a av f obs =>
      (from_local_py (acs_of a) av f,
       match from_local_py_v0 (acs_of a) av f with SExc e => RExc e | _ => RNone end, None, None, holds c, cls c)
  | CRecv a allow xml ws obs =>
      (SNone, ROk (to_local (acs_of a) allow (recv_input xml ws)),
       Some (to_local_v0 (acs_of a) allow (recv_input xml ws), to_local_v1 (acs_of a) allow (recv_input xml ws)),
       None, holds c, cls c)
  | CRound a av f allow xml obs =>
      (from_local_py (acs_of a) av f, roundtrip_py (acs_of a) av f allow xml,
       match roundtrip_v0 (acs_of a) (lowered av) f allow xml, roundtrip_v1 (acs_of a) (lowered av) f allow xml with
       | Some x, Some y => Some (x, y) | _, _ => None end,
       None, holds c, cls c)
  | CLoad s obs => (SNone, RNone, None, Some (from_dict s), holds c, cls c)
  end.
