(* C17/Spec.v — the property, over inputs and OBSERVABLE outputs.  Written from the property
   text:
     (send)   for every attribute a map defines and every list of string values, the wire
              attribute produced for a local name carries the name, name format and friendly
              name the map gives and exactly the given values;
     (recv)   every wire attribute whose name the map for its name format knows appears under
              that map's local name with exactly its values in order, surrounding whitespace
              trimmed; attributes whose name or name format is unknown are dropped unless
              unknown attributes are allowed, in which case they appear under their wire name;
     (round)  sending and then receiving with the same set of maps never loses an attribute or a
              value, although alias names may collapse to the canonical local name.
   "The map for a name format" is read strictly: EVERY converter of the set that carries the
   name format is such a map (so two converters sharing a name format and disagreeing on an
   attribute cannot both be satisfied). *)
From Coq Require Import String List Bool Arith.
From Verif Require Import Base.Str C17.Model.
Import ListNotations.
Open Scope string_scope.

(* ------------------------------------------------ what a map gives (names are case-insensitive,
   tables being lower-cased on load; a wire name is matched modulo surrounding whitespace) *)
Definition wire_name (m : conv) (k : string) : option string :=
  match lookup (lower k) (to_ m) with
  | Some n => if is_empty n then None else Some n
  | None => None
  end.

Definition local_name (m : conv) (n : string) : option string := lookup (lower (strip n)) (fro m).

(* canonical local name of k: where k's wire name leads back to *)
Definition canon (m : conv) (k : string) : option string :=
  match wire_name m k with
  | Some n => local_name m n
  | None => None
  end.

(* the string a wire value carries; eduPersonTargetedID values travel inside a NameID element *)
Definition payload (v : wval) : string :=
  match v with WText s => s | WNameID _ s => s end.

Definition is_wrapped (v : wval) : bool :=
  match v with WText _ => false | WNameID _ _ => true end.

(* ------------------------------------------------ send *)
Definition carries (w : wattr) (n f k : string) (vs : list string) : Prop :=
  wname w = Some n /\ wnf w = Some f /\ wfriendly w = Some k /\ map payload (wvals w) = vs.

Definition spec_send (acs : list conv) (f : string) (a : list (string * list string))
           (out : option (list wattr)) : Prop :=
  forall m, In m acs -> nf m = f ->
    exists ws, out = Some ws /\ length ws = length a /\
      forall e n, In e a -> wire_name m (fst e) = Some n ->
        exists w, In w ws /\ carries w n f (fst e) (snd e).

(* ------------------------------------------------ receive *)
(* local names the maps for name format f give to wire name n (each once) *)
Fixpoint dedup (l : list string) : list string :=
  match l with
  | [] => []
  | x :: r => if mem x r then dedup r else x :: dedup r
  end.

Definition known_targets (acs : list conv) (n f : string) : list string :=
  dedup (flat_map (fun m => if String.eqb (nf m) f
                            then match local_name m n with Some c => [c] | None => [] end
                            else []) acs).

Definition has_format (acs : list conv) (f : string) : bool :=
  existsb (fun m => String.eqb (nf m) f) acs.

(* pol: the text leaves open what happens to an attribute of the *unspecified* name format when
   no map carries that format — it may be passed under its wire name (pol = true) or treated as
   unknown (pol = false); either is accepted, uniformly for a statement. *)
Definition targets (acs : list conv) (allow pol : bool) (n f : string) : list string :=
  match known_targets acs n f with
  | [] => if allow || (pol && String.eqb f NAME_FORMAT_UNSPECIFIED && negb (has_format acs f))
          then [strip n] else []
  | l => l
  end.

Definition trimmed (w : wattr) : list lval := map (fun v => LStr (strip (payload v))) (wvals w).

Definition contrib (acs : list conv) (allow pol : bool) (w : wattr) : list (string * list lval) :=
  match wname w, wnf w with
  | Some n, Some f => map (fun c => (c, trimmed w)) (targets acs allow pol n f)
  | _, _ => []
  end.

(* values expected under local name c: those of every contributing attribute, in order *)
Definition gather (c : string) (l : list (string * list lval)) : option (list lval) :=
  match filter (fun e => String.eqb (fst e) c) l with
  | [] => None
  | es => Some (concat (map snd es))
  end.

(* statements the text speaks about: every attribute has a Name and a NameFormat (absent
   NameFormat has already been read as unspecified), and NameID-wrapped values occur only in
   an eduPersonTargetedID attribute that a map for its name format knows *)
Definition in_scope_attr (acs : list conv) (w : wattr) : Prop :=
  exists n f, wname w = Some n /\ wnf w = Some f /\
    (existsb is_wrapped (wvals w) = true -> strip n = EPTID_OID /\ known_targets acs n f <> []).

Definition spec_recv (acs : list conv) (allow : bool) (ws : list wattr) (result : ava) : Prop :=
  (forall w, In w ws -> in_scope_attr acs w) ->
  NoDup (map fst result) /\
  exists pol, forall c, lookup c result = gather c (flat_map (contrib acs allow pol) ws).

(* ------------------------------------------------ send then receive *)
Definition expected_under (m : conv) (c : string) (a : list (string * list string)) : list lval :=
  concat (map (fun e => if opt_eqb String.eqb (canon m (fst e)) (Some c)
                        then map (fun v => LStr (strip v)) (snd e) else []) a).

Definition spec_round (acs : list conv) (f : string) (a : list (string * list string))
           (result : option ava) : Prop :=
  (* scope: every attribute sent is one that a map for f defines *)
  (forall e, In e a -> exists m, In m acs /\ nf m = f /\ wire_name m (fst e) <> None) ->
  forall m, In m acs -> nf m = f ->
    exists r, result = Some r /\
      forall e, In e a -> wire_name m (fst e) <> None ->
        exists c, canon m (fst e) = Some c /\ lookup c r = Some (expected_under m c a).

(* ------------------------------------------------ boolean versions (evaluated on observed outputs) *)
Definition lval_eqb (a b : lval) : bool :=
  match a, b with
  | LStr x, LStr y => String.eqb x y
  | LNameID x, LNameID y =>
      list_eqb (fun p q => String.eqb (fst p) (fst q) && String.eqb (snd p) (snd q)) x y
  | _, _ => false
  end.

Definition carries_b (w : wattr) (n f k : string) (vs : list string) : bool :=
  opt_eqb String.eqb (wname w) (Some n) && opt_eqb String.eqb (wnf w) (Some f)
  && opt_eqb String.eqb (wfriendly w) (Some k) && list_eqb String.eqb (map payload (wvals w)) vs.

Definition spec_send_b (acs : list conv) (f : string) (a : list (string * list string))
           (out : option (list wattr)) : bool :=
  forallb (fun m =>
    negb (String.eqb (nf m) f) ||
    match out with
    | None => false
    | Some ws =>
        (length ws =? length a)%nat &&
        forallb (fun e => match wire_name m (fst e) with
                          | None => true
                          | Some n => existsb (fun w => carries_b w n f (fst e) (snd e)) ws
                          end) a
    end) acs.

Definition in_scope_attr_b (acs : list conv) (w : wattr) : bool :=
  match wname w, wnf w with
  | Some n, Some f =>
      negb (existsb is_wrapped (wvals w)) ||
      (String.eqb (strip n) EPTID_OID && negb (match known_targets acs n f with [] => true | _ => false end))
  | _, _ => false
  end.

Fixpoint nodup_b (l : list string) : bool :=
  match l with
  | [] => true
  | x :: r => negb (mem x r) && nodup_b r
  end.

Definition recv_matches (acs : list conv) (allow pol : bool) (ws : list wattr) (result : ava) : bool :=
  let exp := flat_map (contrib acs allow pol) ws in
  forallb (fun c => opt_eqb (list_eqb lval_eqb) (lookup c result) (gather c exp))
          (map fst result ++ map fst exp).

Definition spec_recv_b (acs : list conv) (allow : bool) (ws : list wattr) (result : ava) : bool :=
  negb (forallb (in_scope_attr_b acs) ws) ||
  (nodup_b (map fst result) &&
   (recv_matches acs allow true ws result || recv_matches acs allow false ws result)).

Definition is_some {A} (o : option A) : bool := match o with Some _ => true | None => false end.

Definition spec_round_b (acs : list conv) (f : string) (a : list (string * list string))
           (result : option ava) : bool :=
  negb (forallb (fun e => existsb (fun m => String.eqb (nf m) f && is_some (wire_name m (fst e))) acs) a) ||
  forallb (fun m =>
    negb (String.eqb (nf m) f) ||
    match result with
    | None => false
    | Some r =>
        forallb (fun e =>
          negb (is_some (wire_name m (fst e))) ||
          match canon m (fst e) with
          | Some c => opt_eqb (list_eqb lval_eqb) (lookup c r) (Some (expected_under m c a))
          | None => false
          end) a
    end) acs.

(* ================================================================ Python values (strengthening round 2)
   "exactly the given values" when the caller hands over Python objects, written from the property
   text (its quantifier names empty list, empty string, unicode, booleans/integers):
     * a value is a str, a bool, an int or a float; what the wire carries for it is the str itself,
       the xs:boolean lexical form "true"/"false", the decimal numeral, the numeral Python prints for
       the float (given with the case) — and the AttributeValue is typed accordingly (xs:string /
       xs:boolean / xs:integer / xs:float);
     * a single object stands for the list holding just that object;
     * None is not a value: a dictionary containing it is outside the property;
     * eduPersonTargetedID values (wire name = the OID, sent inside NameID elements) are strings. *)
From Coq Require Import ZArith.

Definition lexical (v : pyval) : option string :=
  match v with
  | PStr s => Some s
  | PBool true => Some "true"
  | PBool false => Some "false"
  | PInt z => Some (dec_of_Z z)
  | PFloat r _ => Some r
  | PNone => None
  end.

Definition xs_type (v : pyval) : string :=
  match v with
  | PStr _ => "xs:string"
  | PBool _ => "xs:boolean"
  | PInt _ => "xs:integer"
  | PFloat _ _ => "xs:float"
  | PNone => ""
  end.

Definition given (v : pyvalue) : list pyval := match v with VList l => l | VOne x => [x] end.

Fixpoint lexicals (l : list pyval) : option (list string) :=
  match l with
  | [] => Some []
  | v :: r => match lexical v, lexicals r with Some s, Some ss => Some (s :: ss) | _, _ => None end
  end.

Definition given_texts (v : pyvalue) : option (list string) := lexicals (given v).

(* the dictionary as lists of strings; None when something in it is not a value *)
Fixpoint givens (a : pava) : option (list (string * list string)) :=
  match a with
  | [] => Some []
  | e :: r => match given_texts (snd e), givens r with
              | Some vs, Some r' => Some ((fst e, vs) :: r')
              | _, _ => None
              end
  end.

Definition is_pstr (v : pyval) : bool := match v with PStr _ => true | _ => false end.

(* every attribute that a map for f sends under the eduPersonTargetedID OID has str values *)
Definition py_scope_b (acs : list conv) (f : string) (a : pava) : bool :=
  forallb (fun m =>
    negb (String.eqb (nf m) f) ||
    forallb (fun e => negb (opt_eqb String.eqb (wire_name m (fst e)) (Some EPTID_OID)) ||
                      forallb is_pstr (given (snd e))) a) acs.

Definition sres_wire (o : sres) : option (list wattr) :=
  match o with SOk ws => Some (map fst ws) | _ => None end.

Definition rres_opt (o : rres) : option ava := match o with ROk r => Some r | _ => None end.

(* w is the attribute sent for e and its AttributeValues are typed as e's values are *)
Definition typed_as (w : wattr * list string) (n : string) (e : string * pyvalue) : Prop :=
  wname (fst w) = Some n /\ wfriendly (fst w) = Some (fst e) /\ snd w = map xs_type (given (snd e)).

Definition spec_send_py (acs : list conv) (f : string) (a : pava) (out : sres) : Prop :=
  py_scope_b acs f a = true ->
  forall a', givens a = Some a' ->
    spec_send acs f a' (sres_wire out) /\
    forall m ws, In m acs -> nf m = f -> out = SOk ws ->
      forall e n, In e a -> wire_name m (fst e) = Some n -> n <> EPTID_OID ->
        exists w, In w ws /\ typed_as w n e.

Definition spec_round_py (acs : list conv) (f : string) (a : pava) (result : rres) : Prop :=
  py_scope_b acs f a = true ->
  forall a', givens a = Some a' -> spec_round acs f a' (rres_opt result).

Definition typed_as_b (w : wattr * list string) (n : string) (e : string * pyvalue) : bool :=
  opt_eqb String.eqb (wname (fst w)) (Some n) && opt_eqb String.eqb (wfriendly (fst w)) (Some (fst e))
  && list_eqb String.eqb (snd w) (map xs_type (given (snd e))).

Definition types_b (acs : list conv) (f : string) (a : pava) (out : sres) : bool :=
  match out with
  | SOk ws =>
      forallb (fun m =>
        negb (String.eqb (nf m) f) ||
        forallb (fun e => match wire_name m (fst e) with
                          | Some n => String.eqb n EPTID_OID || existsb (fun w => typed_as_b w n e) ws
                          | None => true
                          end) a) acs
  | _ => true
  end.

Definition spec_send_py_b (acs : list conv) (f : string) (a : pava) (out : sres) : bool :=
  negb (py_scope_b acs f a) ||
  match givens a with
  | Some a' => spec_send_b acs f a' (sres_wire out) && types_b acs f a out
  | None => true
  end.

Definition spec_round_py_b (acs : list conv) (f : string) (a : pava) (result : rres) : bool :=
  negb (py_scope_b acs f a) ||
  match givens a with
  | Some a' => spec_round_b acs f a' (rres_opt result)
  | None => true
  end.
