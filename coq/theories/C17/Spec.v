(* C17/Spec.v — the property, over inputs and OBSERVABLE outputs.  Written from the property
   text:
     (send)   for every attribute a map defines and every list of string values, the wire
              attribute produced for a local name carries the name, name format and friendly
              name the map gives and exactly the given values;
     (recv)   every wire attribute whose name the map for its name format knows appears under
              that map's local name with exactly its values in order, surrounding whitespace
              trimmed; attributes whose name or name format is unknown are dropped unless
              unknown attributes are allowed, in which case they appear under their wire name;
     (round)  sending and then receiving with the same set of maps never loses an attribute or a
              value, although alias names may collapse to the canonical local name.
   "The map for a name format" is read strictly: EVERY converter of the set that carries the
   name format is such a map (so two converters sharing a name format and disagreeing on an
   attribute cannot both be satisfied). *)
From Coq Require Import String List Bool Arith.
From Verif Require Import Base.Str C17.Model.
Import ListNotations.
Open Scope string_scope.

(* ------------------------------------------------ what a map gives (names are case-insensitive,
   tables being lower-cased on load; a wire name is matched modulo surrounding whitespace) *)
Definition wire_name (m : conv) (k : string) : option string :=
  match lookup (lower k) (to_ m) with
  | Some n => if is_empty n then None else Some n
  | None => None
  end.

Definition local_name (m : conv) (n : string) : option string := lookup (lower (strip n)) (fro m).

(* canonical local name of k: where k's wire name leads back to *)
Definition canon (m : conv) (k : string) : option string :=
  match wire_name m k with
  | Some n => local_name m n
  | None => None
  end.

(* the string a wire value carries; eduPersonTargetedID values travel inside a NameID element *)
Definition payload (v : wval) : string :=
  match v with WText s => s | WNameID _ s => s end.

Definition is_wrapped (v : wval) : bool :=
  match v with WText _ => false | WNameID _ _ => true end.

(* ------------------------------------------------ send *)
Definition carries (w : wattr) (n f k : string) (vs : list string) : Prop :=
  wname w = Some n /\ wnf w = Some f /\ wfriendly w = Some k /\ map payload (wvals w) = vs.

Definition spec_send (acs : list conv) (f : string) (a : list (string * list string))
           (out : option (list wattr)) : Prop :=
  forall m, In m acs -> nf m = f ->
    exists ws, out = Some ws /\ length ws = length a /\
      forall e n, In e a -> wire_name m (fst e) = Some n ->
        exists w, In w ws /\ carries w n f (fst e) (snd e).

(* ------------------------------------------------ receive *)
(* local names the maps for name format f give to wire name n (each once) *)
Fixpoint dedup (l : list string) : list string :=
  match l with
  | [] => []
  | x :: r => if mem x r then dedup r else x :: dedup r
  end.

Definition known_targets (acs : list conv) (n f : string) : list string :=
  dedup (flat_map (fun m => if String.eqb (nf m) f
                            then match local_name m n with Some c => [c] | None => [] end
                            else []) acs).

Definition has_format (acs : list conv) (f : string) : bool :=
  existsb (fun m => String.eqb (nf m) f) acs.

(* pol: the text leaves open what happens to an attribute of the *unspecified* name format when
   no map carries that format — it may be passed under its wire name (pol = true) or treated as
   unknown (pol = false); either is accepted, uniformly for a statement. *)
Definition targets (acs : list conv) (allow pol : bool) (n f : string) : list string :=
  match known_targets acs n f with
  | [] => if allow || (pol && String.eqb f NAME_FORMAT_UNSPECIFIED && negb (has_format acs f))
          then [strip n] else []
  | l => l
  end.

Definition trimmed (w : wattr) : list lval := map (fun v => LStr (strip (payload v))) (wvals w).

Definition contrib (acs : list conv) (allow pol : bool) (w : wattr) : list (string * list lval) :=
  match wname w, wnf w with
  | Some n, Some f => map (fun c => (c, trimmed w)) (targets acs allow pol n f)
  | _, _ => []
  end.

(* values expected under local name c: those of every contributing attribute, in order *)
Definition gather (c : string) (l : list (string * list lval)) : option (list lval) :=
  match filter (fun e => String.eqb (fst e) c) l with
  | [] => None
  | es => Some (concat (map snd es))
  end.

(* statements the text speaks about: every attribute has a Name and a NameFormat (absent
   NameFormat has already been read as unspecified), and NameID-wrapped values occur only in
   an eduPersonTargetedID attribute that a map for its name format knows *)
Definition in_scope_attr (acs : list conv) (w : wattr) : Prop :=
  exists n f, wname w = Some n /\ wnf w = Some f /\
    (existsb is_wrapped (wvals w) = true -> strip n = EPTID_OID /\ known_targets acs n f <> []).

Definition spec_recv (acs : list conv) (allow : bool) (ws : list wattr) (result : ava) : Prop :=
  (forall w, In w ws -> in_scope_attr acs w) ->
  NoDup (map fst result) /\
  exists pol, forall c, lookup c result = gather c (flat_map (contrib acs allow pol) ws).

(* ------------------------------------------------ send then receive *)
Definition expected_under (m : conv) (c : string) (a : list (string * list string)) : list lval :=
  concat (map (fun e => if opt_eqb String.eqb (canon m (fst e)) (Some c)
                        then map (fun v => LStr (strip v)) (snd e) else []) a).

Definition spec_round (acs : list conv) (f : string) (a : list (string * list string))
           (result : option ava) : Prop :=
  (* scope: every attribute sent is one that a map for f defines *)
  (forall e, In e a -> exists m, In m acs /\ nf m = f /\ wire_name m (fst e) <> None) ->
  forall m, In m acs -> nf m = f ->
    exists r, result = Some r /\
      forall e, In e a -> wire_name m (fst e) <> None ->
        exists c, canon m (fst e) = Some c /\ lookup c r = Some (expected_under m c a).

(* ------------------------------------------------ boolean versions (evaluated on observed outputs) *)
Definition lval_eqb (a b : lval) : bool :=
  match a, b with
  | LStr x, LStr y => String.eqb x y
  | LNameID x, LNameID y =>
      list_eqb (fun p q => String.eqb (fst p) (fst q) && String.eqb (snd p) (snd q)) x y
  | _, _ => false
  end.

Definition carries_b (w : wattr) (n f k : string) (vs : list string) : bool :=
  opt_eqb String.eqb (wname w) (Some n) && opt_eqb String.eqb (wnf w) (Some f)
  && opt_eqb String.eqb (wfriendly w) (Some k) && list_eqb String.eqb (map payload (wvals w)) vs.

Definition spec_send_b (acs : list conv) (f : string) (a : list (string * list string))
           (out : option (list wattr)) : bool :=
  forallb (fun m =>
    negb (String.eqb (nf m) f) ||
    match out with
    | None => false
    | Some ws =>
        (length ws =? length a)%nat &&
        forallb (fun e => match wire_name m (fst e) with
                          | None => true
                          | Some n => existsb (fun w => carries_b w n f (fst e) (snd e)) ws
                          end) a
    end) acs.

Definition in_scope_attr_b (acs : list conv) (w : wattr) : bool :=
  match wname w, wnf w with
  | Some n, Some f =>
      negb (existsb is_wrapped (wvals w)) ||
      (String.eqb (strip n) EPTID_OID && negb (match known_targets acs n f with [] => true | _ => false end))
  | _, _ => false
  end.

Fixpoint nodup_b (l : list string) : bool :=
  match l with
  | [] => true
  | x :: r => negb (mem x r) && nodup_b r
  end.

Definition recv_matches (acs : list conv) (allow pol : bool) (ws : list wattr) (result : ava) : bool :=
  let exp := flat_map (contrib acs allow pol) ws in
  forallb (fun c => opt_eqb (list_eqb lval_eqb) (lookup c result) (gather c exp))
          (map fst result ++ map fst exp).

Definition spec_recv_b (acs : list conv) (allow : bool) (ws : list wattr) (result : ava) : bool :=
  negb (forallb (in_scope_attr_b acs) ws) ||
  (nodup_b (map fst result) &&
   (recv_matches acs allow true ws result || recv_matches acs allow false ws result)).

Definition is_some {A} (o : option A) : bool := match o with Some _ => true | None => false end.

Definition spec_round_b (acs : list conv) (f : string) (a : list (string * list string))
           (result : option ava) : bool :=
  negb (forallb (fun e => existsb (fun m => String.eqb (nf m) f && is_some (wire_name m (fst e))) acs) a) ||
  forallb (fun m =>
    negb (String.eqb (nf m) f) ||
    match result with
    | None => false
    | Some r =>
        forallb (fun e =>
          negb (is_some (wire_name m (fst e))) ||
          match canon m (fst e) with
          | Some c => opt_eqb (list_eqb lval_eqb) (lookup c r) (Some (expected_under m c a))
          | None => false
          end) a
    end) acs.
