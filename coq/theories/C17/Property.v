(* C17/Property.v — property theorems only. *)
From Coq Require Import String List Bool ZArith.
From Verif Require Import Base.Str C17.Model C17.Spec C17.Proofs C17.Reflect C17.Classes C17.Typed C17.FromDict
     C17.Tables C17.TableProofs.
Import ListNotations.
Open Scope string_scope.

(* ---- send: for EVERY converter set, name format and local ava outside finding class 1, the wire
   attribute produced for each defined local name carries the name, name format, friendly name
   the map gives and exactly the given values *)
Theorem c17_send : forall acs f a, send_cls acs f a = 0 -> spec_send acs f a (from_local acs a f).
Proof. exact send_correct. Qed.
Print Assumptions c17_send.

Theorem c17_send_unique_formats : forall acs f a, NoDup (map nf acs) -> spec_send acs f a (from_local acs a f).
Proof. exact (fun acs f a H => send_holds acs f a (send_guard_unique acs f a H)). Qed.
Print Assumptions c17_send_unique_formats.

(* ---- receive_exact: for EVERY converter set, statement and allow_unknown_attributes outside
   the open finding class 1 (recv_cls; classes 2 and 3 — empty NameID text, local name in another
   case, another local name for the OID — no longer guard anything since 16472e5d / 09ff19a1):
   known attributes appear under the map's local
   name with exactly their values in order, trimmed, NameID-wrapped eduPersonTargetedID values
   included; unknown ones are dropped / appear under their wire name *)
Theorem c17_receive_exact : forall acs allow ws, recv_cls acs ws = 0 -> spec_recv acs allow ws (to_local acs allow ws).
Proof. exact recv_correct. Qed.
Print Assumptions c17_receive_exact.

Theorem c17_unknown_dropped : forall acs ws1 w ws2 n f,
  wname w = Some n -> wnf w = Some f -> unknown_to acs n f ->
  (f = NAME_FORMAT_UNSPECIFIED -> has_format acs f = true) ->
  to_local acs false (ws1 ++ w :: ws2) = to_local acs false (ws1 ++ ws2).
Proof. exact unknown_dropped_holds. Qed.
Print Assumptions c17_unknown_dropped.

Theorem c17_unknown_allowed : forall acs ws1 w n f,
  wname w = Some n -> wnf w = Some f -> unknown_to acs n f -> existsb is_wrapped (wvals w) = false ->
  to_local acs true (ws1 ++ [w]) = ext (strip n) (trimmed w) (to_local acs true ws1).
Proof. exact unknown_allowed_holds. Qed.
Print Assumptions c17_unknown_allowed.

(* ---- send then receive *)
(* one symmetric map: nothing is lost, aliases collapse to the canonical local name — ALL value
   lists (empty strings and eduPersonTargetedID values included, whatever m calls the OID) *)
Theorem c17_send_receive : forall m a allow xml,
  map_symmetric m -> covered m a ->
  roundtrip [m] a (nf m) allow xml = Some (canonical m m a).
Proof. exact send_receive. Qed.
Print Assumptions c17_send_receive.

(* a set of maps: s = converter from_local uses, r = converter list_to_local uses *)
Theorem c17_send_receive_set : forall acs s r a allow xml,
  sender acs (nf s) = Some s -> receiver acs (nf s) = Some r ->
  (forall e, In e a -> canon2 s r (fst e) <> None) ->
  roundtrip acs a (nf s) allow xml = Some (canonical s r a).
Proof. exact send_receive_set. Qed.
Print Assumptions c17_send_receive_set.

(* what "canonical" is: under c, the trimmed values of all attributes whose canonical name is c, in order *)
Theorem c17_canonical_meaning : forall s r a c,
  lookup c (canonical s r a) =
  gather c (flat_map (fun e => match canon2 s r (fst e) with
                               | Some c' => [(c', map (fun v => LStr (strip v)) (snd e))]
                               | None => []
                               end) a).
Proof. exact canonical_lookup. Qed.
Print Assumptions c17_canonical_meaning.

(* the round-trip clause of the property, outside the open finding class 1, for symmetric maps *)
Theorem c17_round : forall acs f a allow xml,
  round_cls acs f a = 0 -> (forall m, In m acs -> nf m = f -> map_symmetric m) ->
  spec_round acs f a (roundtrip acs a f allow xml).
Proof. exact round_correct. Qed.
Print Assumptions c17_round.

(* ---- the boolean specifications evaluated on the implementation's outputs are the stated ones *)
Theorem c17_spec_send_reflect : forall acs f a out, spec_send_b acs f a out = true <-> spec_send acs f a out.
Proof. exact spec_send_b_iff. Qed.
Print Assumptions c17_spec_send_reflect.

Theorem c17_spec_recv_reflect : forall acs allow ws r, spec_recv_b acs allow ws r = true <-> spec_recv acs allow ws r.
Proof. exact spec_recv_b_iff. Qed.
Print Assumptions c17_spec_recv_reflect.

Theorem c17_spec_round_reflect : forall acs f a r, spec_round_b acs f a r = true <-> spec_round acs f a r.
Proof. exact spec_round_b_iff. Qed.
Print Assumptions c17_spec_round_reflect.

(* ---- from_dict / adjust *)
Theorem c17_to_only_symmetric : forall ident t m,
  from_dict {| s_ident := ident; s_to := Some t; s_fro := None |} = Some m ->
  (forall k n, In (k, n) t -> no_outer_ws n = true) -> map_symmetric m.
Proof. exact to_only_symmetric. Qed.
Print Assumptions c17_to_only_symmetric.

Theorem c17_fro_only_symmetric : forall ident f m,
  from_dict {| s_ident := ident; s_to := None; s_fro := Some f |} = Some m ->
  (forall n c, In (n, c) f -> no_outer_ws n = true) -> map_symmetric m.
Proof. exact fro_only_symmetric. Qed.
Print Assumptions c17_fro_only_symmetric.

Theorem c17_tables_are_dicts : forall s m, from_dict s = Some m -> NoDup (map fst (to_ m)) /\ NoDup (map fst (fro m)).
Proof. exact from_dict_tables_nodup. Qed.
Print Assumptions c17_tables_are_dicts.

(* ---- str.lower() on names outside ASCII (strengthening round 6; C17/Case.v, table coq/gen/C17Case.v read from
   the interpreter's str.lower() on every run): c17_to_only_symmetric / c17_fro_only_symmetric above and every
   theorem about from_dict / to_ / ava_from hold for maps with ANY names; these are the facts about lower they use *)
Theorem c17_lower_idempotent : forall s, lower (lower s) = lower s.
Proof. exact lower_idem. Qed.
Print Assumptions c17_lower_idempotent.

Theorem c17_lower_keeps_outer_whitespace : forall s, no_outer_ws (lower s) = no_outer_ws s.
Proof. exact no_outer_ws_lower. Qed.
Print Assumptions c17_lower_keeps_outer_whitespace.

Theorem c17_lower_ascii_part : forall s,
  all_chars (fun a => is_K1 (clen a)) s = true -> lower s = Str.lower s.
Proof. exact lower_single_bytes. Qed.
Print Assumptions c17_lower_ascii_part.

(* every entry of the regenerated table: its image is made of complete characters that lower() leaves alone, and
   neither the character nor its image begins or ends with a whitespace byte *)
Theorem c17_lower_table_checked : tables_ok table = true.
Proof. exact table_ok_true. Qed.
Print Assumptions c17_lower_table_checked.

(* a one-directional map with sharp s, final sigma and a non-ASCII capital: symmetric; reached by the spellings
   str.lower() identifies, not by those only casefold() / upper() identify; round trip *)
Theorem c17_non_ascii_names_example :
  exists m, from_dict u_map = Some m /\ map_symmetric m /\
    wire_name m u_strasse = Some "urn:example:attr:street" /\
    wire_name m u_STRAsSE = Some "urn:example:attr:street" /\
    wire_name m "STRASSE" = None /\ wire_name m "strasse" = None /\
    wire_name m u_kodikos = Some "urn:example:attr:code" /\ wire_name m u_kodikos_sigma = None /\
    wire_name m u_aerger = Some u_AERGER /\ local_name m u_AERGER = Some u_aerger /\
    roundtrip [m] [(u_STRAsSE, ["Bahnhofstr. 1"]); (u_aerger, [" x "])] (nf m) false true
    = Some [(lower u_strasse, [LStr "Bahnhofstr. 1"]); (u_aerger, [LStr "x"])]
    /\ lower u_strasse = sb [115;116;114;97;195;159;101]%N /\ lower u_STRAsSE = lower u_strasse.
Proof. exact non_ascii_names. Qed.
Print Assumptions c17_non_ascii_names_example.

(* ---- regenerated table theorems (live tables of the five bundled converters; vm_compute) *)
Theorem c17_bundled_from_dict : map from_dict bundled_src = map Some bundled.
Proof. exact bundled_from_dict_holds. Qed.
Print Assumptions c17_bundled_from_dict.

Theorem c17_bundled_symmetric : forall m, In m bundled -> map_symmetric m.
Proof. exact bundled_symmetric_holds. Qed.
Print Assumptions c17_bundled_symmetric.

Theorem c17_pair_ok_roundtrip : forall acs m k,
  pair_ok acs m k ->
  exists c, canon m k = Some c /\
    forall vs allow xml,
      roundtrip acs [(k, vs)] (nf m) allow xml = Some [(c, map (fun v => LStr (strip v)) vs)].
Proof. exact pair_ok_roundtrip. Qed.
Print Assumptions c17_pair_ok_roundtrip.

(* through the five bundled converters every pair outside class 1 round-trips, all value lists *)
Theorem c17_bundled_pair_roundtrip : forall m k,
  In m bundled -> In k (map fst (to_ m)) -> clash_round bundled (nf m) k = false ->
  exists c, canon m k = Some c /\
    forall vs allow xml,
      roundtrip bundled [(k, vs)] (nf m) allow xml = Some [(c, map (fun v => LStr (strip v)) vs)].
Proof. exact bundled_pair_roundtrip_holds. Qed.
Print Assumptions c17_bundled_pair_roundtrip.

(* the recogniser of the repaired classes 2 and 3 used by Corr.cls never hides the open class *)
Theorem c17_recv_cls_reg_open : forall acs ws, recv_cls acs ws <> 0 -> recv_cls_reg acs ws = recv_cls acs ws.
Proof. exact recv_cls_reg_open. Qed.
Print Assumptions c17_recv_cls_reg_open.

Theorem c17_round_cls_reg_open : forall acs f a, round_cls acs f a <> 0 -> round_cls_reg acs f a = round_cls acs f a.
Proof. exact round_cls_reg_open. Qed.
Print Assumptions c17_round_cls_reg_open.

(* bundled_set_consistent, guard computed from the tables (finding class 1 = clash_round) *)
Theorem c17_bundled_set_consistent_guarded : forall m k,
  In m bundled -> In k (map fst (to_ m)) -> clash_round bundled (nf m) k = false -> pair_ok bundled m k.
Proof. exact bundled_set_consistent_guarded_holds. Qed.
Print Assumptions c17_bundled_set_consistent_guarded.

Theorem c17_bundled_pairs_ok_except : forall m k,
  In m bundled -> In k (map fst (to_ m)) -> pair_ok_b bundled m k = negb (clash_round bundled (nf m) k).
Proof. exact bundled_pairs_ok_except_holds. Qed.
Print Assumptions c17_bundled_pairs_ok_except.

(* exactly the 18 known (converter, attribute) pairs are lost *)
Theorem c17_bundled_lost_exactly : forall p, In p (lost_pairs bundled) <-> In p known_lost.
Proof. exact bundled_lost_exactly_holds. Qed.
Print Assumptions c17_bundled_lost_exactly.

Theorem c17_bundled_sender_receiver_lost : forall m, In m bundled ->
  sender_receiver_lost bundled (nf m) =
  if String.eqb (nf m) NAME_FORMAT_UNSPECIFIED then ["emailaddress"; "upn"] else [].
Proof. exact bundled_sender_receiver_lost_holds. Qed.
Print Assumptions c17_bundled_sender_receiver_lost.

(* ---- at full strength the property is FALSE on the current tree (finding C17-F1) *)
Theorem c17_bundled_set_consistent_refuted : ~ set_consistent bundled.
Proof. exact bundled_set_consistent_refuted_holds. Qed.
Print Assumptions c17_bundled_set_consistent_refuted.

Theorem c17_round_refuted :
  exists a, ~ spec_round bundled NAME_FORMAT_UNSPECIFIED a (roundtrip bundled a NAME_FORMAT_UNSPECIFIED false true).
Proof. exact round_refuted_holds. Qed.
Print Assumptions c17_round_refuted.

Theorem c17_send_refuted :
  exists a, ~ spec_send bundled NAME_FORMAT_UNSPECIFIED a (from_local bundled a NAME_FORMAT_UNSPECIFIED).
Proof. exact send_refuted_holds. Qed.
Print Assumptions c17_send_refuted.

Theorem c17_recv_refuted : exists ws, ~ spec_recv bundled false ws (to_local bundled false ws).
Proof. exact recv_refuted_holds. Qed.
Print Assumptions c17_recv_refuted.

(* ---- C17-F3, repaired by 09ff19a1: the code as it was (roundtrip_v1 / to_local_v1) violated the
   property for a map that gives the eduPersonTargetedID OID another local name ... *)
Theorem c17_eptid_renamed_v1_refuted :
  exists acs a, ~ spec_round acs NAME_FORMAT_URI a (roundtrip_v1 acs a NAME_FORMAT_URI false true).
Proof. exact eptid_renamed_v1_refuted_holds. Qed.
Print Assumptions c17_eptid_renamed_v1_refuted.

Theorem c17_eptid_renamed_recv_v1_refuted : exists acs ws, ~ spec_recv acs false ws (to_local_v1 acs false ws).
Proof. exact eptid_renamed_recv_v1_refuted_holds. Qed.
Print Assumptions c17_eptid_renamed_recv_v1_refuted.

(* ... and the same inputs ({"eptid": OID} map; eptid = ["abc"; ""] sent and received; a received
   NameID-wrapped "abc") are handled correctly now *)
Theorem c17_eptid_renamed_now :
  roundtrip_v1 [EPTID_RENAMED] EPTID_RENAMED_AVA NAME_FORMAT_URI false true
    = Some [("eptid", [LNameID [("format", NAMEID_FORMAT_PERSISTENT); ("value", "abc")];
                       LNameID [("format", NAMEID_FORMAT_PERSISTENT)]])] /\
  roundtrip [EPTID_RENAMED] EPTID_RENAMED_AVA NAME_FORMAT_URI false true = Some [("eptid", [LStr "abc"; LStr ""])] /\
  spec_round [EPTID_RENAMED] NAME_FORMAT_URI EPTID_RENAMED_AVA
             (roundtrip [EPTID_RENAMED] EPTID_RENAMED_AVA NAME_FORMAT_URI false true) /\
  to_local_v1 [EPTID_RENAMED] false EPTID_RENAMED_WIRE
    = [("eptid", [LNameID [("format", NAMEID_FORMAT_PERSISTENT); ("value", "abc")]])] /\
  to_local [EPTID_RENAMED] false EPTID_RENAMED_WIRE = [("eptid", [LStr "abc"])] /\
  spec_recv [EPTID_RENAMED] false EPTID_RENAMED_WIRE (to_local [EPTID_RENAMED] false EPTID_RENAMED_WIRE).
Proof. exact eptid_renamed_now_holds. Qed.
Print Assumptions c17_eptid_renamed_now.

(* ---- C17-F2, repaired by 16472e5d: the code as it was (roundtrip_v0) violated the property ... *)
Theorem c17_eptid_v0_refuted :
  exists a, ~ spec_round bundled NAME_FORMAT_URI a (roundtrip_v0 bundled a NAME_FORMAT_URI false true).
Proof. exact eptid_v0_refuted_holds. Qed.
Print Assumptions c17_eptid_v0_refuted.

(* ... and the same input (eduPersonTargetedID = ["a"; ""] through the bundled converters) is handled
   correctly now; so is a "to"-only map *)
Theorem c17_eptid_now :
  roundtrip_v0 bundled EPTID_EMPTY NAME_FORMAT_URI false true
    = Some [("eduPersonTargetedID", [LStr "a"; LNameID [("format", NAMEID_FORMAT_PERSISTENT)]])] /\
  roundtrip bundled EPTID_EMPTY NAME_FORMAT_URI false true = Some [("eduPersonTargetedID", [LStr "a"; LStr ""])] /\
  spec_round bundled NAME_FORMAT_URI EPTID_EMPTY (roundtrip bundled EPTID_EMPTY NAME_FORMAT_URI false true).
Proof. exact eptid_now_holds. Qed.
Print Assumptions c17_eptid_now.

Theorem c17_eptid_to_only_now :
  exists m, from_dict TO_ONLY_EPTID = Some m /\
    roundtrip_v0 [m] [("eduPersonTargetedID", ["abc"])] NAME_FORMAT_URI false true
      = Some [("edupersontargetedid", [LNameID [("format", NAMEID_FORMAT_PERSISTENT); ("value", "abc")]])] /\
    roundtrip [m] [("eduPersonTargetedID", ["abc"; ""])] NAME_FORMAT_URI false true
      = Some [("edupersontargetedid", [LStr "abc"; LStr ""])].
Proof. exact eptid_to_only_now_holds. Qed.
Print Assumptions c17_eptid_to_only_now.

(* ---- local values as Python objects (str / bool / int / float, in a list or alone; strengthening
   round 2).  Outside class 1 and for EVERY converter set, name format and dictionary — False, 0 and
   0.0 included since repair 33a3a3a1 (finding C17-F4): each defined attribute goes out under the
   map's name, name format and friendly name with exactly the lexical forms of its values (the str
   itself, "true"/"false", the decimal numeral, the float as Python prints it), every AttributeValue
   typed xs:string / xs:boolean / xs:integer / xs:float as its value is *)
Theorem c17_typed_send : forall acs f a, send_cls_py acs f a = 0 -> spec_send_py acs f a (from_local_py acs a f).
Proof. exact send_py_correct. Qed.
Print Assumptions c17_typed_send.

Theorem c17_typed_round : forall acs f a allow xml,
  round_cls_py acs f a = 0 -> (forall m, In m acs -> nf m = f -> map_symmetric m) ->
  spec_round_py acs f a (roundtrip_py acs a f allow xml).
Proof. exact round_py_correct. Qed.
Print Assumptions c17_typed_round.

(* do_ava gives every value its own AttributeValue: type and lexical form, in order — for lists and
   for single objects, every falsy value included *)
Theorem c17_do_ava_exact : forall v vs,
  given_texts v = Some vs -> do_ava v = DOk (combine (map xs_type (given v)) vs).
Proof. exact do_ava_exact. Qed.
Print Assumptions c17_do_ava_exact.

(* the typed functions are the string-level ones applied to the lexical forms *)
Theorem c17_typed_is_lexical : forall acs f a a' allow xml,
  py_scope_b acs f a = true -> givens a = Some a' ->
  sres_wire (from_local_py acs a f) = from_local acs a' f /\
  rres_opt (roundtrip_py acs a f allow xml) = roundtrip acs a' f allow xml.
Proof.
  exact (fun acs f a a' allow xml Hs Hg =>
           conj (proj2 (from_local_py_lowered acs f a a' Hs Hg)) (roundtrip_py_lowered acs f a a' allow xml Hs Hg)).
Qed.
Print Assumptions c17_typed_is_lexical.

Theorem c17_typed_send_receive : forall m a a' allow xml,
  py_scope_b [m] (nf m) a = true -> givens a = Some a' ->
  map_symmetric m -> covered m a' ->
  roundtrip_py [m] a (nf m) allow xml = ROk (canonical m m a').
Proof. exact send_receive_py. Qed.
Print Assumptions c17_typed_send_receive.

Theorem c17_spec_send_py_reflect : forall acs f a out, spec_send_py_b acs f a out = true <-> spec_send_py acs f a out.
Proof. exact spec_send_py_b_iff. Qed.
Print Assumptions c17_spec_send_py_reflect.

Theorem c17_spec_round_py_reflect : forall acs f a r, spec_round_py_b acs f a r = true <-> spec_round_py acs f a r.
Proof. exact spec_round_py_b_iff. Qed.
Print Assumptions c17_spec_round_py_reflect.

(* the recognisers of the repaired classes 4, 3, 2 used by Corr.cls never hide the open class *)
Theorem c17_send_cls_reg_py_open : forall acs f a,
  send_cls_py acs f a <> 0 -> send_cls_reg_py acs f a = send_cls_py acs f a.
Proof. exact send_cls_reg_py_open. Qed.
Print Assumptions c17_send_cls_reg_py_open.

Theorem c17_round_cls_reg_py_open : forall acs f a,
  round_cls_py acs f a <> 0 -> round_cls_reg_py acs f a = round_cls_py acs f a.
Proof. exact round_cls_reg_py_open. Qed.
Print Assumptions c17_round_cls_reg_py_open.

(* ---- C17-F4, repaired by 33a3a3a1: the code as it was (do_ava: `elif val or val is False`,
   from_local_py_v0 / roundtrip_py_v0) violated the typed clauses — the integer 0 (in a list, alone)
   and the float 0.0 could not be sent ... *)
Theorem c17_zero_int_v0_refuted :
  (exists a, ~ spec_send_py [ZERO_MAP] NAME_FORMAT_URI a (from_local_py_v0 [ZERO_MAP] a NAME_FORMAT_URI)) /\
  (exists a, ~ spec_round_py [ZERO_MAP] NAME_FORMAT_URI a (roundtrip_py_v0 [ZERO_MAP] a NAME_FORMAT_URI false true)) /\
  (exists a, ~ spec_send_py [ZERO_MAP] NAME_FORMAT_URI a (from_local_py_v0 [ZERO_MAP] a NAME_FORMAT_URI) /\
             has_zero a = true /\ forall e, In e a -> existsb (fun v => match v with PInt _ => true | _ => false end) (given (snd e)) = false).
Proof. exact zero_v0_refuted_holds. Qed.
Print Assumptions c17_zero_int_v0_refuted.

(* ... and the same inputs ([False; 0], 0 alone, [0.0; 1.5]) are handled correctly now *)
Theorem c17_zero_int_now :
  from_local_py_v0 [ZERO_MAP] ZERO_LIST NAME_FORMAT_URI = SExc "OtherError" /\
  from_local_py [ZERO_MAP] ZERO_LIST NAME_FORMAT_URI
    = SOk [({| wname := Some "urn:x:loginCount"; wnf := Some NAME_FORMAT_URI; wfriendly := Some "loginCount";
               wvals := [WText "false"; WText "0"] |}, ["xs:boolean"; "xs:integer"])] /\
  spec_send_py [ZERO_MAP] NAME_FORMAT_URI ZERO_LIST (from_local_py [ZERO_MAP] ZERO_LIST NAME_FORMAT_URI) /\
  roundtrip_py_v0 [ZERO_MAP] ZERO_ONE NAME_FORMAT_URI false true = RExc "OtherError" /\
  roundtrip_py [ZERO_MAP] ZERO_ONE NAME_FORMAT_URI false true = ROk [("loginCount", [LStr "0"])] /\
  spec_round_py [ZERO_MAP] NAME_FORMAT_URI ZERO_ONE (roundtrip_py [ZERO_MAP] ZERO_ONE NAME_FORMAT_URI false true) /\
  roundtrip_py [ZERO_MAP] ZERO_FLOAT NAME_FORMAT_URI false true = ROk [("loginCount", [LStr "0.0"; LStr "1.5"])].
Proof. exact zero_now_holds. Qed.
Print Assumptions c17_zero_int_now.

(* ================================================================================================== *)
(* ---- source tie, translator v2 (C17/Source2.v): the functions below are re-translated from the source TEXT of
   /repo/src/saml2 on every run (coq/gen/C17Src2.v) and are equal to the model on the encodings of ALL its inputs.
   From here on pyval, PStr, PInt ... are those of Base/Py.v; the model's value type is written Model.pyval. *)
From Verif Require Import Base.Py Base.Py2 C17.Source2.
From VerifGen Require Import C17Src2.

(* AttributeConverter.adjust: the missing table becomes Model.mirror of the other one; nothing else changes *)
Theorem c17_source2_adjust : forall (nfv : pyval) (t f : option dict),
  odict_ok nocls t = true -> odict_ok nocls f = true ->
  odict_ok vals_ascii t = true -> odict_ok vals_ascii f = true ->
  odict_ok vals_lower_ok t = true -> odict_ok vals_lower_ok f = true ->
  src2_adjust (conv_obj nfv (enc_odict t) (enc_odict f))
  = PList [PNone; conv_obj nfv (enc_odict (fst (adjust_m t f))) (enc_odict (snd (adjust_m t f)))].
Proof. exact src2_adjust_is_model. Qed.
Print Assumptions c17_source2_adjust.

(* AttributeConverter.from_dict on a fresh converter: ConverterError exactly when Model.from_dict is None; the tables
   with lower-cased keys; adjust() is called exactly for the one-directional maps (adjust_ext is arbitrary) *)
Theorem c17_source2_from_dict : forall (adjust_ext : pyval -> pyval) (nf0 : pyval) (s : srcmap),
  is_bad nf0 = false -> src_ok s ->
  src2_from_dict adjust_ext (conv_obj nf0 PNone PNone) (enc_src s)
  = match s_to s, s_fro s with
    | None, None => PList [PExc "ConverterError"; conv_obj (PStr (s_ident s)) PNone PNone]
    | Some _, Some _ => PList [PNone; loaded s]
    | _, _ => py_bindh (fun n => PList [PExc n; loaded s]) (adjust_ext (loaded s)) (fun _ => PList [PNone; loaded s])
    end.
Proof. exact src2_from_dict_is_model. Qed.
Print Assumptions c17_source2_from_dict.

(* ... and the translated adjust() on what from_dict() leaves gives the converter of Model.from_dict *)
Theorem c17_source2_from_dict_then_adjust : forall (s : srcmap) (c : conv),
  src_ok s ->
  odict_ok vals_ascii (option_map lower_keys (s_to s)) = true -> odict_ok vals_ascii (option_map lower_keys (s_fro s)) = true ->
  odict_ok vals_lower_ok (option_map lower_keys (s_to s)) = true ->
  odict_ok vals_lower_ok (option_map lower_keys (s_fro s)) = true ->
  from_dict s = Some c ->
  src2_adjust (loaded s) = PList [PNone; enc_conv c].
Proof. exact src2_from_dict_then_adjust. Qed.
Print Assumptions c17_source2_from_dict_then_adjust.

(* AttributeConverter.to_ = Model.conv_to_py (name lookup under key.lower(), empty wire name = unknown, the
   eduPersonTargetedID OID, unknown names under their own name with the default name format, first exception wins);
   do_ava / to_eptid_value / factory(saml.Attribute, ...) are external *)
Theorem c17_source2_to_ :
  forall (do_ava_ext eptid_ext : pyval -> pyval) (factory_ext : pyval -> pyval -> pyval -> pyval -> pyval -> pyval),
  (forall v, do_ava_ext (enc_pvalue v) = match do_ava v with DOk tvs => PList (map enc_tv tvs) | DRaise e => PExc e end) ->
  (forall v, eptid_ext (enc_pvalue v)
             = match eptid_value v with
               | DOk vs => PList (map (enc_nidv [("format", NAMEID_FORMAT_PERSISTENT)]) vs)
               | DRaise e => PExc e
               end) ->
  (forall n nfv fr av, factory_ext (PStr "saml.Attribute") n nfv fr av = attr_obj n nfv fr av) ->
  forall (m : conv) (a : pava), nocls (to_ m) = true -> names_ok a = true ->
  src2_to_ do_ava_ext eptid_ext factory_ext (enc_conv m) (enc_pava a) = enc_send (conv_to_py m a).
Proof. exact src2_to_is_model. Qed.
Print Assumptions c17_source2_to_.

(* from_local: to_() of the FIRST converter with the requested name format (Model.sender), None without one;
   nothing is assumed about to_ *)
Theorem c17_source2_from_local : forall (to_ext : pyval -> pyval -> pyval) (acs : list conv) (ava : pyval) (f : string),
  is_bad ava = false ->
  src2_from_local to_ext (PList (map enc_conv acs)) ava (PStr f)
  = match sender acs f with Some m => to_ext (enc_conv m) ava | None => PNone end.
Proof. exact src2_from_local_is_model. Qed.
Print Assumptions c17_source2_from_local.

(* ... with the translated to_ as that method: Model.from_local_py *)
Theorem c17_source2_from_local_to :
  forall (do_ava_ext eptid_ext : pyval -> pyval) (factory_ext : pyval -> pyval -> pyval -> pyval -> pyval -> pyval)
         (acs : list conv) (a : pava) (f : string),
  (forall v, do_ava_ext (enc_pvalue v) = match do_ava v with DOk tvs => PList (map enc_tv tvs) | DRaise e => PExc e end) ->
  (forall v, eptid_ext (enc_pvalue v)
             = match eptid_value v with
               | DOk vs => PList (map (enc_nidv [("format", NAMEID_FORMAT_PERSISTENT)]) vs)
               | DRaise e => PExc e
               end) ->
  (forall n nfv fr av, factory_ext (PStr "saml.Attribute") n nfv fr av = attr_obj n nfv fr av) ->
  forallb (fun m => nocls (to_ m)) acs = true -> names_ok a = true ->
  src2_from_local (src2_to_ do_ava_ext eptid_ext factory_ext) (PList (map enc_conv acs)) (enc_pava a) (PStr f)
  = enc_sres (from_local_py acs a f).
Proof. exact src2_from_local_to_is_model. Qed.
Print Assumptions c17_source2_from_local_to.

(* AttributeConverter.lcd_ava_from = Model.lcd for an Attribute that has a Name: for EVERY object that represents it *)
Theorem c17_source2_lcd_ava_from : forall (self p : pyval) (w : wattr) (n : string),
  wname w = Some n -> rep_attr p n (wvals w) ->
  strip_ok n = true -> forallb (fun v => strip_ok (text_of v)) (wvals w) = true ->
  src2_lcd_ava_from self p = enc_res (lcd w).
Proof. exact src2_lcd_ava_from_is_model. Qed.
Print Assumptions c17_source2_lcd_ava_from.

(* s_utils.do_ava, one object: the branch Model.do_ava1 takes (None -> None; str, bool, int — 0 and False included —
   and float -> set_text(that object) on a new AttributeValue); set_text and the recursive call are arbitrary *)
Theorem c17_source2_do_ava_item :
  forall (set_text set_type : pyval -> pyval -> pyval) (rec : pyval -> pyval) (v : Model.pyval),
  src2_do_ava rec set_text set_type (enc_pitem v) (PStr "")
  = match do_ava1 v with
    | DOk None => PNone
    | DOk (Some _) => py_bind (set_text blank_av (enc_pitem v)) (fun _ => PList [blank_av])
    | DRaise e => PExc e
    end.
Proof. exact src2_do_ava_item_is_model. Qed.
Print Assumptions c17_source2_do_ava_item.

(* s_utils.do_ava on Model.do_ava's domain (a list without None items through the recursive call, or one object):
   one AttributeValue per item, in order *)
Theorem c17_source2_do_ava : forall set_text set_type : pyval -> pyval -> pyval,
  (forall a v, is_bad (set_text a v) = false) ->
  forall v : pyvalue, value_modelled v = true ->
  do_ava_2 set_text set_type (enc_pvalue v) = enc_blank (do_ava v).
Proof. exact src2_do_ava_is_model. Qed.
Print Assumptions c17_source2_do_ava.
