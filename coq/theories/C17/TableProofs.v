(* C17/TableProofs.v — the regenerated finite obligations: theorems over the LIVE tables of the
   five bundled converters (coq/gen/C17Tables.v), decided by complete enumeration inside the
   kernel (vm_compute) and re-checked on every run. *)
From Coq Require Import String List Bool Arith.
From Verif Require Import Base.Str C17.Model C17.Spec C17.Proofs C17.Reflect C17.Classes C17.Tables.
Import ListNotations.
Open Scope string_scope.

(* ---------------------------------------------------------------- from_dict reproduces the live converters *)
Theorem bundled_from_dict_holds : map from_dict bundled_src = map Some bundled.
Proof. vm_cast_no_check (eq_refl (map Some bundled)). Qed.

(* ---------------------------------------------------------------- every bundled map is symmetric *)
Definition map_symmetric_b (m : conv) : bool :=
  forallb (fun kv => is_empty (snd kv) || is_some (local_name m (snd kv))) (to_ m).

Lemma map_symmetric_b_sound m : map_symmetric_b m = true -> map_symmetric m.
Proof.
  unfold map_symmetric_b. rewrite forallb_forall. intros H k n Hw.
  apply wire_name_spec in Hw as [Hl He]. apply lookup_In in Hl. specialize (H _ Hl). cbn [snd] in H.
  rewrite He in H. cbn [orb] in H. apply is_some_iff. exact H.
Qed.

Theorem bundled_symmetric_holds : forall m, In m bundled -> map_symmetric m.
Proof.
  assert (H : forallb map_symmetric_b bundled = true) by (vm_cast_no_check (eq_refl true)).
  rewrite forallb_forall in H. intros m Hm. apply map_symmetric_b_sound, H, Hm.
Qed.

(* ---------------------------------------------------------------- (map, attribute) pairs through the SET *)
(* the set sends k the way m says and receives it the way m says *)
Definition pair_ok (acs : list conv) (m : conv) (k : string) : Prop :=
  exists s r n c, sender acs (nf m) = Some s /\ receiver acs (nf m) = Some r /\
    wire_name m k = Some n /\ wire_name s k = Some n /\ local_name m n = Some c /\ local_name r n = Some c.

Definition pair_ok_b (acs : list conv) (m : conv) (k : string) : bool :=
  match sender acs (nf m), receiver acs (nf m), wire_name m k with
  | Some s, Some r, Some n =>
      sopt_eqb (wire_name s k) (Some n) &&
      match local_name m n with Some c => sopt_eqb (local_name r n) (Some c) | None => false end
  | _, _, _ => false
  end.

Lemma pair_ok_b_iff acs m k : pair_ok_b acs m k = true <-> pair_ok acs m k.
Proof.
  unfold pair_ok_b, pair_ok. split.
  - destruct (sender acs (nf m)) as [s|]; [|discriminate]. destruct (receiver acs (nf m)) as [r|]; [|discriminate].
    destruct (wire_name m k) as [n|]; [|discriminate]. intros H. apply andb_true_iff in H as [H1 H2].
    destruct (local_name m n) as [c|] eqn:L; [|discriminate]. apply sopt_eqb_eq in H1, H2.
    exists s, r, n, c. auto 10.
  - intros (s & r & n & c & -> & -> & -> & H1 & -> & H2). rewrite H1, H2. unfold sopt_eqb. cbn.
    rewrite !String.eqb_refl. reflexivity.
Qed.

(* a pair that is ok survives send -> receive through the set, for ALL value lists — empty
   strings and eduPersonTargetedID values included, whatever the map calls the OID *)
Theorem pair_ok_roundtrip acs m k :
  pair_ok acs m k ->
  exists c, canon m k = Some c /\
    forall vs allow xml,
      roundtrip acs [(k, vs)] (nf m) allow xml = Some [(c, map (fun v => LStr (strip v)) vs)].
Proof.
  intros (s & r & n & c & S & R & W & Ws & L & Lr). exists c. split.
  - unfold canon. rewrite W. exact L.
  - intros vs allow xml. destruct (sender_some _ _ _ S) as [_ Hsf]. rewrite <- Hsf in S, R |- *.
    rewrite (send_receive_set acs s r [(k, vs)] allow xml S R).
    + unfold canonical, canon2. cbn [flat_map fst snd app]. rewrite Ws, Lr. reflexivity.
    + intros e [<-|[]]. cbn [fst]. unfold canon2. rewrite Ws, Lr. discriminate.
Qed.

Definition set_consistent (acs : list conv) : Prop :=
  forall m k, In m acs -> In k (map fst (to_ m)) -> pair_ok acs m k.

Definition all_pairs (acs : list conv) : list (nat * string) :=
  flat_map (fun im => map (fun kv => (fst im, fst kv)) (to_ (snd im))) (combine (seq 0 (length acs)) acs).

Definition lost_pairs (acs : list conv) : list (nat * string) :=
  filter (fun p => match nth_error acs (fst p) with
                   | Some m => negb (pair_ok_b acs m (snd p))
                   | None => false
                   end) (all_pairs acs).

(* the (converter index, local attribute) pairs known to be lost: finding C17-F1.
   0 = adfs_v1x, 1 = adfs_v20 — both carry the *unspecified* name format. *)
Definition known_lost : list (nat * string) :=
  [(0, "emailaddress"); (0, "upn");
   (1, "authenticationmethod"); (1, "denyonlyprimarygroupsid"); (1, "denyonlyprimarysid"); (1, "denyonlysid");
   (1, "emailaddress"); (1, "givenname"); (1, "groupsid"); (1, "name"); (1, "nameid"); (1, "primarygroupsid");
   (1, "primarysid"); (1, "privatepersonalid"); (1, "role"); (1, "surname"); (1, "upn"); (1, "windowsaccountname")].

Definition np_eqb (p q : nat * string) : bool := Nat.eqb (fst p) (fst q) && String.eqb (snd p) (snd q).
Definition np_mem (p : nat * string) (l : list (nat * string)) : bool := existsb (np_eqb p) l.

Lemma np_mem_In p l : np_mem p l = true <-> In p l.
Proof.
  unfold np_mem. rewrite existsb_exists. split.
  - intros [q [Hq E]]. unfold np_eqb in E. apply andb_true_iff in E as [E1 E2].
    apply Nat.eqb_eq in E1. apply String.eqb_eq in E2. destruct p, q; cbn in *; subst. exact Hq.
  - intros H. exists p. split; [exact H|]. unfold np_eqb. rewrite Nat.eqb_refl, String.eqb_refl. reflexivity.
Qed.

Definition set_eqb (a b : list (nat * string)) : bool :=
  forallb (fun p => np_mem p b) a && forallb (fun p => np_mem p a) b.

Lemma set_eqb_sound a b : set_eqb a b = true -> forall p, In p a <-> In p b.
Proof.
  unfold set_eqb. intros H. apply andb_true_iff in H as [H1 H2]. rewrite forallb_forall in H1, H2.
  intros p. split; intros Hp; apply np_mem_In; [apply H1|apply H2]; exact Hp.
Qed.

(* exactly the known pairs are lost, no other of the 498 *)
Theorem bundled_lost_exactly_holds : forall p, In p (lost_pairs bundled) <-> In p known_lost.
Proof.
  apply set_eqb_sound. vm_cast_no_check (eq_refl true).
Qed.

(* bundled_set_consistent, with the guard computed from the tables: a pair fails exactly when two
   converters with its name format differ on the attribute (finding class 1) *)
Theorem bundled_pairs_ok_except_holds :
  forall m k, In m bundled -> In k (map fst (to_ m)) ->
    pair_ok_b bundled m k = negb (clash_round bundled (nf m) k).
Proof.
  assert (H : forallb (fun m => forallb (fun k => Bool.eqb (pair_ok_b bundled m k)
                                                     (negb (clash_round bundled (nf m) k)))
                                        (map fst (to_ m))) bundled = true) by (vm_cast_no_check (eq_refl true)).
  rewrite forallb_forall in H. intros m k Hm Hk. specialize (H m Hm). rewrite forallb_forall in H.
  apply Bool.eqb_prop. exact (H k Hk).
Qed.

Theorem bundled_set_consistent_guarded_holds :
  forall m k, In m bundled -> In k (map fst (to_ m)) -> clash_round bundled (nf m) k = false ->
    pair_ok bundled m k.
Proof.
  intros m k Hm Hk Hc. apply pair_ok_b_iff. rewrite (bundled_pairs_ok_except_holds m k Hm Hk), Hc. reflexivity.
Qed.

(* through the five bundled converters, every (map, attribute) pair outside class 1 comes back
   under its canonical name with exactly its values, trimmed — ALL value lists, eduPersonTargetedID
   and empty strings included, either transport, either setting of allow_unknown_attributes *)
Theorem bundled_pair_roundtrip_holds :
  forall m k, In m bundled -> In k (map fst (to_ m)) -> clash_round bundled (nf m) k = false ->
    exists c, canon m k = Some c /\
      forall vs allow xml,
        roundtrip bundled [(k, vs)] (nf m) allow xml = Some [(c, map (fun v => LStr (strip v)) vs)].
Proof.
  intros m k Hm Hk Hc. apply pair_ok_roundtrip. exact (bundled_set_consistent_guarded_holds m k Hm Hk Hc).
Qed.

(* at full strength it is FALSE on the current tree *)
Theorem bundled_set_consistent_refuted_holds : ~ set_consistent bundled.
Proof.
  intros H.
  destruct (nth_error bundled 0) as [m|] eqn:E; [|vm_compute in E; discriminate].
  assert (Hm : In m bundled) by (eapply nth_error_In; exact E).
  assert (Hk : mem "emailaddress" (map fst (to_ m)) = true).
  { vm_compute in E. injection E as <-. vm_compute. reflexivity. }
  apply mem_In in Hk. pose proof (proj2 (pair_ok_b_iff _ _ _) (H m "emailaddress" Hm Hk)) as Hb.
  vm_compute in E. injection E as <-. vm_compute in Hb. discriminate.
Qed.

(* the view of DESIGN section 7 #11: per name format, what the converter used by from_local sends
   and the converter used by list_to_local does not lead back the same way *)
Definition sender_receiver_lost (acs : list conv) (f : string) : list string :=
  match sender acs f, receiver acs f with
  | Some s, Some r =>
      map fst (filter (fun kv => negb (sopt_eqb (local_name r (snd kv)) (local_name s (snd kv)))) (to_ s))
  | _, _ => []
  end.

Theorem bundled_sender_receiver_lost_holds :
  forall m, In m bundled ->
    sender_receiver_lost bundled (nf m) =
    if String.eqb (nf m) NAME_FORMAT_UNSPECIFIED then ["emailaddress"; "upn"] else [].
Proof.
  assert (H : forallb (fun m => list_eqb String.eqb (sender_receiver_lost bundled (nf m))
                         (if String.eqb (nf m) NAME_FORMAT_UNSPECIFIED then ["emailaddress"; "upn"] else []))
                      bundled = true) by (vm_cast_no_check (eq_refl true)).
  rewrite forallb_forall in H. intros m Hm. apply strs_eqb_eq, H, Hm.
Qed.

(* ---------------------------------------------------------------- refutations at the level of the property *)
Definition ADFS_MAIL := [("emailAddress", ["a@example.org"])].

Theorem round_refuted_holds :
  exists a, ~ spec_round bundled NAME_FORMAT_UNSPECIFIED a (roundtrip bundled a NAME_FORMAT_UNSPECIFIED false true).
Proof.
  exists ADFS_MAIL. intros H. apply spec_round_b_iff in H. vm_compute in H. discriminate.
Qed.

Theorem send_refuted_holds :
  exists a, ~ spec_send bundled NAME_FORMAT_UNSPECIFIED a (from_local bundled a NAME_FORMAT_UNSPECIFIED).
Proof.
  exists [("givenName", ["Ada"])]. intros H. apply spec_send_b_iff in H. vm_compute in H. discriminate.
Qed.

Theorem recv_refuted_holds :
  exists ws, ~ spec_recv bundled false ws (to_local bundled false ws).
Proof.
  exists [{| wname := Some "http://schemas.xmlsoap.org/claims/upn"; wnf := Some NAME_FORMAT_UNSPECIFIED;
             wfriendly := None; wvals := [WText "ada@example.org"] |}].
  intros H. apply spec_recv_b_iff in H. vm_compute in H. discriminate.
Qed.

(* finding class 2 (C17-F2), repaired by 16472e5d: BEFORE the repair an empty eduPersonTargetedID
   value came back as {"NameID": {...}} ... *)
Definition EPTID_EMPTY := [("eduPersonTargetedID", ["a"; ""])].

Theorem eptid_v0_refuted_holds :
  exists a, ~ spec_round bundled NAME_FORMAT_URI a (roundtrip_v0 bundled a NAME_FORMAT_URI false true).
Proof.
  exists EPTID_EMPTY. intros H. apply spec_round_b_iff in H. vm_compute in H. discriminate.
Qed.

(* ... and the same input is handled correctly NOW *)
Theorem eptid_now_holds :
  roundtrip_v0 bundled EPTID_EMPTY NAME_FORMAT_URI false true
    = Some [("eduPersonTargetedID", [LStr "a"; LNameID [("format", NAMEID_FORMAT_PERSISTENT)]])] /\
  roundtrip bundled EPTID_EMPTY NAME_FORMAT_URI false true = Some [("eduPersonTargetedID", [LStr "a"; LStr ""])] /\
  spec_round bundled NAME_FORMAT_URI EPTID_EMPTY (roundtrip bundled EPTID_EMPTY NAME_FORMAT_URI false true).
Proof.
  split; [vm_compute; reflexivity|]. split; [vm_compute; reflexivity|].
  apply spec_round_b_iff. vm_compute. reflexivity.
Qed.

(* the other half of class 2: a "to"-only map (adjust() lower-cases its local names) *)
Definition TO_ONLY_EPTID : srcmap :=
  {| s_ident := NAME_FORMAT_URI; s_to := Some [("eduPersonTargetedID", EPTID_OID)]; s_fro := None |}.

Theorem eptid_to_only_now_holds :
  exists m, from_dict TO_ONLY_EPTID = Some m /\
    roundtrip_v0 [m] [("eduPersonTargetedID", ["abc"])] NAME_FORMAT_URI false true
      = Some [("edupersontargetedid", [LNameID [("format", NAMEID_FORMAT_PERSISTENT); ("value", "abc")]])] /\
    roundtrip [m] [("eduPersonTargetedID", ["abc"; ""])] NAME_FORMAT_URI false true
      = Some [("edupersontargetedid", [LStr "abc"; LStr ""])].
Proof. eexists. split; [reflexivity|]. split; vm_compute; reflexivity. Qed.

(* finding class 3 (C17-F3), repaired by 09ff19a1: to_() wraps by WIRE name, ava_from unwrapped by
   LOCAL name only — BEFORE the repair a map that gives the OID another local name got the
   dictionaries back ... *)
Definition EPTID_RENAMED : conv :=
  {| nf := NAME_FORMAT_URI; to_ := [("eptid", EPTID_OID)]; fro := [(EPTID_OID, "eptid")] |}.
Definition EPTID_RENAMED_AVA := [("eptid", ["abc"; ""])].
Definition EPTID_RENAMED_WIRE :=
  [{| wname := Some EPTID_OID; wnf := Some NAME_FORMAT_URI; wfriendly := None;
      wvals := [WNameID [("format", NAMEID_FORMAT_PERSISTENT)] "abc"] |}].

Theorem eptid_renamed_v1_refuted_holds :
  exists acs a, ~ spec_round acs NAME_FORMAT_URI a (roundtrip_v1 acs a NAME_FORMAT_URI false true).
Proof.
  exists [EPTID_RENAMED], EPTID_RENAMED_AVA. intros H. apply spec_round_b_iff in H. vm_compute in H. discriminate.
Qed.

Theorem eptid_renamed_recv_v1_refuted_holds :
  exists acs ws, ~ spec_recv acs false ws (to_local_v1 acs false ws).
Proof.
  exists [EPTID_RENAMED], EPTID_RENAMED_WIRE.
  intros H. apply spec_recv_b_iff in H. vm_compute in H. discriminate.
Qed.

(* ... and the same inputs are handled correctly NOW *)
Theorem eptid_renamed_now_holds :
  roundtrip_v1 [EPTID_RENAMED] EPTID_RENAMED_AVA NAME_FORMAT_URI false true
    = Some [("eptid", [LNameID [("format", NAMEID_FORMAT_PERSISTENT); ("value", "abc")];
                       LNameID [("format", NAMEID_FORMAT_PERSISTENT)]])] /\
  roundtrip [EPTID_RENAMED] EPTID_RENAMED_AVA NAME_FORMAT_URI false true = Some [("eptid", [LStr "abc"; LStr ""])] /\
  spec_round [EPTID_RENAMED] NAME_FORMAT_URI EPTID_RENAMED_AVA
             (roundtrip [EPTID_RENAMED] EPTID_RENAMED_AVA NAME_FORMAT_URI false true) /\
  to_local_v1 [EPTID_RENAMED] false EPTID_RENAMED_WIRE
    = [("eptid", [LNameID [("format", NAMEID_FORMAT_PERSISTENT); ("value", "abc")]])] /\
  to_local [EPTID_RENAMED] false EPTID_RENAMED_WIRE = [("eptid", [LStr "abc"])] /\
  spec_recv [EPTID_RENAMED] false EPTID_RENAMED_WIRE (to_local [EPTID_RENAMED] false EPTID_RENAMED_WIRE).
Proof.
  split; [vm_compute; reflexivity|]. split; [vm_compute; reflexivity|].
  split; [apply spec_round_b_iff; vm_compute; reflexivity|].
  split; [vm_compute; reflexivity|]. split; [vm_compute; reflexivity|].
  apply spec_recv_b_iff. vm_compute. reflexivity.
Qed.

(* the repairs are cumulative: what v0 got wrong, v1 got right (the v1 model differs from the current
   one only on maps that rename the OID) *)
Theorem eptid_v1_on_v0_witness_holds :
  roundtrip_v1 bundled EPTID_EMPTY NAME_FORMAT_URI false true = roundtrip bundled EPTID_EMPTY NAME_FORMAT_URI false true.
Proof. vm_compute. reflexivity. Qed.

(* ---------------------------------------------------------------- non-vacuity *)
Example guard_satisfiable :
  round_cls bundled NAME_FORMAT_URI [("Mail", [" a@example.org "; ""]); ("pvp-mail", ["b"])] = 0 /\
  roundtrip bundled [("Mail", [" a@example.org "; ""]); ("pvp-mail", ["b"])] NAME_FORMAT_URI false true
    = Some [("mail", [LStr "a@example.org"; LStr ""; LStr "b"])].
Proof. split; vm_compute; reflexivity. Qed.

Example classes_inhabited :
  round_cls bundled NAME_FORMAT_UNSPECIFIED ADFS_MAIL = 1 /\
  (* the repaired classes 2 and 3 guard nothing any more; they are only recognised *)
  round_cls [EPTID_RENAMED] NAME_FORMAT_URI EPTID_RENAMED_AVA = 0 /\
  round_cls_reg [EPTID_RENAMED] NAME_FORMAT_URI EPTID_RENAMED_AVA = 3 /\
  recv_cls [EPTID_RENAMED] EPTID_RENAMED_WIRE = 0 /\
  recv_cls_reg [EPTID_RENAMED] EPTID_RENAMED_WIRE = 3 /\
  round_cls bundled NAME_FORMAT_URI EPTID_EMPTY = 0 /\
  round_cls_reg bundled NAME_FORMAT_URI EPTID_EMPTY = 2 /\
  round_cls_reg bundled NAME_FORMAT_URI [("eduPersonTargetedID", ["x"])] = 0.
Proof. repeat split; vm_compute; reflexivity. Qed.
