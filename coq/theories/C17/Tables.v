(* C17/Tables.v — the regenerated live tables (coq/gen/C17Tables.v, written by
   harness/c17.py regenerate_tables from ac_factory() of the working tree) as converters. *)
From Coq Require Import String List.
From Verif Require Import Base.Str C17.Model.
From VerifGen Require Import C17Tables.
Import ListNotations.

(* the five bundled converters after from_dict/adjust, in ac_factory() order *)
Definition bundled : list conv :=
  map (fun r => {| nf := fst r; to_ := fst (snd r); fro := snd (snd r) |}) C17Tables.live.

(* the MAP dictionaries as written in saml2/attributemaps/*.py, same order *)
Definition bundled_src : list srcmap :=
  map (fun r => {| s_ident := fst r; s_to := fst (snd r); s_fro := snd (snd r) |}) C17Tables.src.
