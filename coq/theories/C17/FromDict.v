(* C17/FromDict.v — from_dict / adjust: a one-directional map dictionary always yields a
   symmetric converter (provided no wire name has surrounding whitespace). *)
From Coq Require Import String Ascii List Bool Arith NArith.
From Verif Require Import Base.Str C17.Model C17.Spec C17.Proofs.
Import ListNotations.
Open Scope string_scope.

Lemma all_ascii (P : ascii -> Prop) :
  (forall b0 b1 b2 b3 b4 b5 b6 b7, P (Ascii b0 b1 b2 b3 b4 b5 b6 b7)) -> forall c, P c.
Proof. intros H [b0 b1 b2 b3 b4 b5 b6 b7]. apply H. Qed.

(* lower_idem, no_outer_ws_lower: C17/Case.v (str.lower() on UTF-8 text, any names) *)

Lemma in_from_items {A} (l : list (string * A)) k v : lookup k (from_items l) = Some v -> In (k, v) l.
Proof.
  rewrite lookup_from_items. intros H. apply lookup_In in H. apply in_rev in H. exact H.
Qed.

Lemma from_items_knows {A} (l : list (string * A)) k : In k (map fst l) -> lookup k (from_items l) <> None.
Proof.
  intros H. rewrite lookup_from_items.
  assert (Hr : In k (map fst (rev l))) by (rewrite map_rev; apply -> in_rev; exact H).
  destruct (lookup_some_of_key _ _ Hr) as [v Hv]. congruence.
Qed.

(* only "to" given: _fro is the mirror image *)
Theorem to_only_symmetric ident t m :
  from_dict {| s_ident := ident; s_to := Some t; s_fro := None |} = Some m ->
  (forall k n, In (k, n) t -> no_outer_ws n = true) ->
  map_symmetric m.
Proof.
  cbn [from_dict s_fro s_to s_ident]. intros H Hws. injection H as <-. intros k n Hw.
  apply wire_name_spec in Hw as [Hl _]. cbn [to_ fro] in *. unfold local_name. cbn [fro].
  pose proof (lookup_In _ _ _ Hl) as Hin'.
  unfold lower_keys in Hl. apply in_from_items in Hl. apply in_map_iff in Hl as [[k0 n0] [E Hin]].
  cbn [fst snd] in E. injection E as _ ->.
  rewrite (strip_id _ (Hws _ _ Hin)).
  unfold mirror. apply from_items_knows. rewrite map_map. cbn [fst].
  apply in_map_iff. exists (lower k, n). split; [reflexivity|exact Hin'].
Qed.

(* only "fro" given: _to is the mirror image (wire names come out lower-cased) *)
Theorem fro_only_symmetric ident f m :
  from_dict {| s_ident := ident; s_to := None; s_fro := Some f |} = Some m ->
  (forall n c, In (n, c) f -> no_outer_ws n = true) ->
  map_symmetric m.
Proof.
  cbn [from_dict s_fro s_to s_ident]. intros H Hws. injection H as <-. intros k n Hw.
  apply wire_name_spec in Hw as [Hl _]. cbn [to_ fro] in *. unfold local_name. cbn [fro].
  unfold mirror in Hl. apply in_from_items in Hl. apply in_map_iff in Hl as [[n1 c1] [E Hin]].
  cbn [fst snd] in E. injection E as _ <-.
  (* n1 is a key of lower_keys f: the lower-cased form of a key of f *)
  assert (Hk : exists n0 c0, In (n0, c0) f /\ n1 = lower n0).
  { assert (Hl1 : lookup n1 (lower_keys f) <> None).
    { intros Hn. apply lookup_None_keys in Hn. apply Hn. apply in_map_iff. exists (n1, c1). auto. }
    destruct (lookup n1 (lower_keys f)) as [c|] eqn:L; [|congruence].
    unfold lower_keys in L. apply in_from_items in L. apply in_map_iff in L as [[n0 c0] [E Hin0]].
    cbn [fst snd] in E. injection E as E1 E2. exists n0, c0. split; [exact Hin0|symmetry; exact E1]. }
  destruct Hk as (n0 & c0 & Hin0 & ->).
  rewrite strip_id by (rewrite no_outer_ws_lower; exact (Hws _ _ Hin0)).
  rewrite lower_idem. unfold lower_keys. apply from_items_knows. rewrite map_map. cbn [fst].
  apply in_map_iff. exists (n0, c0). split; [reflexivity|exact Hin0].
Qed.

(* from_dict never yields a table with a repeated key: the tables are dictionaries *)
Theorem from_dict_tables_nodup s m :
  from_dict s = Some m -> NoDup (map fst (to_ m)) /\ NoDup (map fst (fro m)).
Proof.
  unfold from_dict. destruct (s_fro s) as [f|], (s_to s) as [t|]; intros H; inversion H; subst; cbn [to_ fro];
    split; apply from_items_nodup.
Qed.

(* ---------------------------------------------------------------- names outside ASCII (round 6)
   A one-directional map of a German / Greek deployment: "Straße" (sharp s), "κωδικός" (final sigma), "ÄRGER".
   str.lower() keeps the sharp s and the final sigma and lower-cases the A with diaeresis; the map is symmetric,
   the spellings str.lower() identifies reach the entry, the spellings only a coarser comparison identifies
   ("STRASSE", "strasse": casefold / upper-casing; sigma for final sigma) do not. *)
Definition u_strasse := sb [83;116;114;97;195;159;101]%N.                          (* "Straße" *)
Definition u_STRAsSE := sb [83;84;82;65;225;186;158;69]%N.                          (* "STRAẞE", U+1E9E *)
Definition u_kodikos := sb [206;186;207;137;206;180;206;185;206;186;207;140;207;130]%N.   (* "κωδικός" *)
Definition u_kodikos_sigma := sb [206;186;207;137;206;180;206;185;206;186;207;140;207;131]%N.   (* "κωδικόσ" *)
Definition u_AERGER := sb [195;132;82;71;69;82]%N.                                  (* "ÄRGER" *)
Definition u_aerger := sb [195;164;114;103;101;114]%N.                              (* "ärger" *)

Definition u_map : srcmap :=
  {| s_ident := "urn:example:format:de";
     s_to := Some [(u_strasse, "urn:example:attr:street"); (u_kodikos, "urn:example:attr:code"); (u_AERGER, u_AERGER)];
     s_fro := None |}.

Example non_ascii_names :
  exists m, from_dict u_map = Some m /\ map_symmetric m /\
    wire_name m u_strasse = Some "urn:example:attr:street" /\
    wire_name m u_STRAsSE = Some "urn:example:attr:street" /\
    wire_name m "STRASSE" = None /\ wire_name m "strasse" = None /\
    wire_name m u_kodikos = Some "urn:example:attr:code" /\ wire_name m u_kodikos_sigma = None /\
    wire_name m u_aerger = Some u_AERGER /\ local_name m u_AERGER = Some u_aerger /\
    roundtrip [m] [(u_STRAsSE, ["Bahnhofstr. 1"]); (u_aerger, [" x "])] (nf m) false true
    = Some [(lower u_strasse, [LStr "Bahnhofstr. 1"]); (u_aerger, [LStr "x"])]   (* adjust() lower-cases the mirror image *)
    /\ lower u_strasse = sb [115;116;114;97;195;159;101]%N /\ lower u_STRAsSE = lower u_strasse.
Proof.
  destruct (from_dict u_map) as [m|] eqn:E; [|vm_compute in E; discriminate].
  exists m. split; [reflexivity|]. split.
  - apply (to_only_symmetric _ _ _ E). intros k n H. cbn in H.
    destruct H as [H|[H|[H|[]]]]; injection H as _ <-; vm_compute; reflexivity.
  - vm_compute in E. injection E as <-. vm_compute. repeat split.
Qed.
