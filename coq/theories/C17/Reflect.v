(* C17/Reflect.v — the boolean specifications evaluated on observed outputs are the stated ones. *)
From Coq Require Import String List Bool Arith Lia.
From Verif Require Import Base.Str C17.Model C17.Spec C17.Proofs.
Import ListNotations.
Open Scope string_scope.

Lemma is_some_iff {A} (o : option A) : is_some o = true <-> o <> None.
Proof. destruct o; cbn; split; congruence. Qed.

Lemma carries_b_iff w n f k vs : carries_b w n f k vs = true <-> carries w n f k vs.
Proof.
  unfold carries_b, carries. rewrite !andb_true_iff, !sopt_eqb_eq, strs_eqb_eq. tauto.
Qed.

Theorem spec_send_b_iff acs f a out : spec_send_b acs f a out = true <-> spec_send acs f a out.
Proof.
  unfold spec_send_b, spec_send. rewrite forallb_forall. split.
  - intros H m Hm Hf. specialize (H m Hm). apply String.eqb_eq in Hf. rewrite Hf in H. cbn [negb orb] in H.
    destruct out as [ws|]; [|discriminate]. exists ws. split; [reflexivity|].
    apply andb_true_iff in H as [Hl Ha]. apply Nat.eqb_eq in Hl. split; [exact Hl|].
    intros e n He Hw. rewrite forallb_forall in Ha. specialize (Ha e He). rewrite Hw in Ha.
    apply existsb_exists in Ha as [w [Hin Hc]]. exists w. split; [exact Hin|]. apply carries_b_iff. exact Hc.
  - intros H m Hm. destruct (String.eqb (nf m) f) eqn:E; [|reflexivity]. cbn [negb orb].
    apply String.eqb_eq in E. destruct (H m Hm E) as (ws & -> & Hl & Ha).
    apply andb_true_iff. split; [apply Nat.eqb_eq; exact Hl|].
    apply forallb_forall. intros e He. destruct (wire_name m (fst e)) as [n|] eqn:W; [|reflexivity].
    destruct (Ha e n He W) as (w & Hin & Hc). apply existsb_exists. exists w. split; [exact Hin|].
    apply carries_b_iff. exact Hc.
Qed.

Lemma in_scope_attr_b_iff acs w : in_scope_attr_b acs w = true <-> in_scope_attr acs w.
Proof.
  unfold in_scope_attr_b, in_scope_attr. split.
  - destruct (wname w) as [n|]; [|discriminate]. destruct (wnf w) as [f|]; [|discriminate].
    intros H. exists n, f. split; [reflexivity|]. split; [reflexivity|]. intros Hw. rewrite Hw in H.
    cbn [negb orb] in H. apply andb_true_iff in H as [H1 H2]. apply String.eqb_eq in H1. split; [exact H1|].
    destruct (known_targets acs n f); [discriminate|discriminate].
  - intros (n & f & -> & -> & H). destruct (existsb is_wrapped (wvals w)); [|reflexivity].
    destruct (H eq_refl) as [H1 H2]. cbn [negb orb]. apply andb_true_iff. split; [apply String.eqb_eq; exact H1|].
    destruct (known_targets acs n f); [congruence|reflexivity].
Qed.

Lemma nodup_b_iff l : nodup_b l = true <-> NoDup l.
Proof.
  induction l as [|x r IH]; cbn [nodup_b]; [split; [constructor|reflexivity]|].
  rewrite andb_true_iff, negb_true_iff, IH, mem_false_notin. split.
  - intros [H1 H2]. constructor; assumption.
  - intros H. inversion H; subst. auto.
Qed.

Lemma recv_matches_iff acs allow pol ws result :
  recv_matches acs allow pol ws result = true <->
  forall c, lookup c result = gather c (flat_map (contrib acs allow pol) ws).
Proof.
  unfold recv_matches. set (exp := flat_map (contrib acs allow pol) ws). rewrite forallb_forall. split.
  - intros H c. destruct (mem c (map fst result ++ map fst exp)) eqn:E.
    + apply mem_In in E. apply olvals_eqb_eq. exact (H c E).
    + apply mem_false_notin in E. rewrite in_app_iff in E.
      rewrite (proj2 (lookup_None_keys c result)) by tauto.
      rewrite gather_None_keys by tauto. reflexivity.
  - intros H c _. apply olvals_eqb_eq. apply H.
Qed.

Theorem spec_recv_b_iff acs allow ws result :
  spec_recv_b acs allow ws result = true <-> spec_recv acs allow ws result.
Proof.
  unfold spec_recv_b, spec_recv. split.
  - intros H S.
    assert (Hs : forallb (in_scope_attr_b acs) ws = true).
    { apply forallb_forall. intros w Hw. apply in_scope_attr_b_iff. exact (S w Hw). }
    rewrite Hs in H. cbn [negb orb] in H. apply andb_true_iff in H as [Hn Hm].
    split; [apply nodup_b_iff; exact Hn|].
    apply orb_true_iff in Hm as [Hm|Hm]; [exists true|exists false]; apply recv_matches_iff; exact Hm.
  - intros H. destruct (forallb (in_scope_attr_b acs) ws) eqn:Hs; [|reflexivity]. cbn [negb orb].
    rewrite forallb_forall in Hs.
    destruct H as [Hn [pol Hm]]; [intros w Hw; apply in_scope_attr_b_iff; exact (Hs w Hw)|].
    apply andb_true_iff. split; [apply nodup_b_iff; exact Hn|].
    apply orb_true_iff. apply recv_matches_iff in Hm. destruct pol; [left|right]; exact Hm.
Qed.

Theorem spec_round_b_iff acs f a result : spec_round_b acs f a result = true <-> spec_round acs f a result.
Proof.
  unfold spec_round_b, spec_round. split.
  - intros H Scope m Hm Hf.
    assert (Hs : forallb (fun e => existsb (fun m => String.eqb (nf m) f && is_some (wire_name m (fst e))) acs) a = true).
    { apply forallb_forall. intros e He. destruct (Scope e He) as (m0 & Hm0 & Hf0 & Hw0).
      apply existsb_exists. exists m0. split; [exact Hm0|]. apply andb_true_iff.
      split; [apply String.eqb_eq; exact Hf0|apply is_some_iff; exact Hw0]. }
    rewrite Hs in H. cbn [negb orb] in H. rewrite forallb_forall in H. specialize (H m Hm).
    apply String.eqb_eq in Hf. rewrite Hf in H. cbn [negb orb] in H.
    destruct result as [r|]; [|discriminate]. exists r. split; [reflexivity|].
    intros e He Hw. rewrite forallb_forall in H. specialize (H e He).
    apply is_some_iff in Hw. rewrite Hw in H. cbn [negb orb] in H.
    destruct (canon m (fst e)) as [c|]; [|discriminate]. exists c. split; [reflexivity|].
    apply olvals_eqb_eq. exact H.
  - intros H.
    destruct (forallb (fun e => existsb (fun m => String.eqb (nf m) f && is_some (wire_name m (fst e))) acs) a) eqn:Hs;
      [|reflexivity].
    cbn [negb orb]. rewrite forallb_forall in Hs.
    assert (Scope : forall e, In e a -> exists m, In m acs /\ nf m = f /\ wire_name m (fst e) <> None).
    { intros e He. specialize (Hs e He). apply existsb_exists in Hs as (m0 & Hm0 & Hb).
      apply andb_true_iff in Hb as [Hb1 Hb2]. exists m0. split; [exact Hm0|].
      split; [apply String.eqb_eq; exact Hb1|apply is_some_iff; exact Hb2]. }
    specialize (H Scope). apply forallb_forall. intros m Hm.
    destruct (String.eqb (nf m) f) eqn:E; [|reflexivity]. cbn [negb orb].
    apply String.eqb_eq in E. destruct (H m Hm E) as (r & -> & Hr).
    apply forallb_forall. intros e He. destruct (is_some (wire_name m (fst e))) eqn:W; [|reflexivity].
    cbn [negb orb]. apply is_some_iff in W. destruct (Hr e He W) as (c & -> & Hl).
    apply olvals_eqb_eq. exact Hl.
Qed.
