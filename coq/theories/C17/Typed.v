(* C17/Typed.v — strengthening round 2: local values as Python objects (str / bool / int, in a list
   or alone).  Links the typed layer of Model.v (do_ava, to_one_py, from_local_py, roundtrip_py) to
   the string level the other theorems speak about, proves the typed clauses of the property outside
   the finding classes, and the reflection of their boolean versions.
   Finding class 4 (C17-F4, REPAIRED by 33a3a3a1): do_ava accepted `val or val is False`, so the
   integer 0 and the float 0.0 (falsy, not False, not None) raised OtherError — alone or inside a
   list.  The model follows the repaired code and no theorem is guarded by class 4 any more; it is
   still computed (`*_cls_reg_py`, used by Corr.cls) so that a regression is named — the finding being
   closed, the driver reports such a case as VIOLATION with the failing input.  The old behaviour is
   Model.do_ava1_v0 / from_local_py_v0 / roundtrip_py_v0 (zero_v0_refuted_holds, zero_now_holds). *)
From Coq Require Import String List Bool Arith ZArith Lia.
From Verif Require Import Base.Str C17.Model C17.Spec C17.Proofs C17.Reflect C17.Classes.
Import ListNotations.
Open Scope string_scope.

(* ================================================================ class 4 *)
Definition is_zero (v : pyval) : bool :=
  match v with PInt z => Z.eqb z 0 | PFloat _ zero => zero | _ => false end.
Definition has_zero (a : pava) : bool := existsb (fun e => existsb is_zero (given (snd e))) a.

(* the keys of the dictionary (classes 1-3 are computed from the names; 2 also from the strings) *)
Definition keys_only (a : pava) : list (string * list string) := map (fun e => (fst e, [])) a.
Definition lowered (a : pava) : list (string * list string) :=
  match givens a with Some a' => a' | None => keys_only a end.

Definition with4 (k : nat) (a : pava) : nat :=
  match k with 0 => if has_zero a then 4 else 0 | _ => k end.

(* the OPEN class (1): this guards the theorems *)
Definition send_cls_py (acs : list conv) (f : string) (a : pava) : nat := send_cls acs f (lowered a).
Definition round_cls_py (acs : list conv) (f : string) (a : pava) : nat := round_cls acs f (lowered a).
(* the same plus recognition of the repaired classes 4, 3 and 2 (Corr.cls) *)
Definition send_cls_reg_py (acs : list conv) (f : string) (a : pava) : nat :=
  with4 (send_cls acs f (lowered a)) a.
Definition round_cls_reg_py (acs : list conv) (f : string) (a : pava) : nat :=
  with4 (round_cls_reg acs f (lowered a)) a.

(* the regression recognisers only ever ADD the repaired classes *)
Lemma send_cls_reg_py_open acs f a : send_cls_py acs f a <> 0 -> send_cls_reg_py acs f a = send_cls_py acs f a.
Proof. unfold send_cls_py, send_cls_reg_py, with4. destruct (send_cls acs f (lowered a)); congruence. Qed.

Lemma round_cls_reg_py_open acs f a : round_cls_py acs f a <> 0 -> round_cls_reg_py acs f a = round_cls_py acs f a.
Proof.
  unfold round_cls_py, round_cls_reg_py. intros H. rewrite round_cls_reg_open by exact H.
  unfold with4. destruct (round_cls acs f (lowered a)); congruence.
Qed.

(* ================================================================ lowering *)
Definition texts_of (v : pyvalue) : list string := match given_texts v with Some vs => vs | None => [] end.

Definition tys_of (m : conv) (e : string * pyvalue) : list string :=
  if sends_eptid m (fst e) then map (fun _ => "") (texts_of (snd e)) else map xs_type (given (snd e)).

Definition lower_ava (a : pava) : list (string * list string) := map (fun e => (fst e, texts_of (snd e))) a.

Lemma givens_lower a a' : givens a = Some a' -> a' = lower_ava a.
Proof.
  revert a'. induction a as [|e r IH]; intros a'; cbn [givens lower_ava map].
  - intros H. inversion H. reflexivity.
  - unfold texts_of. destruct (given_texts (snd e)) as [vs|]; [|discriminate].
    destruct (givens r) as [r'|]; [|discriminate]. intros H. inversion H. rewrite (IH r' eq_refl). reflexivity.
Qed.

Lemma givens_texts a a' e : givens a = Some a' -> In e a -> given_texts (snd e) = Some (texts_of (snd e)).
Proof.
  revert a'. induction a as [|x r IH]; intros a' H Hin; [destruct Hin|].
  cbn [givens] in H. destruct (given_texts (snd x)) as [vs|] eqn:G; [|discriminate].
  destruct (givens r) as [r'|] eqn:R; [|discriminate].
  destruct Hin as [->|Hin]; [unfold texts_of; rewrite G; reflexivity|exact (IH r' eq_refl Hin)].
Qed.

(* the texts and types do_ava gives are the lexical forms and the XML Schema types of the values
   (0, 0.0 and False included, since 33a3a3a1) *)
Lemma do_ava_list_exact l vs :
  lexicals l = Some vs ->
  do_ava_list l = DOk (combine (map xs_type l) vs).
Proof.
  revert vs. induction l as [|v r IH]; intros vs Hl.
  - cbn in Hl. inversion Hl. reflexivity.
  - cbn [lexicals] in Hl. destruct (lexical v) as [s|] eqn:Lv; [|discriminate].
    destruct (lexicals r) as [ss|] eqn:Lr; [|discriminate]. inversion Hl; subst vs.
    cbn [do_ava_list map combine]. rewrite (IH ss eq_refl).
    destruct v as [x|b|z|x zero|]; cbn [do_ava1 xs_type lexical] in *.
    + inversion Lv. reflexivity.
    + destruct b; inversion Lv; reflexivity.
    + inversion Lv. reflexivity.
    + inversion Lv. reflexivity.
    + discriminate.
Qed.

Lemma lexicals_length l vs : lexicals l = Some vs -> length vs = length l.
Proof.
  revert vs. induction l as [|v r IH]; intros vs H; cbn [lexicals] in H.
  - inversion H. reflexivity.
  - destruct (lexical v); [|discriminate]. destruct (lexicals r) as [ss|]; [|discriminate].
    inversion H. cbn [length]. rewrite (IH ss eq_refl). reflexivity.
Qed.

Lemma combine_fst {A B} (x : list A) (y : list B) : length y = length x -> map fst (combine x y) = x.
Proof.
  revert y. induction x as [|a r IH]; intros [|b s] H; cbn in *; try reflexivity; try discriminate.
  rewrite IH by lia. reflexivity.
Qed.

Lemma combine_snd {A B} (x : list A) (y : list B) : length y = length x -> map snd (combine x y) = y.
Proof.
  revert y. induction x as [|a r IH]; intros [|b s] H; cbn in *; try reflexivity; try discriminate.
  rewrite IH by lia. reflexivity.
Qed.

Lemma do_ava_exact v vs :
  given_texts v = Some vs ->
  do_ava v = DOk (combine (map xs_type (given v)) vs).
Proof.
  destruct v as [l|x]; unfold given_texts; cbn [given do_ava]; intros Hl.
  - apply do_ava_list_exact; assumption.
  - pose proof (do_ava_list_exact [x] vs Hl) as H. cbn [do_ava_list] in H.
    destruct (do_ava1 x) as [[tv|]|e]; try discriminate.
    exact H.
Qed.

Lemma all_str_lexicals l : forallb is_pstr l = true -> exists vs, all_str l = Some vs /\ lexicals l = Some vs.
Proof.
  induction l as [|v r IH]; cbn [forallb]; intros H; [exists []; split; reflexivity|].
  apply andb_true_iff in H as [H1 H2]. destruct (IH H2) as (vs & A & L).
  destruct v as [s| | | |]; try discriminate. exists (s :: vs). cbn [all_str lexicals lexical]. rewrite A, L. split; reflexivity.
Qed.

Lemma eptid_value_exact v vs :
  forallb is_pstr (given v) = true -> given_texts v = Some vs -> eptid_value v = DOk vs.
Proof.
  unfold given_texts. destruct v as [l|x]; cbn [given eptid_value]; intros Hp Hl.
  - destruct (all_str_lexicals l Hp) as (ws & A & L). rewrite A. congruence.
  - destruct x as [s| | | |]; try discriminate. cbn in Hl. inversion Hl. reflexivity.
Qed.

(* what the spec calls "sent under the OID" is the test in to_() *)
Lemma sends_eptid_wire m k : sends_eptid m k = opt_eqb String.eqb (wire_name m k) (Some EPTID_OID).
Proof.
  unfold sends_eptid, wire_name. destruct (lookup (lower k) (to_ m)) as [n|]; [|reflexivity].
  destruct (is_empty n) eqn:E; [|reflexivity]. apply is_empty_true in E. subst n. reflexivity.
Qed.

Lemma to_one_py_exact m e vs :
  given_texts (snd e) = Some vs ->
  (sends_eptid m (fst e) = true -> forallb is_pstr (given (snd e)) = true) ->
  to_one_py m e = DOk (to_one m (fst e, texts_of (snd e)), tys_of m e).
Proof.
  intros Hl Hs. unfold to_one_py, tys_of, texts_of. rewrite Hl.
  destruct (sends_eptid m (fst e)) eqn:E.
  - rewrite (eptid_value_exact _ _ (Hs eq_refl) Hl). reflexivity.
  - rewrite (do_ava_exact _ _ Hl).
    pose proof (lexicals_length _ _ Hl) as Hlen.
    rewrite combine_snd, combine_fst by (rewrite ?map_length; exact Hlen). reflexivity.
Qed.

Definition sent_by (m : conv) (a : pava) : list (wattr * list string) :=
  map (fun e => (to_one m (fst e, texts_of (snd e)), tys_of m e)) a.

Lemma sent_by_wire m a : map fst (sent_by m a) = conv_to m (lower_ava a).
Proof. unfold sent_by, conv_to, lower_ava. rewrite !map_map. reflexivity. Qed.

Lemma conv_to_py_exact m a a' :
  givens a = Some a' ->
  (forall e, In e a -> sends_eptid m (fst e) = true -> forallb is_pstr (given (snd e)) = true) ->
  conv_to_py m a = DOk (sent_by m a).
Proof.
  unfold conv_to_py, sent_by. revert a'. induction a as [|e r IH]; intros a' Hg Hs; [reflexivity|].
  cbn [givens] in Hg. destruct (given_texts (snd e)) as [vs|] eqn:G; [|discriminate].
  destruct (givens r) as [r'|] eqn:R; [|discriminate].
  cbn [map dseq]. rewrite (to_one_py_exact m e vs G (Hs e (or_introl eq_refl))).
  rewrite (IH r' eq_refl) by (intros x Hx; apply Hs; right; exact Hx). reflexivity.
Qed.

Lemma py_scope_sender acs f a s :
  py_scope_b acs f a = true -> In s acs -> nf s = f ->
  forall e, In e a -> sends_eptid s (fst e) = true -> forallb is_pstr (given (snd e)) = true.
Proof.
  unfold py_scope_b. rewrite forallb_forall. intros H Hs Hf e He Hse.
  specialize (H s Hs). apply String.eqb_eq in Hf. rewrite Hf in H. cbn [negb orb] in H.
  rewrite forallb_forall in H. specialize (H e He). rewrite <- sends_eptid_wire, Hse in H. exact H.
Qed.

(* the typed functions are the string-level ones on the lexical forms *)
Theorem from_local_py_lowered acs f a a' :
  py_scope_b acs f a = true -> givens a = Some a' ->
  from_local_py acs a f = match sender acs f with Some s => SOk (sent_by s a) | None => SNone end /\
  sres_wire (from_local_py acs a f) = from_local acs a' f.
Proof.
  intros Hsc Hg. unfold from_local_py, from_local. destruct (sender acs f) as [s|] eqn:S; [|split; reflexivity].
  destruct (sender_some _ _ _ S) as [Hin Hf].
  rewrite (conv_to_py_exact s a a' Hg (py_scope_sender _ _ _ _ Hsc Hin Hf)).
  split; [reflexivity|]. cbn [sres_wire]. rewrite sent_by_wire, (givens_lower _ _ Hg). reflexivity.
Qed.

Theorem roundtrip_py_lowered acs f a a' allow xml :
  py_scope_b acs f a = true -> givens a = Some a' ->
  rres_opt (roundtrip_py acs a f allow xml) = roundtrip acs a' f allow xml.
Proof.
  intros Hsc Hg. destruct (from_local_py_lowered acs f a a' Hsc Hg) as [H1 H2].
  unfold roundtrip_py, roundtrip. rewrite <- H2, H1.
  destruct (sender acs f) as [s|]; reflexivity.
Qed.

(* ================================================================ the typed clauses *)
Lemma lowered_givens a a' : givens a = Some a' -> lowered a = a'.
Proof. unfold lowered. intros ->. reflexivity. Qed.

Theorem send_py_correct acs f a :
  send_cls_py acs f a = 0 -> spec_send_py acs f a (from_local_py acs a f).
Proof.
  intros C Hsc a' Hg. unfold send_cls_py in C. rewrite (lowered_givens _ _ Hg) in C.
  destruct (from_local_py_lowered acs f a a' Hsc Hg) as [H1 H2]. split.
  - rewrite H2. apply send_correct. exact C.
  - intros m ws Hm Hf Hout e n He Hw Hn.
    destruct (sender_exists _ _ _ Hm Hf) as [s Hs]. destruct (sender_some _ _ _ Hs) as [Hsin Hsf].
    rewrite H1, Hs in Hout. inversion Hout; subst ws. clear Hout.
    exists (to_one s (fst e, texts_of (snd e)), tys_of s e). split.
    { unfold sent_by. apply (in_map (fun e0 => (to_one s (fst e0, texts_of (snd e0)), tys_of s e0))). exact He. }
    (* class 1 excluded: s and m agree on the wire name of e *)
    assert (Hws : wire_name s (fst e) = Some n).
    { pose proof (send_cls_guard _ _ _ C) as G. rewrite (givens_lower _ _ Hg) in G.
      rewrite <- Hw. apply (G s m (fst e, texts_of (snd e))); auto.
      unfold lower_ava. apply (in_map (fun e0 => (fst e0, texts_of (snd e0)))). exact He. }
    destruct (to_one_defined s (fst e) (texts_of (snd e)) n Hws) as (Cn & _ & Cf & _).
    unfold typed_as. cbn [fst snd]. repeat split; [exact Cn|exact Cf|].
    unfold tys_of. rewrite sends_eptid_wire, Hws. cbn [opt_eqb].
    destruct (String.eqb n EPTID_OID) eqn:E; [apply String.eqb_eq in E; contradiction|reflexivity].
Qed.

Theorem round_py_correct acs f a allow xml :
  round_cls_py acs f a = 0 ->
  (forall m, In m acs -> nf m = f -> map_symmetric m) ->
  spec_round_py acs f a (roundtrip_py acs a f allow xml).
Proof.
  intros C Sym Hsc a' Hg. unfold round_cls_py in C. rewrite (lowered_givens _ _ Hg) in C.
  rewrite (roundtrip_py_lowered acs f a a' allow xml Hsc Hg). apply round_correct; assumption.
Qed.

(* booleans, integers and floats (False, 0 and 0.0 included), alone or in a list, next to strings: one symmetric map sends
   and receives them as their lexical forms, nothing lost (the canonical result of the string level) *)
Theorem send_receive_py m a a' allow xml :
  py_scope_b [m] (nf m) a = true -> givens a = Some a' ->
  map_symmetric m -> covered m a' ->
  roundtrip_py [m] a (nf m) allow xml = ROk (canonical m m a').
Proof.
  intros Hsc Hg Sym Cov.
  pose proof (roundtrip_py_lowered [m] (nf m) a a' allow xml Hsc Hg) as H.
  rewrite (send_receive m a' allow xml Sym Cov) in H.
  destruct (roundtrip_py [m] a (nf m) allow xml); cbn [rres_opt] in H; congruence.
Qed.

(* ================================================================ reflection *)
Lemma typed_as_b_iff w n e : typed_as_b w n e = true <-> typed_as w n e.
Proof. unfold typed_as_b, typed_as. rewrite !andb_true_iff, !sopt_eqb_eq, strs_eqb_eq. tauto. Qed.

Lemma types_b_iff acs f a out :
  types_b acs f a out = true <->
  (forall m ws, In m acs -> nf m = f -> out = SOk ws ->
     forall e n, In e a -> wire_name m (fst e) = Some n -> n <> EPTID_OID -> exists w, In w ws /\ typed_as w n e).
Proof.
  unfold types_b. split.
  - intros H m ws Hm Hf Hout e n He Hw Hn. subst out. rewrite forallb_forall in H. specialize (H m Hm).
    apply String.eqb_eq in Hf. rewrite Hf in H. cbn [negb orb] in H. rewrite forallb_forall in H.
    specialize (H e He). rewrite Hw in H. apply orb_true_iff in H as [H|H].
    + apply String.eqb_eq in H. contradiction.
    + apply existsb_exists in H as (w & Hin & Ht). exists w. split; [exact Hin|apply typed_as_b_iff; exact Ht].
  - intros H. destruct out as [ws| |]; try reflexivity. apply forallb_forall. intros m Hm.
    destruct (String.eqb (nf m) f) eqn:E; [|reflexivity]. cbn [negb orb]. apply String.eqb_eq in E.
    apply forallb_forall. intros e He. destruct (wire_name m (fst e)) as [n|] eqn:W; [|reflexivity].
    destruct (String.eqb n EPTID_OID) eqn:En; [reflexivity|]. cbn [orb].
    assert (Hn : n <> EPTID_OID) by (intros ->; rewrite String.eqb_refl in En; discriminate).
    destruct (H m ws Hm E eq_refl e n He W Hn) as (w & Hin & Ht).
    apply existsb_exists. exists w. split; [exact Hin|apply typed_as_b_iff; exact Ht].
Qed.

Theorem spec_send_py_b_iff acs f a out : spec_send_py_b acs f a out = true <-> spec_send_py acs f a out.
Proof.
  unfold spec_send_py_b, spec_send_py. destruct (py_scope_b acs f a); cbn [negb orb]; [|split; [discriminate|reflexivity]].
  destruct (givens a) as [a'|].
  - rewrite andb_true_iff, spec_send_b_iff, types_b_iff. split.
    + intros H _ a0 E. inversion E; subst a0. exact H.
    + intros H. exact (H eq_refl a' eq_refl).
  - split; [discriminate|reflexivity].
Qed.

Theorem spec_round_py_b_iff acs f a r : spec_round_py_b acs f a r = true <-> spec_round_py acs f a r.
Proof.
  unfold spec_round_py_b, spec_round_py. destruct (py_scope_b acs f a); cbn [negb orb]; [|split; [discriminate|reflexivity]].
  destruct (givens a) as [a'|].
  - rewrite spec_round_b_iff. split.
    + intros H _ a0 E. inversion E; subst a0. exact H.
    + intros H. exact (H eq_refl a' eq_refl).
  - split; [discriminate|reflexivity].
Qed.

(* ================================================================ finding C17-F4, repaired by 33a3a3a1:
   the code as it was (from_local_py_v0 / roundtrip_py_v0) violated the typed clauses — one map, one
   attribute, the integer 0 (in a list, alone) or the float 0.0 ... *)
Definition ZERO_MAP : conv := {| nf := NAME_FORMAT_URI; to_ := [("logincount", "urn:x:loginCount")];
                                 fro := [("urn:x:logincount", "loginCount")] |}.
Definition ZERO_LIST : pava := [("loginCount", VList [PBool false; PInt 0])].
Definition ZERO_ONE : pava := [("loginCount", VOne (PInt 0))].
Definition ZERO_FLOAT : pava := [("loginCount", VList [PFloat "0.0" true; PFloat "1.5" false])].

Theorem zero_v0_refuted_holds :
  (exists a, ~ spec_send_py [ZERO_MAP] NAME_FORMAT_URI a (from_local_py_v0 [ZERO_MAP] a NAME_FORMAT_URI)) /\
  (exists a, ~ spec_round_py [ZERO_MAP] NAME_FORMAT_URI a (roundtrip_py_v0 [ZERO_MAP] a NAME_FORMAT_URI false true)) /\
  (exists a, ~ spec_send_py [ZERO_MAP] NAME_FORMAT_URI a (from_local_py_v0 [ZERO_MAP] a NAME_FORMAT_URI) /\
             has_zero a = true /\ forall e, In e a -> existsb (fun v => match v with PInt _ => true | _ => false end) (given (snd e)) = false).
Proof.
  split; [|split].
  - exists ZERO_LIST. intros H. apply spec_send_py_b_iff in H. vm_compute in H. discriminate.
  - exists ZERO_ONE. intros H. apply spec_round_py_b_iff in H. vm_compute in H. discriminate.
  - exists ZERO_FLOAT. split; [|split].
    + intros H. apply spec_send_py_b_iff in H. vm_compute in H. discriminate.
    + reflexivity.
    + intros e [<-|[]]. reflexivity.
Qed.

(* ... and the same inputs are handled correctly now *)
Theorem zero_now_holds :
  from_local_py_v0 [ZERO_MAP] ZERO_LIST NAME_FORMAT_URI = SExc "OtherError" /\
  from_local_py [ZERO_MAP] ZERO_LIST NAME_FORMAT_URI
    = SOk [({| wname := Some "urn:x:loginCount"; wnf := Some NAME_FORMAT_URI; wfriendly := Some "loginCount";
               wvals := [WText "false"; WText "0"] |}, ["xs:boolean"; "xs:integer"])] /\
  spec_send_py [ZERO_MAP] NAME_FORMAT_URI ZERO_LIST (from_local_py [ZERO_MAP] ZERO_LIST NAME_FORMAT_URI) /\
  roundtrip_py_v0 [ZERO_MAP] ZERO_ONE NAME_FORMAT_URI false true = RExc "OtherError" /\
  roundtrip_py [ZERO_MAP] ZERO_ONE NAME_FORMAT_URI false true = ROk [("loginCount", [LStr "0"])] /\
  spec_round_py [ZERO_MAP] NAME_FORMAT_URI ZERO_ONE (roundtrip_py [ZERO_MAP] ZERO_ONE NAME_FORMAT_URI false true) /\
  roundtrip_py [ZERO_MAP] ZERO_FLOAT NAME_FORMAT_URI false true = ROk [("loginCount", [LStr "0.0"; LStr "1.5"])].
Proof.
  split; [vm_compute; reflexivity|]. split; [vm_compute; reflexivity|].
  split; [apply spec_send_py_b_iff; vm_compute; reflexivity|].
  split; [vm_compute; reflexivity|]. split; [vm_compute; reflexivity|].
  split; [apply spec_round_py_b_iff; vm_compute; reflexivity|]. vm_compute. reflexivity.
Qed.

(* the old and the new code differ only where class 4 says *)
Lemma do_ava1_v0_same v : is_zero v = false -> do_ava1_v0 v = do_ava1 v.
Proof. destruct v as [x|b|z|x zero|]; cbn [is_zero do_ava1_v0]; intros H; rewrite ?H; reflexivity. Qed.

(* non-vacuity: [True; False; "x"; 7; -3; 2.5] and False alone are sent typed and come back as lexical forms *)
Example typed_example :
  from_local_py [ZERO_MAP] [("loginCount", VList [PBool true; PBool false; PStr "x"; PInt 7; PInt (-3); PFloat "2.5" false])] NAME_FORMAT_URI
  = SOk [({| wname := Some "urn:x:loginCount"; wnf := Some NAME_FORMAT_URI; wfriendly := Some "loginCount";
             wvals := [WText "true"; WText "false"; WText "x"; WText "7"; WText "-3"; WText "2.5"] |},
          ["xs:boolean"; "xs:boolean"; "xs:string"; "xs:integer"; "xs:integer"; "xs:float"])] /\
  roundtrip_py [ZERO_MAP] [("LOGINCOUNT", VOne (PBool false))] NAME_FORMAT_URI false true
  = ROk [("loginCount", [LStr "false"])] /\
  spec_send_py_b [ZERO_MAP] NAME_FORMAT_URI [("loginCount", VList [PBool true; PBool false])]
    (from_local_py [ZERO_MAP] [("loginCount", VList [PBool true; PBool false])] NAME_FORMAT_URI) = true /\
  (* what seeded change C17-3 does (False inside a list sent as an AttributeValue without text) fails *)
  spec_send_py_b [ZERO_MAP] NAME_FORMAT_URI [("loginCount", VList [PBool true; PBool false])]
    (SOk [({| wname := Some "urn:x:loginCount"; wnf := Some NAME_FORMAT_URI; wfriendly := Some "loginCount";
              wvals := [WText "true"; WText ""] |}, ["xs:boolean"; "/nil"])]) = false.
Proof. vm_compute. repeat split; reflexivity. Qed.
