(* C17/Classes.v — the finding classes, as computed from a case, and the proof that outside
   them (class 0) the guards of the theorems hold: the property is proved for EXACTLY the
   complement of the known-finding classes.
   1: two converters of the set carry the same name format and differ on an attribute of the
      case (from_local takes the first, list_to_local the last);
   2: eduPersonTargetedID special case: a NameID-wrapped value is empty, or the map's local name
      for the OID is not spelled "eduPersonTargetedID" (one-directional maps lower-case it). *)
From Coq Require Import String List Bool Arith.
From Verif Require Import Base.Str C17.Model C17.Spec C17.Proofs.
Import ListNotations.
Open Scope string_scope.

Definition sopt_eqb := opt_eqb String.eqb.

Definition with_format (acs : list conv) (f : string) : list conv :=
  filter (fun m => String.eqb (nf m) f) acs.

Definition differ (g : conv -> option string) (ms : list conv) : bool :=
  existsb (fun m1 => existsb (fun m2 => negb (sopt_eqb (g m1) (g m2))) ms) ms.

Definition clash_send (acs : list conv) (f k : string) : bool :=
  differ (fun m => wire_name m k) (with_format acs f).

Definition clash_recv (acs : list conv) (f n : string) : bool :=
  differ (fun m => local_name m n) (with_format acs f).

Definition clash_round (acs : list conv) (f k : string) : bool :=
  clash_send acs f k ||
  existsb (fun m => match wire_name m k with Some n => clash_recv acs f n | None => false end) (with_format acs f).

Definition clash_attr (acs : list conv) (w : wattr) : bool :=
  match wname w, wnf w with
  | Some n, Some f => clash_recv acs f n
  | _, _ => false
  end.

Definition eptid_recv (acs : list conv) (w : wattr) : bool :=
  match wname w, wnf w with
  | Some n, Some f =>
      existsb is_wrapped (wvals w) && String.eqb (strip n) EPTID_OID &&
      (existsb (fun v => is_wrapped v && is_empty (payload v)) (wvals w) ||
       existsb (fun m => negb (sopt_eqb (local_name m n) (Some EPTID_LOCAL))) (with_format acs f))
  | _, _ => false
  end.

Definition eptid_round (acs : list conv) (f : string) (e : string * list string) : bool :=
  existsb (fun m => sopt_eqb (wire_name m (fst e)) (Some EPTID_OID) &&
                    (existsb is_empty (snd e) || negb (sopt_eqb (canon m (fst e)) (Some EPTID_LOCAL))))
          (with_format acs f).

Definition send_cls (acs : list conv) (f : string) (a : list (string * list string)) : nat :=
  if existsb (fun e => clash_send acs f (fst e)) a then 1 else 0.

Definition recv_cls (acs : list conv) (ws : list wattr) : nat :=
  if existsb (clash_attr acs) ws then 1 else if existsb (eptid_recv acs) ws then 2 else 0.

Definition round_cls (acs : list conv) (f : string) (a : list (string * list string)) : nat :=
  if existsb (fun e => clash_round acs f (fst e)) a then 1
  else if existsb (eptid_round acs f) a then 2 else 0.

(* ---------------------------------------------------------------- class 0 => guards *)
Lemma with_format_In acs f m : In m (with_format acs f) <-> In m acs /\ nf m = f.
Proof. unfold with_format. rewrite filter_In, String.eqb_eq. tauto. Qed.

Lemma existsb_false {A} (p : A -> bool) l : existsb p l = false -> forall x, In x l -> p x = false.
Proof.
  intros H x Hx. destruct (p x) eqn:E; [|reflexivity].
  assert (existsb p l = true) by (apply existsb_exists; eauto). congruence.
Qed.

Lemma differ_false g ms : differ g ms = false -> forall m m', In m ms -> In m' ms -> g m = g m'.
Proof.
  intros H m m' Hm Hm'. unfold differ in H.
  pose proof (existsb_false _ _ H m Hm) as H1. cbn beta in H1.
  pose proof (existsb_false _ _ H1 m' Hm') as H2. cbn beta in H2.
  apply negb_false_iff in H2. apply sopt_eqb_eq in H2. exact H2.
Qed.

Lemma send_cls_guard acs f a : send_cls acs f a = 0 -> send_guard acs f a.
Proof.
  unfold send_cls. destruct (existsb _ a) eqn:E; [discriminate|]. intros _.
  intros m m' e Hm Hm' Hf Hf' He.
  pose proof (existsb_false _ _ E e He) as H. cbn beta in H.
  apply (differ_false _ _ H); apply with_format_In; auto.
Qed.

Lemma recv_cls_guard acs ws :
  recv_cls acs ws = 0 -> forall w, In w ws -> in_scope_attr acs w -> recv_guard acs w.
Proof.
  unfold recv_cls. destruct (existsb (clash_attr acs) ws) eqn:E1; [discriminate|].
  destruct (existsb (eptid_recv acs) ws) eqn:E2; [discriminate|]. intros _ w Hw S n f Hn Hf.
  pose proof (existsb_false _ _ E1 w Hw) as C1. pose proof (existsb_false _ _ E2 w Hw) as C2.
  unfold clash_attr in C1. unfold eptid_recv in C2. rewrite Hn, Hf in C1, C2. split.
  - intros m m' Hm Hm' Hmf Hmf'. apply (differ_false _ _ C1); apply with_format_In; auto.
  - intros m v Hm Hmf Hv Hwv.
    destruct S as (n' & f' & Hn' & Hf' & Hwrap). rewrite Hn in Hn'. rewrite Hf in Hf'.
    injection Hn' as <-. injection Hf' as <-.
    assert (Hex : existsb is_wrapped (wvals w) = true) by (apply existsb_exists; eauto).
    destruct (Hwrap Hex) as [Hoid _]. rewrite Hex in C2. apply String.eqb_eq in Hoid. rewrite Hoid in C2.
    cbn [andb] in C2. apply orb_false_iff in C2 as [Ca Cb]. split.
    + pose proof (existsb_false _ _ Cb m (proj2 (with_format_In _ _ _) (conj Hm Hmf))) as H. cbn beta in H.
      apply negb_false_iff in H. apply sopt_eqb_eq in H. exact H.
    + pose proof (existsb_false _ _ Ca v Hv) as H. cbn beta in H. rewrite Hwv in H. cbn [andb] in H.
      apply is_empty_false. exact H.
Qed.

Lemma round_cls_guard acs f a :
  round_cls acs f a = 0 ->
  (forall m, In m acs -> nf m = f -> map_symmetric m) ->
  round_guard acs f a.
Proof.
  unfold round_cls. destruct (existsb (fun e => clash_round acs f (fst e)) a) eqn:E1; [discriminate|].
  destruct (existsb (eptid_round acs f) a) eqn:E2; [discriminate|]. intros _ Sym e He.
  pose proof (existsb_false _ _ E1 e He) as C1. cbn beta in C1.
  pose proof (existsb_false _ _ E2 e He) as C2.
  unfold clash_round in C1. apply orb_false_iff in C1 as [Ca Cb]. split; [|split].
  - intros m m' Hm Hm' Hf Hf'. split.
    + apply (differ_false _ _ Ca); apply with_format_In; auto.
    + intros n Hw. pose proof (existsb_false _ _ Cb m (proj2 (with_format_In _ _ _) (conj Hm Hf))) as H.
      cbn beta in H. rewrite Hw in H. apply (differ_false _ _ H); apply with_format_In; auto.
  - intros m n Hm Hf Hw. exact (Sym m Hm Hf _ _ Hw).
  - intros m Hm Hf Hw. unfold eptid_round in C2.
    pose proof (existsb_false _ _ C2 m (proj2 (with_format_In _ _ _) (conj Hm Hf))) as H. cbn beta in H.
    rewrite Hw in H. unfold sopt_eqb at 1 in H. cbn [opt_eqb] in H. rewrite String.eqb_refl in H. cbn [andb] in H.
    apply orb_false_iff in H as [Hv Hc]. split.
    + apply negb_false_iff in Hc. apply sopt_eqb_eq in Hc. unfold canon in Hc. rewrite Hw in Hc. exact Hc.
    + intros v Hin. apply is_empty_false. exact (existsb_false _ _ Hv v Hin).
Qed.

(* ---------------------------------------------------------------- the property outside the classes *)
Theorem send_correct acs f a :
  send_cls acs f a = 0 -> spec_send acs f a (from_local acs a f).
Proof. intros H. apply send_holds, send_cls_guard, H. Qed.

Theorem recv_correct acs allow ws :
  recv_cls acs ws = 0 -> spec_recv acs allow ws (to_local acs allow ws).
Proof. intros H. apply recv_holds, recv_cls_guard, H. Qed.

Theorem round_correct acs f a allow xml :
  round_cls acs f a = 0 ->
  (forall m, In m acs -> nf m = f -> map_symmetric m) ->
  spec_round acs f a (roundtrip acs a f allow xml).
Proof. intros H Sym. apply round_holds, round_cls_guard; assumption. Qed.
