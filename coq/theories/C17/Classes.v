(* C17/Classes.v — the finding classes, as computed from a case, and the proof that outside
   them (class 0) the guards of the theorems hold: the property is proved for EXACTLY the
   complement of the known-finding classes.
   1: two converters of the set carry the same name format and differ on an attribute of the
      case (from_local takes the first, list_to_local the last);
   3: (REPAIRED by 09ff19a1, finding C17-F3) to_() wraps the values in NameID elements whenever
      the WIRE name is the eduPersonTargetedID OID, ava_from unwrapped them only when the LOCAL name
      was eduPersonTargetedID up to case: a map giving the OID another local name got {"NameID":
      {...}} dictionaries back.
   2: (REPAIRED by 16472e5d, finding C17-F2) a NameID-wrapped value is empty, or the map's local
      name for the OID is eduPersonTargetedID in another case (one-directional maps lower-case it).
   No theorem is guarded by class 2 or 3 any more; they are still computed (`*_cls_reg`, used by
   Corr.cls) so that a regression is named — the findings being closed, the driver reports such a
   case as VIOLATION with the failing input. *)
From Coq Require Import String List Bool Arith.
From Verif Require Import Base.Str C17.Model C17.Spec C17.Proofs.
Import ListNotations.
Open Scope string_scope.

Definition sopt_eqb := opt_eqb String.eqb.

Definition with_format (acs : list conv) (f : string) : list conv :=
  filter (fun m => String.eqb (nf m) f) acs.

Definition differ (g : conv -> option string) (ms : list conv) : bool :=
  existsb (fun m1 => existsb (fun m2 => negb (sopt_eqb (g m1) (g m2))) ms) ms.

Definition clash_send (acs : list conv) (f k : string) : bool :=
  differ (fun m => wire_name m k) (with_format acs f).

Definition clash_recv (acs : list conv) (f n : string) : bool :=
  differ (fun m => local_name m n) (with_format acs f).

Definition clash_round (acs : list conv) (f k : string) : bool :=
  clash_send acs f k ||
  existsb (fun m => match wire_name m k with Some n => clash_recv acs f n | None => false end) (with_format acs f).

Definition clash_attr (acs : list conv) (w : wattr) : bool :=
  match wname w, wnf w with
  | Some n, Some f => clash_recv acs f n
  | _, _ => false
  end.

(* class 3 as it was defined before repair 09ff19a1 (what the *_v1 model gets wrong) *)
Definition misnamed (o : option string) : bool :=
  match o with Some c => negb (eptid_name c) | None => false end.

Definition eptid_recv (acs : list conv) (w : wattr) : bool :=
  match wname w, wnf w with
  | Some n, Some f =>
      existsb is_wrapped (wvals w) && String.eqb (strip n) EPTID_OID &&
      existsb (fun m => misnamed (local_name m n)) (with_format acs f)
  | _, _ => false
  end.

Definition eptid_round (acs : list conv) (f : string) (e : string * list string) : bool :=
  existsb (fun m => sopt_eqb (wire_name m (fst e)) (Some EPTID_OID) && misnamed (local_name m EPTID_OID))
          (with_format acs f).

(* class 2 as it was defined before the repair (what the *_v0 model gets wrong) *)
Definition eptid_recv_v0 (acs : list conv) (w : wattr) : bool :=
  match wname w, wnf w with
  | Some n, Some f =>
      existsb is_wrapped (wvals w) && String.eqb (strip n) EPTID_OID &&
      (existsb (fun v => is_wrapped v && is_empty (payload v)) (wvals w) ||
       existsb (fun m => negb (sopt_eqb (local_name m n) (Some EPTID_LOCAL))) (with_format acs f))
  | _, _ => false
  end.

Definition eptid_round_v0 (acs : list conv) (f : string) (e : string * list string) : bool :=
  existsb (fun m => sopt_eqb (wire_name m (fst e)) (Some EPTID_OID) &&
                    (existsb is_empty (snd e) || negb (sopt_eqb (canon m (fst e)) (Some EPTID_LOCAL))))
          (with_format acs f).

Definition send_cls (acs : list conv) (f : string) (a : list (string * list string)) : nat :=
  if existsb (fun e => clash_send acs f (fst e)) a then 1 else 0.

(* the OPEN class: this guards the theorems *)
Definition recv_cls (acs : list conv) (ws : list wattr) : nat :=
  if existsb (clash_attr acs) ws then 1 else 0.

Definition round_cls (acs : list conv) (f : string) (a : list (string * list string)) : nat :=
  if existsb (fun e => clash_round acs f (fst e)) a then 1 else 0.

(* the same, plus recognition of the repaired classes 3 and 2 (consulted by Corr.cls only when the
   implementation's output FAILS the spec — which recv_correct / round_correct below exclude for
   the model whenever the open class is 0).  3 before 2: a map that renames the OID was in both. *)
Definition recv_cls_reg (acs : list conv) (ws : list wattr) : nat :=
  match recv_cls acs ws with
  | 0 => if existsb (eptid_recv acs) ws then 3 else if existsb (eptid_recv_v0 acs) ws then 2 else 0
  | k => k
  end.

Definition round_cls_reg (acs : list conv) (f : string) (a : list (string * list string)) : nat :=
  match round_cls acs f a with
  | 0 => if existsb (eptid_round acs f) a then 3 else if existsb (eptid_round_v0 acs f) a then 2 else 0
  | k => k
  end.

(* ---------------------------------------------------------------- class 0 => guards *)
Lemma with_format_In acs f m : In m (with_format acs f) <-> In m acs /\ nf m = f.
Proof. unfold with_format. rewrite filter_In, String.eqb_eq. tauto. Qed.

Lemma existsb_false {A} (p : A -> bool) l : existsb p l = false -> forall x, In x l -> p x = false.
Proof.
  intros H x Hx. destruct (p x) eqn:E; [|reflexivity].
  assert (existsb p l = true) by (apply existsb_exists; eauto). congruence.
Qed.

Lemma differ_false g ms : differ g ms = false -> forall m m', In m ms -> In m' ms -> g m = g m'.
Proof.
  intros H m m' Hm Hm'. unfold differ in H.
  pose proof (existsb_false _ _ H m Hm) as H1. cbn beta in H1.
  pose proof (existsb_false _ _ H1 m' Hm') as H2. cbn beta in H2.
  apply negb_false_iff in H2. apply sopt_eqb_eq in H2. exact H2.
Qed.

Lemma send_cls_guard acs f a : send_cls acs f a = 0 -> send_guard acs f a.
Proof.
  unfold send_cls. destruct (existsb _ a) eqn:E; [discriminate|]. intros _.
  intros m m' e Hm Hm' Hf Hf' He.
  pose proof (existsb_false _ _ E e He) as H. cbn beta in H.
  apply (differ_false _ _ H); apply with_format_In; auto.
Qed.

Lemma recv_cls_guard acs ws :
  recv_cls acs ws = 0 -> forall w, In w ws -> in_scope_attr acs w -> recv_guard acs w.
Proof.
  unfold recv_cls. destruct (existsb (clash_attr acs) ws) eqn:E1; [discriminate|].
  intros _ w Hw S n f Hn Hf.
  pose proof (existsb_false _ _ E1 w Hw) as C1.
  unfold clash_attr in C1. rewrite Hn, Hf in C1.
  intros m m' Hm Hm' Hmf Hmf'. apply (differ_false _ _ C1); apply with_format_In; auto.
Qed.

Lemma round_cls_guard acs f a :
  round_cls acs f a = 0 ->
  (forall m, In m acs -> nf m = f -> map_symmetric m) ->
  round_guard acs f a.
Proof.
  unfold round_cls. destruct (existsb (fun e => clash_round acs f (fst e)) a) eqn:E1; [discriminate|].
  intros _ Sym e He.
  pose proof (existsb_false _ _ E1 e He) as C1. cbn beta in C1.
  unfold clash_round in C1. apply orb_false_iff in C1 as [Ca Cb]. split.
  - intros m m' Hm Hm' Hf Hf'. split.
    + apply (differ_false _ _ Ca); apply with_format_In; auto.
    + intros n Hw. pose proof (existsb_false _ _ Cb m (proj2 (with_format_In _ _ _) (conj Hm Hf))) as H.
      cbn beta in H. rewrite Hw in H. apply (differ_false _ _ H); apply with_format_In; auto.
  - intros m n Hm Hf Hw. exact (Sym m Hm Hf _ _ Hw).
Qed.

(* the regression recogniser only ever ADDS classes 3 and 2: it agrees with the open class
   wherever that is not 0 *)
Lemma recv_cls_reg_open acs ws : recv_cls acs ws <> 0 -> recv_cls_reg acs ws = recv_cls acs ws.
Proof. unfold recv_cls_reg. destruct (recv_cls acs ws); congruence. Qed.

Lemma round_cls_reg_open acs f a : round_cls acs f a <> 0 -> round_cls_reg acs f a = round_cls acs f a.
Proof. unfold round_cls_reg. destruct (round_cls acs f a); congruence. Qed.

(* ---------------------------------------------------------------- the property outside the classes *)
Theorem send_correct acs f a :
  send_cls acs f a = 0 -> spec_send acs f a (from_local acs a f).
Proof. intros H. apply send_holds, send_cls_guard, H. Qed.

Theorem recv_correct acs allow ws :
  recv_cls acs ws = 0 -> spec_recv acs allow ws (to_local acs allow ws).
Proof. intros H. apply recv_holds, recv_cls_guard, H. Qed.

Theorem round_correct acs f a allow xml :
  round_cls acs f a = 0 ->
  (forall m, In m acs -> nf m = f -> map_symmetric m) ->
  spec_round acs f a (roundtrip acs a f allow xml).
Proof. intros H Sym. apply round_holds, round_cls_guard; assumption. Qed.
