(* C17/Source2.v — tie of the hand-written model (C17/Model.v) to the source TEXT, translator v2.

   coq/gen/C17Src2.v is regenerated on every run by harness/c17.py:regenerate_tables (harness/py2coq2.py) from the
   CURRENT text of /repo/src/saml2.  Each theorem here says: the translated function, applied to the encoding of a model
   input, yields the encoding of what the model function it mirrors yields — for ALL inputs of the model's domain
   (induction for the loops and comprehensions), exceptions included.  External calls (object construction, sibling
   functions, the recursive call of do_ava) are extra arguments of the translated definitions; what is assumed about
   them is stated as Section hypotheses, each Section has an Example that instantiates them.

     AttributeConverter.adjust        ~  Model.mirror, as used by Model.from_dict (one-directional maps)
     AttributeConverter.from_dict     ~  Model.from_dict (lower_keys, "Missing specifications", when adjust() is called)
     AttributeConverter.to_           ~  Model.conv_to_py / to_one_py / to_one (name lookup, OID special case, unknown names)
     from_local                       ~  Model.sender / from_local_py (FIRST converter with the name format)
     AttributeConverter.lcd_ava_from  ~  Model.lcd / lcd_val (Name present)
     s_utils.do_ava                   ~  the branch structure of Model.do_ava1 / do_ava_list / do_ava

   The model's value type is also called pyval (Model.pyval: str / bool / int / float / None items); it is written
   Model.pyval, Model.PStr ... here, the unqualified names are those of Base/Py.v. *)
From Coq Require Import String Ascii List Bool ZArith Arith Lia.
From Verif Require Import Base.Str C17.Model Base.Py Base.Py2.
From VerifGen Require Import C17Src2.
Import ListNotations.
Open Scope string_scope.
Set Default Timeout 20.

Ltac good := first [assumption | reflexivity].

(* ================================================================================================== *)
(* 0. encodings shared by the sections *)

(* a str -> str dictionary (Model.dict: association list, insertion order) *)
Definition enc_entry (kv : string * string) : string * pyval := (fst kv, PStr (snd kv)).
Definition enc_dict (d : dict) : pyval := PObj (map enc_entry d).
Definition enc_odict (o : option dict) : pyval := match o with Some d => enc_dict d | None => PNone end.

(* no key is "__class__" (the translator's dicts cannot hold that key; no attribute map has it) *)
Definition nocls (d : dict) : bool := forallb (fun kv => negb (String.eqb (fst kv) "__class__")) d.

(* an AttributeConverter instance: name_format, _to, _fro (set by __init__, in that order) *)
Definition conv_obj (nfv tov frov : pyval) : pyval :=
  PObj [("__class__", PStr "AttributeConverter"); ("name_format", nfv); ("_to", tov); ("_fro", frov)].
Definition enc_conv (m : conv) : pyval := conv_obj (PStr (nf m)) (enc_dict (to_ m)) (enc_dict (fro m)).

Lemma nocls_is_obj d : nocls d = true -> is_obj (map enc_entry d) = false.
Proof.
  destruct d as [|[k v] r]; [reflexivity|]. cbn [nocls forallb map enc_entry fst is_obj].
  intros H. apply andb_true_iff in H as [H _]. apply negb_true_iff in H. exact H.
Qed.

Lemma assoc_enc k d : assoc_py k (map enc_entry d) = option_map PStr (lookup k d).
Proof.
  induction d as [|[k' v] r IH]; [reflexivity|]. cbn [map enc_entry fst snd assoc_py lookup].
  destruct (String.eqb k k'); [reflexivity|exact IH].
Qed.

Lemma set_assoc_enc k v d : set_assoc k (PStr v) (map enc_entry d) = map enc_entry (dset k v d).
Proof.
  induction d as [|[k' v'] r IH]; [reflexivity|]. cbn [map enc_entry fst snd set_assoc dset].
  destruct (String.eqb k k'); cbn [map enc_entry fst snd]; [reflexivity|]. rewrite IH. reflexivity.
Qed.

Lemma nocls_dset k v d : k <> "__class__" -> nocls d = true -> nocls (dset k v d) = true.
Proof.
  intros Hk. induction d as [|[k' v'] r IH]; cbn [dset nocls forallb fst].
  - intros _. apply String.eqb_neq in Hk. rewrite Hk. reflexivity.
  - intros H. apply andb_true_iff in H as [H1 H2]. destruct (String.eqb k k'); cbn [nocls forallb fst]; rewrite H1; cbn [andb].
    + exact H2.
    + apply IH, H2.
Qed.

(* d.items() of an encoded dictionary *)
Definition enc_item (kv : string * string) : pyval := PList [PStr (fst kv); PStr (snd kv)].

Lemma items_enc d : nocls d = true -> p2_items (enc_dict d) = PList (map enc_item d).
Proof.
  intros H. unfold p2_items, dict_view, enc_dict. rewrite s1_good by reflexivity. rewrite nocls_is_obj by exact H.
  rewrite map_map. reflexivity.
Qed.

(* {kf(k, v): vf(k, v) for k, v in d.items()}: Model.from_items of the mapped items — whatever the two functions of
   the comprehension look like, as long as they compute str keys (not "__class__") and str values *)
Lemma dictcomp_go_items (d : dict) (fk fv : pyval -> pyval) (kf vf : string * string -> string) : forall acc,
  (forall kv, In kv d -> fk (enc_item kv) = PStr (kf kv)) ->
  (forall kv, In kv d -> fv (enc_item kv) = PStr (vf kv)) ->
  (forall kv, In kv d -> kf kv <> "__class__") ->
  nocls acc = true ->
  dictcomp_go (map enc_item d) ktrue fk fv (enc_dict acc)
  = enc_dict (fold_left (fun a kv => dset (fst kv) (snd kv) a) (map (fun kv => (kf kv, vf kv)) d) acc).
Proof.
  induction d as [|kv r IH]; intros acc Hk Hv Hne Hacc; [reflexivity|].
  cbn [map dictcomp_go fold_left fst snd]. unfold ktrue at 1. rewrite p2_branch_bool.
  rewrite (Hk kv) by (left; reflexivity). rewrite (Hv kv) by (left; reflexivity). cbn [py_bind].
  unfold enc_dict at 1. rewrite p2_setitem_dict; [|apply nocls_is_obj, Hacc|apply Hne; left; reflexivity|reflexivity].
  cbn [py_bind]. rewrite set_assoc_enc. apply IH.
  - intros x Hx. apply Hk. right. exact Hx.
  - intros x Hx. apply Hv. right. exact Hx.
  - intros x Hx. apply Hne. right. exact Hx.
  - apply nocls_dset; [apply Hne; left; reflexivity|exact Hacc].
Qed.

Lemma nocls_from_items_gen (l : list (string * string)) : forall acc,
  (forall kv, In kv l -> fst kv <> "__class__") -> nocls acc = true ->
  nocls (fold_left (fun a kv => dset (fst kv) (snd kv) a) l acc) = true.
Proof.
  induction l as [|kv r IH]; intros acc H Hacc; [exact Hacc|]. cbn [fold_left]. apply IH.
  - intros x Hx. apply H. right. exact Hx.
  - apply nocls_dset; [apply H; left; reflexivity|exact Hacc].
Qed.

(* str.lower() of the translator refuses non-ASCII text: the keys / wire names of the maps are ASCII *)
Definition keys_ascii (d : dict) : bool := forallb (fun kv => all_ascii (fst kv)) d.
Definition vals_ascii (d : dict) : bool := forallb (fun kv => all_ascii (snd kv)) d.
(* lower-casing does not produce the reserved key *)
Definition keys_lower_ok (d : dict) : bool := forallb (fun kv => negb (String.eqb (lower (fst kv)) "__class__")) d.
Definition vals_lower_ok (d : dict) : bool := forallb (fun kv => negb (String.eqb (lower (snd kv)) "__class__")) d.

(* on ASCII text the model's lower() (C17/Case.v: str.lower() on UTF-8 text) is the ASCII lower() of the embedding *)
Lemma lower_ascii s : all_ascii s = true -> lower s = Str.lower s.
Proof.
  intros H. apply lower_single_bytes. unfold all_ascii in H. revert H.
  induction s as [|a r IH]; cbn [all_chars]; [reflexivity|].
  intros H. apply andb_true_iff in H as [Ha Hr]. rewrite (ascii_is_K1 a Ha), (IH Hr). reflexivity.
Qed.

Lemma p2_lower_ascii s : all_ascii s = true -> p2_lower (PStr s) = PStr (lower s).
Proof. intros H. rewrite (lower_ascii s H). cbn. rewrite H. reflexivity. Qed.

Lemma forallb_In {A} (p : A -> bool) l x : forallb p l = true -> In x l -> p x = true.
Proof. intros H Hx. rewrite forallb_forall in H. apply H, Hx. Qed.

(* ================================================================================================== *)
(* 1. AttributeConverter.adjust: the missing table is the mirror image of the other one *)

(* what adjust() does to (_to, _fro) — Model.from_dict inlines this for the two one-directional shapes *)
Definition adjust_m (t f : option dict) : option dict * option dict :=
  match t, f with
  | Some t', None => (Some t', Some (mirror t'))
  | None, Some f' => (Some (mirror f'), Some f')
  | _, _ => (t, f)
  end.

Definition odict_ok (p : dict -> bool) (o : option dict) : bool := match o with Some d => p d | None => true end.

Lemma mirror_nocls d : vals_lower_ok d = true -> nocls (mirror d) = true.
Proof.
  intros H. unfold mirror, from_items. apply nocls_from_items_gen; [|reflexivity].
  intros kv Hin. apply in_map_iff in Hin as [x [<- Hx]]. cbn [fst].
  apply (forallb_In _ _ _ H) in Hx. apply negb_true_iff in Hx. apply String.eqb_neq, Hx.
Qed.

(* the comprehension {value.lower(): key for key, value in d.items()} *)
Lemma mirror_comp (d : dict) (fk fv : pyval -> pyval) :
  nocls d = true -> vals_ascii d = true -> vals_lower_ok d = true ->
  (forall kv, fk (enc_item kv) = p2_lower (PStr (snd kv))) ->
  (forall kv, fv (enc_item kv) = PStr (fst kv)) ->
  p2_dictcomp (p2_items (enc_dict d)) ktrue fk fv = enc_dict (mirror d).
Proof.
  intros Hn Ha Hl Hk Hv. rewrite items_enc by exact Hn. unfold p2_dictcomp. cbn [py_bind p2_iterable py_iter2].
  change (PObj []) with (enc_dict []).
  rewrite (dictcomp_go_items d fk fv (fun kv => lower (snd kv)) fst); [reflexivity| | | |reflexivity].
  - intros kv Hin. rewrite Hk. apply p2_lower_ascii. exact (forallb_In _ _ _ Ha Hin).
  - intros kv _. apply Hv.
  - intros kv Hin. apply (forallb_In _ _ _ Hl) in Hin. apply negb_true_iff in Hin. apply String.eqb_neq, Hin.
Qed.

Theorem src2_adjust_is_model (nfv : pyval) (t f : option dict) :
  odict_ok nocls t = true -> odict_ok nocls f = true ->
  odict_ok vals_ascii t = true -> odict_ok vals_ascii f = true ->
  odict_ok vals_lower_ok t = true -> odict_ok vals_lower_ok f = true ->
  src2_adjust (conv_obj nfv (enc_odict t) (enc_odict f))
  = PList [PNone; conv_obj nfv (enc_odict (fst (adjust_m t f))) (enc_odict (snd (adjust_m t f)))].
Proof.
  intros Hnt Hnf Hat Haf Hlt Hlf. unfold src2_adjust, conv_obj.
  destruct t as [t|], f as [f|]; cbn [enc_odict odict_ok adjust_m fst snd] in *.
  - reflexivity.
  - (* _fro is None, _to is given: _fro := mirror _to *)
    cbn [p2_attr p2_attr_gen s1 py_bind is_obj assoc_py String.eqb Ascii.eqb Bool.eqb p2_is_none p2_is_not_none
         p2_and py_truthy p2_branch enc_dict].
    fold (enc_dict t). rewrite mirror_comp; try assumption; try (intros [k v]; reflexivity).
    cbn. reflexivity.
  - cbn [p2_attr p2_attr_gen s1 py_bind is_obj assoc_py String.eqb Ascii.eqb Bool.eqb p2_is_none p2_is_not_none
         p2_and py_truthy p2_branch enc_dict].
    fold (enc_dict f). rewrite mirror_comp; try assumption; try (intros [k v]; reflexivity).
    cbn. reflexivity.
  - reflexivity.
Qed.

(* adjust() completes what from_dict() leaves for a one-directional map: Model.from_dict *)
Lemma from_dict_adjust_m s :
  from_dict s =
  match adjust_m (option_map lower_keys (s_to s)) (option_map lower_keys (s_fro s)) with
  | (Some t, Some f) => Some {| nf := s_ident s; to_ := t; fro := f |}
  | _ => None
  end.
Proof. unfold from_dict. destruct (s_fro s), (s_to s); reflexivity. Qed.

(* ================================================================================================== *)
(* 2. AttributeConverter.from_dict *)

(* a map dictionary as written in a map module *)
Definition enc_src (s : srcmap) : pyval :=
  PObj (("identifier", PStr (s_ident s))
        :: (match s_to s with Some t => [("to", enc_dict t)] | None => [] end)
        ++ (match s_fro s with Some f => [("fro", enc_dict f)] | None => [] end))%list.

(* self after the two try blocks (before adjust()) *)
Definition loaded (s : srcmap) : pyval :=
  conv_obj (PStr (s_ident s)) (enc_odict (option_map lower_keys (s_to s))) (enc_odict (option_map lower_keys (s_fro s))).

Lemma getitem_src_identifier s : p2_getitem (enc_src s) (PStr "identifier") = PStr (s_ident s).
Proof. reflexivity. Qed.
Lemma getitem_src_to s :
  p2_getitem (enc_src s) (PStr "to") = match s_to s with Some t => enc_dict t | None => PExc "KeyError" end.
Proof. unfold enc_src. destruct (s_to s), (s_fro s); reflexivity. Qed.
Lemma getitem_src_fro s :
  p2_getitem (enc_src s) (PStr "fro") = match s_fro s with Some t => enc_dict t | None => PExc "KeyError" end.
Proof. unfold enc_src. destruct (s_to s), (s_fro s); reflexivity. Qed.

Lemma lower_keys_nocls d : keys_lower_ok d = true -> nocls (lower_keys d) = true.
Proof.
  intros H. unfold lower_keys, from_items. apply nocls_from_items_gen; [|reflexivity].
  intros kv Hin. apply in_map_iff in Hin as [x [<- Hx]]. cbn [fst].
  apply (forallb_In _ _ _ H) in Hx. apply negb_true_iff in Hx. apply String.eqb_neq, Hx.
Qed.

(* the comprehension {k.lower(): v for k, v in d.items()} *)
Lemma lower_comp (d : dict) (fk fv : pyval -> pyval) :
  nocls d = true -> keys_ascii d = true -> keys_lower_ok d = true ->
  (forall kv, fk (enc_item kv) = p2_lower (PStr (fst kv))) ->
  (forall kv, fv (enc_item kv) = PStr (snd kv)) ->
  p2_dictcomp (p2_items (enc_dict d)) ktrue fk fv = enc_dict (lower_keys d).
Proof.
  intros Hn Ha Hl Hk Hv. rewrite items_enc by exact Hn. unfold p2_dictcomp. cbn [py_bind p2_iterable py_iter2].
  change (PObj []) with (enc_dict []).
  rewrite (dictcomp_go_items d fk fv (fun kv => lower (fst kv)) snd); [reflexivity| | | |reflexivity].
  - intros kv Hin. rewrite Hk. apply p2_lower_ascii. exact (forallb_In _ _ _ Ha Hin).
  - intros kv _. apply Hv.
  - intros kv Hin. apply (forallb_In _ _ _ Hl) in Hin. apply negb_true_iff in Hin. apply String.eqb_neq, Hin.
Qed.

Section FromDict.
  Variable adjust_ext : pyval -> pyval.      (* self.adjust(): its effect on self is theorem 1; here: WHEN it is called *)

  Definition src_ok (s : srcmap) : Prop :=
    odict_ok nocls (s_to s) = true /\ odict_ok nocls (s_fro s) = true /\
    odict_ok keys_ascii (s_to s) = true /\ odict_ok keys_ascii (s_fro s) = true /\
    odict_ok keys_lower_ok (s_to s) = true /\ odict_ok keys_lower_ok (s_fro s) = true.

  (* a fresh converter (any name format): "Missing specifications" exactly when neither table is given
     (Model.from_dict = None); both given: the lower-cased tables, adjust() is not called; one given: adjust() is
     called on the converter that holds the lower-cased table, its exception (if any) propagates *)
  Theorem src2_from_dict_is_model (nf0 : pyval) (s : srcmap) :
    is_bad nf0 = false -> src_ok s ->
    src2_from_dict adjust_ext (conv_obj nf0 PNone PNone) (enc_src s)
    = match s_to s, s_fro s with
      | None, None => PList [PExc "ConverterError"; conv_obj (PStr (s_ident s)) PNone PNone]
      | Some _, Some _ => PList [PNone; loaded s]
      | _, _ => py_bindh (fun n => PList [PExc n; loaded s]) (adjust_ext (loaded s)) (fun _ => PList [PNone; loaded s])
      end.
  Proof.
    intros Hnf (Hnt & Hnf' & Hat & Haf & Hlt & Hlf). unfold src2_from_dict, loaded.
    rewrite getitem_src_identifier, getitem_src_to, getitem_src_fro.
    destruct (s_to s) as [t|], (s_fro s) as [f|]; cbn [odict_ok option_map enc_odict] in *.
    - rewrite !lower_comp; try assumption; try (intros [k v]; reflexivity).
      destruct nf0; try discriminate; reflexivity.
    - rewrite !lower_comp; try assumption; try (intros [k v]; reflexivity).
      destruct nf0; try discriminate; reflexivity.
    - rewrite !lower_comp; try assumption; try (intros [k v]; reflexivity).
      destruct nf0; try discriminate; reflexivity.
    - destruct nf0; try discriminate; reflexivity.
  Qed.
End FromDict.

(* from_dict() followed by the adjust() of theorem 1 is Model.from_dict *)
Theorem src2_from_dict_then_adjust (s : srcmap) (c : conv) :
  src_ok s ->
  odict_ok vals_ascii (option_map lower_keys (s_to s)) = true -> odict_ok vals_ascii (option_map lower_keys (s_fro s)) = true ->
  odict_ok vals_lower_ok (option_map lower_keys (s_to s)) = true -> odict_ok vals_lower_ok (option_map lower_keys (s_fro s)) = true ->
  from_dict s = Some c ->
  src2_adjust (loaded s) = PList [PNone; enc_conv c].
Proof.
  intros (Hnt & Hnf & Hat & Haf & Hlt & Hlf) Hvt Hvf Hwt Hwf Hc. unfold loaded.
  rewrite src2_adjust_is_model; try assumption.
  - rewrite from_dict_adjust_m in Hc.
    destruct (s_to s) as [t|], (s_fro s) as [f|]; cbn [option_map adjust_m fst snd enc_odict] in *;
      try discriminate; injection Hc as <-; reflexivity.
  - destruct (s_to s); cbn [option_map odict_ok] in *; [apply lower_keys_nocls; assumption|reflexivity].
  - destruct (s_fro s); cbn [option_map odict_ok] in *; [apply lower_keys_nocls; assumption|reflexivity].
Qed.

Example from_dict_hypotheses_satisfiable :
  let s := {| s_ident := "urn:x"; s_to := Some [("Mail", "urn:oid:0.9"); ("UID", "urn:oid:0.1")]; s_fro := None |} in
  src_ok s /\
  src2_from_dict (fun self => match src2_adjust self with PList [r; _] => r | _ => PErr end) (conv_obj (PStr "") PNone PNone) (enc_src s)
  = PList [PNone; loaded s] /\
  from_dict s = Some {| nf := "urn:x"; to_ := [("mail", "urn:oid:0.9"); ("uid", "urn:oid:0.1")];
                        fro := [("urn:oid:0.9", "mail"); ("urn:oid:0.1", "uid")] |} /\
  src2_adjust (loaded s)
  = PList [PNone; conv_obj (PStr "urn:x") (enc_dict [("mail", "urn:oid:0.9"); ("uid", "urn:oid:0.1")])
                           (enc_dict [("urn:oid:0.9", "mail"); ("urn:oid:0.1", "uid")])].
Proof. repeat split. Qed.

(* ================================================================================================== *)
(* 3. from_local: the FIRST converter whose name format is the requested one; None without one *)

Section FromLocal.
  Variable to_ext : pyval -> pyval -> pyval.       (* aconv.to_(ava): theorem 4; nothing is assumed here *)

  Theorem src2_from_local_is_model (acs : list conv) (ava : pyval) (f : string) :
    is_bad ava = false ->
    src2_from_local to_ext (PList (map enc_conv acs)) ava (PStr f)
    = match sender acs f with Some m => to_ext (enc_conv m) ava | None => PNone end.
  Proof.
    intros Hava. unfold src2_from_local. rewrite p2_iter_check_list. cbn [py_bind py_iter2].
    match goal with |- context [pyfor2 _ _ ?b] => set (body := b) end.
    unfold sender. induction acs as [|m r IH]; [reflexivity|].
    cbn [map pyfor2 find]. unfold body at 1.
    change (p2_attr (enc_conv m) "name_format") with (PStr (nf m)). rewrite p2_eq_str, p2_branch_bool.
    destruct (String.eqb (nf m) f).
    - rewrite py_bind_good by exact Hava. destruct (to_ext (enc_conv m) ava); reflexivity.
    - exact IH.
  Qed.
End FromLocal.

(* ================================================================================================== *)
(* 4. AttributeConverter.lcd_ava_from: (Name stripped, [text or "" stripped ...]) *)

(* what to_local reports *)
Definition enc_lval (v : lval) : pyval :=
  match v with LStr s => PStr s | LNameID kv => PObj [("NameID", enc_dict kv)] end.
Definition enc_res (r : res) : pyval :=
  match r with
  | Ok k vs => PList [PStr k; PList (map enc_lval vs)]
  | KeyErr => PExc "KeyError"
  | AttrErr => PExc "AttributeError"
  end.

(* value.text of a received AttributeValue: None when it holds an element; None and "" both stand for no text *)
Definition text_of (v : wval) : string := match v with WText s => s | WNameID _ _ => "" end.

(* p is an object whose .text is that text (or None for the empty text); its other fields are arbitrary *)
Definition rep_val (p : pyval) (v : wval) : Prop :=
  exists c fs, p = PObj (("__class__", PStr c) :: fs) /\
               (assoc_py "text" fs = Some (PStr (text_of v)) \/ (text_of v = "" /\ assoc_py "text" fs = Some PNone)).

(* p is an object whose .name is n and whose .attribute_value lists representations of the values *)
Definition rep_attr (p : pyval) (n : string) (vs : list wval) : Prop :=
  exists c fs pvs, p = PObj (("__class__", PStr c) :: fs) /\ assoc_py "name" fs = Some (PStr n) /\
                   assoc_py "attribute_value" fs = Some (PList pvs) /\ Forall2 rep_val pvs vs.

(* strip() of the translator refuses text whose stripped form begins or ends with a non-ASCII byte *)
Definition strip_ok (s : string) : bool := end_ascii (strip s).

Lemma lcd_val_text v : lcd_val v = LStr (strip (text_of v)).
Proof. destruct v; reflexivity. Qed.

Theorem src2_lcd_ava_from_is_model (self p : pyval) (w : wattr) (n : string) :
  wname w = Some n -> rep_attr p n (wvals w) ->
  strip_ok n = true -> forallb (fun v => strip_ok (text_of v)) (wvals w) = true ->
  src2_lcd_ava_from self p = enc_res (lcd w).
Proof.
  intros Hn (c & fs & pvs & -> & Hname & Hav & Hrep) Hsn Hsv. unfold src2_lcd_ava_from, lcd. rewrite Hn.
  rewrite !p2_attr_x_obj. cbn [assoc_py String.eqb Ascii.eqb Bool.eqb]. rewrite Hname, Hav.
  change (p2_strip (PStr n)) with (guard_ends (strip n)). unfold guard_ends at 1. unfold strip_ok in Hsn. rewrite Hsn.
  cbn [py_bind]. rewrite p2_listcomp_list.
  match goal with |- context [listcomp_go _ ktrue ?g] => set (f := g) end.
  assert (E : listcomp_go pvs ktrue f = PList (map enc_lval (map lcd_val (wvals w)))).
  { clear Hav. induction Hrep as [|pv v pvs' vs' Hpv _ IH]; [reflexivity|].
    cbn [forallb] in Hsv. apply andb_true_iff in Hsv as [Hs1 Hs2].
    cbn [listcomp_go map]. unfold ktrue at 1. rewrite p2_branch_bool. rewrite (IH Hs2).
    assert (Ef : f pv = PStr (strip (text_of v))).
    { destruct Hpv as (c' & fs' & -> & Ht). unfold f. rewrite p2_attr_x_obj. cbn [assoc_py String.eqb Ascii.eqb Bool.eqb].
      assert (Eor : p2_or (match assoc_py "text" fs' with Some x => x | None => PExc "AttributeError" end) (PStr "")
                    = PStr (text_of v)).
      { destruct Ht as [Ht|[He Ht]]; rewrite Ht; [|rewrite He; reflexivity].
        destruct (text_of v); reflexivity. }
      rewrite Eor. change (p2_strip (PStr (text_of v))) with (guard_ends (strip (text_of v))).
      unfold guard_ends. unfold strip_ok in Hs1. rewrite Hs1. reflexivity. }
    rewrite Ef. cbn [py_bind]. rewrite lcd_val_text. reflexivity. }
  rewrite E. reflexivity.
Qed.

Example lcd_hypotheses_satisfiable :
  let w := {| wname := Some " urn:x:a "; wnf := None; wfriendly := None;
              wvals := [WText " v "; WText ""; WNameID [("format", "f")] "id"] |} in
  let av t := PObj [("__class__", PStr "AttributeValue"); ("text", t); ("extension_elements", PList [])] in
  let p := PObj [("__class__", PStr "Attribute"); ("name", PStr " urn:x:a "); ("name_format", PNone);
                 ("attribute_value", PList [av (PStr " v "); av PNone; av PNone])] in
  rep_attr p " urn:x:a " (wvals w) /\ src2_lcd_ava_from PNone p = PList [PStr "urn:x:a"; PList [PStr "v"; PStr ""; PStr ""]].
Proof.
  split; [|reflexivity].
  eexists _, _, _. repeat split. repeat constructor; eexists _, _; (split; [reflexivity|]); cbn; auto.
Qed.

(* ================================================================================================== *)
(* 5. s_utils.do_ava: which branch a value takes, how many AttributeValue objects it gives *)

(* a local value item; a float is an object of class "float" carrying what Model.PFloat carries (the translator has
   no floats; an object is truthy, so the falsiness of 0.0 is NOT represented: see notes/C17.md) *)
Definition enc_pitem (v : Model.pyval) : pyval :=
  match v with
  | Model.PStr s => PStr s
  | Model.PBool b => PBool b
  | Model.PInt z => PInt z
  | Model.PFloat r z => PObj [("__class__", PStr "float"); ("repr", PStr r); ("zero", PBool z)]
  | Model.PNone => PNone
  end.
Definition enc_pvalue (v : pyvalue) : pyval :=
  match v with VList l => PList (map enc_pitem l) | VOne x => enc_pitem x end.

Lemma enc_pitem_good v : is_bad (enc_pitem v) = false.
Proof. destruct v; reflexivity. Qed.
Lemma enc_pvalue_good v : is_bad (enc_pvalue v) = false.
Proof. destruct v as [l|x]; [reflexivity|apply enc_pitem_good]. Qed.

(* saml.AttributeValue() as the translated text sees it; set_text / set_type act on the Python object and are
   external: the AttributeValue objects of the result are therefore blank here (their text is set_text's business) *)
Definition blank_av : pyval := PObj [("__class__", PStr "AttributeValue")].

Definition is_none_item (v : Model.pyval) : bool := match v with Model.PNone => true | _ => false end.

Section DoAva.
  Variable set_text : pyval -> pyval -> pyval.   (* ava.set_text(val): receiver, argument *)
  Variable set_type : pyval -> pyval -> pyval.   (* ava.set_type(typ): not reached with typ = "" *)

  (* one object, typ = "": None -> None; str / bool / int / float (0 and False included) -> set_text is called on a new
     AttributeValue with exactly that object, then the one-element list is returned; nothing is assumed about
     set_text or about the recursive call (it is not made) *)
  Theorem src2_do_ava_item_is_model (rec : pyval -> pyval) (v : Model.pyval) :
    src2_do_ava rec set_text set_type (enc_pitem v) (PStr "")
    = match do_ava1 v with
      | DOk None => PNone
      | DOk (Some _) => py_bind (set_text blank_av (enc_pitem v)) (fun _ => PList [blank_av])
      | DRaise e => PExc e
      end.
  Proof.
    destruct v as [s|[|]|[|p|p]|r z|]; reflexivity.
  Qed.

  (* the recursive call do_ava(v) (typ defaults to "") *)
  Definition do_ava_1 (x : pyval) : pyval := src2_do_ava (fun _ => PErr) set_text set_type x (PStr "").
  Definition do_ava_2 (x : pyval) : pyval := src2_do_ava do_ava_1 set_text set_type x (PStr "").

  Hypothesis set_text_returns : forall a v, is_bad (set_text a v) = false.

  Definition enc_blank (r : dres (list (string * string))) : pyval :=
    match r with DOk tvs => PList (map (fun _ => blank_av) tvs) | DRaise e => PExc e end.

  (* a list: one AttributeValue per item, in order (items: str / bool / int / float; a None item makes Python raise
     TypeError on None[0], which the translator does not model) *)
  Theorem src2_do_ava_list_is_model (l : list Model.pyval) :
    existsb is_none_item l = false ->
    do_ava_2 (PList (map enc_pitem l)) = enc_blank (do_ava_list l).
  Proof.
    intros Hn. unfold do_ava_2, src2_do_ava.
    cbn [p2_isinstance s1 py_bind kind_of existsb mem String.eqb Ascii.eqb Bool.eqb orb p2_branch py_truthy].
    rewrite p2_listcomp_list.
    match goal with |- context [listcomp_go _ ktrue ?g] => set (f := g) end.
    assert (E : listcomp_go (map enc_pitem l) ktrue f = enc_blank (do_ava_list l)).
    { induction l as [|v r IH]; [reflexivity|].
      cbn [existsb] in Hn. apply orb_false_iff in Hn as [Hv Hr].
      cbn [map listcomp_go do_ava_list]. unfold ktrue at 1. rewrite p2_branch_bool. rewrite (IH Hr).
      assert (Ef : f (enc_pitem v) = blank_av).
      { unfold f. rewrite py_bind_good by apply enc_pitem_good. unfold do_ava_1.
        rewrite src2_do_ava_item_is_model. destruct v; try discriminate Hv; cbn [do_ava1];
          rewrite py_bind_good by apply set_text_returns; reflexivity. }
      rewrite Ef. cbn [py_bind]. destruct v; try discriminate Hv; cbn [do_ava1]; destruct (do_ava_list r); reflexivity. }
    rewrite E. destruct (do_ava_list l); reflexivity.
  Qed.

  (* Model.do_ava on its whole modelled domain: a list without None items, or one object that is not None *)
  Definition value_modelled (v : pyvalue) : bool :=
    match v with VList l => negb (existsb is_none_item l) | VOne x => negb (is_none_item x) end.

  Theorem src2_do_ava_is_model (v : pyvalue) :
    value_modelled v = true -> do_ava_2 (enc_pvalue v) = enc_blank (do_ava v).
  Proof.
    destruct v as [l|x]; cbn [value_modelled enc_pvalue do_ava]; intros H; apply negb_true_iff in H.
    - apply src2_do_ava_list_is_model, H.
    - unfold do_ava_2. rewrite src2_do_ava_item_is_model.
      destruct x; try discriminate H; cbn [do_ava1]; rewrite py_bind_good by apply set_text_returns; reflexivity.
  Qed.
End DoAva.

Example do_ava_hypotheses_satisfiable :
  let st := fun _ _ : pyval => PNone in
  (forall a v, is_bad (st a v) = false) /\
  do_ava_2 st st (enc_pvalue (VList [Model.PBool false; Model.PInt 0; Model.PFloat "0.0" true; Model.PStr ""]))
  = PList [blank_av; blank_av; blank_av; blank_av] /\
  do_ava_2 st st (enc_pvalue (VOne (Model.PInt 0))) = PList [blank_av] /\
  do_ava_2 st st PNone = PNone.
Proof. repeat split. Qed.

(* ================================================================================================== *)
(* 6. AttributeConverter.to_: local name -> wire attribute *)

(* a keyword argument that a call of factory() does not give (harness/c17.py: ABSENT) *)
Definition ABSENT : pyval := PObj [("__class__", PStr "<absent>")].
Definition is_absent (x : pyval) : bool :=
  match x with PObj [("__class__", PStr "<absent>")] => true | _ => false end.
Definition dflt (d x : pyval) : pyval := if is_absent x then d else x.

(* factory(saml.Attribute, name=.., name_format=.., friendly_name=.., attribute_value=..): Attribute() (whose
   __init__ defaults NameFormat to ...:uri and attribute_value to []) with the given keywords set *)
Definition attr_obj (n nfv fr av : pyval) : pyval :=
  PObj [("__class__", PStr "Attribute"); ("name", dflt PNone n); ("name_format", dflt (PStr NAME_FORMAT_URI) nfv);
        ("friendly_name", dflt PNone fr); ("attribute_value", dflt (PList []) av)].

(* AttributeValue objects on the sending side: text with its xsi:type, or one NameID extension element *)
Definition enc_tv (tv : string * string) : pyval :=
  PObj [("__class__", PStr "AttributeValue"); ("text", PStr (snd tv)); ("xsi_type", PStr (fst tv))].
Definition enc_nidv (attrs : list (string * string)) (s : string) : pyval :=
  PObj [("__class__", PStr "AttributeValue");
        ("extension_elements", PList [PObj [("__class__", PStr "ExtensionElement"); ("tag", PStr "NameID");
                                            ("attributes", enc_dict attrs); ("text", PStr s)]])].
Definition enc_val (v : wval) (t : string) : pyval :=
  match v with WText s => enc_tv (t, s) | WNameID attrs s => enc_nidv attrs s end.
Fixpoint enc_vals (vs : list wval) (ts : list string) : list pyval :=
  match vs, ts with
  | v :: vs', t :: ts' => enc_val v t :: enc_vals vs' ts'
  | _, _ => []
  end.

Definition enc_ostr (o : option string) : pyval := match o with Some s => PStr s | None => PNone end.

(* one wire attribute with the xsi:types of its values (what Model.to_one_py yields) *)
Definition enc_wt (wt : wattr * list string) : pyval :=
  PObj [("__class__", PStr "Attribute"); ("name", enc_ostr (wname (fst wt))); ("name_format", enc_ostr (wnf (fst wt)));
        ("friendly_name", enc_ostr (wfriendly (fst wt))); ("attribute_value", PList (enc_vals (wvals (fst wt)) (snd wt)))].

Definition enc_send (r : dres (list (wattr * list string))) : pyval :=
  match r with DOk wts => PList (map enc_wt wts) | DRaise e => PExc e end.

(* the local dictionary: name -> value *)
Definition enc_pentry (kv : string * pyvalue) : string * pyval := (fst kv, enc_pvalue (snd kv)).
Definition enc_pava (a : pava) : pyval := PObj (map enc_pentry a).
Definition names_ok (a : pava) : bool :=
  forallb (fun kv => all_ascii (fst kv) && negb (String.eqb (fst kv) "__class__")) a.

Lemma enc_vals_text tvs : enc_vals (map WText (map snd tvs)) (map fst tvs) = map enc_tv tvs.
Proof. induction tvs as [|[t s] r IH]; [reflexivity|]. cbn [map enc_vals enc_val fst snd]. rewrite IH. reflexivity. Qed.
Lemma enc_vals_nid A vs : enc_vals (map (WNameID A) vs) (map (fun _ => "") vs) = map (enc_nidv A) vs.
Proof. induction vs as [|s r IH]; [reflexivity|]. cbn [map enc_vals enc_val]. rewrite IH. reflexivity. Qed.

Section To.
  Variable do_ava_ext : pyval -> pyval.                                   (* s_utils.do_ava(value) *)
  Variable eptid_ext : pyval -> pyval.                                    (* self.to_eptid_value(value) *)
  Variable factory_ext : pyval -> pyval -> pyval -> pyval -> pyval -> pyval.   (* factory(class, name, name_format, friendly_name, attribute_value) *)

  Hypothesis do_ava_values : forall v,
    do_ava_ext (enc_pvalue v) = match do_ava v with DOk tvs => PList (map enc_tv tvs) | DRaise e => PExc e end.
  Hypothesis eptid_values : forall v,
    eptid_ext (enc_pvalue v)
    = match eptid_value v with
      | DOk vs => PList (map (enc_nidv [("format", NAMEID_FORMAT_PERSISTENT)]) vs)
      | DRaise e => PExc e
      end.
  Hypothesis factory_attribute : forall n nfv fr av,
    factory_ext (PStr "saml.Attribute") n nfv fr av = attr_obj n nfv fr av.

  (* what the loop leaves: the list of attributes, or the exception that ended it *)
  Definition attrs_of (c : ctl2) : pyval :=
    match c with
    | NextS [_; _; a] => a
    | ExcS n [_; _; _] => PExc n
    | RetS r => r
    | _ => PErr
    end.

  Theorem src2_to_is_model (m : conv) (a : pava) :
    nocls (to_ m) = true -> names_ok a = true ->
    src2_to_ do_ava_ext eptid_ext factory_ext (enc_conv m) (enc_pava a) = enc_send (conv_to_py m a).
  Proof.
    intros Hm Ha. unfold src2_to_.
    assert (Hit : p2_items (enc_pava a) = PList (map (fun kv => PList [PStr (fst kv); enc_pvalue (snd kv)]) a)).
    { unfold p2_items, dict_view, enc_pava. rewrite s1_good by reflexivity.
      assert (Ho : is_obj (map enc_pentry a) = false).
      { destruct a as [|[k v] r]; [reflexivity|]. cbn [names_ok forallb fst] in Ha.
        apply andb_true_iff in Ha as [Ha _]. apply andb_true_iff in Ha as [_ Ha]. apply negb_true_iff in Ha. exact Ha. }
      rewrite Ho, map_map. reflexivity. }
    rewrite Hit, p2_iter_check_list. cbn [py_bind py_iter2].
    match goal with |- context [pyfor2 _ _ ?b] => set (body := b) end.
    assert (Step : forall nm av acc k v, all_ascii k = true ->
      match to_one_py m (k, v) with
      | DOk wt => exists nm' av', body [nm; av; PList acc] (PList [PStr k; enc_pvalue v])
                                  = NextS [nm'; av'; PList (acc ++ [enc_wt wt])]
      | DRaise e => exists nm' av' acc', body [nm; av; PList acc] (PList [PStr k; enc_pvalue v]) = ExcS e [nm'; av'; acc']
      end).
    { intros nm av acc k v Hk. unfold body. cbn [p2_unpack length Nat.eqb].
      change (p2_attr (enc_conv m) "_to") with (enc_dict (to_ m)).
      change (p2_attr (enc_conv m) "name_format") with (PStr (nf m)).
      rewrite p2_lower_ascii by exact Hk. unfold enc_dict. rewrite p2_get_dict by (apply nocls_is_obj, Hm).
      rewrite assoc_enc. unfold to_one_py, sends_eptid, to_one. cbn [fst snd].
      assert (Unknown : forall nm0,
        match match do_ava v with
              | DOk tvs => DOk ({| wname := Some k; wnf := Some NAME_FORMAT_URI; wfriendly := None;
                                   wvals := map WText (map snd tvs) |}, map fst tvs)
              | DRaise e => DRaise e
              end with
        | DOk wt => exists nm' av',
            py_bindS (fun n_21 => ExcS n_21 [nm0; av; PList acc])
              (p2_append (PList acc) (py_bind (PStr k) (fun a_19 => py_bind (py_bind (enc_pvalue v) (fun a_18 => do_ava_ext a_18))
                 (fun a_20 => factory_ext (PStr "saml.Attribute") a_19 (PObj [("__class__", PStr "<absent>")])
                                          (PObj [("__class__", PStr "<absent>")]) a_20))))
              (fun v_attributes0 => NextS [nm0; av; v_attributes0])
            = NextS [nm'; av'; PList (acc ++ [enc_wt wt])]
        | DRaise e => exists nm' av' acc',
            py_bindS (fun n_21 => ExcS n_21 [nm0; av; PList acc])
              (p2_append (PList acc) (py_bind (PStr k) (fun a_19 => py_bind (py_bind (enc_pvalue v) (fun a_18 => do_ava_ext a_18))
                 (fun a_20 => factory_ext (PStr "saml.Attribute") a_19 (PObj [("__class__", PStr "<absent>")])
                                          (PObj [("__class__", PStr "<absent>")]) a_20))))
              (fun v_attributes0 => NextS [nm0; av; v_attributes0])
            = ExcS e [nm'; av'; acc']
        end).
      { intros nm0. cbn [py_bind]. rewrite (py_bind_good (enc_pvalue v)) by apply enc_pvalue_good. rewrite do_ava_values.
        destruct (do_ava v) as [tvs|e].
        - cbn [py_bind]. rewrite factory_attribute. eexists _, _. cbn [p2_append s2 py_bind attr_obj py_bindS p2_bind].
          unfold enc_wt. cbn [fst snd wname wnf wfriendly wvals enc_ostr]. rewrite enc_vals_text. reflexivity.
        - eexists _, _, _. reflexivity. }
      destruct (lookup (lower k) (to_ m)) as [n|]; cbn [option_map].
      - rewrite py_bindS_good by reflexivity. rewrite p2_branch_good by reflexivity. cbn [py_truthy].
        destruct (is_empty n) eqn:En; cbn [negb].
        + assert (Eo : String.eqb n EPTID_OID = false) by (destruct n; [reflexivity|discriminate]). rewrite Eo. apply Unknown.
        + rewrite p2_eq_str, p2_branch_bool. change "urn:oid:1.3.6.1.4.1.5923.1.1.1.10" with EPTID_OID.
          destruct (String.eqb n EPTID_OID) eqn:Eo.
          * rewrite (py_bind_good (enc_pvalue v)) by apply enc_pvalue_good. rewrite eptid_values.
            destruct (eptid_value v) as [vs|e].
            -- rewrite py_bindS_good by reflexivity. cbn [py_bind]. rewrite factory_attribute. eexists _, _.
               cbn [p2_append s2 py_bind attr_obj py_bindS p2_bind].
               unfold enc_wt. cbn [fst snd wname wnf wfriendly wvals enc_ostr]. rewrite enc_vals_nid. reflexivity.
            -- eexists _, _, _. reflexivity.
          * rewrite (py_bind_good (enc_pvalue v)) by apply enc_pvalue_good. rewrite do_ava_values.
            destruct (do_ava v) as [tvs|e].
            -- rewrite py_bindS_good by reflexivity. cbn [py_bind]. rewrite factory_attribute. eexists _, _.
               cbn [p2_append s2 py_bind attr_obj py_bindS p2_bind].
               unfold enc_wt. cbn [fst snd wname wnf wfriendly wvals enc_ostr]. rewrite enc_vals_text. reflexivity.
            -- eexists _, _, _. reflexivity.
      - rewrite py_bindS_good by reflexivity. cbn [p2_branch py_truthy]. apply Unknown. }
    assert (Loop : forall a0 nm av acc, names_ok a0 = true ->
      attrs_of (pyfor2 (map (fun kv => PList [PStr (fst kv); enc_pvalue (snd kv)]) a0) [nm; av; PList acc] body)
      = match dseq (map (to_one_py m) a0) with DOk wts => PList (acc ++ map enc_wt wts) | DRaise e => PExc e end).
    { induction a0 as [|[k v] r IH]; intros nm av acc Hok.
      - cbn [map pyfor2 dseq attrs_of]. rewrite app_nil_r. reflexivity.
      - cbn [names_ok forallb fst] in Hok. apply andb_true_iff in Hok as [Hk Hr]. apply andb_true_iff in Hk as [Hk _].
        cbn [map pyfor2 dseq fst snd]. specialize (Step nm av acc k v Hk).
        destruct (to_one_py m (k, v)) as [wt|e].
        + destruct Step as (nm' & av' & ->). rewrite (IH nm' av' (acc ++ [enc_wt wt])%list Hr).
          destruct (dseq (map (to_one_py m) r)); [|reflexivity]. cbn [map]. rewrite <- app_assoc. reflexivity.
        + destruct Step as (nm' & av' & acc' & ->). reflexivity. }
    specialize (Loop a PErr PErr [] Ha). cbn [app] in Loop. unfold conv_to_py, enc_send. rewrite <- Loop. unfold attrs_of.
    destruct (pyfor2 _ _ body) as [st|st|rv|n st]; try reflexivity;
      destruct st as [|x1 [|x2 [|x3 [|x4 st]]]]; reflexivity.
  Qed.
End To.

(* the hypotheses hold for functions that decode their argument: Model.do_ava / eptid_value transported *)
Definition dec_pitem (p : pyval) : option Model.pyval :=
  match p with
  | PStr s => Some (Model.PStr s)
  | PBool b => Some (Model.PBool b)
  | PInt z => Some (Model.PInt z)
  | PNone => Some Model.PNone
  | PObj [("__class__", PStr "float"); ("repr", PStr r); ("zero", PBool z)] => Some (Model.PFloat r z)
  | _ => None
  end.
Fixpoint dec_pitems (l : list pyval) : option (list Model.pyval) :=
  match l with
  | [] => Some []
  | p :: r => match dec_pitem p, dec_pitems r with Some v, Some vs => Some (v :: vs) | _, _ => None end
  end.
Definition dec_pvalue (p : pyval) : option pyvalue :=
  match p with PList l => option_map VList (dec_pitems l) | _ => option_map VOne (dec_pitem p) end.

Lemma dec_enc_pitem v : dec_pitem (enc_pitem v) = Some v.
Proof. destruct v; reflexivity. Qed.
Lemma dec_enc_pvalue v : dec_pvalue (enc_pvalue v) = Some v.
Proof.
  destruct v as [l|x]; cbn [enc_pvalue dec_pvalue].
  - induction l as [|v r IH]; [reflexivity|]. cbn [map dec_pitems]. rewrite dec_enc_pitem.
    destruct (dec_pitems (map enc_pitem r)); [|discriminate]. cbn [option_map] in *. congruence.
  - destruct x; reflexivity.
Qed.

Example to_hypotheses_satisfiable :
  let do_ava_x := fun p => match dec_pvalue p with
                           | Some v => match do_ava v with DOk tvs => PList (map enc_tv tvs) | DRaise e => PExc e end
                           | None => PErr end in
  let eptid_x := fun p => match dec_pvalue p with
                          | Some v => match eptid_value v with
                                      | DOk vs => PList (map (enc_nidv [("format", NAMEID_FORMAT_PERSISTENT)]) vs)
                                      | DRaise e => PExc e end
                          | None => PErr end in
  let factory_x := fun _ : pyval => attr_obj in
  (forall v, do_ava_x (enc_pvalue v) = match do_ava v with DOk tvs => PList (map enc_tv tvs) | DRaise e => PExc e end) /\
  (forall v, eptid_x (enc_pvalue v) = match eptid_value v with
                                      | DOk vs => PList (map (enc_nidv [("format", NAMEID_FORMAT_PERSISTENT)]) vs)
                                      | DRaise e => PExc e end) /\
  (forall n nfv fr av, factory_x (PStr "saml.Attribute") n nfv fr av = attr_obj n nfv fr av) /\
  let m := {| nf := "urn:f"; to_ := [("mail", "urn:oid:0.9"); ("eptid", EPTID_OID)]; fro := [] |} in
  src2_to_ do_ava_x eptid_x factory_x (enc_conv m)
           (enc_pava [("Mail", VList [Model.PStr "a@b"; Model.PInt 0]); ("eptid", VOne (Model.PStr "x")); ("other", VList [])])
  = PList [attr_obj (PStr "urn:oid:0.9") (PStr "urn:f") (PStr "Mail")
                    (PList [enc_tv ("xs:string", "a@b"); enc_tv ("xs:integer", "0")]);
           attr_obj (PStr EPTID_OID) (PStr "urn:f") (PStr "eptid") (PList [enc_nidv [("format", NAMEID_FORMAT_PERSISTENT)] "x"]);
           attr_obj (PStr "other") ABSENT ABSENT (PList [])].
Proof.
  cbv zeta. split; [|split; [|split]].
  - intros v. rewrite dec_enc_pvalue. reflexivity.
  - intros v. rewrite dec_enc_pvalue. reflexivity.
  - reflexivity.
  - vm_compute. reflexivity.
Qed.

(* from_local with the translated to_ as the converter's method: Model.from_local_py *)
Definition enc_sres (r : sres) : pyval :=
  match r with SOk wts => PList (map enc_wt wts) | SNone => PNone | SExc e => PExc e end.

Theorem src2_from_local_to_is_model (do_ava_ext eptid_ext : pyval -> pyval)
        (factory_ext : pyval -> pyval -> pyval -> pyval -> pyval -> pyval) (acs : list conv) (a : pava) (f : string) :
  (forall v, do_ava_ext (enc_pvalue v) = match do_ava v with DOk tvs => PList (map enc_tv tvs) | DRaise e => PExc e end) ->
  (forall v, eptid_ext (enc_pvalue v) = match eptid_value v with
                                        | DOk vs => PList (map (enc_nidv [("format", NAMEID_FORMAT_PERSISTENT)]) vs)
                                        | DRaise e => PExc e end) ->
  (forall n nfv fr av, factory_ext (PStr "saml.Attribute") n nfv fr av = attr_obj n nfv fr av) ->
  forallb (fun m => nocls (to_ m)) acs = true -> names_ok a = true ->
  src2_from_local (src2_to_ do_ava_ext eptid_ext factory_ext) (PList (map enc_conv acs)) (enc_pava a) (PStr f)
  = enc_sres (from_local_py acs a f).
Proof.
  intros Hd He Hf Hacs Ha. rewrite src2_from_local_is_model by reflexivity. unfold from_local_py.
  destruct (sender acs f) as [m|] eqn:Es; [|reflexivity].
  rewrite (src2_to_is_model _ _ _ Hd He Hf); [|apply (forallb_In _ _ _ Hacs); unfold sender in Es; apply find_some in Es; apply Es|exact Ha].
  unfold enc_send. destruct (conv_to_py m a); reflexivity.
Qed.
