(* C09/Source2.v — the hand-written model equals the decision functions of the anchored code as the
   translator v2 (harness/py2coq2.py) produced them from the CURRENT source text (coq/gen/C09Src2.v,
   regenerated on every run).  One theorem per translated function, for ALL inputs of the model's domain.
   External calls (metadata lookups, object construction, the signer, the identifier store, the clock) are
   Section variables; what is assumed about them are Section hypotheses, each shown satisfiable. *)
From Coq Require Import String Ascii List Bool ZArith.
From Verif Require Import Base.Str Base.Py Base.Py2 C09.Model.
From VerifGen Require Import C09Tables C09Src2.
Import ListNotations.
Open Scope string_scope.

(* ================================================================== encodings *)
Definition enc_ostr (o : option string) : pyval := match o with Some s => PStr s | None => PNone end.

(* a lifetime: the dict of timedelta keyword arguments *)
Definition enc_lifetime (l : lifetime) : pyval := PObj (map (fun kv => (fst kv, PInt (snd kv))) l).

(* one section of the policy configuration: a dict with the keys that are set *)
Definition sec_fields (s : section) : list (string * pyval) :=
  (match s_lifetime s with Some l => [("lifetime", enc_lifetime l)] | None => [] end
   ++ match s_nameid_format s with Some f => [("nameid_format", PStr f)] | None => [] end
   ++ if s_other s then [("name_form", PStr "urn:oasis:names:tc:SAML:2.0:attrname-format:uri")] else [])%list.
Definition enc_section (s : section) : pyval := PObj (sec_fields s).
Definition enc_osec (o : option section) : pyval := match o with Some s => enc_section s | None => PNone end.

(* Policy._restrictions: entity id / "default" / "" -> section dict or None *)
Definition enc_entry (e : string * option section) : string * pyval := (fst e, enc_osec (snd e)).
Definition enc_restrictions (pol : policy) : pyval := PObj (map enc_entry pol).

(* a Policy object over the metadata store [mds] *)
Definition enc_policy (mds : pyval) (pol : policy) : pyval :=
  PObj [("__class__", PStr "Policy"); ("_restrictions", enc_restrictions pol); ("metadata_store", mds)].

(* MetadataStore.registration_info(entity_id): a dict, {} / None when there is none *)
Definition enc_ra (ra : option string) : pyval :=
  match ra with Some r => PObj [("registration_authority", PStr r)] | None => PObj [] end.

(* the keys of a dict: "__class__" is not an entity id *)
Definition keys_ok (pol : policy) : bool := negb (is_obj (map enc_entry pol)).

(* ================================================================== Policy.get *)
Lemma sec_fields_not_obj s : is_obj (sec_fields s) = false.
Proof. destruct s as [[l|] [f|] [|]]; reflexivity. Qed.

Lemma truthy_section s : py_truthy (enc_section s) = negb (section_empty s).
Proof. destruct s as [[l|] [f|] [|]]; reflexivity. Qed.

Lemma assoc_enc_entry k pol :
  assoc_py k (map enc_entry pol) = option_map enc_osec (assoc k pol).
Proof.
  induction pol as [|[k' o] r IH]; cbn [map enc_entry assoc_py assoc fst snd option_map]; [reflexivity|].
  destruct (String.eqb k k'); [reflexivity|exact IH].
Qed.

Lemma get_restrictions pol k :
  keys_ok pol = true -> p2_get (enc_restrictions pol) (PStr k) = enc_osec (dict_get pol k).
Proof.
  intros H. unfold enc_restrictions, keys_ok in *. apply negb_true_iff in H.
  rewrite p2_get_dict by exact H. rewrite assoc_enc_entry. unfold dict_get.
  destruct (assoc k pol) as [[s|]|]; reflexivity.
Qed.

Lemma get_section s att :
  p2_get (enc_section s) (PStr att) = match assoc_py att (sec_fields s) with Some v => v | None => PNone end.
Proof. unfold enc_section. apply p2_get_dict, sec_fields_not_obj. Qed.

Lemma sec_fields_good s att v : assoc_py att (sec_fields s) = Some v -> is_bad v = false /\ v <> PNone.
Proof.
  destruct s as [[l|] [f|] [|]]; cbn [sec_fields s_lifetime s_nameid_format s_other app assoc_py];
    repeat match goal with |- context [String.eqb att ?k] => destruct (String.eqb att k) end;
    intros E; try discriminate; injection E as <-; split; try reflexivity; discriminate.
Qed.

(* the attribute of a section as the model reads it *)
Definition sec_get (att : string) (s : section) : option pyval := assoc_py att (sec_fields s).

(* the tail of Policy.get once the three lookups are encoded sections / None *)
Ltac pg_eval := cbn [py_bind p2_is_not_none s1 p2_ifexp py_cond py_truthy p2_or].
Ltac pg_or :=
  repeat match goal with
         | |- context [p2_or (PObj (sec_fields ?s)) ?b] =>
             rewrite (p2_or_good (PObj (sec_fields s)) b) by reflexivity;
             change (py_truthy (PObj (sec_fields s))) with (py_truthy (enc_section s));
             rewrite (truthy_section s); destruct (section_empty s); cbn [negb]
         end.
Ltac pg_default dflt :=
  pg_eval; destruct dflt; try discriminate; reflexivity.
Ltac pg_chain att dflt :=
  unfold enc_osec, enc_section, sec_get; pg_or; pg_eval;
  first
  [ change (p2_get (PObj []) (PStr att)) with PNone; pg_default dflt
  | match goal with |- context [p2_get (PObj (sec_fields ?s)) (PStr att)] =>
      let v := fresh "v" in let E := fresh "E" in let Hg := fresh "Hg" in let Hn := fresh "Hn" in
      change (PObj (sec_fields s)) with (enc_section s); rewrite (get_section s att);
      destruct (assoc_py att (sec_fields s)) as [v|] eqn:E;
      [ destruct (sec_fields_good s att v E) as [Hg Hn]; rewrite (py_bind_good v) by exact Hg;
        rewrite (p2_is_not_none_good v) by exact Hg; destruct v; try discriminate; try congruence; reflexivity
      | pg_default dflt ]
    end ].

Lemma sec_get_lifetime s : sec_get "lifetime" s = option_map enc_lifetime (s_lifetime s).
Proof. destruct s as [[l|] [f|] [|]]; reflexivity. Qed.
Lemma sec_get_nameid_format s : sec_get "nameid_format" s = option_map PStr (s_nameid_format s).
Proof. destruct s as [[l|] [f|] [|]]; reflexivity. Qed.

(* Policy.get commutes with an encoding of the attribute values *)
Lemma policy_get_map {A} (f : A -> pyval) pol (attr : section -> option A) g sp ra d :
  (forall s, g s = option_map f (attr s)) -> policy_get pol g sp ra (f d) = f (policy_get pol attr sp ra d).
Proof.
  intros H. unfold policy_get. destruct pol as [|e r]; [reflexivity|].
  match goal with |- match ?x with _ => _ end = _ => destruct x as [s|] end; [|reflexivity].
  rewrite H. destruct (attr s); reflexivity.
Qed.

Section PolicyGet.
  Variable registration_info : pyval -> pyval -> pyval.
  Variable mds : pyval.                          (* the metadata store the policy was built over *)
  Variable ra_of : string -> option string.      (* registration authority of an entity in that store *)
  Hypothesis mds_object : is_object mds = true.
  Hypothesis registration_info_ok : forall sp, registration_info mds (PStr sp) = enc_ra (ra_of sp).

  Theorem src2_policy_get_is_model : forall pol att sp dflt,
    keys_ok pol = true -> is_bad dflt = false ->
    src2_policy_get registration_info (enc_policy mds pol) (PStr att) (PStr sp) dflt
    = policy_get pol (sec_get att) sp (ra_of sp) dflt.
  Proof.
    intros pol att sp dflt Hk Hd. unfold src2_policy_get. cbv zeta.
    change (p2_attr (enc_policy mds pol) "_restrictions") with (enc_restrictions pol).
    change (p2_attr (enc_policy mds pol) "metadata_store") with mds.
    destruct pol as [|e pol0]; [reflexivity|].
    change (p2_branch (p2_not (enc_restrictions (e :: pol0)))) with BFalse. cbv iota.
    unfold policy_get. remember (e :: pol0) as pol eqn:Epol. rewrite Epol at 1. rewrite <- Epol. clear Epol.
    assert (Hm : p2_is_not_none mds = PBool true) by (destruct mds; try discriminate; reflexivity).
    rewrite Hm. cbn [py_bind]. rewrite registration_info_ok.
    rewrite !get_restrictions by exact Hk.
    (* evaluate the chain of binds: every bound value is an encoded section or None *)
    destruct (ra_of sp) as [r|]; cbn [enc_ra p2_ifexp py_cond py_truthy p2_or py_bind].
    - change (p2_get (PObj [("registration_authority", PStr r)]) (PStr "registration_authority")) with (PStr r).
      cbn [py_bind]. rewrite get_restrictions by exact Hk.
      generalize (dict_get pol sp) (dict_get pol r) (dict_get pol "default") (dict_get pol "").
      intros o_sp o_r o_d o_e.
      destruct o_sp as [xa|]; destruct o_r as [xb|]; destruct o_d as [xc|]; destruct o_e as [xd|]; pg_chain att dflt.
    - change (p2_get (PObj []) (PStr "registration_authority")) with PNone. cbn [py_bind].
      change (p2_get (enc_restrictions pol) PNone) with
        (match is_obj (map enc_entry pol) with true => PErr | false => PNone end).
      unfold keys_ok in Hk. apply negb_true_iff in Hk. rewrite Hk.
      generalize (dict_get pol sp) (dict_get pol "default") (dict_get pol "").
      intros o_sp o_d o_e.
      destruct o_sp as [xa|]; destruct o_d as [xc|]; destruct o_e as [xd|]; pg_chain att dflt.
  Qed.

  (* Policy.get_nameid_format / Policy.get_lifetime: Policy.get with the attribute name and the default *)
  Theorem src2_get_nameid_format_is_model : forall pol sp,
    keys_ok pol = true ->
    src2_get_nameid_format registration_info (enc_policy mds pol) (PStr sp)
    = PStr (get_nameid_format pol sp (ra_of sp)).
  Proof.
    intros pol sp Hk. unfold src2_get_nameid_format. cbn [py_bind].
    rewrite src2_policy_get_is_model by (exact Hk || reflexivity).
    exact (policy_get_map PStr pol s_nameid_format (sec_get "nameid_format") sp (ra_of sp) nameid_format_default
             sec_get_nameid_format).
  Qed.

  Theorem src2_get_lifetime_is_model : forall pol sp,
    keys_ok pol = true ->
    src2_get_lifetime registration_info (enc_policy mds pol) (PStr sp)
    = enc_lifetime (get_lifetime pol sp (ra_of sp)).
  Proof.
    intros pol sp Hk. unfold src2_get_lifetime. cbn [py_bind p2_mkdict first_bad map snd].
    rewrite src2_policy_get_is_model by (exact Hk || reflexivity).
    exact (policy_get_map enc_lifetime pol s_lifetime (sec_get "lifetime") sp (ra_of sp) lifetime_default
             sec_get_lifetime).
  Qed.
End PolicyGet.

(* the hypotheses of the section are satisfiable, for every assignment of registration authorities *)
Example policy_get_hypotheses_satisfiable : forall ra_of : string -> option string,
  exists registration_info mds,
    is_object mds = true /\ forall sp, registration_info mds (PStr sp) = enc_ra (ra_of sp).
Proof.
  intros ra_of.
  exists (fun _ sp => match sp with PStr s => enc_ra (ra_of s) | _ => PErr end), (PObj [("__class__", PStr "MetadataStore")]).
  split; reflexivity.
Qed.

(* ================================================================== Policy.conditions *)
Lemma p2_mklist_1 v : is_bad v = false -> p2_mklist [v] = PList [v].
Proof. intros H. apply p2_mklist_good. cbn [forallb]. rewrite H. reflexivity. Qed.

Lemma audiences_of_create x r : create x = Issued r -> i_audiences r = [[a_sp (arg x)]].
Proof.
  unfold create, create_with, create_clocked; cbn [read]. destruct (choose_name_id_with _ _ x) as [[n s]|]; [|discriminate].
  destruct (signatures x) as [[sr sa]|]; [|discriminate]. intros H. injection H as <-. reflexivity.
Qed.

Section Conditions.
  Variable factory : pyval -> list (string * pyval) -> pyval.     (* saml2.samlp-style factory(klass, **kwargs) *)
  Variable instant : pyval.                                       (* time_util.instant() *)
  Variable not_on_or_after : pyval -> pyval -> pyval.             (* Policy.not_on_or_after(self, sp_entity_id) *)
  Hypothesis factory_good : forall c kw, is_bad (factory c kw) = false.
  Hypothesis instant_good : is_bad instant = false.
  Hypothesis nooa_good : forall s e, is_bad (not_on_or_after s e) = false.

  (* a Conditions element with the given window and audience restrictions, built by the same factory *)
  Definition enc_conditions (auds : list (list string)) (nb nooa : pyval) : pyval :=
    factory (PStr "Conditions")
      [("audience_restriction",
        PList (map (fun a => factory (PStr "AudienceRestriction")
                               [("audience", PList (map (fun t => factory (PStr "Audience") [("text", PStr t)]) a))]) auds));
       ("not_before", nb); ("not_on_or_after", nooa)].

  Theorem src2_conditions_is_model : forall x r self,
    create x = Issued r ->
    src2_conditions factory instant not_on_or_after self (PStr (a_sp (arg x)))
    = enc_conditions (i_audiences r) instant (not_on_or_after self (PStr (a_sp (arg x)))).
  Proof.
    intros x r self H. rewrite (audiences_of_create x r H). unfold src2_conditions, enc_conditions.
    rewrite (py_bind_good instant) by exact instant_good. cbn [py_bind map].
    rewrite (py_bind_good (not_on_or_after self _)) by apply nooa_good.
    rewrite (p2_mklist_1 (factory (PStr "Audience") _)) by apply factory_good. cbn [py_bind].
    rewrite (p2_mklist_1 (factory (PStr "AudienceRestriction") _)) by apply factory_good. cbn [py_bind].
    reflexivity.
  Qed.
End Conditions.

Example conditions_hypotheses_satisfiable :
  exists (factory : pyval -> list (string * pyval) -> pyval) (instant : pyval) (nooa : pyval -> pyval -> pyval),
    (forall c kw, is_bad (factory c kw) = false) /\ is_bad instant = false /\ forall s e, is_bad (nooa s e) = false.
Proof.
  exists (fun c kw => PObj (("__class__", c) :: kw)), (PStr "2026-01-01T00:00:00Z"), (fun _ _ => PStr "2026-01-01T01:00:00Z").
  repeat split.
Qed.

(* ================================================================== Entity._issuer *)
Definition enc_entity (entityid : string) : pyval :=
  PObj [("__class__", PStr "Entity"); ("config", PObj [("__class__", PStr "Config"); ("entityid", PStr entityid)])].

(* for every way of building the Issuer element ([mk_issuer] = Issuer( **kwargs )) *)
Theorem src2_issuer_is_model : forall (mk_issuer : list (string * pyval) -> pyval) x,
  src2_issuer mk_issuer (enc_entity (c_entityid (cfg x))) (enc_ostr (a_issuer (arg x)))
  = mk_issuer [("format", PStr "urn:oasis:names:tc:SAML:2.0:nameid-format:entity"); ("text", PStr (issuer_of x))].
Proof.
  intros mk x. unfold src2_issuer, issuer_of. destruct (a_issuer (arg x)) as [[|c s]|]; reflexivity.
Qed.

(* ================================================================== Entity.sign *)
Lemma list_has_strs a l : list_has (PStr a) (map PStr l) = Some (mem a l).
Proof.
  induction l as [|b r IH]; cbn [map list_has mem]; [reflexivity|].
  change (pv_eq (PStr a) (PStr b)) with (Some (String.eqb a b)).
  destruct (String.eqb a b); [reflexivity|exact IH].
Qed.

Lemma p2_not_in_strs a l : p2_not_in (PStr a) (PList (map PStr l)) = PBool (negb (mem a l)).
Proof. unfold p2_not_in. cbn [p2_in s2 py_bind]. rewrite list_has_strs. reflexivity. Qed.

Lemma p2_or_ostr o d : p2_or (enc_ostr o) (PStr d) = PStr (or_s o d).
Proof. destruct o as [[|c s]|]; reflexivity. Qed.

Definition enc_sec (cert : pyval) : pyval := PObj [("__class__", PStr "SecurityContext"); ("my_cert", cert)].

(* the entity as Entity.sign reads it: the algorithms Entity.__init__ resolved, the security context *)
Definition enc_signer (cert : pyval) (c : config) : pyval :=
  PObj [("__class__", PStr "Entity"); ("signing_algorithm", PStr (signing_algorithm c));
        ("digest_algorithm", PStr (digest_algorithm c)); ("sec", enc_sec cert)].

(* a Response element without / with a signature template *)
Definition enc_msg (rid : string) (sig : pyval) : pyval :=
  PObj [("__class__", PStr "Response"); ("id", PStr rid); ("signature", sig)].

Section Sign.
  Variable pre_signature_part : pyval -> pyval -> pyval -> pyval -> pyval -> pyval.  (* ident, cert, id number, algs *)
  Variable class_name : pyval -> pyval.
  Variable signed_instance_factory : pyval -> pyval -> pyval -> pyval.
  Variable cert : pyval.
  Hypothesis psp_good : forall a b c d e, is_bad (pre_signature_part a b c d e) = false.
  Hypothesis class_name_good : forall m, is_bad (class_name m) = false.
  Hypothesis cert_good : is_bad cert = false.

  (* what the signer gets: the Response with a signature template for the chosen algorithms, and the parts to
     sign: those handed in, then the Response itself *)
  Definition signed_response (rid : string) (ts : list pyval) (algs : string * string) : pyval :=
    let m := enc_msg rid (pre_signature_part (PStr rid) cert (PInt 1) (PStr (fst algs)) (PStr (snd algs))) in
    signed_instance_factory m (enc_sec cert) (PList (ts ++ [PList [class_name m; PStr rid]])).

  Theorem src2_sign_is_model : forall x rid ts,
    want_sign_response x = true ->
    src2_sign pre_signature_part class_name signed_instance_factory
      (enc_signer cert (cfg x)) (enc_msg rid PNone) PNone (PList ts) PNone
      (enc_ostr (a_sign_alg (arg x))) (enc_ostr (a_digest_alg (arg x)))
    = match signatures x with
      | Some (Some algs, _) => signed_response rid ts algs
      | Some (None, _) => PErr
      | None => PExc "Exception"
      end.
  Proof.
    intros x rid ts Hw. unfold src2_sign, signatures. rewrite Hw.
    change (p2_attr (enc_signer cert (cfg x)) "signing_algorithm") with (PStr (signing_algorithm (cfg x))).
    change (p2_attr (enc_signer cert (cfg x)) "digest_algorithm") with (PStr (digest_algorithm (cfg x))).
    rewrite !p2_or_ostr. cbn [py_bind]. fold (sign_alg_of x). fold (digest_alg_of x).
    repeat match goal with
           | |- context [p2_listcomp ?l ktrue ?f] =>
               first [ change (p2_listcomp l ktrue f) with (PList (map PStr sig_allowed))
                     | change (p2_listcomp l ktrue f) with (PList (map PStr digest_allowed)) ]
           end.
    rewrite !p2_not_in_strs, !p2_branch_bool.
    destruct (mem (sign_alg_of x) sig_allowed); cbn [negb andb]; [|reflexivity].
    destruct (mem (digest_alg_of x) digest_allowed); cbn [negb andb]; [|reflexivity].
    cbv zeta.
    change (p2_attr (enc_msg rid PNone) "signature") with PNone.
    change (p2_branch (p2_is_none PNone)) with BTrue. cbv iota.
    change (p2_attr (enc_msg rid PNone) "id") with (PStr rid).
    change (p2_attr (p2_attr (enc_signer cert (cfg x)) "sec") "my_cert") with cert.
    cbn [py_bind]. rewrite (py_bind_good cert) by exact cert_good.
    rewrite (py_bind_good (pre_signature_part _ _ _ _ _)) by apply psp_good.
    unfold enc_msg at 1. rewrite p2_setattr_obj by (apply psp_good || discriminate).
    cbn [set_assoc String.eqb Ascii.eqb Bool.eqb py_bind].
    change (p2_branch PNone) with BFalse. cbv iota.
    change (p2_branch (p2_is_none PNone)) with BTrue. cbv iota.
    set (m := PObj [("__class__", PStr "Response"); ("id", PStr rid); ("signature", _)]).
    change (p2_attr m "id") with (PStr rid). cbn [py_bind].
    change (py_bind m (fun a => class_name a)) with (class_name m).
    rewrite (p2_mklist_good [class_name m; PStr rid]) by (cbn [forallb]; rewrite class_name_good; reflexivity).
    rewrite p2_mklist_1 by reflexivity.
    change (p2_add (PList ts) (PList [PList [class_name m; PStr rid]])) with (PList (ts ++ [PList [class_name m; PStr rid]])).
    rewrite py_bindh_good by reflexivity.
    change (p2_attr (enc_signer cert (cfg x)) "sec") with (enc_sec cert).
    reflexivity.
  Qed.
End Sign.

Example sign_hypotheses_satisfiable :
  exists (psp : pyval -> pyval -> pyval -> pyval -> pyval -> pyval) (class_name : pyval -> pyval) (cert : pyval),
    (forall a b c d e, is_bad (psp a b c d e) = false) /\ (forall m, is_bad (class_name m) = false) /\ is_bad cert = false.
Proof.
  exists (fun a b c d e => PObj [("__class__", PStr "Signature"); ("uri", a); ("cert", b); ("sign_alg", d); ("digest_alg", e)]),
         (fun m => PStr "urn:oasis:names:tc:SAML:2.0:protocol:Response"), (PStr "MIIC...").
  repeat split.
Qed.

(* ================================================================== IdentDB.nim_args *)
Definition enc_nip (o : option nidpolicy) : pyval :=
  match o with
  | Some p => PObj [("__class__", PStr "NameIDPolicy"); ("format", enc_ostr (p_format p));
                    ("sp_name_qualifier", enc_ostr (p_spnq p))]
  | None => PNone
  end.

(* the identifier store as nim_args / get_nameid read it *)
Definition enc_identdb (nq : string) (domain : option string) : pyval :=
  PObj [("__class__", PStr "IdentDB"); ("name_qualifier", PStr nq); ("domain", enc_ostr domain)].

Section NimArgs.
  Variable registration_info : pyval -> pyval -> pyval.
  Variable mds : pyval.
  Variable ra_of : string -> option string.
  Hypothesis mds_object : is_object mds = true.
  Hypothesis registration_info_ok : forall sp, registration_info mds (PStr sp) = enc_ra (ra_of sp).

  (* nim_args(local_policy, sp_entity_id, name_id_policy) as construct_nameid() calls it (name_qualifier ""):
     the format is the requested one, else the one the policy configures for the REQUESTER; the
     SPNameQualifier is the requested one, else the requester *)
  Theorem src2_nim_args_is_model : forall x,
    keys_ok (the_policy x) = true -> ra_of (a_sp (arg x)) = ra x ->
    src2_nim_args registration_info (enc_identdb (c_entityid (cfg x)) (c_domain (cfg x)))
      (enc_policy mds (the_policy x)) (PStr (a_sp (arg x))) (enc_nip (a_nidpolicy (arg x))) (PStr "")
    = PObj [("nformat", PStr (nim_format x)); ("sp_name_qualifier", PStr (snq_of x));
            ("name_qualifier", PStr (c_entityid (cfg x)))].
  Proof.
    intros x Hk Hra. unfold src2_nim_args, nim_format, snq_of. cbv zeta. cbn [py_bind].
    pose proof (src2_get_nameid_format_is_model registration_info mds ra_of mds_object registration_info_ok
                  (the_policy x) (a_sp (arg x)) Hk) as G.
    rewrite Hra in G.
    destruct (a_nidpolicy (arg x)) as [[f q]|]; cbn [enc_nip p_format p_spnq].
    - destruct f as [[|c s]|]; destruct q as [[|c' s']|]; cbn -[src2_get_nameid_format]; try rewrite G; reflexivity.
    - cbn -[src2_get_nameid_format]. rewrite G. reflexivity.
  Qed.
End NimArgs.
(* hypotheses: those of Section PolicyGet (policy_get_hypotheses_satisfiable) *)

(* ================================================================== IdentDB.get_nameid *)
Lemma str_app_empty s : (s ++ "")%string = s.
Proof. induction s as [|c r IH]; [reflexivity|]. cbn. rewrite IH. reflexivity. Qed.

Section GetNameid.
  Variable match_local_id_ext : pyval -> pyval -> pyval -> pyval -> pyval.   (* self.match_local_id *)
  Variable create_id : pyval -> pyval -> pyval -> pyval.
  Variable store : pyval -> pyval -> pyval.
  Variable mk_nameid : list (string * pyval) -> pyval.                        (* NameID( **kwargs ) *)
  Variable text_of : nat -> string.            (* text of the k-th stored identifier *)
  Variable fresh_id : string.                  (* what create_id() answers *)
  Variable x : input.
  Variable userid : pyval.

  Definition enc_stored (k : nat) (n : nid) : pyval :=
    PObj [("__class__", PStr "NameID"); ("format", enc_ostr (n_format n)); ("sp_name_qualifier", enc_ostr (n_spnq n));
          ("name_qualifier", enc_ostr (n_nq n)); ("text", PStr (text_of k))].
  Definition enc_found (o : option (nat * nid)) : pyval :=
    match o with Some (k, n) => enc_stored k n | None => PNone end.
  Definition self_db : pyval := enc_identdb (c_entityid (cfg x)) (c_domain (cfg x)).

  Hypothesis userid_good : is_bad userid = false.
  Hypothesis match_local_id_ok :
    match_local_id_ext self_db userid (PStr (snq_of x)) (PStr (c_entityid (cfg x)))
    = enc_found (match_local_id (stored x) (snq_of x) (c_entityid (cfg x))).
  Hypothesis create_id_ok : forall a b c, create_id a b c = PStr fresh_id.
  Hypothesis store_good : forall a b, is_bad (store a b) = false.
  Hypothesis mk_nameid_good : forall kw, is_bad (mk_nameid kw) = false.

  Definition fresh_text (nformat : string) : string :=
    if String.eqb nformat NAMEID_FORMAT_EMAILADDRESS
    then fresh_id ++ "@" ++ or_s (c_domain (cfg x)) "" else fresh_id.

  Theorem src2_get_nameid_is_model : forall nformat,
    src2_get_nameid match_local_id_ext create_id store mk_nameid self_db userid
      (PStr nformat) (PStr (snq_of x)) (PStr (c_entityid (cfg x)))
    = match get_nameid x nformat with
      | None => PExc "SAMLError"
      | Some (n, Reused k) => enc_stored k n
      | Some (n, Fresh) => mk_nameid [("format", enc_ostr (n_format n)); ("name_qualifier", enc_ostr (n_nq n));
                                      ("sp_name_qualifier", enc_ostr (n_spnq n)); ("text", PStr (fresh_text nformat))]
      | Some (_, Given) => PErr
      end.
  Proof.
    intros nformat. unfold src2_get_nameid, get_nameid, fresh_text. cbv zeta.
    rewrite !p2_eq_str, !p2_branch_bool.
    change "urn:oasis:names:tc:SAML:2.0:nameid-format:persistent" with NAMEID_FORMAT_PERSISTENT.
    change "urn:oasis:names:tc:SAML:1.1:nameid-format:emailAddress" with NAMEID_FORMAT_EMAILADDRESS.
    assert (Tail : forall v,
      py_bind (py_bind (PStr nformat) (fun a_1 => py_bind (PStr (c_entityid (cfg x))) (fun a_2 =>
                 py_bind (PStr (snq_of x)) (fun a_3 => create_id a_1 a_2 a_3))))
        (fun v__id =>
           match (if String.eqb nformat NAMEID_FORMAT_EMAILADDRESS then BTrue else BFalse) with
           | BTrue => match p2_branch (p2_not (p2_attr self_db "domain")) with
                      | BTrue => PExc "SAMLError"
                      | BFalse => py_bind (p2_fconcat [p2_str v__id; PStr "@"; p2_str (p2_attr self_db "domain")]) v
                      | BExc n => PExc n
                      | BErr => PErr
                      end
           | BFalse => v v__id
           | BExc n => PExc n
           | BErr => PErr
           end)
      = if String.eqb nformat NAMEID_FORMAT_EMAILADDRESS && negb (truthy_s (c_domain (cfg x))) then PExc "SAMLError"
        else v (PStr (if String.eqb nformat NAMEID_FORMAT_EMAILADDRESS
                      then fresh_id ++ "@" ++ or_s (c_domain (cfg x)) "" else fresh_id))).
    { intros v. cbn [py_bind]. rewrite create_id_ok. cbn [py_bind].
      change (p2_attr self_db "domain") with (enc_ostr (c_domain (cfg x))).
      destruct (String.eqb nformat NAMEID_FORMAT_EMAILADDRESS); cbn [andb]; [|reflexivity].
      destruct (c_domain (cfg x)) as [[|c s]|]; try reflexivity.
      cbn [enc_ostr truthy_s is_empty negb or_s]. change (p2_branch (p2_not (PStr (String c s)))) with BFalse. cbv iota.
      cbn [p2_str s1 py_bind p2_fconcat]. rewrite str_app_empty. reflexivity. }
    destruct (String.eqb nformat NAMEID_FORMAT_PERSISTENT).
    - cbn [py_bind]. rewrite (py_bind_good userid) by exact userid_good. rewrite match_local_id_ok.
      destruct (match_local_id (stored x) (snq_of x) (c_entityid (cfg x))) as [[k n]|]; cbn [enc_found].
      + reflexivity.
      + cbn [py_bind]. change (p2_branch PNone) with BFalse. cbv iota.
        rewrite Tail. destruct (String.eqb nformat NAMEID_FORMAT_EMAILADDRESS && negb (truthy_s (c_domain (cfg x)))); [reflexivity|].
        cbn [py_bind]. rewrite (py_bind_good (mk_nameid _)) by apply mk_nameid_good.
        rewrite (py_bind_good userid) by exact userid_good. rewrite (py_bind_good (mk_nameid _)) by apply mk_nameid_good.
        rewrite (py_bind_good (store _ _)) by apply store_good. reflexivity.
    - rewrite Tail. destruct (String.eqb nformat NAMEID_FORMAT_EMAILADDRESS && negb (truthy_s (c_domain (cfg x)))); [reflexivity|].
      cbn [py_bind]. rewrite (py_bind_good (mk_nameid _)) by apply mk_nameid_good.
      rewrite (py_bind_good userid) by exact userid_good. rewrite (py_bind_good (mk_nameid _)) by apply mk_nameid_good.
      rewrite (py_bind_good (store _ _)) by apply store_good. reflexivity.
  Qed.
End GetNameid.

Example get_nameid_hypotheses_satisfiable : forall (text_of : nat -> string) (x : input),
  exists mli create_id store mk_nameid fresh_id userid,
    is_bad userid = false
    /\ mli (self_db x) userid (PStr (snq_of x)) (PStr (c_entityid (cfg x)))
       = enc_found text_of (match_local_id (stored x) (snq_of x) (c_entityid (cfg x)))
    /\ (forall a b c : pyval, create_id a b c = PStr fresh_id)
    /\ (forall a b : pyval, is_bad (store a b) = false)
    /\ (forall kw : list (string * pyval), is_bad (mk_nameid kw) = false).
Proof.
  intros text_of x.
  exists (fun _ _ _ _ => enc_found text_of (match_local_id (stored x) (snq_of x) (c_entityid (cfg x)))),
         (fun _ _ _ => PStr "f00d"), (fun _ _ => PNone), (fun kw => PObj (("__class__", PStr "NameID") :: kw)),
         "f00d", (PStr "user-1").
  repeat split.
Qed.

(* ================================================================== argtree.is_set *)
(* farg = {"assertion": {"subject": {"subject_confirmation": {method?, subject_confirmation_data?: {...}}}}} *)
Definition enc_scd (g : farg) : list (string * pyval) :=
  (match f_irt g with Some i => [("in_response_to", PStr i)] | None => [] end
   ++ match f_recipient g with Some r => [("recipient", PStr r)] | None => [] end)%list.
Definition enc_farg (g : farg) : pyval :=
  let sc := (match f_method g with Some m => [("method", PStr m)] | None => [] end
             ++ match enc_scd g with [] => [] | d => [("subject_confirmation_data", PObj d)] end)%list in
  PObj [("assertion", PObj [("subject", PObj [("subject_confirmation", PObj sc)])])].

Definition path (l : list string) : pyval := PList (map PStr l).
Definition P_method := path ["assertion"; "subject"; "subject_confirmation"; "method"].
Definition P_irt := path ["assertion"; "subject"; "subject_confirmation"; "subject_confirmation_data"; "in_response_to"].
Definition P_recipient := path ["assertion"; "subject"; "subject_confirmation"; "subject_confirmation_data"; "recipient"].

Definition is_some {A} (o : option A) : bool := match o with Some _ => true | None => false end.

Theorem src2_is_set_is_model : forall g,
  src2_is_set (enc_farg g) P_method = PBool (is_some (f_method g))
  /\ src2_is_set (enc_farg g) P_irt = PBool (is_some (f_irt g))
  /\ src2_is_set (enc_farg g) P_recipient = PBool (is_some (f_recipient g)).
Proof. intros [[m|] [i|] [r|]]; repeat split; reflexivity. Qed.

(* the three tests are the three decisions of the model's update_farg on a preset tree *)
Theorem update_farg_by_is_set : forall irt url g,
  update_farg irt url (Some g)
  = {| f_method := if py_truthy (src2_is_set (enc_farg g) P_method) then f_method g else Some SCM_BEARER;
       f_irt := if py_truthy (src2_is_set (enc_farg g) P_irt) then f_irt g else irt;
       f_recipient := if py_truthy (src2_is_set (enc_farg g) P_recipient) then f_recipient g else Some url |}.
Proof.
  intros irt url g. destruct (src2_is_set_is_model g) as (-> & -> & ->).
  destruct g as [[m|] [i|] [r|]]; reflexivity.
Qed.

Theorem src2_is_set_and_update_farg : forall g irt url,
  src2_is_set (enc_farg g) P_method = PBool (is_some (f_method g))
  /\ src2_is_set (enc_farg g) P_irt = PBool (is_some (f_irt g))
  /\ src2_is_set (enc_farg g) P_recipient = PBool (is_some (f_recipient g))
  /\ update_farg irt url (Some g)
     = {| f_method := if py_truthy (src2_is_set (enc_farg g) P_method) then f_method g else Some SCM_BEARER;
          f_irt := if py_truthy (src2_is_set (enc_farg g) P_irt) then f_irt g else irt;
          f_recipient := if py_truthy (src2_is_set (enc_farg g) P_recipient) then f_recipient g else Some url |}.
Proof.
  intros g irt url. destruct (src2_is_set_is_model g) as (A & B & C).
  exact (conj A (conj B (conj C (update_farg_by_is_set irt url g)))).
Qed.
