(* C09/Corr.v — correspondence runner.
   A case = the abstract call (configuration, arguments, requester's registration authority, identifier store,
   clock), the outcome OBSERVED on the real Server.create_authn_response (fields read by the independent
   reader), and — when the case names a service-provider setting — that setting together with what the real
   Saml2Client reported for the same XML. *)
From Coq Require Import String List Bool ZArith.
From Verif Require C01.Model C04.Model C05.Model C06.Model.
From Verif Require Import Base.Str Base.Run C09.Model C09.Spec.
From VerifGen Require Import C09Tables.
From VerifGen Require C09Abbrev.
Import ListNotations.
Open Scope string_scope.

Definition spobs := option (attrs * Z * option string).
Definition case := (input * outcome * option (spside * spobs))%type.

Definition c_in (c : case) : input := fst (fst c).
Definition c_out (c : case) : outcome := snd (fst c).
Definition c_sp (c : case) : option (spside * spobs) := snd c.

Definition nsrc_eqb (a b : nsrc) : bool :=
  match a, b with
  | Given, Given | Fresh, Fresh => true
  | Reused i, Reused j => Nat.eqb i j
  | _, _ => false
  end.

Definition pair_opt_eqb (a b : option string * option string) : bool :=
  opt_eqb String.eqb (fst a) (fst b) && opt_eqb String.eqb (snd a) (snd b).

Definition issued_eqb (a b : issued) : bool :=
  String.eqb (r_issuer a) (r_issuer b)
  && opt_eqb String.eqb (r_in_response_to a) (r_in_response_to b)
  && opt_eqb String.eqb (r_destination a) (r_destination b)
  && (r_issue_instant a =? r_issue_instant b)%Z
  && String.eqb (i_issuer a) (i_issuer b)
  && list_eqb (list_eqb String.eqb) (i_audiences a) (i_audiences b)
  && opt_eqb String.eqb (i_method a) (i_method b)
  && opt_eqb String.eqb (i_recipient a) (i_recipient b)
  && opt_eqb String.eqb (i_irt a) (i_irt b)
  && (i_not_before a =? i_not_before b)%Z
  && (i_nooa_cond a =? i_nooa_cond b)%Z
  && (i_nooa_sc a =? i_nooa_sc b)%Z
  && nid_eqb (i_nameid a) (i_nameid b)
  && nsrc_eqb (i_nameid_src a) (i_nameid_src b)
  && opt_eqb pair_opt_eqb (i_authn a) (i_authn b)
  && attrs_eqb (i_attributes a) (i_attributes b)
  && opt_eqb algs_eqb (s_response a) (s_response b)
  && opt_eqb algs_eqb (s_assertion a) (s_assertion b).

Definition err_eqb (a b : err) : bool :=
  match a, b with ENameId, ENameId | EAlg, EAlg => true | _, _ => false end.

Definition outcome_eqb (a b : outcome) : bool :=
  match a, b with
  | Issued r, Issued q => issued_eqb r q
  | Error e, Error f => err_eqb e f
  | _, _ => false
  end.

Definition spobs_eqb (a b : spobs) : bool :=
  opt_eqb (fun p q => attrs_eqb (fst (fst p)) (fst (fst q)) && (snd (fst p) =? snd (fst q))%Z
                      && opt_eqb String.eqb (snd p) (snd q)) a b.

(* model = implementation: the issuing side, and the composed acceptance models run on the OBSERVED Response *)
Definition agrees (c : case) : bool :=
  outcome_eqb (create (c_in c)) (c_out c)
  && match c_sp c, c_out c with
     | Some (s, so), Issued r => spobs_eqb (sp_accepts s r) so
     | Some _, Error _ => false
     | None, _ => true
     end.

(* the property on the implementation's output: scope + name identifier + signatures (or a justified
   refusal), and the end-to-end clause on what the real service provider reported *)
Definition holds (c : case) : bool :=
  spec_b (c_in c) (c_out c)
  && match c_sp c, c_out c with
     | Some (s, so), Issued r => e2e_b (c_in c) s r so
     | _, _ => true
     end.

(* finding classes (consulted only when holds is false): everything but the name-identifier clause holds and
   1 = a fresh identifier carries the format the pre-d41562bb nim_args would have looked up under a foreign
       SPNameQualifier (C09-F1, fixed: seeing it again is a regression and is reported as a violation)
   2 = the identifier the pre-9a92c673 store search (no format in force) would have picked was used although its
       format is not the one in force (C09-F2, fixed: likewise a regression)
   3 = the issuing side is in order, the requester's own service provider reported no identity, and the chosen
       consumer URL is published by a bare specification only while another specification names the binding the
       Response travelled on (C09-F3, open: Config.endpoint hands out bare URLs only when nothing names the binding) *)
Definition cls3 (c : case) : bool :=
  match c_sp c, c_out c with
  | Some (s, None), Issued r =>
      spec_b (c_in c) (c_out c) && negb (e2e_b (c_in c) s r None)
      && bare_shadowed_b (sp_acs s) (a_destination (arg (c_in c))) (sp_binding s)
  | _, _ => false
  end.

Definition cls (c : case) : nat :=
  if cls3 c then 3 else
  match c_out c with
  | Issued r =>
      if scope_b (c_in c) r && signed_as_demanded_b (c_in c) r && negb (nameid_ok_b (c_in c) r)
         && match c_sp c with Some (s, so) => e2e_b (c_in c) s r so | None => true end
      then match i_nameid_src r with
           | Reused k => match choose_name_id_with (kwa_format_v0 (c_in c)) (nim_format (c_in c)) (c_in c) with
                         | Some (_, Reused k') => if Nat.eqb k k' then 2 else 0
                         | _ => 0
                         end
           | Fresh => if negb (String.eqb (snq_of (c_in c)) (requester (c_in c)))
                         && opt_eqb String.eqb (n_format (i_nameid r)) (Some (nim_format_v0 (c_in c)))
                      then 1 else 0
           | Given => 0
           end
      else 0
  | Error _ => 0
  end.

Definition run := run_cases agrees holds cls.

(* diagnosis: does the observed outcome equal what a provider taking wall-clock readings would produce?
   (issue clock, expiry clock) of the first variant other than the code's own that matches *)
Definition clock_diagnosis (c : case) : option (reading * reading) :=
  match filter (fun p => outcome_eqb (create_read (fst p) (snd p) (c_in c)) (c_out c))
               [(UtcReading, WallReading); (WallReading, UtcReading); (WallReading, WallReading)] with
  | p :: _ => if outcome_eqb (create (c_in c)) (c_out c) then None else Some p
  | [] => None
  end.

(* diagnosis: does what the real service provider reported equal the acceptance under another reading of the
   endpoint specifications (and not the acceptance under the code's own)? *)
Definition unpack_diagnosis (c : case) : option string :=
  match c_sp c, c_out c with
  | Some (s, so), Issued r =>
      if spobs_eqb (sp_accepts s r) so then None
      else if spobs_eqb (sp_accepts_with unpack_noslice s r) so then Some "as if (url, binding, index) triples were not unpacked"
      else Some "none of the named readings"
  | _, _ => None
  end.

Definition explain (c : case) :=
  (create (c_in c), zone (c_in c), clock_diagnosis c, match c_out c with Issued r => (scope_b (c_in c) r, nameid_ok_b (c_in c) r,
                                                    signed_as_demanded_b (c_in c) r) | Error e => (refusal_ok_b (c_in c) e, true, true) end,
   match c_sp c, c_out c with
   | Some (s, so), Issued r => Some (sp_accepts s r, e2e_b (c_in c) s r so, sp_acs s, sp_binding s, unpack_diagnosis c)
   | _, _ => None
   end).

(* constructors used by the harness *)
Definition mk_cfg eid sr sa salg dalg pol dom : config :=
  {| c_entityid := eid; c_sign_response := sr; c_sign_assertion := sa; c_signing_algorithm := salg;
     c_digest_algorithm := dalg; c_policy := pol; c_domain := dom |}.
Definition mk_sec l f o : section := {| s_lifetime := l; s_nameid_format := f; s_other := o |}.
Definition mk_nid f s q : nid := {| n_format := f; n_spnq := s; n_nq := q |}.
Definition mk_nip f s : nidpolicy := {| p_format := f; p_spnq := s |}.
Definition mk_farg m i r : farg := {| f_method := m; f_irt := i; f_recipient := r |}.
Definition mk_args ident irt dest sp nip nameid authn iss sr sa salg dalg pol fa : args :=
  {| a_identity := ident; a_in_response_to := irt; a_destination := dest; a_sp := sp; a_nidpolicy := nip;
     a_name_id := nameid; a_authn := authn; a_issuer := iss; a_sign_response := sr; a_sign_assertion := sa;
     a_sign_alg := salg; a_digest_alg := dalg; a_policy := pol; a_farg := fa |}.
Definition mk_in c a r st n z : input := {| cfg := c; arg := a; ra := r; stored := st; now := n; zone := z |}.
Definition mk_issued ri rirt rdest rii ii aud m rec irt nb nc ns nid src authn av sr sa : issued :=
  {| r_issuer := ri; r_in_response_to := rirt; r_destination := rdest; r_issue_instant := rii; i_issuer := ii;
     i_audiences := aud; i_method := m; i_recipient := rec; i_irt := irt; i_not_before := nb; i_nooa_cond := nc;
     i_nooa_sc := ns; i_nameid := nid; i_nameid_src := src; i_authn := authn; i_attributes := av;
     s_response := sr; s_assertion := sa |}.
Definition mk_sp me idp acs b wr wa wor atd au out n z : spside :=
  {| sp_me := me; sp_idp := idp; sp_acs := acs; sp_binding := b; sp_wr := wr; sp_wa := wa; sp_wor := wor;
     sp_atd := atd; sp_allow_unsolicited := au; sp_outstanding := out; sp_now := n; sp_zone := z |}.
