(* C09/Source2e.v — the receiving side's reading of its own consumer endpoints, tied to the CURRENT source text:
   config.py Config.endpoint and client_base.py Base.service_urls as the translator v2 (harness/py2coq2.py) produced
   them on this run (coq/gen/C09Src2e.v) compute, on the encoding of ANY list of endpoint specifications written as
   (URL, binding) pairs or (URL, binding, index) triples (tuple or list, any index value), what the model's
   unpacking step `conf_ep` followed by C04's `endpoint` / `service_urls` compute.  This is the part of the
   acceptance (`sp_accepts`, return addresses) that C09/Model.v adds to the composed C04 model.
   A bare specification (a str) is unpacked by `endp, bind = endpspec`, which is outside the translator's fragment
   (PErr): configurations with bare URLs are covered by the correspondence run only. *)
From Coq Require Import String Ascii List Bool ZArith.
From Verif Require C04.Model.
From Verif Require Import Base.Str Base.Py Base.Py2 C09.Model.
From VerifGen Require Import C09Src2e.
Import ListNotations.
Open Scope string_scope.
Open Scope list_scope.
Set Default Timeout 20.

Definition enc_strs (l : list string) : pyval := PList (map PStr l).
Definition enc_urls (o : option (list string)) : pyval := match o with Some l => enc_strs l | None => PNone end.

(* a specification as the configuration holds it: a 2- or 3-member sequence; [ix] says how an index is written
   (an int, its decimal text, ...): whatever it is, the slice drops it *)
Definition enc_acs (ix : string -> pyval) (e : acsconf) : pyval :=
  match e with
  | ABare u => PStr u
  | APair u b => PList [PStr u; PStr b]
  | AIndexed u b i => PList [PStr u; PStr b; ix i]
  end.

Definition no_bare (acs : list acsconf) : Prop := forall u, ~ In (ABare u) acs.

Definition sel (b : string) (acs : list acsconf) : list string :=
  flat_map (fun e => match conf_ep e with C04.Model.EP u b' => if String.eqb b' b then [u] else [] | C04.Model.Bare _ => [] end) acs.

Lemma endpoint_no_bare acs b : no_bare acs -> C04.Model.endpoint (map conf_ep acs) b = sel b acs.
Proof.
  intros Hn. unfold C04.Model.endpoint.
  assert (Hs : flat_map (fun e => match e with C04.Model.EP u b' => if String.eqb b' b then [u] else [] | C04.Model.Bare _ => [] end)
                        (map conf_ep acs) = sel b acs).
  { clear Hn. induction acs as [|e r IH]; cbn [map flat_map sel]; [reflexivity|]. f_equal. exact IH. }
  assert (Hu : flat_map (fun e => match e with C04.Model.Bare u => [u] | C04.Model.EP _ _ => [] end) (map conf_ep acs) = []).
  { clear Hs. induction acs as [|e r IH]; cbn [map flat_map]; [reflexivity|].
    rewrite IH by (intros u Hu; apply (Hn u); right; exact Hu).
    destruct e as [u|u b'|u b' i]; cbn [conf_ep app]; [|reflexivity|reflexivity].
    exfalso. apply (Hn u). left; reflexivity. }
  rewrite Hs, Hu. destruct (sel b acs); reflexivity.
Qed.

Section Endpoint.
  Variables (getattr_ext : pyval -> pyval -> pyval -> pyval) (type_ext : pyval -> pyval) (ix : string -> pyval).
  (* type(x) of a tuple/list endpoint specification is one of the two the code tests for *)
  Hypothesis Htype : forall l, type_ext (PList l) = PStr "tuple" \/ type_ext (PList l) = PStr "list".

  Definition ep_body (v_binding : pyval) : list pyval -> pyval -> ctl2 :=
    fun st_5 x_6 => match st_5 with [v_endp; v_bind; v_spec; v_unspec] =>
    (let v_endpspec := x_6 in
    (let h_9 := fun n_9 v_endp v_bind v_spec =>
     (if exc_matches n_9 ["ValueError"; "UnicodeDecodeError"; "UnicodeEncodeError"; "UnicodeError"]
     then (py_bindS (fun n_10 => (ExcS n_10 [v_endp; v_bind; v_spec; v_unspec])) (p2_append v_unspec v_endpspec) (fun v_unspec =>
     (NextS [v_endp; v_bind; v_spec; v_unspec])))
     else (ExcS n_9 [v_endp; v_bind; v_spec; v_unspec])) in
    (let k_21 := fun v_endp v_bind =>
     (match p2_branch (p2_or (p2_is_none v_binding) (p2_eq v_bind v_binding)) with
     | BTrue => (py_bindS (fun n_11 => (h_9 n_11 v_endp v_bind v_spec)) (p2_append v_spec v_endp) (fun v_spec =>
     (NextS [v_endp; v_bind; v_spec; v_unspec])))
     | BFalse => (NextS [v_endp; v_bind; v_spec; v_unspec])
     | BExc n_12 => (h_9 n_12 v_endp v_bind v_spec)
     | BErr => (RetS PErr)
     end) in
    (match p2_branch (p2_in (py_bind v_endpspec (fun a_14 => (type_ext a_14))) (p2_mklist [(PStr "tuple"); (PStr "list")])) with
    | BTrue => (py_bindS (fun n_17 => (h_9 n_17 v_endp v_bind v_spec)) (p2_slice v_endpspec (PInt (0)%Z) (PInt (2)%Z)) (fun a_15 =>
    (match p2_unpack 2 a_15 with
    | PList [v_endp; v_bind] => (k_21 v_endp v_bind)
    | PExc n_16 => (h_9 n_16 v_endp v_bind v_spec)
    | _ => (RetS PErr)
    end)))
    | BFalse => (py_bindS (fun n_20 => (h_9 n_20 v_endp v_bind v_spec)) v_endpspec (fun a_18 =>
    (match p2_unpack 2 a_18 with
    | PList [v_endp; v_bind] => (k_21 v_endp v_bind)
    | PExc n_19 => (h_9 n_19 v_endp v_bind v_spec)
    | _ => (RetS PErr)
    end)))
    | BExc n_21 => (h_9 n_21 v_endp v_bind v_spec)
    | BErr => (RetS PErr)
    end))))
   | _ => RetS PErr end.

  Lemma type_in_list l : p2_in (type_ext (PList l)) (p2_mklist [PStr "tuple"; PStr "list"]) = PBool true.
  Proof. destruct (Htype l) as [-> | ->]; reflexivity. Qed.

  (* one specification with a binding: the slice keeps (URL, binding), the URL is appended when the binding matches *)
  Lemma ep_step b e rest st_e st_b acc :
    (forall u, e <> ABare u) ->
    exists e' bd',
      pyfor2 (enc_acs ix e :: rest) [st_e; st_b; enc_strs acc; PList []] (ep_body (PStr b))
      = pyfor2 rest [e'; bd'; enc_strs (acc ++ sel b [e]); PList []] (ep_body (PStr b)).
  Proof.
    intros Hnb.
    assert (Hgen : forall u b' (tail : list pyval),
      (tail = [] \/ exists x, tail = [x]) ->
      pyfor2 (PList (PStr u :: PStr b' :: tail) :: rest) [st_e; st_b; enc_strs acc; PList []] (ep_body (PStr b))
      = pyfor2 rest [PStr u; PStr b'; enc_strs (acc ++ (if String.eqb b' b then [u] else [])); PList []] (ep_body (PStr b))).
    { intros u b' tail Ht. cbn [pyfor2]. unfold ep_body at 1. cbv zeta. cbn [py_bind]. rewrite type_in_list.
      cbn [p2_branch py_truthy].
      assert (Hsl : p2_slice (PList (PStr u :: PStr b' :: tail)) (PInt 0) (PInt 2) = PList [PStr u; PStr b']).
      { destruct Ht as [-> | [x ->]]; reflexivity. }
      rewrite Hsl. cbn [py_bindS p2_bind p2_unpack length Nat.eqb].
      rewrite p2_eq_str. change (p2_is_none (PStr b)) with (PBool false).
      rewrite p2_or_good by reflexivity. cbn [py_truthy p2_branch].
      destruct (String.eqb b' b).
      - change (p2_append (enc_strs acc) (PStr u)) with (PList (map PStr acc ++ [PStr u])).
        cbn [py_bindS p2_bind].
        replace (PList (map PStr acc ++ [PStr u])) with (enc_strs (acc ++ [u]))
          by (unfold enc_strs; rewrite map_app; reflexivity).
        reflexivity.
      - rewrite app_nil_r. reflexivity. }
    destruct e as [u|u b'|u b' i].
    - exfalso. apply (Hnb u). reflexivity.
    - exists (PStr u), (PStr b'). cbn [enc_acs sel flat_map conf_ep]. rewrite app_nil_r.
      apply Hgen. left; reflexivity.
    - exists (PStr u), (PStr b'). cbn [enc_acs sel flat_map conf_ep]. rewrite app_nil_r.
      apply Hgen. right. exists (ix i). reflexivity.
  Qed.

  Lemma ep_loop b acs : no_bare acs -> forall e bd acc,
    exists e' bd', pyfor2 (map (enc_acs ix) acs) [e; bd; enc_strs acc; PList []] (ep_body (PStr b))
                   = NextS [e'; bd'; enc_strs (acc ++ sel b acs); PList []].
  Proof.
    induction acs as [|x r IH]; intros Hn e bd acc.
    - exists e, bd. cbn [map pyfor2 sel flat_map]. rewrite app_nil_r. reflexivity.
    - cbn [map].
      destruct (ep_step b x (map (enc_acs ix) r) e bd acc) as (e1 & b1 & H1).
      { intros u C. apply (Hn u). left. exact C. }
      rewrite H1.
      destruct (IH (fun u Hu => Hn u (or_intror Hu)) e1 b1 (acc ++ sel b [x])) as (e' & bd' & H2).
      exists e', bd'. rewrite H2, <- app_assoc.
      replace (sel b [x] ++ sel b r) with (sel b (x :: r)); [reflexivity|].
      unfold sel. cbn [flat_map]. rewrite app_nil_r. reflexivity.
  Qed.

  (* cfg: the Config object; its getattr("endpoints", context) is a dict that lists the service *)
  Theorem src2_endpoint_is_model : forall cfg ctx endps svc acs b,
    is_bad ctx = false -> getattr_ext cfg (PStr "endpoints") ctx = PObj endps ->
    is_obj endps = false -> assoc_py svc endps = Some (PList (map (enc_acs ix) acs)) -> no_bare acs ->
    src2_endpoint getattr_ext type_ext cfg (PStr svc) (PStr b) ctx = enc_strs (C04.Model.endpoint (map conf_ep acs) b).
  Proof.
    intros cfg ctx endps svc acs b Hctx Hget Hobj Hsvc Hnb. unfold src2_endpoint. cbv zeta.
    rewrite (py_bind_good ctx) by exact Hctx. rewrite Hget. cbn [py_bind].
    rewrite p2_in_dict by exact Hobj. rewrite Hsvc.
    rewrite p2_and_good by reflexivity.
    assert (Ht : py_truthy (PObj endps) = true) by (destruct endps; [discriminate|reflexivity]).
    rewrite Ht. cbn [p2_branch py_truthy].
    rewrite p2_getitem_dict by exact Hobj. rewrite Hsvc, p2_iter_check_list. cbn [py_bind py_iter2].
    fold (ep_body (PStr b)).
    destruct (ep_loop b acs Hnb PErr PErr []) as [e' [bd' H]].
    change (PList []) with (enc_strs []) at 1. rewrite H. cbn [app].
    rewrite (endpoint_no_bare acs b Hnb). destruct (sel b acs); reflexivity.
  Qed.

  (* Base.service_urls, hence the return addresses of a service provider [s] whose consumer endpoints are written
     without bare URLs: what the acceptance model works on (C09.Model.sp_specs) *)
  Theorem src2_service_urls_is_model : forall self cfg endps (s : spside) b,
    p2_attr self "config" = cfg -> getattr_ext cfg (PStr "endpoints") (PStr "sp") = PObj endps ->
    is_obj endps = false ->
    assoc_py "assertion_consumer_service" endps = Some (PList (map (enc_acs ix) (sp_acs s))) -> no_bare (sp_acs s) ->
    src2_service_urls getattr_ext type_ext self (PStr b) = enc_urls (C04.Model.service_urls (sp_specs s) b).
  Proof.
    intros self cfg endps s b Hcfg Hget Hobj Hsvc Hnb. unfold src2_service_urls. cbv zeta. cbn [py_bind].
    rewrite Hcfg, (src2_endpoint_is_model cfg (PStr "sp") endps "assertion_consumer_service" (sp_acs s) b eq_refl Hget Hobj Hsvc Hnb).
    unfold C04.Model.service_urls, sp_specs. destruct (C04.Model.endpoint (map conf_ep (sp_acs s)) b); reflexivity.
  Qed.
End Endpoint.

(* the hypotheses are satisfiable: a Config object whose getattr returns the endpoints dict it holds, with a pair
   written as a tuple and two triples (index an int / its text) written as lists *)
Example endpoint_hyps_sat :
  let type_ext := fun v => match v with PList [_; _] => PStr "tuple" | PList _ => PStr "list" | _ => PStr "str" end in
  let getattr_ext := fun cfg _ _ => p2_attr cfg "_sp_endpoints" in
  let ix := fun i => if String.eqb i "2" then PInt 2 else PStr i in
  let acs := [AIndexed "https://sp.example.org/acs/redirect" "urn:oasis:names:tc:SAML:2.0:bindings:HTTP-Redirect" "2";
              APair "https://sp.example.org/acs/post" "urn:oasis:names:tc:SAML:2.0:bindings:HTTP-POST";
              AIndexed "https://sp.example.org/acs/post-b" "urn:oasis:names:tc:SAML:2.0:bindings:HTTP-POST" "7"] in
  let cfg := PObj [("__class__", PStr "SPConfig");
                   ("_sp_endpoints", PObj [("assertion_consumer_service", PList (map (enc_acs ix) acs))])] in
  (forall l, type_ext (PList l) = PStr "tuple" \/ type_ext (PList l) = PStr "list")
  /\ src2_service_urls getattr_ext type_ext (PObj [("__class__", PStr "Saml2Client"); ("config", cfg)])
       (PStr "urn:oasis:names:tc:SAML:2.0:bindings:HTTP-POST")
     = enc_strs ["https://sp.example.org/acs/post"; "https://sp.example.org/acs/post-b"].
Proof.
  split; [|vm_compute; reflexivity].
  intros [|a [|b [|c l]]]; cbn; auto.
Qed.
