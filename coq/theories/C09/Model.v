(* C09/Model.v — how an identity provider assembles an authentication Response, as coded NOW.
   Mirrors, layer by layer:
     Server.create_authn_response / gather_authn_response_args (server.py 699-882): argument > config >
       default for sign_response / sign_assertion / policy (defaults: generated table C09Tables), choice of
       the name identifier (supplied, found in the identifier store, or constructed);
     IdentDB.find_nameid / nim_args / construct_nameid / get_nameid / match_local_id (ident.py 157-309);
     Server._authn_response / setup_assertion / update_farg (server.py 299-609);
     Policy.get / get_lifetime / get_nameid_format / not_on_or_after / conditions (assertion.py 332-384,
       487-495, 578-595), time_util.in_a_while / instant;
     Assertion.construct / do_subject / authn_statement (assertion.py 648-842);
     Entity._issuer (225-233), Entity._response and Entity.sign (entity.py 492-524, 687-920): which parts
       are signed and with which algorithms, the allowed-list test.
   Not modelled (assumptions of the check): encryption / pefim (C16), attribute release filtering (C10) and
   the wire mapping of attribute names (C17): the identity is carried through unchanged.
   Python str = Coq string; None = option; time = Z seconds since the epoch. *)
From Coq Require Import String List Bool ZArith.
From Verif Require Import Base.Str.
From VerifGen Require Import C09Tables.
Import ListNotations.
Open Scope string_scope.

(* ---------------------------------------------------------------- python values *)
(* truthiness of an optional string ("" and None are falsy) *)
Definition truthy_s (o : option string) : bool :=
  match o with Some s => negb (is_empty s) | None => false end.

(* `a or b` on optional strings where b is a string *)
Definition or_s (o : option string) (d : string) : string :=
  match o with Some s => if is_empty s then d else s | None => d end.

(* a configured option value of the idp section: absent, a boolean, or a string *)
Inductive cfgv := Unset | CB (b : bool) | CS (s : string).

(* Config.load_special: the strings "true" / "false" become booleans, anything else is kept *)
Definition load_special (v : cfgv) : cfgv :=
  match v with
  | CS s => if String.eqb s "true" then CB true else if String.eqb s "false" then CB false else CS s
  | _ => v
  end.

(* gather_authn_response_args: val_kw if not None else val_config if not None else default; what the
   later code looks at is the truthiness of the value (if sign: / if sign_assertion:) *)
Definition resolve (arg : option bool) (cfg : cfgv) (default : bool) : bool :=
  match arg with
  | Some b => b
  | None => match load_special cfg with
            | CB b => b
            | CS s => negb (is_empty s)
            | Unset => default
            end
  end.

(* ---------------------------------------------------------------- policy *)
Fixpoint assoc {A} (k : string) (l : list (string * A)) : option A :=
  match l with
  | [] => None
  | (k', v) :: r => if String.eqb k k' then Some v else assoc k r
  end.

(* a lifetime: keyword arguments of datetime.timedelta *)
Definition lifetime := list (string * Z).

Definition unit_us (u : string) : Z :=
  if String.eqb u "weeks" then 604800000000 else
  if String.eqb u "days" then 86400000000 else
  if String.eqb u "hours" then 3600000000 else
  if String.eqb u "minutes" then 60000000 else
  if String.eqb u "seconds" then 1000000 else
  if String.eqb u "milliseconds" then 1000 else
  if String.eqb u "microseconds" then 1 else 0.

Definition lifetime_us (l : lifetime) : Z :=
  fold_right (fun kv acc => snd kv * unit_us (fst kv) + acc)%Z 0%Z l.

(* time_util.in_a_while( **lifetime ): utcnow() + timedelta, printed without the fraction (the clock stands
   on a whole second) *)
Definition in_a_while (now : Z) (l : lifetime) : Z := (now + lifetime_us l / 1000000)%Z.

(* one section of the policy configuration, as far as this property reads it (None = key absent or None) *)
Record section := { s_lifetime : option lifetime; s_nameid_format : option string;
                    s_other : bool (* the section has some other key *) }.

(* a section written {} is an empty dict (falsy); compile() leaves it untouched (spec = spec or {}) *)
Definition section_empty (s : section) : bool :=
  match s_lifetime s, s_nameid_format s with None, None => negb (s_other s) | _, _ => false end.

(* Policy._restrictions: entity id / "default" / "" -> section, or None for `key: None`; [] = no restrictions *)
Definition policy := list (string * option section).

Definition dict_get (pol : policy) (k : string) : option section :=
  match assoc k pol with Some (Some s) => Some s | _ => None end.

(* Policy.get(attribute, sp_entity_id, default); ra = registration authority of sp_entity_id *)
Definition policy_get {A} (pol : policy) (attribute : section -> option A) (sp : string) (ra : option string)
    (default : A) : A :=
  match pol with
  | [] => default                                        (* if not self._restrictions *)
  | _ =>
    let sp_restrictions := dict_get pol sp in
    let ra_restrictions := match ra with Some r => dict_get pol r | None => None end in
    let default_restrictions :=                      (* get("default") or get("") *)
      match dict_get pol "default" with
      | Some s => if section_empty s then dict_get pol "" else Some s
      | None => dict_get pol ""
      end in
    let restrictions :=
      match sp_restrictions with
      | Some s => Some s
      | None => match ra_restrictions with
                | Some s => Some s
                | None => default_restrictions
                end
      end in
    match restrictions with
    | Some s => match attribute s with Some v => v | None => default end
    | None => default                                    (* {}.get(attribute) *)
    end
  end.

Definition get_lifetime (pol : policy) (sp : string) (ra : option string) : lifetime :=
  policy_get pol s_lifetime sp ra lifetime_default.

Definition get_nameid_format (pol : policy) (sp : string) (ra : option string) : string :=
  policy_get pol s_nameid_format sp ra nameid_format_default.

(* Policy.not_on_or_after *)
Definition not_on_or_after (now : Z) (pol : policy) (sp : string) (ra : option string) : Z :=
  in_a_while now (get_lifetime pol sp ra).

(* ---------------------------------------------------------------- name identifiers *)
(* the attributes of a NameID that matter here *)
Record nid := { n_format : option string; n_spnq : option string; n_nq : option string }.

(* samlp.NameIDPolicy as handed in by the caller *)
Record nidpolicy := { p_format : option string; p_spnq : option string }.

(* where the identifier in the assertion comes from *)
Inductive nsrc := Given | Reused (k : nat) | Fresh.

Fixpoint find_first {A} (p : A -> bool) (l : list A) (i : nat) : option (nat * A) :=
  match l with
  | [] => None
  | a :: r => if p a then Some (i, a) else find_first p r (S i)
  end.

(* IdentDB.find_nameid(userid, sp_name_qualifier=snq[, format=f]) over the user's stored identifiers:
   every given keyword must equal the attribute (None = attribute not set) *)
Definition find_nameid (stored : list nid) (snq : string) (fmt : option (option string)) : option (nat * nid) :=
  find_first (fun n => opt_eqb String.eqb (n_spnq n) (Some snq)
                       && match fmt with None => true | Some f => opt_eqb String.eqb (n_format n) f end)
             stored 0.

(* IdentDB.match_local_id(userid, sp_name_qualifier, name_qualifier), after "fix: match_local_id answered
   non-persistent identifiers to persistent_nameid" (9057a062): only persistent-format identifiers count *)
Definition match_local_id (stored : list nid) (spnq nq : string) : option (nat * nid) :=
  find_first (fun n =>
    opt_eqb String.eqb (n_format n) (Some NAMEID_FORMAT_PERSISTENT)
    && ((truthy_s (n_spnq n) && opt_eqb String.eqb (n_spnq n) (Some spnq))
        || (negb (truthy_s (n_spnq n)) && is_empty spnq))
    && ((truthy_s (n_nq n) && opt_eqb String.eqb (n_nq n) (Some nq))
        || (negb (truthy_s (n_nq n)) && is_empty nq)))
    stored 0.

(* ---------------------------------------------------------------- inputs *)
Record config := {
  c_entityid : string;
  c_sign_response : cfgv;                 (* service/idp/sign_response *)
  c_sign_assertion : cfgv;                (* service/idp/sign_assertion *)
  c_signing_algorithm : option string;    (* service/idp/signing_algorithm *)
  c_digest_algorithm : option string;     (* service/idp/digest_algorithm *)
  c_policy : policy;                      (* service/idp/policy *)
  c_domain : option string                (* service/idp/domain *)
}.

(* preset confirmation arguments (farg["assertion"]["subject"]["subject_confirmation"]...) *)
Record farg := { f_method : option string; f_irt : option string; f_recipient : option string }.

Definition attrs := list (string * list string).

Record args := {
  a_identity : attrs;
  a_in_response_to : option string;
  a_destination : string;
  a_sp : string;                                  (* sp_entity_id *)
  a_nidpolicy : option nidpolicy;                 (* name_id_policy *)
  a_name_id : option nid;                         (* name_id *)
  a_authn : option (option string * option string);   (* authn: class_ref, authn_auth *)
  a_issuer : option string;
  a_sign_response : option bool;
  a_sign_assertion : option bool;
  a_sign_alg : option string;
  a_digest_alg : option string;
  a_policy : option policy;                       (* release_policy *)
  a_farg : option farg
}.

Record input := {
  cfg : config;
  arg : args;
  ra : option string;          (* registration authority of the requester in the IdP's metadata *)
  stored : list nid;           (* identifiers the store holds for this user, oldest first *)
  now : Z;                     (* virtual clock: seconds since the epoch *)
  zone : Z                     (* time zone of the issuing process: its wall clock is `zone` seconds ahead of UTC at `now` *)
}.

(* ---------------------------------------------------------------- clock readings *)
(* What the code can ask the clock: time.gmtime() / time.time() / datetime.utcnow() / datetime.now(timezone.utc)
   answer UTC; time.localtime() / datetime.now() / datetime.today() answer the wall clock of the process time
   zone.  Both are printed the same way (strftime with a literal "Z"), so a wall reading ends up in the message as
   if it were UTC.  time_util.instant() reads gmtime(), time_util.in_a_while() reads utcnow(): the code as it is
   takes UTC readings only. *)
Inductive reading := UtcReading | WallReading.

Definition read (k : reading) (x : input) : Z :=
  match k with UtcReading => now x | WallReading => (now x + zone x)%Z end.

Definition in_zone (z : Z) (x : input) : input :=
  {| cfg := cfg x; arg := arg x; ra := ra x; stored := stored x; now := now x; zone := z |}.

(* ---------------------------------------------------------------- outputs *)
Record issued := {
  r_issuer : string;                     (* Response/Issuer *)
  r_in_response_to : option string;
  r_destination : option string;
  r_issue_instant : Z;
  i_issuer : string;                     (* Assertion/Issuer *)
  i_audiences : list (list string);      (* AudienceRestriction / Audience *)
  i_method : option string;              (* SubjectConfirmation/@Method *)
  i_recipient : option string;
  i_irt : option string;                 (* SubjectConfirmationData/@InResponseTo *)
  i_not_before : Z;                      (* Conditions/@NotBefore *)
  i_nooa_cond : Z;                       (* Conditions/@NotOnOrAfter *)
  i_nooa_sc : Z;                         (* SubjectConfirmationData/@NotOnOrAfter *)
  i_nameid : nid;
  i_nameid_src : nsrc;
  i_authn : option (option string * option string);  (* AuthnStatement: class ref, authenticating authority *)
  i_attributes : attrs;
  s_response : option (string * string);     (* Response signed: signature / digest algorithm *)
  s_assertion : option (string * string)     (* Assertion signed *)
}.

Inductive err := ENameId    (* SAMLError from the identifier store *)
               | EAlg.      (* Exception: algorithm not in the allowed list *)

Inductive outcome := Issued (r : issued) | Error (e : err).

(* ---------------------------------------------------------------- gather_authn_response_args *)
(* args["policy"]: release_policy if given, else the configured policy (always an object) *)
Definition the_policy (x : input) : policy :=
  match a_policy (arg x) with Some p => p | None => c_policy (cfg x) end.

(* snq: name_id_policy.sp_name_qualifier if truthy, else sp_entity_id (same in nim_args) *)
Definition snq_of (x : input) : string :=
  match a_nidpolicy (arg x) with
  | Some p => or_s (p_spnq p) (a_sp (arg x))
  | None => a_sp (arg x)
  end.

(* registration authority seen by a policy lookup under key k *)
Definition ra_for (x : input) (k : string) : option string :=
  if String.eqb k (a_sp (arg x)) then ra x else None.

(* IdentDB.nim_args as coded before d41562bb: the policy was asked for the format of the SPNameQualifier
   (kept for the refutation theorem and the regression class of Corr.cls) *)
Definition nim_format_v0 (x : input) : string :=
  match a_nidpolicy (arg x) with
  | Some p => if truthy_s (p_format p) then or_s (p_format p) ""
              else get_nameid_format (the_policy x) (snq_of x) (ra_for x (snq_of x))
  | None => get_nameid_format (the_policy x) (snq_of x) (ra_for x (snq_of x))
  end.

(* IdentDB.nim_args after "fix: nim_args looked the name-id format up under the SPNameQualifier instead of
   the requester" (d41562bb): the format of a constructed identifier is the requested one, else the one the
   policy configures for the requester *)
Definition nim_format (x : input) : string :=
  match a_nidpolicy (arg x) with
  | Some p => if truthy_s (p_format p) then or_s (p_format p) ""
              else get_nameid_format (the_policy x) (a_sp (arg x)) (ra x)
  | None => get_nameid_format (the_policy x) (a_sp (arg x)) (ra x)
  end.

(* IdentDB.get_nameid; name_qualifier = the provider's entity id; None = SAMLError *)
Definition get_nameid (x : input) (nformat : string) : option (nid * nsrc) :=
  let spnq := snq_of x in
  let nq := c_entityid (cfg x) in
  match (if String.eqb nformat NAMEID_FORMAT_PERSISTENT then match_local_id (stored x) spnq nq else None) with
  | Some (k, n) => Some (n, Reused k)
  | None =>
      if String.eqb nformat NAMEID_FORMAT_EMAILADDRESS && negb (truthy_s (c_domain (cfg x))) then None
      else Some ({| n_format := Some nformat; n_spnq := Some spnq; n_nq := Some nq |}, Fresh)
  end.

(* the format filter of the store search as coded before 9a92c673: the NameIDPolicy's Format attribute
   (possibly None) when a NameIDPolicy was given, no filter at all otherwise (kept for the refutation theorem
   and the regression class of Corr.cls) *)
Definition kwa_format_v0 (x : input) : option (option string) :=
  match a_nidpolicy (arg x) with Some p => Some (p_format p) | None => None end.

(* after "fix: without a requested Format an identifier of any format was re-used" (9a92c673):
   kwa["format"] = getattr(name_id_policy, "format", None) or args["policy"].get_nameid_format(sp_entity_id),
   i.e. the very format nim_args resolves for a constructed identifier *)
Definition kwa_format (x : input) : option (option string) := Some (Some (nim_format x)).

(* kwa = format filter of find_nameid; nformat = the format nim_args resolves for a constructed identifier *)
Definition choose_name_id_with (kwa : option (option string)) (nformat : string) (x : input) : option (nid * nsrc) :=
  match a_name_id (arg x) with
  | Some n => Some (n, Given)
  | None =>
      match find_nameid (stored x) (snq_of x) kwa with
      | Some (k, n) => Some (n, Reused k)
      | None => get_nameid x nformat
      end
  end.

Definition choose_name_id (x : input) : option (nid * nsrc) := choose_name_id_with (kwa_format x) (nim_format x) x.

(* ---------------------------------------------------------------- update_farg *)
Definition update_farg (in_response_to : option string) (consumer_url : string) (f : option farg) : farg :=
  match f with
  | None => {| f_method := Some SCM_BEARER; f_irt := in_response_to; f_recipient := Some consumer_url |}
  | Some g =>
      {| f_method := match f_method g with Some m => Some m | None => Some SCM_BEARER end;
         f_irt := match f_irt g with Some i => Some i | None => in_response_to end;
         f_recipient := match f_recipient g with Some r => Some r | None => Some consumer_url end |}
  end.

(* ---------------------------------------------------------------- Assertion.construct *)
(* assertion.authn_statement: the context is built from the class reference only *)
Definition authn_statement (a : option (option string * option string)) : option (option string * option string) :=
  match a with
  | None => None
  | Some (cls, auth) =>
      if truthy_s cls then Some (cls, if truthy_s auth then auth else None)
      else if truthy_s auth then Some (None, None)       (* AuthnStatement without AuthnContext *)
      else None
  end.

(* Entity._issuer *)
Definition issuer_of (x : input) : string := or_s (a_issuer (arg x)) (c_entityid (cfg x)).

(* ---------------------------------------------------------------- signing *)
Definition signing_algorithm (c : config) : string := or_s (c_signing_algorithm c) default_sign_alg.
Definition digest_algorithm (c : config) : string := or_s (c_digest_algorithm c) default_digest_alg.

Definition sign_alg_of (x : input) : string := or_s (a_sign_alg (arg x)) (signing_algorithm (cfg x)).
Definition digest_alg_of (x : input) : string := or_s (a_digest_alg (arg x)) (digest_algorithm (cfg x)).

Definition want_sign_response (x : input) : bool :=
  resolve (a_sign_response (arg x)) (c_sign_response (cfg x)) sign_response_default.
Definition want_sign_assertion (x : input) : bool :=
  resolve (a_sign_assertion (arg x)) (c_sign_assertion (cfg x)) sign_assertion_default.

(* _authn_response (encrypt_assertion false): the assertion gets its signature template when sign_assertion;
   _response: to_sign and not sign -> only those parts; sign -> Entity.sign (allowed-list test, then the
   Response template and all parts); otherwise nothing is signed.  None = Exception *)
Definition signatures (x : input) : option (option (string * string) * option (string * string)) :=
  let algs := (sign_alg_of x, digest_alg_of x) in
  let sa := if want_sign_assertion x then Some algs else None in
  if want_sign_response x then
    if mem (sign_alg_of x) sig_allowed && mem (digest_alg_of x) digest_allowed
    then Some (Some algs, sa) else None
  else Some (None, sa).

(* ---------------------------------------------------------------- create_authn_response *)
(* issue_clock: the reading behind IssueInstant / NotBefore (time_util.instant); expiry_clock: the reading behind
   the two NotOnOrAfter (Policy.not_on_or_after -> time_util.in_a_while) *)
Definition create_clocked (issue_clock expiry_clock : reading) (kwa : option (option string)) (nformat : string)
    (x : input) : outcome :=
  match choose_name_id_with kwa nformat x with
  | None => Error ENameId
  | Some (name_id, src) =>
      let a := arg x in
      let pol := the_policy x in
      let fa := update_farg (a_in_response_to a) (a_destination a) (a_farg a) in
      let nooa := not_on_or_after (read expiry_clock x) pol (a_sp a) (ra x) in
      match signatures x with
      | None => Error EAlg
      | Some (sr, sa) =>
          Issued {|
            r_issuer := issuer_of x;
            r_in_response_to := a_in_response_to a;
            r_destination := if is_empty (a_destination a) then None else Some (a_destination a);
            r_issue_instant := read issue_clock x;
            i_issuer := issuer_of x;
            i_audiences := [[a_sp a]];
            i_method := f_method fa;
            i_recipient := f_recipient fa;
            i_irt := f_irt fa;
            i_not_before := read issue_clock x;
            i_nooa_cond := nooa;
            i_nooa_sc := nooa;
            i_nameid := name_id;
            i_nameid_src := src;
            i_authn := authn_statement (a_authn a);
            i_attributes := a_identity a;
            s_response := sr;
            s_assertion := sa |}
      end
  end.

(* the code as it is: both readings are UTC readings *)
Definition create_with (kwa : option (option string)) (nformat : string) (x : input) : outcome :=
  create_clocked UtcReading UtcReading kwa nformat x.

Definition create (x : input) : outcome := create_with (kwa_format x) (nim_format x) x.

(* variants that take a wall-clock reading somewhere (NOT what the code does; kept for c09_wall_clock_refuted and
   for the diagnosis in Corr.explain): e.g. utcnow() replaced by now() in time_util.time_in_a_while is
   create_read UtcReading WallReading *)
Definition create_read (issue_clock expiry_clock : reading) (x : input) : outcome :=
  create_clocked issue_clock expiry_clock (kwa_format x) (nim_format x) x.

(* the behaviour before d41562bb (and before 9a92c673) *)
Definition create_v0 (x : input) : outcome := create_with (kwa_format_v0 x) (nim_format_v0 x) x.

(* the behaviour between d41562bb and 9a92c673: store search without the format in force *)
Definition create_f2_v0 (x : input) : outcome := create_with (kwa_format_v0 x) (nim_format x) x.

(* ---------------------------------------------------------------- the receiving side, by composition *)
From Verif Require C01.Model C04.Model C05.Model C06.Model.

(* an assertion consumer endpoint as WRITTEN in the requester's configuration (docs/howto/config.rst, "endpoints":
   "An endpoint specification can either be just the URL ... or a 2-tuple (URL+binding) ... or a 3-tuple
   (URL+binding+index)"); a tuple and a list are the same thing to the code (`type(endpspec) in (tuple, list)`).
   The index is kept as the decimal text the metadata shows for it. *)
Inductive acsconf :=
| ABare (url : string)
| APair (url bind : string)
| AIndexed (url bind idx : string).

(* Config.endpoint, the unpacking step: a tuple/list is cut to its first two members (`endpspec[0:2]`: the index of a
   triple is dropped), a str does not unpack (ValueError) and is kept as an endpoint without a binding *)
Definition conf_ep (e : acsconf) : C04.Model.epspec :=
  match e with
  | ABare u => C04.Model.Bare u
  | APair u b => C04.Model.EP u b
  | AIndexed u b _ => C04.Model.EP u b
  end.

Definition BINDING_HTTP_REDIRECT : string := "urn:oasis:names:tc:SAML:2.0:bindings:HTTP-Redirect".

(* a service provider built from the same metadata *)
Record spside := {
  sp_me : string;                              (* its entityID *)
  sp_idp : string;                             (* the IdP's entityID in its metadata *)
  sp_acs : list acsconf;                       (* its assertion consumer endpoints, as configured *)
  sp_binding : string;                         (* binding the Response arrives on *)
  sp_wr : C01.Model.optv;                      (* want_response_signed *)
  sp_wa : C01.Model.optv;                      (* want_assertions_signed *)
  sp_wor : C01.Model.optv;                     (* want_assertions_or_response_signed *)
  sp_atd : option Z;                           (* accepted_time_diff *)
  sp_allow_unsolicited : bool;
  sp_outstanding : list (string * string);     (* request id -> stored context *)
  sp_now : Z;                                  (* its clock *)
  sp_zone : Z                                  (* time zone of the receiving process, seconds ahead of UTC at sp_now;
                                                  no acceptance model reads it: all comparisons are made in UTC *)
}.

(* what Config.endpoint("assertion_consumer_service", ..) works on *)
Definition sp_specs (s : spside) : list C04.Model.epspec := map conf_ep (sp_acs s).

Definition sp_in_zone (z : Z) (s : spside) : spside :=
  {| sp_me := sp_me s; sp_idp := sp_idp s; sp_acs := sp_acs s; sp_binding := sp_binding s; sp_wr := sp_wr s;
     sp_wa := sp_wa s; sp_wor := sp_wor s; sp_atd := sp_atd s; sp_allow_unsolicited := sp_allow_unsolicited s;
     sp_outstanding := sp_outstanding s; sp_now := sp_now s; sp_zone := z |}.

Definition sigst_of (s : option (string * string)) : C01.Model.sigst :=
  match s with Some _ => C01.Model.Valid | None => C01.Model.Absent end.

Definition in01 (s : spside) (r : issued) : C01.Model.input :=
  {| C01.Model.o_wr := sp_wr s; C01.Model.o_wa := sp_wa s; C01.Model.o_wor := sp_wor s;
     C01.Model.rs := sigst_of (s_response r); C01.Model.as_ := sigst_of (s_assertion r);
     C01.Model.enc := false;
     C01.Model.binding := if String.eqb (sp_binding s) BINDING_HTTP_REDIRECT then C01.Model.Redirect else C01.Model.POST |}.

(* the unpacking step of Config.endpoint is a parameter, so that other readings of a specification can be named and
   refuted (Proofs.v: unpack_noslice, unpack_tuple_only) *)
Definition in04_with (unpack : list acsconf -> list C04.Model.epspec) (s : spside) (r : issued) : C04.Model.input :=
  {| C04.Model.me := sp_me s; C04.Model.specs := unpack (sp_acs s); C04.Model.binding := sp_binding s;
     C04.Model.rs := map (map (@Some string)) (i_audiences r);
     C04.Model.dest := r_destination r; C04.Model.conv := None; C04.Model.recip := i_recipient r |}.

Definition in04 (s : spside) (r : issued) : C04.Model.input := in04_with (map conf_ep) s r.

(* a reading without the slice (`endp, bind = endpspec` for every specification): a triple does not unpack, lands
   among the unspecified ones as the raw triple and equals no URL there, i.e. it is as good as not configured *)
Definition unpack_noslice (acs : list acsconf) : list C04.Model.epspec :=
  flat_map (fun e => match e with AIndexed _ _ _ => [] | _ => [conf_ep e] end) acs.

Definition in05 (s : spside) (r : issued) : C05.Model.input :=
  {| C05.Model.now := sp_now s; C05.Model.atd := sp_atd s;
     C05.Model.t := {| C05.Model.cnb := Some (i_not_before r, false);
                       C05.Model.cnooa := Some (i_nooa_cond r, false);
                       C05.Model.snb := None;
                       C05.Model.snooa := Some (i_nooa_sc r, false);
                       C05.Model.sess := None;
                       C05.Model.issue := (r_issue_instant r, false) |} |}.

Definition in06 (s : spside) (r : issued) : C06.Model.input :=
  {| C06.Model.allow_unsolicited := sp_allow_unsolicited s;
     C06.Model.outstanding := sp_outstanding s;
     C06.Model.irt := r_in_response_to r;
     C06.Model.version := (2, 0);
     C06.Model.status_top := VerifGen.C06Tables.STATUS_SUCCESS;
     C06.Model.status_second := None;
     C06.Model.assertions := [ {| C06.Model.n_authn := match i_authn r with Some _ => 1 | None => 0 end;
                                  C06.Model.subject := Some [C06.Model.Data (i_irt r)] |} ] |}.

(* what the four acceptance models do not look at: a signature is checked with the keys the metadata holds
   for the Issuer of the signed element, so that must be the provider the SP knows; the confirmation must be
   a bearer one; an AuthnStatement without an AuthnContext does not pass instance validation *)
Definition shape_ok (s : spside) (r : issued) : bool :=
  match s_response r with Some _ => String.eqb (r_issuer r) (sp_idp s) | None => true end
  && match s_assertion r with Some _ => String.eqb (i_issuer r) (sp_idp s) | None => true end
  && opt_eqb String.eqb (i_method r) (Some SCM_BEARER)
  && match i_authn r with Some (None, _) => false | _ => true end.

(* identity reported by the service provider: released attributes, expiry, stored context of the request *)
Definition sp_accepts_with (unpack : list acsconf -> list C04.Model.epspec) (s : spside) (r : issued)
  : option (attrs * Z * option string) :=
  if shape_ok s r && C01.Model.parse_response (in01 s r) && C04.Model.identity (in04_with unpack s r) then
    match C05.Model.accept (in05 s r), C06.Model.accept (in06 s r) with
    | C05.Model.Accept nooa, C06.Model.Identity cf => Some (i_attributes r, nooa, cf)
    | _, _ => None
    end
  else None.

Definition sp_accepts (s : spside) (r : issued) : option (attrs * Z * option string) :=
  sp_accepts_with (map conf_ep) s r.
