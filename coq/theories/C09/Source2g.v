(* C09/Source2g.v - Server.gather_authn_response_args as translated from the CURRENT source text
   (coq/gen/C09Src2g.v; harness/c09.py rewrites two call shapes first, see notes/C09.md) computes, for ALL inputs
   of the model: the policy entry = the_policy of the model; the sign_response / sign_assertion entries = argument,
   else configuration, else default (truthiness = want_sign_* of the model); the name_id entry = choose_name_id of
   the model (supplied, else found in the store under the SPNameQualifier and the format in force, else
   constructed); SAMLError exactly when the model refuses. *)
From Coq Require Import String Ascii List Bool ZArith.
From Verif Require Import Base.Str Base.Py Base.Py2 C09.Model C09.Source2.
From VerifGen Require Import C09Tables C09Src2 C09Src2g.
Import ListNotations.
Open Scope string_scope.

(* ================================================================== encodings *)
Definition enc_obool (o : option bool) : pyval := match o with Some b => PBool b | None => PNone end.
Definition enc_cfgv (v : cfgv) : pyval := match v with Unset => PNone | CB b => PBool b | CS s => PStr s end.

(* val_kw if val_kw is not None else val_config if val_config is not None else val_default, on values *)
Definition pick (kw cf d : pyval) : pyval :=
  match kw with PNone => match cf with PNone => d | _ => cf end | _ => kw end.

(* the value gather_authn_response_args stores for a signing option: [c] is the LOADED configuration value *)
Definition resolved (a : option bool) (c : cfgv) (d : bool) : pyval :=
  match a with
  | Some b => PBool b
  | None => match c with CB b => PBool b | CS s => PStr s | Unset => PBool d end
  end.

Lemma pick_resolved a c d : pick (enc_obool a) (enc_cfgv c) (PBool d) = resolved a c d.
Proof. destruct a as [[|]|]; destruct c as [|[|]|s]; reflexivity. Qed.

(* what the later code looks at (if sign: / if sign_assertion:) is the model's resolve *)
Lemma truthy_resolved a c d : py_truthy (resolved a (load_special c) d) = resolve a c d.
Proof. destruct a as [[|]|]; [reflexivity|reflexivity|]. unfold resolve, resolved. destruct (load_special c); reflexivity. Qed.

(* a NameID object; [txt] tells the sources apart *)
Definition enc_nameid (txt : string) (n : nid) : pyval :=
  PObj [("__class__", PStr "NameID"); ("format", enc_ostr (n_format n)); ("sp_name_qualifier", enc_ostr (n_spnq n));
        ("name_qualifier", enc_ostr (n_nq n)); ("text", PStr txt)].
Definition enc_onid (o : option nid) : pyval := match o with Some n => enc_nameid "given" n | None => PNone end.

Definition opt_entry (k : string) (o : option pyval) : list (string * pyval) :=
  match o with Some v => [(k, v)] | None => [] end.

(* a loop whose body leaves the state alone *)
Lemma pyfor2_skip xs st b : (forall y, In y xs -> b st y = NextS st) -> pyfor2 xs st b = NextS st.
Proof.
  induction xs as [|y r IH]; intros H; cbn [pyfor2]; [reflexivity|].
  rewrite (H y) by (left; reflexivity). apply IH. intros z Hz. apply H. right. exact Hz.
Qed.

(* an SP descriptor of the metadata without NameIDFormat elements (they are collected and never used) *)
Definition desc_ok (d : pyval) : bool :=
  match d with
  | PObj f => negb (is_obj f) && match assoc_py "name_id_format" f with None => true | Some _ => false end
  | _ => false
  end.

Definition enc_obj_opt (o : option pyval) : pyval := match o with Some v => v | None => PNone end.

(* evaluation of the closed parts of a translated body *)
Ltac ev :=
  cbn [p2_get p2_get3 p2_getitem s3 s2 s1 py_bind py_bindS py_bindh p2_bind is_obj key_of assoc_py
       String.eqb Ascii.eqb Bool.eqb p2_setitem dict_key_ok negb andb orb set_assoc p2_mkdict p2_mklist first_bad
       map snd fst p2_iter_check p2_iterable p2_items dict_view py_iter2 p2_unpack length Nat.eqb
       p2_branch py_truthy p2_or p2_and p2_not p2_is_none p2_is_not_none p2_in p2_not_in exc_matches mem
       is_empty].

Lemma ifexp_pick kw cf d :
  is_bad kw = false -> is_bad cf = false -> is_bad d = false ->
  p2_ifexp (p2_is_not_none kw) kw (p2_ifexp (p2_is_not_none cf) cf d) = pick kw cf d.
Proof. destruct kw, cf; intros; try discriminate; reflexivity. Qed.

Lemma pick_good kw cf d : is_bad kw = false -> is_bad cf = false -> is_bad d = false -> is_bad (pick kw cf d) = false.
Proof. destruct kw, cf; intros; try discriminate; try reflexivity; assumption. Qed.

Lemma enc_obj_opt_policy_good m o : is_bad (enc_obj_opt (option_map (enc_policy m) o)) = false.
Proof. destruct o; reflexivity. Qed.
Lemma enc_obool_good o : is_bad (enc_obool o) = false.
Proof. destruct o as [[|]|]; reflexivity. Qed.
Lemma enc_cfgv_good c : is_bad (enc_cfgv c) = false.
Proof. destruct c as [|[|]|s]; reflexivity. Qed.

Ltac evl :=
  cbn [p2_get p2_get3 p2_getitem s3 s2 s1 py_bind py_bindS py_bindh p2_bind is_obj key_of assoc_py
       String.eqb Ascii.eqb Bool.eqb p2_setitem dict_key_ok negb andb orb set_assoc p2_mkdict p2_mklist first_bad
       map snd fst p2_iter_check p2_iterable p2_items dict_view py_iter2 p2_unpack length Nat.eqb
       p2_branch py_truthy p2_or p2_and p2_not p2_is_none p2_is_not_none p2_in p2_not_in exc_matches mem
       is_empty pyfor2 as_z nth_index].
Ltac ev_term t :=
  eval cbn [p2_get p2_get3 p2_getitem s3 s2 s1 py_bind py_bindS py_bindh p2_bind is_obj key_of assoc_py
       String.eqb Ascii.eqb Bool.eqb p2_setitem dict_key_ok negb andb orb set_assoc p2_mkdict p2_mklist first_bad
       map snd fst p2_iter_check p2_iterable p2_items dict_view py_iter2 p2_unpack length Nat.eqb
       p2_branch py_truthy p2_or p2_and p2_not p2_is_none p2_is_not_none p2_in p2_not_in exc_matches mem
       is_empty pyfor2 as_z nth_index] in t.

(* evaluate the bound expression at the head of the goal; it must come out good *)
Ltac step_bind :=
  match goal with |- py_bind ?e ?k = ?R =>
    let e' := ev_term e in change (py_bind e' k = R); rewrite (py_bind_good e' k) by reflexivity; cbv beta end.
(* run the outermost loop (closed list, closed body) *)
Ltac run_loop :=
  match goal with |- context [pyfor2 ?xs ?st ?b] =>
    let L := fresh "L" in
    eassert (L : pyfor2 xs st b = _); [ evl; reflexivity | rewrite L; clear L; cbv beta iota ] end.

Lemma getitem0 h t : is_bad h = false -> p2_getitem (PList (h :: t)) (PInt 0) = h.
Proof.
  intros H. unfold p2_getitem. rewrite s2_good by reflexivity. cbn [as_z]. unfold nth_index.
  change (0 <? 0)%Z with false. cbv iota. change (0 <=? 0)%Z with true. cbn [andb length].
  destruct (0 <? Z.of_nat (S (length t)))%Z eqn:E; [reflexivity|]. apply Z.ltb_ge in E. exfalso.
  pose proof (Zle_0_nat (length t)). rewrite Nat2Z.inj_succ in E. apply (Z.lt_irrefl 0). eapply Z.lt_le_trans; [|exact E].
  apply Z.lt_succ_r. exact H0.
Qed.

Lemma Hbr s : p2_branch (p2_not (PStr s)) = if is_empty s then BTrue else BFalse.
Proof. cbn. destruct (is_empty s); reflexivity. Qed.

Section Gather.
  Variable registration_info : pyval -> pyval -> pyval.
  Variable mds : pyval.
  Variable ra_of : string -> option string.
  Hypothesis mds_object : is_object mds = true.
  Hypothesis registration_info_ok : forall sp, registration_info mds (PStr sp) = enc_ra (ra_of sp).
  Variable cfg_getattr : pyval -> pyval -> pyval -> pyval.          (* Config.getattr(self.config, attr, context) *)
  Variable enc_cert_ok : pyval -> pyval.                             (* the verify_encrypt_cert_* callables *)
  Variable find_nameid_ext : pyval -> pyval -> pyval -> pyval.       (* IdentDB.find_nameid(ident, userid, kwa) *)
  Variable construct_nameid_ext : pyval -> pyval -> pyval -> pyval -> pyval -> pyval.
  Variable text_of : nat -> string.
  Variable more : list pyval.                  (* further matches of the store search *)
  Variable descs : list pyval.                 (* the requester's SPSSODescriptors *)
  Variable x : input.
  Variable uid : string.

  Definition cfgobj : pyval := PObj [("__class__", PStr "IdPConfig")].

  (* the loaded idp configuration; encryption options and best_effort are not configured (assumption of C09) *)
  Definition cfg_val (n : string) : pyval :=
    if String.eqb n "policy" then enc_policy mds (c_policy (cfg x))
    else if String.eqb n "sign_response" then enc_cfgv (load_special (c_sign_response (cfg x)))
    else if String.eqb n "sign_assertion" then enc_cfgv (load_special (c_sign_assertion (cfg x)))
    else PNone.

  Definition enc_server : pyval :=
    PObj [("__class__", PStr "Server"); ("config", cfgobj);
          ("metadata", PObj [(a_sp (arg x), PObj [("spsso_descriptor", PList descs)])]);
          ("ident", self_db x)].

  (* the keyword arguments create_authn_response() hands over (no encryption, pefim off), plus the caller's
     release_policy / farg when given *)
  Definition enc_kwargs : pyval :=
    PObj ([("name_id", enc_onid (a_name_id (arg x)));
           ("sign_response", enc_obool (a_sign_response (arg x)));
           ("sign_assertion", enc_obool (a_sign_assertion (arg x)));
           ("encrypt_cert_advice", PNone); ("encrypt_cert_assertion", PNone); ("encrypt_assertion", PNone);
           ("encrypt_assertion_self_contained", PBool true); ("encrypted_advice_attributes", PBool false);
           ("pefim", PBool false)]
          ++ opt_entry "release_policy" (option_map (enc_policy mds) (a_policy (arg x)))
          ++ opt_entry "farg" (option_map enc_farg (a_farg (arg x))))%list.

  (* kwargs.get(p) after kwargs["policy"] = kwargs.get("release_policy") *)
  Definition kwv (p : string) : pyval :=
    if String.eqb p "name_id" then enc_onid (a_name_id (arg x))
    else if String.eqb p "sign_response" then enc_obool (a_sign_response (arg x))
    else if String.eqb p "sign_assertion" then enc_obool (a_sign_assertion (arg x))
    else if String.eqb p "encrypt_assertion_self_contained" then PBool true
    else if String.eqb p "encrypted_advice_attributes" then PBool false
    else if String.eqb p "pefim" then PBool false
    else if String.eqb p "release_policy" then enc_obj_opt (option_map (enc_policy mds) (a_policy (arg x)))
    else if String.eqb p "policy" then enc_obj_opt (option_map (enc_policy mds) (a_policy (arg x)))
    else if String.eqb p "farg" then enc_obj_opt (option_map enc_farg (a_farg (arg x)))
    else PNone.

  Definition kwa_dict (q f : string) : pyval := PObj [("sp_name_qualifier", PStr q); ("format", PStr f)].

  Definition enc_chosen (n : nid) (s : nsrc) : pyval :=
    match s with Given => enc_nameid "given" n | Reused k => enc_nameid (text_of k) n | Fresh => enc_nameid "fresh" n end.

  Hypothesis sp_not_class : String.eqb (a_sp (arg x)) "__class__" = false.
  Hypothesis descs_ok : forallb desc_ok descs = true.
  Hypothesis ra_ok : ra_of (a_sp (arg x)) = ra x.
  Hypothesis keys_the_policy : keys_ok (the_policy x) = true.
  Hypothesis cfg_getattr_ok : forall n, cfg_getattr cfgobj (PStr n) (PStr "idp") = cfg_val n.
  (* the store search answers the identifiers that carry the given SPNameQualifier and Format, oldest first *)
  Hypothesis find_nameid_ok : forall q f,
    find_nameid_ext (self_db x) (PStr uid) (kwa_dict q f)
    = match find_nameid (stored x) q (Some (Some f)) with
      | Some (k, n) => PList (enc_nameid (text_of k) n :: more)
      | None => PList []
      end.
  (* construct_nameid = nim_args, then get_nameid (c09_source2_nim_args, c09_source2_get_nameid) *)
  Hypothesis construct_nameid_ok :
    construct_nameid_ext (self_db x) (PStr uid) (enc_policy mds (the_policy x)) (PStr (a_sp (arg x)))
      (enc_nip (a_nidpolicy (arg x)))
    = match get_nameid x (nim_format x) with
      | Some (n, s) => enc_chosen n s
      | None => PExc "SAMLError"
      end.

  Definition args_dict (name_id : pyval) : pyval :=
    PObj ([("policy", enc_policy mds (the_policy x)); ("best_effort", PBool best_effort_default);
           ("sign_assertion", resolved (a_sign_assertion (arg x)) (load_special (c_sign_assertion (cfg x))) sign_assertion_default);
           ("sign_response", resolved (a_sign_response (arg x)) (load_special (c_sign_response (cfg x))) sign_response_default);
           ("encrypt_assertion", PBool encrypt_assertion_default); ("encrypt_assertion_self_contained", PBool true);
           ("encrypted_advice_attributes", PBool false); ("encrypt_cert_advice", PNone); ("encrypt_cert_assertion", PNone);
           ("name_id", name_id)]
          ++ opt_entry "farg" (option_map enc_farg (a_farg (arg x))))%list.

  Ltac good := unfold kwv, cfg_val; cbn [String.eqb Ascii.eqb Bool.eqb is_obj];
               first [reflexivity | apply enc_obool_good | apply enc_cfgv_good | apply enc_obj_opt_policy_good].

  Definition args_dict0 (name_id : pyval) : pyval :=
    PObj [("policy", enc_policy mds (the_policy x)); ("best_effort", PBool best_effort_default);
          ("sign_assertion", resolved (a_sign_assertion (arg x)) (load_special (c_sign_assertion (cfg x))) sign_assertion_default);
          ("sign_response", resolved (a_sign_response (arg x)) (load_special (c_sign_response (cfg x))) sign_response_default);
          ("encrypt_assertion", PBool encrypt_assertion_default); ("encrypt_assertion_self_contained", PBool true);
          ("encrypted_advice_attributes", PBool false); ("encrypt_cert_advice", PNone); ("encrypt_cert_assertion", PNone);
          ("name_id", name_id)].

  (* the last loop: args[param] = kwargs[param] for "status" (never given here) and "farg" *)
  Ltac final_loop :=
    cbn [py_iter2 pyfor2];
    match goal with H : p2_getitem _ (PStr "status") = _ |- _ => rewrite H end;
    cbn [py_bindS p2_bind exc_matches mem String.eqb Ascii.eqb Bool.eqb orb];
    match goal with H : p2_getitem _ (PStr "farg") = _ |- _ => rewrite H end;
    unfold args_dict, args_dict0;
    destruct (a_farg (arg x)) as [fg|]; cbn [option_map opt_entry app];
    [ rewrite (py_bindS_good _ (enc_farg fg)) by reflexivity; evl; reflexivity
    | cbn [py_bindS p2_bind exc_matches mem String.eqb Ascii.eqb Bool.eqb orb]; reflexivity ].

  (* from the SPNameQualifier on: the store search under (qualifier, format in force), else construction *)
  Ltac rw_aset tac :=
    match goal with H : forall v, is_bad v = false -> p2_setitem _ (PStr "name_id") v = _ |- _ => rewrite H by tac end.
  Ltac tail :=
    match goal with Hq : snq_of x = ?q |- _ =>
      cbn [p2_mkdict first_bad map snd py_bind];
      rewrite p2_setitem_dict by (reflexivity || discriminate);
      cbn [set_assoc String.eqb Ascii.eqb Bool.eqb];
      rewrite (py_bind_good (PObj _)) by reflexivity; cbv beta;
      rewrite (py_bind_good (PObj _)) by reflexivity; cbv beta;
      change (PObj [("sp_name_qualifier", PStr q); ("format", PStr (nim_format x))]) with (kwa_dict q (nim_format x));
      rewrite find_nameid_ok; unfold kwa_format; rewrite Hq;
      destruct (find_nameid (stored x) q (Some (Some (nim_format x)))) as [[k n]|];
      rewrite (py_bind_good (PList _)) by reflexivity; cbv beta;
      [ change (p2_branch (PList (enc_nameid (text_of k) n :: more))) with BTrue; cbv iota;
        rewrite getitem0 by reflexivity; rewrite (py_bind_good (enc_nameid _ _)) by reflexivity; cbv beta;
        rw_aset ltac:(reflexivity); rewrite py_bind_good by reflexivity; cbv beta; step_bind; final_loop
      | change (p2_branch (PList [])) with BFalse; cbv iota;
        destruct (get_nameid x (nim_format x)) as [[n s0]|]; [|reflexivity];
        rewrite (py_bind_good (enc_chosen n s0)) by (destruct s0; reflexivity); cbv beta;
        rw_aset ltac:(destruct s0; reflexivity); rewrite py_bind_good by reflexivity; cbv beta;
        step_bind; final_loop ]
    end.

  Theorem src2_gather_is_model :
    src2_gather registration_info cfg_getattr enc_cert_ok find_nameid_ext construct_nameid_ext
      enc_server (PStr (a_sp (arg x))) (enc_nip (a_nidpolicy (arg x))) (PStr uid) enc_kwargs
    = match choose_name_id x with
      | Some (n, s) => args_dict (enc_chosen n s)
      | None => PExc "SAMLError"
      end.
  Proof.
    unfold src2_gather. cbv zeta.
    (* kwargs after kwargs["policy"] = kwargs.get("release_policy"): kept abstract, known through its lookups *)
    assert (E0 : p2_get enc_kwargs (PStr "release_policy") = enc_obj_opt (option_map (enc_policy mds) (a_policy (arg x)))).
    { unfold enc_kwargs. destruct (a_policy (arg x)); destruct (a_farg (arg x)); reflexivity. }
    rewrite E0. rewrite py_bind_good by (destruct (a_policy (arg x)); reflexivity). cbv beta.
    match goal with |- py_bind ?e ?k = ?R => set (KW := e) end.
    assert (KWget : forall p, p2_get KW (PStr p) = kwv p).
    { intros p. unfold KW, enc_kwargs, kwv. destruct (a_policy (arg x)); destruct (a_farg (arg x));
        cbn [option_map opt_entry app enc_obj_opt]; unfold enc_policy; evl;
        repeat match goal with |- context [String.eqb p ?k] =>
                 let E := fresh "E" in destruct (String.eqb p k) eqn:E; [apply String.eqb_eq in E; subst p; reflexivity|] end;
        reflexivity. }
    assert (KWgood : is_bad KW = false).
    { unfold KW, enc_kwargs. destruct (a_policy (arg x)); destruct (a_farg (arg x)); reflexivity. }
    assert (KWpefim : p2_getitem KW (PStr "pefim") = PBool false).
    { unfold KW, enc_kwargs. destruct (a_policy (arg x)); destruct (a_farg (arg x)); reflexivity. }
    assert (KWhas : p2_not_in (PStr "name_id") KW = PBool false).
    { unfold KW, enc_kwargs. destruct (a_policy (arg x)); destruct (a_farg (arg x)); reflexivity. }
    assert (KWnid : p2_getitem KW (PStr "name_id") = enc_onid (a_name_id (arg x))).
    { unfold KW, enc_kwargs. destruct (a_policy (arg x)); destruct (a_farg (arg x)); reflexivity. }
    assert (KWstatus : p2_getitem KW (PStr "status") = PExc "KeyError").
    { unfold KW, enc_kwargs. destruct (a_policy (arg x)); destruct (a_farg (arg x)); reflexivity. }
    assert (KWfarg : p2_getitem KW (PStr "farg")
                     = match a_farg (arg x) with Some g => enc_farg g | None => PExc "KeyError" end).
    { unfold KW, enc_kwargs. destruct (a_policy (arg x)); destruct (a_farg (arg x)); reflexivity. }
    rewrite (py_bind_good KW) by exact KWgood. cbv beta. clearbody KW. clear E0.
    cbn [p2_mkdict first_bad map snd fst py_bind p2_iter_check p2_iterable p2_items dict_view s1 py_iter2 is_obj
         String.eqb Ascii.eqb Bool.eqb negb].
    (* the defaults loop: one step, for any parameter *)
    match goal with |- context [pyfor2 ?xs ?st ?b] =>
      assert (Hstep : forall p d vp vk vc f,
                is_obj f = false -> String.eqb p "__class__" = false ->
                is_bad (kwv p) = false -> is_bad (cfg_val p) = false -> is_bad d = false ->
                b [vp; vk; vc; PObj f] (PList [PStr p; d])
                = NextS [PStr p; kwv p; cfg_val p; PObj (set_assoc p (pick (kwv p) (cfg_val p) d) f)])
    end.
    { intros p d vp vk vc f Hf Hp Hk Hc Hd. cbn [p2_unpack length Nat.eqb].
      rewrite KWget. rewrite py_bindS_good by exact Hk. cbn [py_bind].
      change (p2_attr_x enc_server "config") with cfgobj. rewrite cfg_getattr_ok.
      rewrite py_bindS_good by exact Hc. rewrite ifexp_pick by assumption.
      rewrite py_bindS_good by (apply pick_good; assumption). cbn [py_bindS p2_bind].
      rewrite p2_setitem_dict by (try apply pick_good; try assumption; apply String.eqb_neq; exact Hp).
      reflexivity. }
    assert (Hpol : forall d, pick (kwv "policy") (cfg_val "policy") d = enc_policy mds (the_policy x)).
    { intros d. unfold the_policy, kwv, cfg_val. cbn [String.eqb Ascii.eqb Bool.eqb]. destruct (a_policy (arg x)); reflexivity. }
    match goal with |- context [pyfor2 ?xs ?st ?b] =>
      eassert (L1 : pyfor2 xs st b = NextS _);
      [ do 9 (rewrite pyfor2_cons; rewrite Hstep by good; cbv iota; cbn [set_assoc String.eqb Ascii.eqb Bool.eqb]);
        rewrite pyfor2_nil; rewrite Hpol; unfold kwv, cfg_val; cbn [String.eqb Ascii.eqb Bool.eqb];
        rewrite !pick_resolved; cbn [pick]; reflexivity
      | rewrite L1; clear L1 Hstep; cbv iota ]
    end.
    (* the encryption loop: nothing to do, neither option is set *)
    rewrite KWpefim. step_bind. run_loop.
    (* args after the two loops *)
    match goal with |- context [PObj (("policy", ?v) :: ?l)] => set (A := PObj (("policy", v) :: l)) end.
    assert (Apol : p2_getitem A (PStr "policy") = enc_policy mds (the_policy x)) by reflexivity.
    assert (Aset : forall v, is_bad v = false ->
              p2_setitem A (PStr "name_id") v = args_dict0 v).
    { intros v Hv. unfold A. rewrite p2_setitem_dict by (exact Hv || reflexivity || discriminate). reflexivity. }
    clearbody A.
    rewrite KWhas, KWnid.
    unfold choose_name_id, choose_name_id_with.
    destruct (a_name_id (arg x)) as [gn|]; cbn [enc_onid].
    - change (p2_branch (p2_or (PBool false) (p2_not (enc_nameid "given" gn)))) with BFalse. cbv iota.
      rewrite (py_bind_good (enc_nameid "given" gn)) by reflexivity. rewrite Aset by reflexivity.
      rewrite py_bind_good by reflexivity. step_bind.
      final_loop.
    - change (p2_branch (p2_or (PBool false) (p2_not PNone))) with BTrue. cbv iota.
      (* the requester's descriptors: NameIDFormat elements are collected and not used *)
      assert (Hmeta : p2_getitem (p2_getitem (p2_attr_x enc_server "metadata") (PStr (a_sp (arg x)))) (PStr "spsso_descriptor")
                      = PList descs).
      { unfold enc_server. cbn [p2_attr_x p2_attr_gen s1 py_bind is_obj assoc_py String.eqb Ascii.eqb Bool.eqb].
        cbn [p2_getitem s2 py_bind is_obj key_of assoc_py]. rewrite sp_not_class, String.eqb_refl. reflexivity. }
      rewrite Hmeta. cbn [p2_iter_check p2_iterable py_bind py_iter2].
      rewrite pyfor2_skip.
      2: { intros y Hy. pose proof (proj1 (forallb_forall desc_ok descs) descs_ok y Hy) as Hd.
           destruct y as [| | | | |f| |]; try discriminate. cbn [desc_ok] in Hd. apply andb_true_iff in Hd as [Hd1 Hd2].
           apply negb_true_iff in Hd1. rewrite p2_in_dict by exact Hd1.
           destruct (assoc_py "name_id_format" f); [discriminate|]. reflexivity. }
      cbv iota.
      (* what does not depend on the shape of the NameIDPolicy *)
      rewrite Apol. rewrite !(py_bind_good (enc_policy mds (the_policy x))) by reflexivity. cbv beta.
      rewrite (src2_get_nameid_format_is_model registration_info mds ra_of mds_object registration_info_ok
                 (the_policy x) (a_sp (arg x)) keys_the_policy), ra_ok.
      assert (Hfmt : p2_or (p2_getattr3 (enc_nip (a_nidpolicy (arg x))) "format" PNone)
                       (PStr (get_nameid_format (the_policy x) (a_sp (arg x)) (ra x))) = PStr (nim_format x)).
      { unfold nim_format. destruct (a_nidpolicy (arg x)) as [[f q]|]; [destruct f as [[|c s]|]|]; reflexivity. }
      rewrite Hfmt. clear Hfmt.
      rewrite !(py_bind_good (enc_nip (a_nidpolicy (arg x)))) by (destruct (a_nidpolicy (arg x)); reflexivity). cbv beta.
      change (p2_attr_x enc_server "ident") with (self_db x).
      rewrite construct_nameid_ok.
      cbn [py_bind].
      match goal with |- py_bindh ?H ?e ?K = ?R => set (Kc := K) end.
      assert (TailK : forall v, (v = PNone \/ exists q, v = PStr q) ->
                PStr (snq_of x) = (if py_truthy v then v else PStr (a_sp (arg x))) ->
                Kc v = match match find_nameid (stored x) (snq_of x) (kwa_format x) with
                             | Some (k, n) => Some (n, Reused k)
                             | None => get_nameid x (nim_format x)
                             end with
                       | Some (n, s) => args_dict (enc_chosen n s)
                       | None => PExc "SAMLError"
                       end).
      { intros v Hv Hs. unfold Kc. cbv beta. destruct Hv as [->|[q ->]].
        - change (p2_branch (p2_not PNone)) with BTrue. cbv iota. cbn [py_truthy] in Hs. injection Hs as Hq. tail.
        - rewrite Hbr. cbn [py_truthy] in Hs. destruct (is_empty q); cbn [negb] in Hs; injection Hs as Hq; cbv iota; tail. }
      destruct (a_nidpolicy (arg x)) as [[f q]|] eqn:Enip; cbn [enc_nip p_spnq].
      + change (p2_attr_x (PObj [("__class__", PStr "NameIDPolicy"); ("format", enc_ostr f); ("sp_name_qualifier", enc_ostr q)])
                  "sp_name_qualifier") with (enc_ostr q).
        rewrite py_bindh_good by (destruct q; reflexivity). apply TailK.
        * destruct q as [s|]; [right; exists s; reflexivity|left; reflexivity].
        * unfold snq_of. rewrite Enip. cbn [p_spnq]. destruct q as [[|c s]|]; reflexivity.
      + change (p2_attr_x PNone "sp_name_qualifier") with (PExc "AttributeError").
        rewrite py_bindh_exc. cbn [exc_matches mem String.eqb Ascii.eqb Bool.eqb orb].
        change (Kc (PStr (a_sp (arg x))) = match match find_nameid (stored x) (snq_of x) (kwa_format x) with
                             | Some (k, n) => Some (n, Reused k)
                             | None => get_nameid x (nim_format x)
                             end with
                       | Some (n, s) => args_dict (enc_chosen n s)
                       | None => PExc "SAMLError"
                       end).
        apply TailK.
        * right. eexists. reflexivity.
        * unfold snq_of. rewrite Enip. cbn [py_truthy]. destruct (negb (is_empty (a_sp (arg x)))); reflexivity.
  Qed.

End Gather.

(* the hypotheses about the external calls are satisfiable, for every input *)
Example gather_hypotheses_satisfiable : forall (mds : pyval) (text_of : nat -> string) (more : list pyval) (x : input) (uid : string),
  exists cfg_getattr find_ext construct_ext,
    (forall n, cfg_getattr cfgobj (PStr n) (PStr "idp") = cfg_val mds x n)
    /\ (forall q f, find_ext (self_db x) (PStr uid) (kwa_dict q f)
                    = match find_nameid (stored x) q (Some (Some f)) with
                      | Some (k, n) => PList (enc_nameid (text_of k) n :: more)
                      | None => PList []
                      end)
    /\ construct_ext (self_db x) (PStr uid) (enc_policy mds (the_policy x)) (PStr (a_sp (arg x)))
         (enc_nip (a_nidpolicy (arg x)))
       = match get_nameid x (nim_format x) with
         | Some (n, s) => enc_chosen text_of n s
         | None => PExc "SAMLError"
         end.
Proof.
  intros mds text_of more x uid.
  exists (fun _ p _ => match p with PStr n => cfg_val mds x n | _ => PErr end),
         (fun _ _ kwa => match p2_get kwa (PStr "sp_name_qualifier"), p2_get kwa (PStr "format") with
                         | PStr q, PStr f => match find_nameid (stored x) q (Some (Some f)) with
                                             | Some (k, n) => PList (enc_nameid (text_of k) n :: more)
                                             | None => PList []
                                             end
                         | _, _ => PErr
                         end),
         (fun _ _ _ _ _ => match get_nameid x (nim_format x) with
                           | Some (n, s) => enc_chosen text_of n s
                           | None => PExc "SAMLError"
                           end).
  repeat split.
Qed.

(* the stored signing options are looked at by truthiness (if sign: / if sign_assertion:): the model's demands *)
Theorem gather_signs_are_model : forall x,
  py_truthy (resolved (a_sign_response (arg x)) (load_special (c_sign_response (cfg x))) sign_response_default)
    = want_sign_response x
  /\ py_truthy (resolved (a_sign_assertion (arg x)) (load_special (c_sign_assertion (cfg x))) sign_assertion_default)
    = want_sign_assertion x.
Proof. intros x. split; apply truthy_resolved. Qed.
