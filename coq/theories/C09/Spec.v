(* C09/Spec.v — the property, stated over the call (configuration + arguments) and the OBSERVABLE Response.
   Written from the property text, not from the model:
     "Every authentication response an identity provider creates names the provider as issuer, restricts the
      audience to the requesting entity, carries bearer confirmation whose Recipient is the chosen consumer
      URL, whose InResponseTo is the request ID and whose expiry — like the Conditions window — is issue time
      plus the policy lifetime for that requester, uses the requested or policy-configured name-identifier
      format, and is signed on the Response and/or the assertion exactly as the call arguments or
      configuration demand.  A service provider built from the same metadata accepts it and recovers exactly
      the released attributes." *)
From Coq Require Import String List Bool ZArith.
From Verif Require C01.Model C04.Model.
From Verif Require Import Base.Str C09.Model.
From VerifGen Require Import C09Tables.
Import ListNotations.
Open Scope string_scope.

(* ------------------------------------------------------------ who is who *)
(* the provider's name: the caller may name the issuer explicitly, otherwise the configured entityID *)
Definition provider (x : input) : string :=
  match a_issuer (arg x) with
  | Some i => if String.eqb i "" then c_entityid (cfg x) else i
  | None => c_entityid (cfg x)
  end.

Definition requester (x : input) : string := a_sp (arg x).

(* the policy in force: the release policy handed to the call, else the configured one *)
Definition policy_in_force (x : input) : policy :=
  match a_policy (arg x) with Some p => p | None => c_policy (cfg x) end.

(* ------------------------------------------------------------ the policy section for a requester *)
Definition has (pol : policy) (k : string) (s : section) : Prop := assoc k pol = Some (Some s).
Definition lacks (pol : policy) (k : string) : Prop := assoc k pol = None \/ assoc k pol = Some None.

(* a "default" section that says nothing at all is as good as absent *)
Definition says_something (s : section) : Prop :=
  s_lifetime s <> None \/ s_nameid_format s <> None \/ s_other s = true.
Definition silent (s : section) : Prop :=
  s_lifetime s = None /\ s_nameid_format s = None /\ s_other s = false.
Definition no_default (pol : policy) : Prop :=
  lacks pol "default" \/ exists s, has pol "default" s /\ silent s.

(* most specific section: the requester's, else its registration authority's, else "default", else "" *)
Inductive applicable (pol : policy) (sp : string) (ra : option string) : option section -> Prop :=
| app_sp s : has pol sp s -> applicable pol sp ra (Some s)
| app_ra r s : lacks pol sp -> ra = Some r -> has pol r s -> applicable pol sp ra (Some s)
| app_default s : lacks pol sp -> (forall r, ra = Some r -> lacks pol r) -> has pol "default" s ->
    says_something s -> applicable pol sp ra (Some s)
| app_empty s : lacks pol sp -> (forall r, ra = Some r -> lacks pol r) -> no_default pol -> has pol "" s ->
    applicable pol sp ra (Some s)
| app_none : lacks pol sp -> (forall r, ra = Some r -> lacks pol r) -> no_default pol -> lacks pol "" ->
    applicable pol sp ra None.

(* length of a lifetime in microseconds: timedelta keywords *)
Definition units : list (string * Z) :=
  [("weeks", 7 * 24 * 3600 * 1000000); ("days", 24 * 3600 * 1000000); ("hours", 3600 * 1000000);
   ("minutes", 60 * 1000000); ("seconds", 1000000); ("milliseconds", 1000); ("microseconds", 1)]%Z.

Definition micro (l : lifetime) : Z :=
  fold_left (fun acc kv => acc + match assoc (fst kv) units with Some u => snd kv * u | None => 0 end)%Z l 0%Z.

(* documented defaults: one hour; transient identifiers; nothing is signed *)
Definition ONE_HOUR : lifetime := [("hours", 1%Z)].
Definition TRANSIENT : string := "urn:oasis:names:tc:SAML:2.0:nameid-format:transient".
Definition BEARER : string := "urn:oasis:names:tc:SAML:2.0:cm:bearer".

Definition lifetime_of (sec : option section) : lifetime :=
  match sec with
  | Some s => match s_lifetime s with Some l => l | None => ONE_HOUR end
  | None => ONE_HOUR
  end.

Definition format_of (sec : option section) : string :=
  match sec with
  | Some s => match s_nameid_format s with Some f => f | None => TRANSIENT end
  | None => TRANSIENT
  end.

(* expiry = issue time + lifetime, in whole seconds *)
Definition expiry (issue : Z) (l : lifetime) : Z := (issue + micro l / 1000000)%Z.

(* ------------------------------------------------------------ the confirmation data *)
(* a value the caller preset in the confirmation arguments wins over the one derived from the request *)
Definition preset {A} (f : farg -> option A) (x : input) : option A :=
  match a_farg (arg x) with Some g => f g | None => None end.

Definition chosen (p : option string) (d : string) : string := match p with Some v => v | None => d end.

(* ------------------------------------------------------------ name identifier format *)
Definition requested_format (x : input) : option string :=
  match a_nidpolicy (arg x) with
  | Some p => match p_format p with
              | Some f => if String.eqb f "" then None else Some f
              | None => None
              end
  | None => None
  end.

Definition nameid_ok (x : input) (r : issued) : Prop :=
  match a_name_id (arg x) with
  | Some n => i_nameid r = n                                   (* the caller supplied the identifier *)
  | None =>
      match requested_format x with
      | Some f => n_format (i_nameid r) = Some f               (* the requested format *)
      | None => forall sec, applicable (policy_in_force x) (requester x) (ra x) sec ->
                            n_format (i_nameid r) = Some (format_of sec)   (* the policy-configured one *)
      end
  end.

(* ------------------------------------------------------------ scope *)
Definition scope (x : input) (r : issued) : Prop :=
  r_issuer r = provider x /\ i_issuer r = provider x
  /\ i_audiences r = [[requester x]]
  /\ i_method r = Some (chosen (preset f_method x) BEARER)
  /\ i_recipient r = Some (chosen (preset f_recipient x) (a_destination (arg x)))
  /\ i_irt r = match preset f_irt x with Some i => Some i | None => a_in_response_to (arg x) end
  /\ r_in_response_to r = a_in_response_to (arg x)
  /\ (a_destination (arg x) <> "" -> r_destination r = Some (a_destination (arg x)))
  /\ r_issue_instant r = now x /\ i_not_before r = now x
  /\ (forall sec, applicable (policy_in_force x) (requester x) (ra x) sec ->
        i_nooa_cond r = expiry (now x) (lifetime_of sec) /\ i_nooa_sc r = expiry (now x) (lifetime_of sec))
  /\ i_attributes r = a_identity (arg x).

(* ------------------------------------------------------------ signing *)
(* what the call demands: the argument when given; else the configured value, where a string counts as true
   unless it is empty or "false"; else not signed *)
Definition demanded (a : option bool) (c : cfgv) : bool :=
  match a with
  | Some b => b
  | None => match c with
            | Unset => false
            | CB b => b
            | CS s => negb (String.eqb s "") && negb (String.eqb s "false")
            end
  end.

Definition first_nonempty (a b : option string) (d : string) : string :=
  match a with
  | Some s => if String.eqb s "" then (match b with Some t => if String.eqb t "" then d else t | None => d end) else s
  | None => match b with Some t => if String.eqb t "" then d else t | None => d end
  end.

Definition algorithms (x : input) : string * string :=
  (first_nonempty (a_sign_alg (arg x)) (c_signing_algorithm (cfg x)) default_sign_alg,
   first_nonempty (a_digest_alg (arg x)) (c_digest_algorithm (cfg x)) default_digest_alg).

Definition signed_as_demanded (x : input) (r : issued) : Prop :=
  (s_response r <> None <-> demanded (a_sign_response (arg x)) (c_sign_response (cfg x)) = true)
  /\ (s_assertion r <> None <-> demanded (a_sign_assertion (arg x)) (c_sign_assertion (cfg x)) = true)
  /\ (forall al, s_response r = Some al -> al = algorithms x)
  /\ (forall al, s_assertion r = Some al -> al = algorithms x).

(* ------------------------------------------------------------ refusals *)
(* no Response is created only for a reason the caller can see: an e-mail identifier without a configured
   domain, or a signed Response demanded with an algorithm outside the allowed lists *)
Definition refusal_ok (x : input) (e : err) : Prop :=
  match e with
  | ENameId => a_name_id (arg x) = None /\ truthy_s (c_domain (cfg x)) = false
  | EAlg => demanded (a_sign_response (arg x)) (c_sign_response (cfg x)) = true
            /\ (~ In (fst (algorithms x)) sig_allowed \/ ~ In (snd (algorithms x)) digest_allowed)
  end.

(* ------------------------------------------------------------ the property on an outcome *)
Definition spec (x : input) (o : outcome) : Prop :=
  match o with
  | Issued r => scope x r /\ nameid_ok x r /\ signed_as_demanded x r
  | Error e => refusal_ok x e
  end.

(* ============================================================ boolean versions (evaluated on observed output) *)
Definition present (pol : policy) (k : string) : option section :=
  match assoc k pol with Some (Some s) => Some s | _ => None end.

Definition silent_b (s : section) : bool :=
  match s_lifetime s, s_nameid_format s, s_other s with None, None, false => true | _, _, _ => false end.

Definition applicable_f (pol : policy) (sp : string) (ra : option string) : option section :=
  match present pol sp with
  | Some s => Some s
  | None =>
      match (match ra with Some r => present pol r | None => None end) with
      | Some s => Some s
      | None => match present pol "default" with
                | Some s => if silent_b s then present pol "" else Some s
                | None => present pol ""
                end
      end
  end.

Definition nid_eqb (a b : nid) : bool :=
  opt_eqb String.eqb (n_format a) (n_format b) && opt_eqb String.eqb (n_spnq a) (n_spnq b)
  && opt_eqb String.eqb (n_nq a) (n_nq b).

Definition nameid_ok_b (x : input) (r : issued) : bool :=
  match a_name_id (arg x) with
  | Some n => nid_eqb (i_nameid r) n
  | None =>
      match requested_format x with
      | Some f => opt_eqb String.eqb (n_format (i_nameid r)) (Some f)
      | None => opt_eqb String.eqb (n_format (i_nameid r))
                  (Some (format_of (applicable_f (policy_in_force x) (requester x) (ra x))))
      end
  end.

Definition attrs_eqb (a b : attrs) : bool :=
  list_eqb (fun p q => String.eqb (fst p) (fst q) && list_eqb String.eqb (snd p) (snd q)) a b.

Definition scope_b (x : input) (r : issued) : bool :=
  let e := expiry (now x) (lifetime_of (applicable_f (policy_in_force x) (requester x) (ra x))) in
  String.eqb (r_issuer r) (provider x) && String.eqb (i_issuer r) (provider x)
  && list_eqb (list_eqb String.eqb) (i_audiences r) [[requester x]]
  && opt_eqb String.eqb (i_method r) (Some (chosen (preset f_method x) BEARER))
  && opt_eqb String.eqb (i_recipient r) (Some (chosen (preset f_recipient x) (a_destination (arg x))))
  && opt_eqb String.eqb (i_irt r) (match preset f_irt x with Some i => Some i | None => a_in_response_to (arg x) end)
  && opt_eqb String.eqb (r_in_response_to r) (a_in_response_to (arg x))
  && (String.eqb (a_destination (arg x)) "" || opt_eqb String.eqb (r_destination r) (Some (a_destination (arg x))))
  && (r_issue_instant r =? now x)%Z && (i_not_before r =? now x)%Z
  && (i_nooa_cond r =? e)%Z && (i_nooa_sc r =? e)%Z
  && attrs_eqb (i_attributes r) (a_identity (arg x)).

Definition some_b {A} (o : option A) : bool := match o with Some _ => true | None => false end.

Definition algs_eqb (a b : string * string) : bool := String.eqb (fst a) (fst b) && String.eqb (snd a) (snd b).

Definition signed_as_demanded_b (x : input) (r : issued) : bool :=
  Bool.eqb (some_b (s_response r)) (demanded (a_sign_response (arg x)) (c_sign_response (cfg x)))
  && Bool.eqb (some_b (s_assertion r)) (demanded (a_sign_assertion (arg x)) (c_sign_assertion (cfg x)))
  && match s_response r with Some al => algs_eqb al (algorithms x) | None => true end
  && match s_assertion r with Some al => algs_eqb al (algorithms x) | None => true end.

Definition refusal_ok_b (x : input) (e : err) : bool :=
  match e with
  | ENameId => negb (some_b (a_name_id (arg x))) && negb (truthy_s (c_domain (cfg x)))
  | EAlg => demanded (a_sign_response (arg x)) (c_sign_response (cfg x))
            && (negb (mem (fst (algorithms x)) sig_allowed) || negb (mem (snd (algorithms x)) digest_allowed))
  end.

Definition spec_b (x : input) (o : outcome) : bool :=
  match o with
  | Issued r => scope_b x r && nameid_ok_b x r && signed_as_demanded_b x r
  | Error e => refusal_ok_b x e
  end.

(* ------------------------------------------------------------ the two repaired finding classes (inputs) *)
(* the identifier store holds nothing for this user under the qualifier in force *)
Definition store_fresh (x : input) : Prop :=
  forall n, In n (stored x) -> n_spnq n <> Some (snq_of x).

(* the request does not move the identifier into another namespace than the requester's own *)
Definition own_namespace (x : input) : Prop := snq_of x = requester x.

(* No guard is left: C09-F1 (format looked up under the SPNameQualifier; inputs outside own_namespace) was
   repaired by d41562bb and C09-F2 (stored identifier re-used whatever its format; inputs outside store_fresh)
   by 9a92c673.  Not part of the property text and therefore not of this spec: WHICH identifier of the right
   format is used (a stored transient identifier of the format in force is handed out again: freshness is
   C18's ground). *)

(* ------------------------------------------------------------ end to end *)
(* the receiving service provider is built from the same metadata, has sent the request, wants no more
   signatures than were made, and its clock is within the lifetime (and within a day of the issue time) *)
Definition in_force01 (v : C01.Model.optv) (documented_default : bool) : bool :=
  match v with C01.Model.Unset => documented_default | C01.Model.B b => b | C01.Model.StrTrue => true end.

(* the consumer URLs a requester's metadata publishes, each with its binding, given the endpoint specifications of
   its configuration in any of the three documented spellings: a specification that names a binding publishes its
   URL under that binding (the index only numbers the element), a bare URL is published under the default binding
   of the service (metadata.DEFAULT_BINDING, read from the live module into the generated table) *)
Definition published_as (e : acsconf) : string * string :=
  match e with
  | ABare u => (u, acs_default_binding)
  | APair u b => (u, b)
  | AIndexed u b _ => (u, b)
  end.

Definition published (acs : list acsconf) : list (string * string) := map published_as acs.

(* "the chosen consumer URL": the call's destination d is one of the URLs the requester publishes for the binding
   the Response travels on *)
Definition same_federation (x : input) (s : spside) (d ctx : string) : Prop :=
  sp_me s = requester x /\ sp_idp s = c_entityid (cfg x)
  /\ requester x <> "" /\ no_outer_ws (requester x) = true
  /\ a_destination (arg x) = d /\ d <> "" /\ In (d, sp_binding s) (published (sp_acs s))
  /\ exists i, a_in_response_to (arg x) = Some i /\ assoc i (sp_outstanding s) = Some ctx.

Definition plain_call (x : input) : Prop :=
  (a_issuer (arg x) = None \/ a_issuer (arg x) = Some "")
  /\ a_farg (arg x) = None
  /\ exists c, a_authn (arg x) = Some (Some c, None) /\ c <> "".

Definition demands_met (s : spside) (r : issued) : Prop :=
  (in_force01 (sp_wr s) true = true -> s_response r <> None)
  /\ (in_force01 (sp_wa s) false = true -> s_assertion r <> None)
  /\ (in_force01 (sp_wor s) false = true -> s_response r <> None \/ s_assertion r <> None).

Definition slack (s : spside) : Z := match sp_atd s with Some z => z | None => 0%Z end.

Definition clock_within (s : spside) (r : issued) : Prop :=
  (0 <= slack s /\ r_issue_instant r <= sp_now s /\ sp_now s <= i_nooa_cond r
   /\ sp_now s - r_issue_instant r <= 86400)%Z.

(* ------------------------------------------------------------ end to end, boolean *)
Definition is_pub (d b : string) (p : string * string) : bool := String.eqb (fst p) d && String.eqb (snd p) b.

(* open finding C09-F3 (class 3): the chosen consumer URL is published only by a BARE specification while some other
   specification of the same configuration names the binding the Response travels on.  (Config.endpoint hands out
   the bare URLs only when no specification names the binding asked for.) *)
Definition names_url_binding (d b : string) (e : acsconf) : bool :=
  match e with
  | ABare _ => false
  | APair u b' => String.eqb u d && String.eqb b' b
  | AIndexed u b' _ => String.eqb u d && String.eqb b' b
  end.
Definition names_binding (b : string) (e : acsconf) : bool :=
  match e with
  | ABare _ => false
  | APair _ b' => String.eqb b' b
  | AIndexed _ b' _ => String.eqb b' b
  end.
Definition bare_shadowed_b (acs : list acsconf) (d b : string) : bool :=
  negb (existsb (names_url_binding d b) acs) && existsb (names_binding b) acs.
Definition bare_shadowed (acs : list acsconf) (d b : string) : Prop :=
  (forall e, In e acs -> names_url_binding d b e = false) /\ exists e, In e acs /\ names_binding b e = true.

Definition plain_call_b (x : input) : bool :=
  match a_issuer (arg x) with None => true | Some i => String.eqb i "" end
  && negb (some_b (a_farg (arg x)))
  && match a_authn (arg x) with Some (Some c, None) => negb (String.eqb c "") | _ => false end.

Definition demands_met_b (s : spside) (r : issued) : bool :=
  implb (in_force01 (sp_wr s) true) (some_b (s_response r))
  && implb (in_force01 (sp_wa s) false) (some_b (s_assertion r))
  && implb (in_force01 (sp_wor s) false) (some_b (s_response r) || some_b (s_assertion r)).

Definition clock_within_b (s : spside) (r : issued) : bool :=
  ((0 <=? slack s) && (r_issue_instant r <=? sp_now s) && (sp_now s <=? i_nooa_cond r)
   && (sp_now s - r_issue_instant r <=? 86400))%Z.

(* Some ctx = all hypotheses of the end-to-end clause hold and ctx is the context stored with the request *)
Definition e2e_hyp_b (x : input) (s : spside) (r : issued) : option string :=
  let d := a_destination (arg x) in
  if String.eqb (sp_me s) (requester x) && String.eqb (sp_idp s) (c_entityid (cfg x))
     && negb (String.eqb (requester x) "") && no_outer_ws (requester x)
     && negb (String.eqb d "") && existsb (is_pub d (sp_binding s)) (published (sp_acs s))
     && plain_call_b x && demands_met_b s r && clock_within_b s r
  then match a_in_response_to (arg x) with Some i => assoc i (sp_outstanding s) | None => None end
  else None.

(* the identity the service provider must report: the released attributes, the expiry, the stored context *)
Definition e2e_b (x : input) (s : spside) (r : issued) (so : option (attrs * Z * option string)) : bool :=
  match e2e_hyp_b x s r with
  | Some ctx =>
      match so with
      | Some (av, nooa, cf) =>
          attrs_eqb av (a_identity (arg x)) && (nooa =? i_nooa_cond r)%Z && opt_eqb String.eqb cf (Some ctx)
      | None => false
      end
  | None => true
  end.
