(* C09/Property.v — property theorems only. *)
From Coq Require Import String List Bool ZArith.
From Verif Require Import Base.Str C09.Model C09.Spec C09.Proofs.
From VerifGen Require Import C09Tables.
Import ListNotations.
Open Scope string_scope.

(* C09 scope: for every configuration, argument combination, policy, identifier store and clock, a created
   Response names the provider as issuer, restricts the audience to the requester, carries a bearer confirmation
   with the chosen Recipient / InResponseTo and the expiry issue time + policy lifetime of that requester in both
   places, and releases the identity; the name identifier is the supplied one, else has the requested format,
   else the format the policy configures for the requester — whatever the identifier store holds (no guard). *)
Theorem c09_scope : forall x r, create x = Issued r -> scope x r /\ nameid_ok x r.
Proof. intros x r H. split; [exact (scope_holds x r H)|exact (nameid_holds x r H)]. Qed.
Print Assumptions c09_scope.

(* C09 sign: the Response and/or the assertion are signed exactly as argument > configuration > default (not
   signed) demand, with the algorithms argument > configuration > library default *)
Theorem c09_sign : forall x r, create x = Issued r -> signed_as_demanded x r.
Proof. exact sign_holds. Qed.
Print Assumptions c09_sign.

(* the whole property on the outcome of every call, refusals included *)
Theorem c09_spec : forall x, spec x (create x).
Proof. exact spec_holds. Qed.
Print Assumptions c09_spec.

(* a call is refused only for a visible reason, and never when the subject can be named and the algorithms
   are allowed *)
Theorem c09_refusals : forall x e, create x = Error e -> refusal_ok x e.
Proof. exact refusal_holds. Qed.
Print Assumptions c09_refusals.

Theorem c09_issues : forall x,
  (a_name_id (arg x) <> None \/ truthy_s (c_domain (cfg x)) = true) ->
  (demanded (a_sign_response (arg x)) (c_sign_response (cfg x)) = false
   \/ (In (fst (algorithms x)) sig_allowed /\ In (snd (algorithms x)) digest_allowed)) ->
  exists r, create x = Issued r.
Proof. exact issues. Qed.
Print Assumptions c09_issues.

(* C09 end to end: the acceptance model (C01 signature policy, C04 addressing, C05 time windows, C06
   correlation and shape, composed) of a service provider built from the same metadata, which sent the request,
   wants no more signatures than were made and whose clock is within the lifetime, accepts the Response and
   reports exactly the released attributes, the expiry and the stored context of the request *)
Theorem c09_e2e : forall x r s d ctx,
  create x = Issued r ->
  same_federation x s d ctx -> plain_call x -> demands_met s r -> clock_within s r ->
  sp_accepts s r = Some (a_identity (arg x), i_nooa_cond r, Some ctx).
Proof. exact e2e_holds. Qed.
Print Assumptions c09_e2e.

(* the boolean clauses evaluated on the implementation's recorded outputs are the stated ones *)
Theorem c09_spec_reflect : forall x o, spec_b x o = true <-> spec x o.
Proof. exact spec_b_iff. Qed.
Print Assumptions c09_spec_reflect.

Theorem c09_e2e_reflect : forall x s r ctx,
  e2e_hyp_b x s r = Some ctx ->
  exists d, same_federation x s d ctx /\ plain_call x /\ demands_met s r /\ clock_within s r.
Proof. exact e2e_hyp_sound. Qed.
Print Assumptions c09_e2e_reflect.

(* the layered policy lookup of the code is the "most specific section" relation of the property text *)
Theorem c09_policy_lookup : forall pol sp ra sec,
  applicable pol sp ra sec ->
  get_lifetime pol sp ra = lifetime_of sec /\ get_nameid_format pol sp ra = format_of sec.
Proof.
  intros pol sp ra sec H. apply applicable_fun in H. rewrite get_lifetime_spec, get_nameid_format_spec, H. split; reflexivity.
Qed.
Print Assumptions c09_policy_lookup.

(* C09-F1, repaired by d41562bb: the behaviour before the repair (format looked up under a foreign
   SPNameQualifier) violated the property on an input with a fresh store; the repaired code satisfies it there *)
Theorem c09_f1_v0_refuted :
  exists x, ~ spec x (create_v0 x) /\ store_fresh x /\ ~ own_namespace x /\ requested_format x = None
            /\ spec x (create x).
Proof.
  exists witness_f1. split; [exact f1_v0_refuted|].
  destruct f1_outside as (A & B & C). split; [exact A|split; [exact B|split; [exact C|apply spec_holds]]].
Qed.
Print Assumptions c09_f1_v0_refuted.

(* C09-F2, repaired by 9a92c673: the behaviour before the repair (store searched without the format in force)
   violated the property on an input whose store holds an earlier identifier of another format, in the
   requester's own namespace and without a requested Format; the repaired code satisfies it there *)
Theorem c09_f2_v0_refuted :
  exists x, ~ spec x (create_f2_v0 x) /\ ~ store_fresh x /\ own_namespace x /\ requested_format x = None
            /\ spec x (create x).
Proof.
  exists witness_f2. split; [exact f2_v0_refuted|].
  destruct f2_outside as (A & B & C). split; [exact A|split; [exact B|split; [exact C|apply spec_holds]]].
Qed.
Print Assumptions c09_f2_v0_refuted.

(* regenerated-table obligation: the defaults in the source are the documented ones *)
Theorem c09_defaults :
  sign_response_default = false /\ sign_assertion_default = false /\ encrypt_assertion_default = false
  /\ encrypted_advice_attributes_default = false
  /\ lifetime_default = ONE_HOUR /\ nameid_format_default = TRANSIENT /\ SCM_BEARER = BEARER.
Proof. exact table_defaults. Qed.
Print Assumptions c09_defaults.
