(* C09/Property.v — property theorems only. *)
From Coq Require Import String List Bool ZArith.
From Verif Require Import Base.Str C09.Model C09.Spec C09.Proofs.
From Verif Require Import Base.Py Base.Py2 C09.Source2 C09.Source2g.
From Verif Require C04.Model C09.Source2e.
From VerifGen Require Import C09Tables C09Src2 C09Src2g.
From VerifGen Require C09Src2e.
Import ListNotations.
Open Scope string_scope.

(* C09 scope: for every configuration, argument combination, policy, identifier store and clock, a created
   Response names the provider as issuer, restricts the audience to the requester, carries a bearer confirmation
   with the chosen Recipient / InResponseTo and the expiry issue time + policy lifetime of that requester in both
   places, and releases the identity; the name identifier is the supplied one, else has the requested format,
   else the format the policy configures for the requester — whatever the identifier store holds (no guard). *)
Theorem c09_scope : forall x r, create x = Issued r -> scope x r /\ nameid_ok x r.
Proof. intros x r H. split; [exact (scope_holds x r H)|exact (nameid_holds x r H)]. Qed.
Print Assumptions c09_scope.

(* C09 sign: the Response and/or the assertion are signed exactly as argument > configuration > default (not
   signed) demand, with the algorithms argument > configuration > library default *)
Theorem c09_sign : forall x r, create x = Issued r -> signed_as_demanded x r.
Proof. exact sign_holds. Qed.
Print Assumptions c09_sign.

(* the whole property on the outcome of every call, refusals included *)
Theorem c09_spec : forall x, spec x (create x).
Proof. exact spec_holds. Qed.
Print Assumptions c09_spec.

(* a call is refused only for a visible reason, and never when the subject can be named and the algorithms
   are allowed *)
Theorem c09_refusals : forall x e, create x = Error e -> refusal_ok x e.
Proof. exact refusal_holds. Qed.
Print Assumptions c09_refusals.

Theorem c09_issues : forall x,
  (a_name_id (arg x) <> None \/ truthy_s (c_domain (cfg x)) = true) ->
  (demanded (a_sign_response (arg x)) (c_sign_response (cfg x)) = false
   \/ (In (fst (algorithms x)) sig_allowed /\ In (snd (algorithms x)) digest_allowed)) ->
  exists r, create x = Issued r.
Proof. exact issues. Qed.
Print Assumptions c09_issues.

(* C09 end to end: the acceptance model (C01 signature policy, C04 addressing, C05 time windows, C06
   correlation and shape, composed) of a service provider built from the same metadata, which sent the request,
   wants no more signatures than were made and whose clock is within the lifetime, accepts the Response and
   reports exactly the released attributes, the expiry and the stored context of the request *)
Theorem c09_e2e : forall x r s d ctx,
  create x = Issued r ->
  same_federation x s d ctx -> ~ bare_shadowed (sp_acs s) d (sp_binding s) ->
  plain_call x -> demands_met s r -> clock_within s r ->
  sp_accepts s r = Some (a_identity (arg x), i_nooa_cond r, Some ctx).
Proof. exact e2e_holds_guarded. Qed.
Print Assumptions c09_e2e.

(* The requester's consumer endpoints are part of `same_federation` AS CONFIGURED: in each of the three documented
   spellings (bare URL / (URL, binding) / (URL, binding, index); tuple or list), any number per binding, and the
   chosen consumer URL is ANY of those its metadata publishes for the binding the Response travels on.  The guard
   excludes exactly the open finding C09-F3: *)
Theorem c09_e2e_f3_refuted :
  exists x s r ctx, create x = Issued r /\ e2e_hyp_b x s r = Some ctx
                    /\ bare_shadowed (sp_acs s) (a_destination (arg x)) (sp_binding s)
                    /\ sp_accepts s r = None.
Proof. exact f3_refuted. Qed.
Print Assumptions c09_e2e_f3_refuted.

(* writing a specification as a pair or as an indexed triple, with whatever index, changes neither what the
   requester publishes, nor what its service provider accepts, nor the end-to-end clause *)
Theorem c09_acs_index_irrelevant : forall f x s r so,
  sp_accepts (with_acs (reindex f (sp_acs s)) s) r = sp_accepts s r
  /\ published (reindex f (sp_acs s)) = published (sp_acs s)
  /\ e2e_b x (with_acs (reindex f (sp_acs s)) s) r so = e2e_b x s r so.
Proof. exact index_irrelevant. Qed.
Print Assumptions c09_acs_index_irrelevant.

(* ... and the property notices when it does: a Config.endpoint that unpacks `endp, bind = endpspec` without the slice
   `[0:2]` loses every indexed consumer URL, so the requester's own service provider turns down a Response that the
   code as it is accepts (outside the C09-F3 class); on configurations without triples the two readings coincide,
   which is why a check that configures pairs only cannot see the difference *)
Theorem c09_noslice_refuted :
  exists x s r ctx, create x = Issued r /\ e2e_hyp_b x s r = Some ctx
                    /\ bare_shadowed_b (sp_acs s) (a_destination (arg x)) (sp_binding s) = false
                    /\ sp_accepts s r = Some (a_identity (arg x), i_nooa_cond r, Some ctx)
                    /\ sp_accepts_with unpack_noslice s r = None.
Proof. exact noslice_refuted. Qed.
Print Assumptions c09_noslice_refuted.

Theorem c09_noslice_hidden_without_triples : forall acs, no_triples acs -> unpack_noslice acs = map conf_ep acs.
Proof. exact noslice_hidden_without_triples. Qed.
Print Assumptions c09_noslice_hidden_without_triples.

(* the boolean clauses evaluated on the implementation's recorded outputs are the stated ones *)
Theorem c09_spec_reflect : forall x o, spec_b x o = true <-> spec x o.
Proof. exact spec_b_iff. Qed.
Print Assumptions c09_spec_reflect.

Theorem c09_e2e_reflect : forall x s r ctx,
  e2e_hyp_b x s r = Some ctx ->
  exists d, same_federation x s d ctx /\ plain_call x /\ demands_met s r /\ clock_within s r.
Proof. exact e2e_hyp_sound. Qed.
Print Assumptions c09_e2e_reflect.

(* the layered policy lookup of the code is the "most specific section" relation of the property text *)
Theorem c09_policy_lookup : forall pol sp ra sec,
  applicable pol sp ra sec ->
  get_lifetime pol sp ra = lifetime_of sec /\ get_nameid_format pol sp ra = format_of sec.
Proof.
  intros pol sp ra sec H. apply applicable_fun in H. rewrite get_lifetime_spec, get_nameid_format_spec, H. split; reflexivity.
Qed.
Print Assumptions c09_policy_lookup.

(* C09-F1, repaired by d41562bb: the behaviour before the repair (format looked up under a foreign
   SPNameQualifier) violated the property on an input with a fresh store; the repaired code satisfies it there *)
Theorem c09_f1_v0_refuted :
  exists x, ~ spec x (create_v0 x) /\ store_fresh x /\ ~ own_namespace x /\ requested_format x = None
            /\ spec x (create x).
Proof.
  exists witness_f1. split; [exact f1_v0_refuted|].
  destruct f1_outside as (A & B & C). split; [exact A|split; [exact B|split; [exact C|apply spec_holds]]].
Qed.
Print Assumptions c09_f1_v0_refuted.

(* C09-F2, repaired by 9a92c673: the behaviour before the repair (store searched without the format in force)
   violated the property on an input whose store holds an earlier identifier of another format, in the
   requester's own namespace and without a requested Format; the repaired code satisfies it there *)
Theorem c09_f2_v0_refuted :
  exists x, ~ spec x (create_f2_v0 x) /\ ~ store_fresh x /\ own_namespace x /\ requested_format x = None
            /\ spec x (create x).
Proof.
  exists witness_f2. split; [exact f2_v0_refuted|].
  destruct f2_outside as (A & B & C). split; [exact A|split; [exact B|split; [exact C|apply spec_holds]]].
Qed.
Print Assumptions c09_f2_v0_refuted.

(* C09 time zone: the code takes UTC readings of the clock only (time.gmtime() behind IssueInstant / NotBefore,
   datetime.utcnow() behind both NotOnOrAfter), so the issued Response, the property evaluated on it and the
   composed acceptance of the receiving side are the same in every time zone of the issuing and of the
   receiving process.  The correspondence run ties this to the code: the cases are run with the process time zone
   (TZ + tzset, datetime.now() answering the wall clock of that zone) set to zones on both sides of UTC, with
   fractional offsets and daylight-saving rules, and must agree with this zone-free model. *)
Theorem c09_zone_irrelevant : forall z z' x s r so,
  create (in_zone z x) = create x
  /\ spec (in_zone z x) (create x) = spec x (create x)
  /\ sp_accepts (sp_in_zone z' s) r = sp_accepts s r
  /\ e2e_b (in_zone z x) (sp_in_zone z' s) r so = e2e_b x s r so.
Proof.
  intros z z' x s r so. split; [exact (zone_irrelevant z x)|split; [exact (spec_zone_free z x (create x))|split;
    [exact (sp_zone_irrelevant z' s r)|exact (e2e_zone_free z z' x s r so)]]].
Qed.
Print Assumptions c09_zone_irrelevant.

(* ... and the property notices when it does not: a provider that reads the wall clock of its time zone for the
   issue time or for the expiry (printing it as UTC, e.g. datetime.now() for datetime.utcnow() in
   time_util.time_in_a_while, or time.localtime() for time.gmtime() in time_util.instant) violates the scope
   clause on every call it answers in every zone other than UTC; in a UTC process it cannot be told apart *)
Theorem c09_wall_clock_refuted : forall ic ec x r,
  (ic, ec) <> (UtcReading, UtcReading) -> zone x <> 0%Z ->
  create_read ic ec x = Issued r -> ~ spec x (Issued r).
Proof. intros ic ec x r Hk Hz H [S _]. exact (wall_clock_refuted ic ec x r Hk Hz H S). Qed.
Print Assumptions c09_wall_clock_refuted.

Theorem c09_wall_clock_hidden_at_utc : forall ic ec x, zone x = 0%Z -> create_read ic ec x = create x.
Proof. exact wall_clock_same_at_utc. Qed.
Print Assumptions c09_wall_clock_hidden_at_utc.

(* regenerated-table obligation: the defaults in the source are the documented ones *)
Theorem c09_defaults :
  sign_response_default = false /\ sign_assertion_default = false /\ encrypt_assertion_default = false
  /\ encrypted_advice_attributes_default = false
  /\ lifetime_default = ONE_HOUR /\ nameid_format_default = TRANSIENT /\ SCM_BEARER = BEARER.
Proof. exact table_defaults. Qed.
Print Assumptions c09_defaults.

(* ---------------------------------------------------------------------------------------------------------
   tie to the source TEXT, translator v2: nine functions of the anchored code as translated from /repo's current
   source on this run (coq/gen/C09Src2.v, harness/py2coq2.py) compute the model's functions, for ALL inputs of
   the model's domain.  External calls are universally quantified functions; what is assumed about them are the
   premises below (each set is shown satisfiable in C09/Source2.v). *)

(* assertion.py Policy.get: the most specific section (requester > registration authority > "default" or "")
   answers as a whole, a missing / None attribute falls back to the default *)
Theorem c09_source2_policy_get :
  forall (registration_info : pyval -> pyval -> pyval) (mds : pyval) (ra_of : string -> option string),
  is_object mds = true ->
  (forall sp, registration_info mds (PStr sp) = enc_ra (ra_of sp)) ->
  forall pol att sp dflt,
  keys_ok pol = true -> is_bad dflt = false ->
  src2_policy_get registration_info (enc_policy mds pol) (PStr att) (PStr sp) dflt
  = policy_get pol (sec_get att) sp (ra_of sp) dflt.
Proof. exact src2_policy_get_is_model. Qed.
Print Assumptions c09_source2_policy_get.

Theorem c09_source2_get_nameid_format :
  forall (registration_info : pyval -> pyval -> pyval) (mds : pyval) (ra_of : string -> option string),
  is_object mds = true ->
  (forall sp, registration_info mds (PStr sp) = enc_ra (ra_of sp)) ->
  forall pol sp,
  keys_ok pol = true ->
  src2_get_nameid_format registration_info (enc_policy mds pol) (PStr sp)
  = PStr (get_nameid_format pol sp (ra_of sp)).
Proof. exact src2_get_nameid_format_is_model. Qed.
Print Assumptions c09_source2_get_nameid_format.

Theorem c09_source2_get_lifetime :
  forall (registration_info : pyval -> pyval -> pyval) (mds : pyval) (ra_of : string -> option string),
  is_object mds = true ->
  (forall sp, registration_info mds (PStr sp) = enc_ra (ra_of sp)) ->
  forall pol sp,
  keys_ok pol = true ->
  src2_get_lifetime registration_info (enc_policy mds pol) (PStr sp)
  = enc_lifetime (get_lifetime pol sp (ra_of sp)).
Proof. exact src2_get_lifetime_is_model. Qed.
Print Assumptions c09_source2_get_lifetime.

(* assertion.py Policy.conditions: NotBefore = now, NotOnOrAfter = Policy.not_on_or_after(requester), exactly the
   audience restrictions of the model's issued record (one, naming the requester) *)
Theorem c09_source2_conditions :
  forall (factory : pyval -> list (string * pyval) -> pyval) (instant : pyval) (not_on_or_after : pyval -> pyval -> pyval),
  (forall c kw, is_bad (factory c kw) = false) ->
  is_bad instant = false ->
  (forall s e, is_bad (not_on_or_after s e) = false) ->
  forall x r self,
  create x = Issued r ->
  src2_conditions factory instant not_on_or_after self (PStr (a_sp (arg x)))
  = enc_conditions factory (i_audiences r) instant (not_on_or_after self (PStr (a_sp (arg x)))).
Proof. exact src2_conditions_is_model. Qed.
Print Assumptions c09_source2_conditions.

(* entity.py Entity._issuer: the issuer argument when truthy, else the configured entity id *)
Theorem c09_source2_issuer :
  forall (mk_issuer : list (string * pyval) -> pyval) x,
  src2_issuer mk_issuer (enc_entity (c_entityid (cfg x))) (enc_ostr (a_issuer (arg x)))
  = mk_issuer [("format", PStr "urn:oasis:names:tc:SAML:2.0:nameid-format:entity"); ("text", PStr (issuer_of x))].
Proof. exact src2_issuer_is_model. Qed.
Print Assumptions c09_source2_issuer.

(* entity.py Entity.sign (as Entity._response calls it when the Response is to be signed): refusal exactly when
   the model refuses (algorithm outside the allowed lists), else the signer gets the Response with a template
   for the model's algorithms and the parts handed in plus the Response *)
Theorem c09_source2_sign :
  forall (pre_signature_part : pyval -> pyval -> pyval -> pyval -> pyval -> pyval) (class_name : pyval -> pyval)
         (signed_instance_factory : pyval -> pyval -> pyval -> pyval) (cert : pyval),
  (forall a b c d e, is_bad (pre_signature_part a b c d e) = false) ->
  (forall m, is_bad (class_name m) = false) ->
  is_bad cert = false ->
  forall x rid ts,
  want_sign_response x = true ->
  src2_sign pre_signature_part class_name signed_instance_factory
    (enc_signer cert (cfg x)) (enc_msg rid PNone) PNone (PList ts) PNone
    (enc_ostr (a_sign_alg (arg x))) (enc_ostr (a_digest_alg (arg x)))
  = match signatures x with
    | Some (Some algs, _) => signed_response pre_signature_part class_name signed_instance_factory cert rid ts algs
    | Some (None, _) => PErr
    | None => PExc "Exception"
    end.
Proof. exact src2_sign_is_model. Qed.
Print Assumptions c09_source2_sign.

(* ident.py IdentDB.nim_args: format and SPNameQualifier of a constructed identifier (the repaired C09-F1 site) *)
Theorem c09_source2_nim_args :
  forall (registration_info : pyval -> pyval -> pyval) (mds : pyval) (ra_of : string -> option string),
  is_object mds = true ->
  (forall sp, registration_info mds (PStr sp) = enc_ra (ra_of sp)) ->
  forall x,
  keys_ok (the_policy x) = true -> ra_of (a_sp (arg x)) = ra x ->
  src2_nim_args registration_info (enc_identdb (c_entityid (cfg x)) (c_domain (cfg x)))
    (enc_policy mds (the_policy x)) (PStr (a_sp (arg x))) (enc_nip (a_nidpolicy (arg x))) (PStr "")
  = PObj [("nformat", PStr (nim_format x)); ("sp_name_qualifier", PStr (snq_of x));
          ("name_qualifier", PStr (c_entityid (cfg x)))].
Proof. exact src2_nim_args_is_model. Qed.
Print Assumptions c09_source2_nim_args.

(* ident.py IdentDB.get_nameid: a stored persistent identifier is handed out again, an e-mail identifier needs a
   domain (SAMLError), otherwise a fresh identifier of the model's format / qualifiers is built and stored *)
Theorem c09_source2_get_nameid :
  forall (match_local_id_ext : pyval -> pyval -> pyval -> pyval -> pyval) (create_id : pyval -> pyval -> pyval -> pyval)
         (store : pyval -> pyval -> pyval) (mk_nameid : list (string * pyval) -> pyval) (text_of : nat -> string)
         (fresh_id : string) (x : input) (userid : pyval),
  is_bad userid = false ->
  match_local_id_ext (self_db x) userid (PStr (snq_of x)) (PStr (c_entityid (cfg x)))
    = enc_found text_of (match_local_id (stored x) (snq_of x) (c_entityid (cfg x))) ->
  (forall a b c, create_id a b c = PStr fresh_id) ->
  (forall a b, is_bad (store a b) = false) ->
  (forall kw, is_bad (mk_nameid kw) = false) ->
  forall nformat,
  src2_get_nameid match_local_id_ext create_id store mk_nameid (self_db x) userid
    (PStr nformat) (PStr (snq_of x)) (PStr (c_entityid (cfg x)))
  = match get_nameid x nformat with
    | None => PExc "SAMLError"
    | Some (n, Reused k) => enc_stored text_of k n
    | Some (n, Fresh) => mk_nameid [("format", enc_ostr (n_format n)); ("name_qualifier", enc_ostr (n_nq n));
                                    ("sp_name_qualifier", enc_ostr (n_spnq n)); ("text", PStr (fresh_text fresh_id x nformat))]
    | Some (_, Given) => PErr
    end.
Proof. exact src2_get_nameid_is_model. Qed.
Print Assumptions c09_source2_get_nameid.

(* argtree.py is_set, the test Server.update_farg makes before it fills in Method / InResponseTo / Recipient: on
   every preset confirmation tree it answers whether the model's field is preset; the model's update_farg is
   these three tests *)
Theorem c09_source2_is_set : forall g irt url,
  src2_is_set (enc_farg g) P_method = PBool (is_some (f_method g))
  /\ src2_is_set (enc_farg g) P_irt = PBool (is_some (f_irt g))
  /\ src2_is_set (enc_farg g) P_recipient = PBool (is_some (f_recipient g))
  /\ update_farg irt url (Some g)
     = {| f_method := if py_truthy (src2_is_set (enc_farg g) P_method) then f_method g else Some SCM_BEARER;
          f_irt := if py_truthy (src2_is_set (enc_farg g) P_irt) then f_irt g else irt;
          f_recipient := if py_truthy (src2_is_set (enc_farg g) P_recipient) then f_recipient g else Some url |}.
Proof. exact src2_is_set_and_update_farg. Qed.
Print Assumptions c09_source2_is_set.

(* server.py Server.gather_authn_response_args (two call shapes rewritten by harness/c09.py before translation, see
   notes/C09.md): on the keyword arguments create_authn_response() hands over, the returned dict holds the model's
   policy (release_policy argument, else configuration), the signing options resolved argument > configuration >
   default, and the model's choice of name identifier: the supplied one, else the first stored identifier with the
   SPNameQualifier and the format in force (the dict handed to the store search is exactly that pair), else the
   constructed one; SAMLError exactly when the model refuses *)
Theorem c09_source2_gather_authn_response_args :
  forall (registration_info : pyval -> pyval -> pyval) (mds : pyval) (ra_of : string -> option string),
  is_object mds = true ->
  (forall sp, registration_info mds (PStr sp) = enc_ra (ra_of sp)) ->
  forall (cfg_getattr : pyval -> pyval -> pyval -> pyval) (enc_cert_ok : pyval -> pyval)
         (find_nameid_ext : pyval -> pyval -> pyval -> pyval)
         (construct_nameid_ext : pyval -> pyval -> pyval -> pyval -> pyval -> pyval)
         (text_of : nat -> string) (more descs : list pyval) (x : input) (uid : string),
  String.eqb (a_sp (arg x)) "__class__" = false ->
  forallb desc_ok descs = true ->
  ra_of (a_sp (arg x)) = ra x ->
  keys_ok (the_policy x) = true ->
  (forall n, cfg_getattr cfgobj (PStr n) (PStr "idp") = cfg_val mds x n) ->
  (forall q f, find_nameid_ext (self_db x) (PStr uid) (kwa_dict q f)
               = match find_nameid (stored x) q (Some (Some f)) with
                 | Some (k, n) => PList (enc_nameid (text_of k) n :: more)
                 | None => PList []
                 end) ->
  construct_nameid_ext (self_db x) (PStr uid) (enc_policy mds (the_policy x)) (PStr (a_sp (arg x)))
    (enc_nip (a_nidpolicy (arg x)))
  = match get_nameid x (nim_format x) with
    | Some (n, s) => enc_chosen text_of n s
    | None => PExc "SAMLError"
    end ->
  src2_gather registration_info cfg_getattr enc_cert_ok find_nameid_ext construct_nameid_ext
    (enc_server descs x) (PStr (a_sp (arg x))) (enc_nip (a_nidpolicy (arg x))) (PStr uid) (enc_kwargs mds x)
  = match choose_name_id x with
    | Some (n, s) => args_dict mds x (enc_chosen text_of n s)
    | None => PExc "SAMLError"
    end.
Proof. exact src2_gather_is_model. Qed.
Print Assumptions c09_source2_gather_authn_response_args.

(* ... where the sign_response / sign_assertion entries of that dict are truthy exactly when the model signs *)
Theorem c09_source2_gather_signs : forall x,
  py_truthy (resolved (a_sign_response (arg x)) (load_special (c_sign_response (cfg x))) sign_response_default)
    = want_sign_response x
  /\ py_truthy (resolved (a_sign_assertion (arg x)) (load_special (c_sign_assertion (cfg x))) sign_assertion_default)
    = want_sign_assertion x.
Proof. exact gather_signs_are_model. Qed.
Print Assumptions c09_source2_gather_signs.

(* ---------------------------------------------------------------------------------------------------------
   the receiving side's reading of its own consumer endpoints (round 6): config.py Config.endpoint and
   client_base.py Base.service_urls as translated from the current source (coq/gen/C09Src2e.v) compute, for EVERY list
   of endpoint specifications written as (URL, binding) pairs or (URL, binding, index) triples - tuple or list,
   whatever value stands for the index -, the model's unpacking step conf_ep followed by C04's endpoint /
   service_urls: the return addresses `sp_accepts` checks Destination against.  (A bare str specification is outside
   the translator's fragment; those configurations are tied by the correspondence run.) *)
Theorem c09_source2_endpoint :
  forall (getattr_ext : pyval -> pyval -> pyval -> pyval) (type_ext : pyval -> pyval) (ix : string -> pyval),
  (forall l, type_ext (PList l) = PStr "tuple" \/ type_ext (PList l) = PStr "list") ->
  forall cfg ctx endps svc acs b,
  is_bad ctx = false -> getattr_ext cfg (PStr "endpoints") ctx = PObj endps ->
  is_obj endps = false -> assoc_py svc endps = Some (PList (map (C09.Source2e.enc_acs ix) acs)) -> C09.Source2e.no_bare acs ->
  C09Src2e.src2_endpoint getattr_ext type_ext cfg (PStr svc) (PStr b) ctx
  = C09.Source2e.enc_strs (C04.Model.endpoint (map conf_ep acs) b).
Proof. exact C09.Source2e.src2_endpoint_is_model. Qed.
Print Assumptions c09_source2_endpoint.

Theorem c09_source2_service_urls :
  forall (getattr_ext : pyval -> pyval -> pyval -> pyval) (type_ext : pyval -> pyval) (ix : string -> pyval),
  (forall l, type_ext (PList l) = PStr "tuple" \/ type_ext (PList l) = PStr "list") ->
  forall self cfg endps (s : spside) b,
  p2_attr self "config" = cfg -> getattr_ext cfg (PStr "endpoints") (PStr "sp") = PObj endps ->
  is_obj endps = false ->
  assoc_py "assertion_consumer_service" endps = Some (PList (map (C09.Source2e.enc_acs ix) (sp_acs s))) ->
  C09.Source2e.no_bare (sp_acs s) ->
  C09Src2e.src2_service_urls getattr_ext type_ext self (PStr b)
  = C09.Source2e.enc_urls (C04.Model.service_urls (sp_specs s) b).
Proof. exact C09.Source2e.src2_service_urls_is_model. Qed.
Print Assumptions c09_source2_service_urls.
