(* C09/Proofs.v — lemmas: the layered model of the issuing code satisfies the property text (Spec), the boolean
   spec evaluated on observed outputs is the stated spec, and the composition with the acceptance models. *)
From Coq Require Import String List Bool ZArith Lia.
From Verif Require C01.Model C01.Spec C01.Proofs C04.Model C04.Proofs C05.Model C06.Model.
From Verif Require Import Base.Str C09.Model C09.Spec.
From VerifGen Require Import C09Tables.
From VerifGen Require C06Tables.
Import ListNotations.
Open Scope string_scope.

(* ------------------------------------------------------------ strings and options *)
Lemma is_empty_eqb s : is_empty s = String.eqb s "".
Proof. destruct s; reflexivity. Qed.

Lemma is_empty_true s : is_empty s = true <-> s = "".
Proof. destruct s; cbn; split; congruence. Qed.

Lemma is_empty_false s : is_empty s = false <-> s <> "".
Proof. destruct s; cbn; split; congruence. Qed.

Lemma or_s_spec o d :
  or_s o d = match o with Some s => if String.eqb s "" then d else s | None => d end.
Proof. destruct o as [s|]; cbn; [rewrite is_empty_eqb|]; reflexivity. Qed.

Lemma or_s_nonempty o d : d <> "" -> or_s o d <> "".
Proof.
  intros Hd. destruct o as [s|]; cbn; [|exact Hd].
  destruct (is_empty s) eqn:E; [exact Hd|]. apply is_empty_false; exact E.
Qed.

Lemma opt_eqb_string a b : opt_eqb String.eqb a b = true <-> a = b.
Proof.
  destruct a, b; cbn; try (split; congruence).
  rewrite String.eqb_eq. split; congruence.
Qed.

Lemma opt_eqb_refl a : opt_eqb String.eqb a a = true.
Proof. apply opt_eqb_string; reflexivity. Qed.

Lemma list_string_eqb a b : list_eqb String.eqb a b = true <-> a = b.
Proof. apply list_eqb_eq. intros; apply String.eqb_eq. Qed.

Lemma list_list_string_eqb a b : list_eqb (list_eqb String.eqb) a b = true <-> a = b.
Proof. apply list_eqb_eq. intros; apply list_string_eqb. Qed.

Lemma attrs_eqb_eq a b : attrs_eqb a b = true <-> a = b.
Proof.
  unfold attrs_eqb. apply list_eqb_eq. intros [k v] [k' v']; cbn.
  rewrite andb_true_iff, String.eqb_eq, list_string_eqb. split; [intros [-> ->]; reflexivity|intros E; inversion E; auto].
Qed.

Lemma nid_eqb_eq a b : nid_eqb a b = true <-> a = b.
Proof.
  destruct a as [f s q], b as [f' s' q']; unfold nid_eqb; cbn.
  rewrite !andb_true_iff, !opt_eqb_string. split; [intros [[-> ->] ->]; reflexivity|intros E; inversion E; auto].
Qed.

Lemma algs_eqb_eq a b : algs_eqb a b = true <-> a = b.
Proof.
  destruct a, b; unfold algs_eqb; cbn. rewrite andb_true_iff, !String.eqb_eq.
  split; [intros [-> ->]; reflexivity|intros E; inversion E; auto].
Qed.

(* ------------------------------------------------------------ lifetimes *)
Lemma unit_lookup u v : match assoc u units with Some m => (v * m)%Z | None => 0%Z end = (v * unit_us u)%Z.
Proof.
  unfold units, unit_us; cbn [assoc].
  repeat match goal with |- context [String.eqb u ?k] => destruct (String.eqb u k) end;
    try reflexivity; try (f_equal; reflexivity); lia.
Qed.

Lemma micro_acc l : forall a,
  fold_left (fun acc kv => acc + match assoc (fst kv) units with Some u => snd kv * u | None => 0 end)%Z l a
  = (a + lifetime_us l)%Z.
Proof.
  induction l as [|[k v] r IH]; intros a; cbn [fold_left lifetime_us fold_right fst snd].
  - lia.
  - rewrite IH, unit_lookup. fold (lifetime_us r). lia.
Qed.

Lemma micro_lifetime_us l : micro l = lifetime_us l.
Proof. unfold micro. rewrite micro_acc. lia. Qed.

Lemma expiry_in_a_while n l : expiry n l = in_a_while n l.
Proof. unfold expiry, in_a_while. rewrite micro_lifetime_us. reflexivity. Qed.

(* ------------------------------------------------------------ the applicable policy section *)
Lemma has_get pol k s : has pol k s -> dict_get pol k = Some s.
Proof. unfold has, dict_get. intros ->. reflexivity. Qed.

Lemma lacks_get pol k : lacks pol k -> dict_get pol k = None.
Proof. unfold lacks, dict_get. intros [-> | ->]; reflexivity. Qed.

Lemma present_dict_get pol k : present pol k = dict_get pol k.
Proof. reflexivity. Qed.

Lemma get_has pol k s : dict_get pol k = Some s -> has pol k s.
Proof. unfold has, dict_get. destruct (assoc k pol) as [[t|]|]; congruence. Qed.

Lemma get_lacks pol k : dict_get pol k = None -> lacks pol k.
Proof. unfold lacks, dict_get. destruct (assoc k pol) as [[t|]|]; try congruence; auto. Qed.

Lemma silent_b_iff s : silent_b s = true <-> silent s.
Proof.
  unfold silent_b, silent. destruct (s_lifetime s), (s_nameid_format s), (s_other s); split; try congruence;
    try (intros [? [? ?]]; congruence); auto.
Qed.

Lemma silent_empty s : section_empty s = silent_b s.
Proof. unfold section_empty, silent_b. destruct (s_lifetime s), (s_nameid_format s), (s_other s); reflexivity. Qed.

Lemma says_not_silent s : says_something s -> silent_b s = false.
Proof.
  unfold says_something, silent_b. destruct (s_lifetime s), (s_nameid_format s), (s_other s); try reflexivity.
  intros [H|[H|H]]; congruence.
Qed.

Lemma not_silent_says s : silent_b s = false -> says_something s.
Proof.
  unfold says_something, silent_b. destruct (s_lifetime s), (s_nameid_format s), (s_other s); try discriminate;
    intros _; try (left; discriminate); try (right; left; discriminate); right; right; reflexivity.
Qed.

Definition default_part (pol : policy) : option section :=
  match dict_get pol "default" with
  | Some s => if silent_b s then dict_get pol "" else Some s
  | None => dict_get pol ""
  end.

Lemma no_default_part pol : no_default pol -> default_part pol = dict_get pol "".
Proof.
  unfold default_part. intros [H | [s [H Hs]]].
  - rewrite (lacks_get _ _ H). reflexivity.
  - rewrite (has_get _ _ _ H). apply silent_b_iff in Hs. rewrite Hs. reflexivity.
Qed.

Lemma applicable_f_unfold pol sp ra :
  applicable_f pol sp ra =
  match dict_get pol sp with
  | Some s => Some s
  | None => match (match ra with Some r => dict_get pol r | None => None end) with
            | Some s => Some s
            | None => default_part pol
            end
  end.
Proof. reflexivity. Qed.

Lemma ra_lacks pol ra : (forall r, ra = Some r -> lacks pol r) ->
  match ra with Some r => dict_get pol r | None => None end = None.
Proof. intros H. destruct ra as [r|]; [apply lacks_get, H; reflexivity|reflexivity]. Qed.

(* the relation determines the function ... *)
Lemma applicable_fun pol sp ra sec : applicable pol sp ra sec -> applicable_f pol sp ra = sec.
Proof.
  rewrite applicable_f_unfold. intros H; inversion H; subst.
  - rewrite (has_get _ _ _ H0). reflexivity.
  - rewrite (lacks_get _ _ H0), (has_get _ _ _ H2). reflexivity.
  - rewrite (lacks_get _ _ H0), (ra_lacks _ _ H1). unfold default_part.
    rewrite (has_get _ _ _ H2), (says_not_silent _ H3). reflexivity.
  - rewrite (lacks_get _ _ H0), (ra_lacks _ _ H1), (no_default_part _ H2). apply has_get; assumption.
  - rewrite (lacks_get _ _ H0), (ra_lacks _ _ H1), (no_default_part _ H2). apply lacks_get; assumption.
Qed.

(* ... and the function satisfies the relation *)
Lemma applicable_total pol sp ra : applicable pol sp ra (applicable_f pol sp ra).
Proof.
  rewrite applicable_f_unfold.
  destruct (dict_get pol sp) as [s|] eqn:Es; [apply app_sp, get_has; exact Es|].
  apply get_lacks in Es.
  destruct ra as [r|].
  - destruct (dict_get pol r) as [s|] eqn:Er; [eapply app_ra; [exact Es|reflexivity|apply get_has; exact Er]|].
    assert (Hr : forall r0, Some r = Some r0 -> lacks pol r0) by (intros r0 E; inversion E; subst; apply get_lacks; exact Er).
    unfold default_part. destruct (dict_get pol "default") as [s|] eqn:Ed.
    + destruct (silent_b s) eqn:Eb.
      * assert (Hn : no_default pol) by (right; exists s; split; [apply get_has; exact Ed|apply silent_b_iff; exact Eb]).
        destruct (dict_get pol "") as [t|] eqn:Ee; [apply app_empty|apply app_none]; auto using get_has, get_lacks.
      * apply app_default; auto using get_has, not_silent_says.
    + assert (Hn : no_default pol) by (left; apply get_lacks; exact Ed).
      destruct (dict_get pol "") as [t|] eqn:Ee; [apply app_empty|apply app_none]; auto using get_has, get_lacks.
  - assert (Hr : forall r0, @None string = Some r0 -> lacks pol r0) by (intros r0 E; discriminate).
    unfold default_part. destruct (dict_get pol "default") as [s|] eqn:Ed.
    + destruct (silent_b s) eqn:Eb.
      * assert (Hn : no_default pol) by (right; exists s; split; [apply get_has; exact Ed|apply silent_b_iff; exact Eb]).
        destruct (dict_get pol "") as [t|] eqn:Ee; [apply app_empty|apply app_none]; auto using get_has, get_lacks.
      * apply app_default; auto using get_has, not_silent_says.
    + assert (Hn : no_default pol) by (left; apply get_lacks; exact Ed).
      destruct (dict_get pol "") as [t|] eqn:Ee; [apply app_empty|apply app_none]; auto using get_has, get_lacks.
Qed.

Lemma applicable_iff pol sp ra sec : applicable pol sp ra sec <-> applicable_f pol sp ra = sec.
Proof. split; [apply applicable_fun|intros <-; apply applicable_total]. Qed.

(* Policy.get, as coded, reads the attribute from the applicable section *)
Lemma policy_get_applicable {A} pol (attribute : section -> option A) sp ra d :
  policy_get pol attribute sp ra d =
  match applicable_f pol sp ra with
  | Some s => match attribute s with Some v => v | None => d end
  | None => d
  end.
Proof.
  rewrite applicable_f_unfold. unfold policy_get, default_part.
  destruct pol as [|p pol']; [destruct ra; reflexivity|]. set (pol := p :: pol').
  destruct (dict_get pol sp) as [s|]; [reflexivity|].
  destruct (match ra with Some r => dict_get pol r | None => None end) as [s|]; [reflexivity|].
  destruct (dict_get pol "default") as [s|]; [rewrite silent_empty; destruct (silent_b s)|]; reflexivity.
Qed.

(* regenerated-table obligations *)
Lemma table_defaults :
  sign_response_default = false /\ sign_assertion_default = false /\ encrypt_assertion_default = false
  /\ encrypted_advice_attributes_default = false
  /\ lifetime_default = ONE_HOUR /\ nameid_format_default = TRANSIENT /\ SCM_BEARER = BEARER.
Proof. repeat split; reflexivity. Qed.

Lemma get_lifetime_spec pol sp ra : get_lifetime pol sp ra = lifetime_of (applicable_f pol sp ra).
Proof.
  unfold get_lifetime. rewrite policy_get_applicable. unfold lifetime_of.
  destruct (applicable_f pol sp ra) as [s|]; [destruct (s_lifetime s)|]; reflexivity.
Qed.

Lemma get_nameid_format_spec pol sp ra : get_nameid_format pol sp ra = format_of (applicable_f pol sp ra).
Proof.
  unfold get_nameid_format. rewrite policy_get_applicable. unfold format_of.
  destruct (applicable_f pol sp ra) as [s|]; [destruct (s_nameid_format s)|]; reflexivity.
Qed.

(* ------------------------------------------------------------ unfolding create *)
Lemma create_issued x r :
  create x = Issued r ->
  exists nm src sr sa,
    choose_name_id x = Some (nm, src) /\ signatures x = Some (sr, sa)
    /\ r = {|
        r_issuer := issuer_of x;
        r_in_response_to := a_in_response_to (arg x);
        r_destination := if is_empty (a_destination (arg x)) then None else Some (a_destination (arg x));
        r_issue_instant := now x;
        i_issuer := issuer_of x;
        i_audiences := [[a_sp (arg x)]];
        i_method := f_method (update_farg (a_in_response_to (arg x)) (a_destination (arg x)) (a_farg (arg x)));
        i_recipient := f_recipient (update_farg (a_in_response_to (arg x)) (a_destination (arg x)) (a_farg (arg x)));
        i_irt := f_irt (update_farg (a_in_response_to (arg x)) (a_destination (arg x)) (a_farg (arg x)));
        i_not_before := now x;
        i_nooa_cond := not_on_or_after (now x) (the_policy x) (a_sp (arg x)) (ra x);
        i_nooa_sc := not_on_or_after (now x) (the_policy x) (a_sp (arg x)) (ra x);
        i_nameid := nm;
        i_nameid_src := src;
        i_authn := authn_statement (a_authn (arg x));
        i_attributes := a_identity (arg x);
        s_response := sr;
        s_assertion := sa |}.
Proof.
  unfold create, create_with, create_clocked; cbn [read]. fold (choose_name_id x). destruct (choose_name_id x) as [[nm src]|]; [|discriminate].
  destruct (signatures x) as [[sr sa]|]; [|discriminate].
  intros E; inversion E; subst. exists nm, src, sr, sa. repeat split; reflexivity.
Qed.

Lemma issuer_provider x : issuer_of x = provider x.
Proof. unfold issuer_of, provider. rewrite or_s_spec. reflexivity. Qed.

Lemma the_policy_in_force x : the_policy x = policy_in_force x.
Proof. reflexivity. Qed.

Lemma nooa_spec x :
  not_on_or_after (now x) (the_policy x) (a_sp (arg x)) (ra x)
  = expiry (now x) (lifetime_of (applicable_f (policy_in_force x) (requester x) (ra x))).
Proof. unfold not_on_or_after. rewrite get_lifetime_spec, expiry_in_a_while. reflexivity. Qed.

(* ------------------------------------------------------------ scope *)
Lemma scope_holds x r : create x = Issued r -> scope x r.
Proof.
  intros H. destruct (create_issued _ _ H) as (nm & src & sr & sa & _ & _ & ->). unfold scope; cbn.
  rewrite issuer_provider.
  repeat split.
  - unfold preset, chosen, update_farg. destruct (a_farg (arg x)) as [g|]; [destruct (f_method g)|]; reflexivity.
  - unfold preset, chosen, update_farg. destruct (a_farg (arg x)) as [g|]; [destruct (f_recipient g)|]; reflexivity.
  - unfold preset, update_farg. destruct (a_farg (arg x)) as [g|]; [destruct (f_irt g)|]; reflexivity.
  - intros Hd. apply is_empty_false in Hd. rewrite Hd. reflexivity.
  - apply applicable_fun in H0. rewrite nooa_spec, H0. reflexivity.
  - apply applicable_fun in H0. rewrite nooa_spec, H0. reflexivity.
Qed.

(* ------------------------------------------------------------ signing *)
Lemma resolve_demanded a c : resolve a c false = demanded a c.
Proof.
  destruct a as [b|]; [reflexivity|]. destruct c as [|b|s]; cbn; try reflexivity.
  destruct (String.eqb s "true") eqn:Et.
  - apply String.eqb_eq in Et; subst; reflexivity.
  - destruct (String.eqb s "false") eqn:Ef; cbn.
    + rewrite andb_false_r. reflexivity.
    + rewrite is_empty_eqb, andb_true_r. reflexivity.
Qed.

Lemma algorithms_spec x : (sign_alg_of x, digest_alg_of x) = algorithms x.
Proof.
  unfold algorithms, sign_alg_of, digest_alg_of, signing_algorithm, digest_algorithm, first_nonempty.
  rewrite !or_s_spec.
  destruct (a_sign_alg (arg x)) as [s|], (c_signing_algorithm (cfg x)) as [t|],
           (a_digest_alg (arg x)) as [u|], (c_digest_algorithm (cfg x)) as [v|]; reflexivity.
Qed.

Lemma sign_holds x r : create x = Issued r -> signed_as_demanded x r.
Proof.
  intros H. destruct (create_issued _ _ H) as (nm & src & sr & sa & _ & Hs & ->). unfold signed_as_demanded; cbn.
  unfold signatures in Hs. cbv zeta in Hs. rewrite algorithms_spec in Hs.
  unfold want_sign_response, want_sign_assertion in Hs.
  destruct table_defaults as (Dr & Da & _). rewrite Dr, Da, !resolve_demanded in Hs.
  destruct (demanded (a_sign_response (arg x)) (c_sign_response (cfg x))) eqn:Er,
           (demanded (a_sign_assertion (arg x)) (c_sign_assertion (cfg x))) eqn:Ea;
    try (destruct (mem (sign_alg_of x) sig_allowed && mem (digest_alg_of x) digest_allowed); [|discriminate]);
    inversion Hs; subst; repeat split; intros; try congruence; try discriminate.
Qed.

(* ------------------------------------------------------------ refusals *)
Lemma refusal_holds x e : create x = Error e -> refusal_ok x e.
Proof.
  unfold create, create_with, create_clocked; cbn [read]. fold (choose_name_id x). destruct (choose_name_id x) as [[nm src]|] eqn:Ec.
  - destruct (signatures x) as [[sr sa]|] eqn:Es; [discriminate|]. intros E; inversion E; subst. unfold refusal_ok.
    unfold signatures in Es. cbv zeta in Es. unfold want_sign_response in Es.
    destruct table_defaults as (Dr & _). rewrite Dr, resolve_demanded in Es.
    destruct (demanded (a_sign_response (arg x)) (c_sign_response (cfg x))); [|discriminate]. split; [reflexivity|].
    rewrite <- algorithms_spec; cbn [fst snd].
    destruct (mem (sign_alg_of x) sig_allowed) eqn:E1.
    + destruct (mem (digest_alg_of x) digest_allowed) eqn:E2; [discriminate|].
      right. intros Hin. apply mem_In in Hin. congruence.
    + left. intros Hin. apply mem_In in Hin. congruence.
  - intros E; inversion E; subst. cbn. unfold choose_name_id, choose_name_id_with in Ec.
    destruct (a_name_id (arg x)); [discriminate|]. split; [reflexivity|].
    destruct (find_nameid _ _ _) as [[k n]|]; [discriminate|].
    unfold get_nameid in Ec.
    destruct (if String.eqb _ _ then _ else None) as [[k n]|]; [discriminate|].
    destruct (truthy_s (c_domain (cfg x))); [|reflexivity].
    rewrite andb_false_r in Ec. discriminate.
Qed.

(* every call that can name the subject and uses allowed algorithms is answered *)
Lemma issues x :
  (a_name_id (arg x) <> None \/ truthy_s (c_domain (cfg x)) = true) ->
  (demanded (a_sign_response (arg x)) (c_sign_response (cfg x)) = false
   \/ (In (fst (algorithms x)) sig_allowed /\ In (snd (algorithms x)) digest_allowed)) ->
  exists r, create x = Issued r.
Proof.
  intros Hn Ha. destruct (create x) as [r|e] eqn:E; [exists r; reflexivity|].
  apply refusal_holds in E. destruct e; cbn in E.
  - destruct E as [E1 E2]. destruct Hn; congruence.
  - destruct E as [E1 E2]. destruct Ha as [Ha|[Ha1 Ha2]]; [congruence|]. destruct E2; contradiction.
Qed.

(* ------------------------------------------------------------ name identifier, under the guard *)
Lemma find_first_none {A} (p : A -> bool) l : forall i, (forall a, In a l -> p a = false) -> find_first p l i = None.
Proof.
  induction l as [|a r IH]; intros i H; cbn [find_first]; [reflexivity|].
  rewrite (H a (or_introl eq_refl)). apply IH. intros b Hb. apply H. right; exact Hb.
Qed.

Lemma find_first_some {A} (p : A -> bool) l : forall i k a, find_first p l i = Some (k, a) -> p a = true.
Proof.
  induction l as [|b r IH]; intros i k a; cbn [find_first]; [discriminate|].
  destruct (p b) eqn:E; [intros H; inversion H; subst; exact E|apply IH].
Qed.

Lemma fresh_find x fmt : store_fresh x -> find_nameid (stored x) (snq_of x) fmt = None.
Proof.
  intros H. unfold find_nameid. apply find_first_none. intros n Hn.
  destruct (opt_eqb String.eqb (n_spnq n) (Some (snq_of x))) eqn:E; [|reflexivity].
  apply opt_eqb_string in E. exfalso. exact (H n Hn E).
Qed.

(* an identifier that get_nameid answers — found by match_local_id or made afresh — has the format asked for *)
Lemma get_nameid_format_ok x nf n src : get_nameid x nf = Some (n, src) -> n_format n = Some nf.
Proof.
  unfold get_nameid. destruct (String.eqb nf NAMEID_FORMAT_PERSISTENT) eqn:Ep.
  - apply String.eqb_eq in Ep.
    destruct (match_local_id (stored x) (snq_of x) (c_entityid (cfg x))) as [[k m]|] eqn:Em.
    + intros H; inversion H; subst n src. unfold match_local_id in Em. apply find_first_some in Em.
      apply andb_true_iff in Em. destruct Em as [Em _]. apply andb_true_iff in Em. destruct Em as [Em _].
      apply opt_eqb_string in Em. rewrite Em, Ep. reflexivity.
    + destruct (_ && _); [discriminate|]. intros H; inversion H; reflexivity.
  - destruct (_ && _); [discriminate|]. intros H; inversion H; reflexivity.
Qed.

Lemma requested_some x f : requested_format x = Some f ->
  exists p, a_nidpolicy (arg x) = Some p /\ p_format p = Some f /\ truthy_s (p_format p) = true /\ or_s (p_format p) "" = f.
Proof.
  unfold requested_format. destruct (a_nidpolicy (arg x)) as [p|]; [|discriminate].
  destruct (p_format p) as [g|] eqn:Ep; [|discriminate].
  destruct (String.eqb g "") eqn:Eg; [discriminate|]. intros E; inversion E; subst.
  exists p. split; [reflexivity|]. split; [exact Ep|]. rewrite Ep. split.
  - unfold truthy_s. rewrite is_empty_eqb, Eg. reflexivity.
  - unfold or_s. rewrite is_empty_eqb, Eg. reflexivity.
Qed.

Lemma requested_none_falsy x p : requested_format x = None -> a_nidpolicy (arg x) = Some p -> truthy_s (p_format p) = false.
Proof.
  unfold requested_format. intros H E. rewrite E in H. unfold truthy_s.
  destruct (p_format p) as [g|]; [|reflexivity]. rewrite is_empty_eqb.
  destruct (String.eqb g ""); [reflexivity|discriminate].
Qed.

Lemma nim_format_requested x f : requested_format x = Some f -> nim_format x = f.
Proof.
  intros H. destruct (requested_some _ _ H) as (p & Ep & _ & Et & Ef). unfold nim_format. rewrite Ep, Et, Ef. reflexivity.
Qed.

Lemma nim_format_configured x : requested_format x = None ->
  nim_format x = format_of (applicable_f (policy_in_force x) (requester x) (ra x)).
Proof.
  intros H. unfold nim_format. destruct (a_nidpolicy (arg x)) as [p|] eqn:Ep;
    [rewrite (requested_none_falsy _ _ H Ep)|]; rewrite get_nameid_format_spec; reflexivity.
Qed.

Lemma nim_format_in_force x : forall sec, applicable (policy_in_force x) (requester x) (ra x) sec ->
  nim_format x = match requested_format x with Some f => f | None => format_of sec end.
Proof.
  intros sec Hsec. apply applicable_fun in Hsec. destruct (requested_format x) as [f|] eqn:E.
  - apply nim_format_requested; exact E.
  - rewrite (nim_format_configured _ E), Hsec. reflexivity.
Qed.

(* whichever way the identifier is obtained — found in the store under the format in force, matched as a
   persistent one, or made afresh — it has the format in force *)
Lemma chosen_format x nm src : a_name_id (arg x) = None -> choose_name_id x = Some (nm, src) ->
  n_format nm = Some (nim_format x).
Proof.
  intros En Hc. unfold choose_name_id, choose_name_id_with, kwa_format in Hc. rewrite En in Hc.
  destruct (find_nameid (stored x) (snq_of x) (Some (Some (nim_format x)))) as [[k n]|] eqn:Ef.
  - inversion Hc; subst nm src. unfold find_nameid in Ef. apply find_first_some in Ef.
    apply andb_true_iff in Ef. destruct Ef as [_ Ef]. apply opt_eqb_string in Ef. exact Ef.
  - apply get_nameid_format_ok in Hc. exact Hc.
Qed.

Lemma nameid_holds x r : create x = Issued r -> nameid_ok x r.
Proof.
  intros H. destruct (create_issued _ _ H) as (nm & src & sr & sa & Hc & _ & ->).
  unfold nameid_ok; cbn [i_nameid].
  destruct (a_name_id (arg x)) as [n|] eqn:En.
  - unfold choose_name_id, choose_name_id_with in Hc. rewrite En in Hc. inversion Hc; reflexivity.
  - rewrite (chosen_format _ _ _ En Hc).
    destruct (requested_format x) as [f|] eqn:Erf.
    + rewrite (nim_format_requested _ _ Erf). reflexivity.
    + intros sec Hsec. apply applicable_fun in Hsec. rewrite (nim_format_configured _ Erf), Hsec. reflexivity.
Qed.

(* the property as a whole, for every configuration and every argument combination *)
Lemma spec_holds x : spec x (create x).
Proof.
  destruct (create x) as [r|e] eqn:E; cbn.
  - split; [apply scope_holds|split; [apply nameid_holds|apply sign_holds]]; assumption.
  - apply refusal_holds; exact E.
Qed.

(* ------------------------------------------------------------ outside the guard: the open finding; and the repaired one *)
Definition base_args : args :=
  {| a_identity := [("mail", ["a@example.org"])]; a_in_response_to := Some "req-1";
     a_destination := "https://sp.example.org/acs/post"; a_sp := "https://sp.example.org/sp.xml";
     a_nidpolicy := None; a_name_id := None;
     a_authn := Some (Some "urn:oasis:names:tc:SAML:2.0:ac:classes:Password", None); a_issuer := None;
     a_sign_response := Some true; a_sign_assertion := None; a_sign_alg := None; a_digest_alg := None;
     a_policy := None; a_farg := None |}.

Definition base_cfg (pol : policy) : config :=
  {| c_entityid := "https://idp.example.org/idp.xml"; c_sign_response := Unset; c_sign_assertion := Unset;
     c_signing_algorithm := None; c_digest_algorithm := None; c_policy := pol; c_domain := None |}.

Definition persistent_for_sp : policy :=
  [("https://sp.example.org/sp.xml",
    Some {| s_lifetime := None; s_nameid_format := Some NAMEID_FORMAT_PERSISTENT; s_other := false |})].

(* C09-F1 (repaired by d41562bb): the request names a foreign SPNameQualifier and no Format; the pre-fix code
   looked the format up under the qualifier, so the requester's configured persistent format was not used *)
Definition witness_f1 : input :=
  {| cfg := base_cfg persistent_for_sp;
     arg := {| a_identity := a_identity base_args; a_in_response_to := a_in_response_to base_args;
               a_destination := a_destination base_args; a_sp := a_sp base_args;
               a_nidpolicy := Some {| p_format := None; p_spnq := Some "urn:example:affiliation:1" |};
               a_name_id := None; a_authn := a_authn base_args; a_issuer := None; a_sign_response := None;
               a_sign_assertion := None; a_sign_alg := None; a_digest_alg := None; a_policy := None; a_farg := None |};
     ra := None; stored := []; now := 1700000000; zone := 0 |}.

(* C09-F2: an earlier (transient) identifier of the user is re-used although the policy says persistent *)
Definition witness_f2 : input :=
  {| cfg := base_cfg persistent_for_sp; arg := base_args; ra := None;
     stored := [ {| n_format := Some NAMEID_FORMAT_TRANSIENT; n_spnq := Some "https://sp.example.org/sp.xml";
                    n_nq := Some "https://idp.example.org/idp.xml" |} ];
     now := 1700000000; zone := 0 |}.

Lemma refuted_by w o : spec_b w o = false -> (forall x o, spec_b x o = true <-> spec x o) -> ~ spec w o.
Proof. intros Hb Hr Hs. apply Hr in Hs. congruence. Qed.

(* ------------------------------------------------------------ spec_b is the spec *)
Lemma some_b_iff {A} (o : option A) : some_b o = true <-> o <> None.
Proof. destruct o; cbn; split; congruence. Qed.

Lemma scope_b_iff x r : scope_b x r = true <-> scope x r.
Proof.
  unfold scope_b, scope. cbv zeta.
  rewrite !andb_true_iff, !String.eqb_eq, list_list_string_eqb, !opt_eqb_string, !Z.eqb_eq, attrs_eqb_eq.
  rewrite orb_true_iff, String.eqb_eq, opt_eqb_string.
  split.
  - intros ((((((((((((H1 & H2) & H3) & H4) & H5) & H6) & H7) & H8) & H9) & H10) & H11) & H12) & H13).
    repeat split; try assumption.
    + intros Hne. destruct H8; [contradiction|assumption].
    + apply applicable_fun in H. rewrite <- H. exact H11.
    + apply applicable_fun in H. rewrite <- H. exact H12.
  - intros (H1 & H2 & H3 & H4 & H5 & H6 & H7 & H8 & H9 & H10 & H11 & H13).
    destruct (H11 _ (applicable_total (policy_in_force x) (requester x) (ra x))) as [Ha Hb].
    repeat split; try assumption.
    destruct (String.eqb (a_destination (arg x)) "") eqn:E.
    + left. apply String.eqb_eq; exact E.
    + right. apply H8. intros C. rewrite C in E. discriminate.
Qed.

Lemma nameid_ok_b_iff x r : nameid_ok_b x r = true <-> nameid_ok x r.
Proof.
  unfold nameid_ok_b, nameid_ok. destruct (a_name_id (arg x)) as [n|]; [apply nid_eqb_eq|].
  destruct (requested_format x) as [f|]; [apply opt_eqb_string|].
  rewrite opt_eqb_string. split.
  - intros H sec Hs. apply applicable_fun in Hs. rewrite <- Hs. exact H.
  - intros H. apply H. apply applicable_total.
Qed.

Lemma signed_b_iff x r : signed_as_demanded_b x r = true <-> signed_as_demanded x r.
Proof.
  unfold signed_as_demanded_b, signed_as_demanded.
  rewrite !andb_true_iff, !Bool.eqb_true_iff.
  split.
  - intros (((H1 & H2) & H3) & H4). repeat split.
    + intros Hn. rewrite <- H1. apply some_b_iff; exact Hn.
    + intros Hd. apply some_b_iff. rewrite H1; exact Hd.
    + intros Hn. rewrite <- H2. apply some_b_iff; exact Hn.
    + intros Hd. apply some_b_iff. rewrite H2; exact Hd.
    + intros al E. rewrite E in H3. apply algs_eqb_eq; exact H3.
    + intros al E. rewrite E in H4. apply algs_eqb_eq; exact H4.
  - intros ((H1 & H1') & (H2 & H2') & H3 & H4). repeat split.
    + destruct (s_response r) eqn:E, (demanded (a_sign_response (arg x)) (c_sign_response (cfg x))) eqn:D;
        cbn; try reflexivity; [exfalso; assert (T : Some p <> None) by discriminate; apply H1 in T; discriminate
                              | exfalso; apply (H1' eq_refl); reflexivity].
    + destruct (s_assertion r) eqn:E, (demanded (a_sign_assertion (arg x)) (c_sign_assertion (cfg x))) eqn:D;
        cbn; try reflexivity; [exfalso; assert (T : Some p <> None) by discriminate; apply H2 in T; discriminate
                              | exfalso; apply (H2' eq_refl); reflexivity].
    + destruct (s_response r) as [al|]; [apply algs_eqb_eq, H3; reflexivity|reflexivity].
    + destruct (s_assertion r) as [al|]; [apply algs_eqb_eq, H4; reflexivity|reflexivity].
Qed.

Lemma refusal_b_iff x e : refusal_ok_b x e = true <-> refusal_ok x e.
Proof.
  destruct e; unfold refusal_ok_b, refusal_ok.
  - rewrite andb_true_iff, !negb_true_iff. destruct (a_name_id (arg x)); cbn [some_b]; split; intros [A B]; split; congruence.
  - rewrite andb_true_iff, orb_true_iff, !negb_true_iff. split.
    + intros [A [B|B]]; (split; [exact A|]); [left|right]; intros Hin; apply mem_In in Hin; congruence.
    + intros [A [B|B]]; (split; [exact A|]); [left|right];
        match goal with |- mem ?a ?l = false => destruct (mem a l) eqn:E; [exfalso; apply B, mem_In; exact E|reflexivity] end.
Qed.

Lemma spec_b_iff x o : spec_b x o = true <-> spec x o.
Proof.
  destruct o as [r|e]; cbn; [|apply refusal_b_iff].
  rewrite !andb_true_iff, scope_b_iff, nameid_ok_b_iff, signed_b_iff. tauto.
Qed.

Lemma f1_v0_refuted : ~ spec witness_f1 (create_v0 witness_f1).
Proof. apply refuted_by; [vm_compute; reflexivity|exact spec_b_iff]. Qed.

(* the witnesses of the repaired findings: where they lie, and that the repaired code satisfies the spec there *)
Lemma f1_outside : store_fresh witness_f1 /\ ~ own_namespace witness_f1 /\ requested_format witness_f1 = None.
Proof. repeat split; [intros n []|intros C; vm_compute in C; discriminate]. Qed.

Lemma f2_v0_refuted : ~ spec witness_f2 (create_f2_v0 witness_f2).
Proof. apply refuted_by; [vm_compute; reflexivity|exact spec_b_iff]. Qed.

Lemma f2_outside : ~ store_fresh witness_f2 /\ own_namespace witness_f2 /\ requested_format witness_f2 = None.
Proof.
  split; [|split; reflexivity]. intros C.
  apply (C {| n_format := Some NAMEID_FORMAT_TRANSIENT; n_spnq := Some "https://sp.example.org/sp.xml";
              n_nq := Some "https://idp.example.org/idp.xml" |}); [left; reflexivity|reflexivity].
Qed.

(* ------------------------------------------------------------ end to end: composition with C01/C04/C05/C06 *)
Lemma lookup_assoc k l : C06.Model.lookup k l = assoc k l.
Proof. induction l as [|[k' v] r IH]; cbn; [reflexivity|]. rewrite IH. reflexivity. Qed.

Lemma in_force01_wr v : in_force01 v true = C01.Spec.in_force v true.
Proof. destruct v; reflexivity. Qed.
Lemma in_force01_f v : in_force01 v false = C01.Spec.in_force v false.
Proof. destruct v; reflexivity. Qed.

Lemma sigst_valid s : s <> None -> sigst_of s = C01.Model.Valid.
Proof. destruct s; [reflexivity|congruence]. Qed.

Lemma sigst_ok s : C01.Spec.ok (sigst_of s).
Proof. destruct s; [right|left]; reflexivity. Qed.

(* C01: the demanded signatures are carried, every signature present was made by the IdP key *)
Lemma e2e_c01 s r : demands_met s r -> C01.Model.parse_response (in01 s r) = true.
Proof.
  intros (H1 & H2 & H3).
  destruct (C01.Proofs.policy_holds (in01 s r)) as [_ Hc].
  apply Hc; [|cbn; destruct (String.eqb (sp_binding s) BINDING_HTTP_REDIRECT); discriminate].
  unfold C01.Spec.satisfied, C01.Spec.wr, C01.Spec.wa, C01.Spec.wor; cbn.
  repeat split; try apply sigst_ok.
  - intros W. apply sigst_valid, H1. rewrite in_force01_wr. exact W.
  - intros W. apply sigst_valid, H2. rewrite in_force01_f. exact W.
  - intros W. rewrite <- in_force01_f in W. destruct (H3 W) as [A|A]; [left|right]; apply sigst_valid; exact A.
Qed.

(* C05: the clock of the receiver is within the lifetime *)
Lemma e2e_c05 s r :
  i_not_before r = r_issue_instant r -> i_nooa_sc r = i_nooa_cond r -> clock_within s r ->
  C05.Model.accept (in05 s r) = C05.Model.Accept (i_nooa_cond r).
Proof.
  intros Hnb Hsc (Hs & Hi & Hn & Hd).
  unfold C05.Model.accept, in05; cbn [C05.Model.now C05.Model.atd C05.Model.t C05.Model.issue C05.Model.sess
    C05.Model.cnb C05.Model.cnooa C05.Model.snb C05.Model.snooa].
  assert (Hsl : C05.Model.timeslack (sp_atd s) = slack s).
  { unfold C05.Model.timeslack, slack. destruct (sp_atd s) as [z|]; [|reflexivity].
    destruct (z =? 0)%Z eqn:E; [apply Z.eqb_eq in E; lia|reflexivity]. }
  rewrite Hsl, Hnb, Hsc. set (sl := slack s) in *. set (n := sp_now s) in *.
  set (i := r_issue_instant r) in *. set (e := i_nooa_cond r) in *.
  unfold C05.Model.issue_instant_ok, C05.Model.validate_on_or_after, C05.Model.validate_before,
    C05.Model.later_than, C05.Model.str_to_time; cbn [fst].
  replace ((n - 86400 - sl <=? i)%Z) with true by (symmetry; apply Z.leb_le; lia).
  replace ((i <? n + 86400 + sl)%Z) with true by (symmetry; apply Z.ltb_lt; lia).
  replace ((e >=? i)%Z) with true by (symmetry; apply Z.geb_le; lia).
  replace ((n >? e + sl)%Z) with false by (symmetry; rewrite Z.gtb_ltb; apply Z.ltb_ge; lia).
  replace ((i >? n + sl)%Z) with false by (symmetry; rewrite Z.gtb_ltb; apply Z.ltb_ge; lia).
  cbn. reflexivity.
Qed.

(* C06: the Response answers a request the receiver has outstanding *)
Lemma e2e_c06 s r i ctx :
  r_in_response_to r = Some i -> i_irt r = Some i -> assoc i (sp_outstanding s) = Some ctx ->
  i_authn r <> None ->
  C06.Model.accept (in06 s r) = C06.Model.Identity (Some ctx).
Proof.
  intros Hr Hi Ho Ha.
  unfold C06.Model.accept, C06.Model.instance_invalid, C06.Model.loads, in06;
    cbn [C06.Model.assertions C06.Model.irt C06.Model.outstanding C06.Model.version C06.Model.status_top
         C06.Model.status_second C06.Model.allow_unsolicited C06.Model.subject C06.Model.n_authn existsb orb].
  rewrite Hr, Hi, lookup_assoc, Ho.
  cbn [C06.Model.check_sc_irt C06.Model.subject C06.Model.sc_all_match opt_eqb].
  rewrite String.eqb_refl. cbn [andb].
  unfold C06.Model.version_ok; cbn [fst snd Nat.eqb andb negb].
  rewrite String.eqb_refl. cbn [negb].
  destruct (i_authn r) as [a|]; [|congruence]. cbn [Nat.eqb negb].
  cbn [C06.Model.confirmations]. cbn.
  destruct (sp_allow_unsolicited s); reflexivity.
Qed.

Lemma update_farg_none irt d : update_farg irt d None =
  {| f_method := Some SCM_BEARER; f_irt := irt; f_recipient := Some d |}.
Proof. reflexivity. Qed.

(* ------------------------------------------------------------ the requester's consumer endpoints, as configured *)
(* Config.endpoint on the unpacked specifications: a bare URL is handed out when no specification names the binding *)
Lemma endpoint_bare specs b d :
  In (C04.Model.Bare d) specs -> (forall u, ~ In (C04.Model.EP u b) specs) -> In d (C04.Model.endpoint specs b).
Proof.
  intros Hb Hn. unfold C04.Model.endpoint.
  set (f := fun e => match e with C04.Model.EP u b0 => if String.eqb b0 b then [u] else [] | C04.Model.Bare _ => [] end).
  assert (Hs : flat_map f specs = []).
  { clear Hb. induction specs as [|e l IH]; [reflexivity|]. cbn [flat_map].
    rewrite IH by (intros u Hu; apply (Hn u); right; exact Hu).
    destruct e as [u b0|u]; cbn [f]; [|reflexivity].
    destruct (String.eqb b0 b) eqn:E; [|reflexivity].
    apply String.eqb_eq in E. subst b0. exfalso. apply (Hn u). left; reflexivity. }
  rewrite Hs. apply in_flat_map. exists (C04.Model.Bare d). split; [exact Hb|left; reflexivity].
Qed.

Lemma names_url_binding_ep acs d b e :
  In e acs -> names_url_binding d b e = true -> In (C04.Model.EP d b) (map conf_ep acs).
Proof.
  intros Hin Hn. apply in_map_iff. exists e. split; [|exact Hin].
  destruct e as [u|u b'|u b' i]; cbn in Hn; [discriminate| |];
    apply andb_true_iff in Hn; destruct Hn as [A B]; apply String.eqb_eq in A, B; subst; reflexivity.
Qed.

(* every published consumer URL is among the return addresses of the binding it is published for - unless it is
   published by a bare specification only and another specification names that binding (finding C09-F3) *)
Lemma published_reachable acs d b :
  In (d, b) (published acs) -> bare_shadowed_b acs d b = false -> In d (C04.Model.endpoint (map conf_ep acs) b).
Proof.
  intros Hp Hg. unfold published in Hp. apply in_map_iff in Hp. destruct Hp as (e & He & Hin).
  destruct e as [u|u b'|u b' i]; cbn in He.
  - injection He as Hu Hb0. subst u. subst b.
    unfold bare_shadowed_b in Hg. apply andb_false_iff in Hg. destruct Hg as [Hg|Hg].
    + apply negb_false_iff, existsb_exists in Hg. destruct Hg as (e' & Hin' & Hn).
      apply C04.Proofs.endpoint_complete. exact (names_url_binding_ep acs d _ e' Hin' Hn).
    + apply endpoint_bare.
      * apply in_map_iff. exists (ABare d). split; [reflexivity|exact Hin].
      * intros u0 Hu. apply in_map_iff in Hu. destruct Hu as (e' & He' & Hin').
        assert (Hnb : names_binding acs_default_binding e' = true).
        { destruct e' as [v|v b0|v b0 j]; cbn in He'; [discriminate| |]; inversion He'; subst; cbn [names_binding]; apply String.eqb_refl. }
        assert (Hex : existsb (names_binding acs_default_binding) acs = true)
          by (apply existsb_exists; exists e'; split; assumption).
        rewrite Hex in Hg. discriminate.
  - inversion He; subst. apply C04.Proofs.endpoint_complete. apply in_map_iff. exists (APair d b). split; [reflexivity|exact Hin].
  - inversion He; subst. apply C04.Proofs.endpoint_complete. apply in_map_iff. exists (AIndexed d b i). split; [reflexivity|exact Hin].
Qed.

Lemma bare_shadowed_b_iff acs d b : bare_shadowed_b acs d b = true <-> bare_shadowed acs d b.
Proof.
  unfold bare_shadowed_b, bare_shadowed. rewrite andb_true_iff, negb_true_iff. split.
  - intros [A B]. split.
    + intros e He. destruct (names_url_binding d b e) eqn:E; [|reflexivity].
      assert (X : existsb (names_url_binding d b) acs = true) by (apply existsb_exists; exists e; split; assumption).
      rewrite X in A. discriminate.
    + apply existsb_exists in B. exact B.
  - intros [A B]. split.
    + destruct (existsb (names_url_binding d b) acs) eqn:E; [|reflexivity].
      apply existsb_exists in E. destruct E as (e & He & Hn). rewrite (A e He) in Hn. discriminate.
    + apply existsb_exists. exact B.
Qed.

(* the addressing checks (C04) pass when Destination and Recipient are one of the return addresses *)
Lemma identity_addressed x d :
  (forall q, In q (C04.Model.rs x) -> In (Some (C04.Model.me x)) q) -> C04.Model.me x <> "" ->
  no_outer_ws (C04.Model.me x) = true ->
  C04.Model.dest x = Some d -> In d (C04.Model.endpoint (C04.Model.specs x) (C04.Model.binding x)) ->
  C04.Model.recip x = Some d -> d <> "" -> C04.Model.conv x = None ->
  C04.Model.identity x = true.
Proof.
  intros Hrs Hme Hws Hd Hde Hr Hdne Hcv. unfold C04.Model.identity.
  rewrite !andb_true_iff. split; [split|].
  - unfold C04.Model.dest_ok. destruct (C04.Model.asynchop (C04.Model.binding x)); [|reflexivity]. rewrite Hd.
    apply orb_true_iff; right. apply mem_In. exact Hde.
  - unfold C04.Model.for_me. apply forallb_forall. intros q Hq. apply existsb_exists. exists (Some (C04.Model.me x)).
    split; [apply Hrs; exact Hq|]. cbn. rewrite (strip_id _ Hws), String.eqb_refl.
    destruct (C04.Model.me x); [contradiction|reflexivity].
  - unfold C04.Model.recipient_ok. rewrite Hr. apply andb_true_iff. split.
    + destruct d; [contradiction|reflexivity].
    + unfold C04.Model.verify_recipient. rewrite Hcv. reflexivity.
Qed.

(* the end-to-end clause: a Response created for a requester is accepted by that requester's SP and the
   identity it reports is exactly what was released - in every spelling of the requester's consumer endpoints, for
   every consumer URL it publishes, outside the class of the open finding C09-F3 *)
Lemma e2e_holds x r s d ctx :
  create x = Issued r ->
  same_federation x s d ctx -> bare_shadowed_b (sp_acs s) d (sp_binding s) = false ->
  plain_call x -> demands_met s r -> clock_within s r ->
  sp_accepts s r = Some (a_identity (arg x), i_nooa_cond r, Some ctx).
Proof.
  intros H (Hme & Hidp & Hne & Hws & Hd & Hdne & Hep & (i & Hirt & Hout)) Hguard (Hiss & Hfa & (c & Hau & Hc)) Hdm Hck.
  destruct (create_issued _ _ H) as (nm & src & sr & sa & _ & _ & Er).
  assert (Eiss : issuer_of x = sp_idp s).
  { rewrite Hidp. unfold issuer_of. destruct Hiss as [-> | ->]; reflexivity. }
  assert (Eauthn : i_authn r = Some (Some c, None)).
  { rewrite Er; cbn [i_authn]. rewrite Hau. unfold authn_statement, truthy_s.
    apply is_empty_false in Hc. rewrite Hc. reflexivity. }
  assert (Emeth : i_method r = Some SCM_BEARER) by (rewrite Er; cbn [i_method]; rewrite Hfa; reflexivity).
  assert (Erec : i_recipient r = Some d) by (rewrite Er; cbn [i_recipient]; rewrite Hfa, Hd; reflexivity).
  assert (Eirt : i_irt r = Some i) by (rewrite Er; cbn [i_irt]; rewrite Hfa, Hirt; reflexivity).
  assert (Erirt : r_in_response_to r = Some i) by (rewrite Er; cbn [r_in_response_to]; exact Hirt).
  assert (Edest : r_destination r = Some d).
  { rewrite Er; cbn [r_destination]. rewrite Hd. apply is_empty_false in Hdne. rewrite Hdne. reflexivity. }
  assert (Eaud : i_audiences r = [[sp_me s]]) by (rewrite Er, Hme; reflexivity).
  assert (Eattr : i_attributes r = a_identity (arg x)) by (rewrite Er; reflexivity).
  assert (Enb : i_not_before r = r_issue_instant r) by (rewrite Er; reflexivity).
  assert (Esc : i_nooa_sc r = i_nooa_cond r) by (rewrite Er; reflexivity).
  assert (Eri : r_issuer r = sp_idp s) by (rewrite Er; exact Eiss).
  assert (Eii : i_issuer r = sp_idp s) by (rewrite Er; exact Eiss).
  unfold sp_accepts, sp_accepts_with. fold (in04 s r).
  assert (S1 : shape_ok s r = true).
  { unfold shape_ok. rewrite Eri, Eii, Emeth, Eauthn, !String.eqb_refl, opt_eqb_refl.
    destruct (s_response r), (s_assertion r); reflexivity. }
  assert (S2 : C04.Model.identity (in04 s r) = true).
  { apply (identity_addressed (in04 s r) d); cbn.
    - rewrite Eaud. cbn. intros q [<-|[]]. left; reflexivity.
    - rewrite Hme; exact Hne.
    - rewrite Hme; exact Hws.
    - exact Edest.
    - exact (published_reachable _ _ _ Hep Hguard).
    - exact Erec.
    - exact Hdne.
    - reflexivity. }
  rewrite S1, (e2e_c01 _ _ Hdm), S2; cbn [andb].
  rewrite (e2e_c05 _ _ Enb Esc Hck).
  rewrite (e2e_c06 s r i ctx Erirt Eirt Hout) by (rewrite Eauthn; discriminate).
  rewrite Eattr. reflexivity.
Qed.

Lemma e2e_holds_guarded x r s d ctx :
  create x = Issued r ->
  same_federation x s d ctx -> ~ bare_shadowed (sp_acs s) d (sp_binding s) ->
  plain_call x -> demands_met s r -> clock_within s r ->
  sp_accepts s r = Some (a_identity (arg x), i_nooa_cond r, Some ctx).
Proof.
  intros H F G. apply (e2e_holds x r s d ctx H F).
  destruct (bare_shadowed_b (sp_acs s) d (sp_binding s)) eqn:E; [|reflexivity].
  exfalso. apply G, bare_shadowed_b_iff, E.
Qed.

(* the boolean hypothesis check used on observed outputs implies the stated hypotheses *)
Lemma e2e_hyp_sound x s r ctx :
  e2e_hyp_b x s r = Some ctx ->
  exists d, same_federation x s d ctx /\ plain_call x /\ demands_met s r /\ clock_within s r.
Proof.
  unfold e2e_hyp_b. cbv zeta.
  destruct (_ && _) eqn:E; [|discriminate].
  repeat (apply andb_true_iff in E; destruct E as [E ?]).
  intros Hctx. exists (a_destination (arg x)).
  repeat match goal with H : negb _ = true |- _ => apply negb_true_iff in H end.
  repeat match goal with H : String.eqb _ _ = true |- _ => apply String.eqb_eq in H end.
  split; [|split; [|split]].
  - unfold same_federation. repeat split; try assumption.
    + intros C. rewrite C in *. discriminate.
    + intros C. rewrite C in *. discriminate.
    + match goal with H : existsb _ _ = true |- _ => apply existsb_exists in H; destruct H as (ep & Hin & Hep) end.
      destruct ep as [u b]. unfold is_pub in Hep; cbn [fst snd] in Hep.
      apply andb_true_iff in Hep. destruct Hep as [A B]. apply String.eqb_eq in A, B. subst. exact Hin.
    + destruct (a_in_response_to (arg x)) as [i|]; [|discriminate]. exists i. split; [reflexivity|exact Hctx].
  - match goal with H : plain_call_b x = true |- _ => unfold plain_call_b in H;
      repeat (apply andb_true_iff in H; destruct H as [H ?]) end.
    unfold plain_call. repeat split.
    + destruct (a_issuer (arg x)) as [i|]; [right|left; reflexivity].
      match goal with H : String.eqb i "" = true |- _ => apply String.eqb_eq in H; subst; reflexivity end.
    + destruct (a_farg (arg x)); [discriminate|reflexivity].
    + destruct (a_authn (arg x)) as [[[c|] [a|]]|]; try discriminate. exists c. split; [reflexivity|].
      match goal with H : negb (String.eqb c "") = true |- _ => apply negb_true_iff in H end.
      intros C; subst; discriminate.
  - match goal with H : demands_met_b s r = true |- _ => unfold demands_met_b in H;
      repeat (apply andb_true_iff in H; destruct H as [H ?]) end.
    unfold demands_met. repeat split.
    + intros W. apply some_b_iff. destruct (in_force01 (sp_wr s) true); [assumption|discriminate].
    + intros W. apply some_b_iff. destruct (in_force01 (sp_wa s) false); [assumption|discriminate].
    + intros W. destruct (in_force01 (sp_wor s) false); [|discriminate].
      match goal with H : implb true _ = true |- _ => cbn in H; apply orb_true_iff in H; destruct H as [H|H] end;
        [left|right]; apply some_b_iff; assumption.
  - match goal with H : clock_within_b s r = true |- _ => unfold clock_within_b in H;
      repeat (apply andb_true_iff in H; destruct H as [H ?]) end.
    unfold clock_within. repeat match goal with H : (_ <=? _)%Z = true |- _ => apply Z.leb_le in H end. lia.
Qed.

(* hence: whenever the boolean hypotheses hold of an issued Response, the acceptance model reports exactly the
   identity the boolean clause e2e_b demands *)
Lemma e2e_b_model x s r :
  create x = Issued r -> bare_shadowed_b (sp_acs s) (a_destination (arg x)) (sp_binding s) = false ->
  e2e_b x s r (sp_accepts s r) = true.
Proof.
  intros H Hg. unfold e2e_b. destruct (e2e_hyp_b x s r) as [ctx|] eqn:E; [|reflexivity].
  destruct (e2e_hyp_sound _ _ _ _ E) as (d & H1 & H2 & H3 & H4).
  assert (Ed : a_destination (arg x) = d) by (destruct H1 as (_ & _ & _ & _ & Hd & _); exact Hd).
  rewrite Ed in Hg.
  rewrite (e2e_holds _ _ _ _ _ H H1 Hg H2 H3 H4).
  rewrite (proj2 (attrs_eqb_eq _ _) eq_refl), Z.eqb_refl, opt_eqb_refl. reflexivity.
Qed.

(* ------------------------------------------------------------ non-vacuity *)
Definition example_sp : spside :=
  {| sp_me := "https://sp.example.org/sp.xml"; sp_idp := "https://idp.example.org/idp.xml";
     sp_acs := [APair "https://sp.example.org/acs/post" "urn:oasis:names:tc:SAML:2.0:bindings:HTTP-POST"];
     sp_binding := "urn:oasis:names:tc:SAML:2.0:bindings:HTTP-POST";
     sp_wr := C01.Model.Unset; sp_wa := C01.Model.Unset; sp_wor := C01.Model.Unset; sp_atd := None;
     sp_allow_unsolicited := false; sp_outstanding := [("req-1", "/came/from")]; sp_now := 1700000060; sp_zone := 0 |}.

Definition example_in : input :=
  {| cfg := base_cfg []; arg := base_args; ra := None; stored := []; now := 1700000000; zone := 0 |}.

Example e2e_hypotheses_satisfiable :
  exists r, create example_in = Issued r
            /\ e2e_hyp_b example_in example_sp r = Some "/came/from"
            /\ sp_accepts example_sp r = Some ([("mail", ["a@example.org"])], 1700003600%Z, Some "/came/from").
Proof. eexists. split; [vm_compute; reflexivity|split; vm_compute; reflexivity]. Qed.

(* ------------------------------------------------------------ the process time zone *)
(* the code as it is takes UTC readings only: neither the issued Response, nor the property, nor the acceptance
   models depend on the time zone of the issuing or the receiving process *)
Lemma zone_irrelevant z x : create (in_zone z x) = create x.
Proof. reflexivity. Qed.

Lemma spec_zone_free z x o : spec (in_zone z x) o = spec x o.
Proof. reflexivity. Qed.

Lemma spec_b_zone_free z x o : spec_b (in_zone z x) o = spec_b x o.
Proof. reflexivity. Qed.

Lemma sp_zone_irrelevant z s r : sp_accepts (sp_in_zone z s) r = sp_accepts s r.
Proof. reflexivity. Qed.

Lemma e2e_zone_free z z' x s r so : e2e_b (in_zone z x) (sp_in_zone z' s) r so = e2e_b x s r so.
Proof. reflexivity. Qed.

Lemma create_read_utc x : create_read UtcReading UtcReading x = create x.
Proof. reflexivity. Qed.

Lemma not_on_or_after_shift t d pol sp ra :
  not_on_or_after (t + d) pol sp ra = (not_on_or_after t pol sp ra + d)%Z.
Proof. unfold not_on_or_after, in_a_while. lia. Qed.

(* the property is sharp in this dimension: a provider that takes the wall clock of its time zone for the issue
   time or for the expiry (and prints it as UTC) breaks the scope clause on EVERY call it answers, as soon as the
   zone is not UTC *)
Lemma wall_clock_refuted ic ec x r :
  (ic, ec) <> (UtcReading, UtcReading) -> zone x <> 0%Z ->
  create_read ic ec x = Issued r -> ~ scope x r.
Proof.
  intros Hk Hz H S.
  unfold create_read, create_clocked in H.
  destruct (choose_name_id_with _ _ x) as [[nm src]|]; [|discriminate].
  destruct (signatures x) as [[sr sa]|]; [|discriminate].
  inversion H; subst r; clear H.
  unfold scope in S; cbn in S.
  destruct S as (_ & _ & _ & _ & _ & _ & _ & _ & Hi & _ & He & _).
  destruct ic.
  - destruct ec; [congruence|].
    destruct (He _ (applicable_total _ _ _)) as [He1 _].
    cbn [read] in He1. rewrite not_on_or_after_shift in He1.
    rewrite (nooa_spec x) in He1. lia.
  - cbn [read] in Hi. lia.
Qed.

(* and the other way round: in a process whose zone IS UTC the two readings coincide *)
Lemma wall_clock_same_at_utc ic ec x : zone x = 0%Z -> create_read ic ec x = create x.
Proof.
  intros Hz. unfold create, create_with, create_read, create_clocked.
  assert (R : forall k, read k x = now x) by (intros [|]; cbn [read]; lia).
  rewrite !R. reflexivity.
Qed.

(* non-vacuity: a provider nine hours ahead of UTC that answers (the seeded change utcnow() -> now() in
   time_util.time_in_a_while is create_read UtcReading WallReading) *)
Example wall_clock_example :
  exists r, create_read UtcReading WallReading (in_zone 32400 example_in) = Issued r
            /\ i_not_before r = 1700000000%Z /\ i_nooa_cond r = (1700000000 + 32400 + 3600)%Z
            /\ spec_b (in_zone 32400 example_in) (Issued r) = false.
Proof. eexists. split; [vm_compute; reflexivity|repeat split; vm_compute; reflexivity]. Qed.

(* ------------------------------------------------------------ the spelling of the requester's consumer endpoints *)
Definition with_acs (acs : list acsconf) (s : spside) : spside :=
  {| sp_me := sp_me s; sp_idp := sp_idp s; sp_acs := acs; sp_binding := sp_binding s; sp_wr := sp_wr s;
     sp_wa := sp_wa s; sp_wor := sp_wor s; sp_atd := sp_atd s; sp_allow_unsolicited := sp_allow_unsolicited s;
     sp_outstanding := sp_outstanding s; sp_now := sp_now s; sp_zone := sp_zone s |}.

(* give every specification that names a binding the index f says (None = write it as a pair) *)
Definition reindex (f : string -> string -> option string) (acs : list acsconf) : list acsconf :=
  map (fun e => match e with
                | ABare u => ABare u
                | APair u b | AIndexed u b _ => match f u b with Some i => AIndexed u b i | None => APair u b end
                end) acs.

Lemma reindex_conf_ep f acs : map conf_ep (reindex f acs) = map conf_ep acs.
Proof.
  unfold reindex. rewrite map_map. apply map_ext. intros [u|u b|u b i]; [reflexivity| |]; destruct (f u b); reflexivity.
Qed.

Lemma reindex_published f acs : published (reindex f acs) = published acs.
Proof.
  unfold published, reindex. rewrite map_map. apply map_ext.
  intros [u|u b|u b i]; [reflexivity| |]; destruct (f u b); reflexivity.
Qed.

(* the acceptance depends on the configured endpoints only through what Config.endpoint unpacks *)
Lemma acs_spelling_irrelevant acs s r :
  map conf_ep acs = map conf_ep (sp_acs s) -> sp_accepts (with_acs acs s) r = sp_accepts s r.
Proof.
  intros E. unfold sp_accepts, sp_accepts_with, in04_with, shape_ok, in01, in05, in06, with_acs; cbn. rewrite E. reflexivity.
Qed.

(* ... hence pairs and indexed triples, whatever the indexes, are accepted alike, and publish alike *)
Lemma index_irrelevant f x s r so :
  sp_accepts (with_acs (reindex f (sp_acs s)) s) r = sp_accepts s r
  /\ published (reindex f (sp_acs s)) = published (sp_acs s)
  /\ e2e_b x (with_acs (reindex f (sp_acs s)) s) r so = e2e_b x s r so.
Proof.
  split; [apply acs_spelling_irrelevant, reindex_conf_ep|split; [apply reindex_published|]].
  unfold e2e_b, e2e_hyp_b, demands_met_b, clock_within_b, slack, with_acs; cbn. rewrite reindex_published. reflexivity.
Qed.

(* open finding C09-F3: a requester that writes one consumer URL bare and another one as a pair for the default
   binding publishes both for that binding, and its own service provider turns a Response sent to the bare one down *)
Definition POSTB : string := "urn:oasis:names:tc:SAML:2.0:bindings:HTTP-POST".
Definition mixed_sp : spside :=
  with_acs [ABare "https://sp.example.org/acs/post"; APair "https://sp.example.org/acs/post2" POSTB] example_sp.

Lemma f3_refuted :
  exists x s r ctx, create x = Issued r /\ e2e_hyp_b x s r = Some ctx
                    /\ bare_shadowed (sp_acs s) (a_destination (arg x)) (sp_binding s)
                    /\ sp_accepts s r = None.
Proof.
  exists example_in, mixed_sp. eexists. exists "/came/from".
  split; [vm_compute; reflexivity|split; [vm_compute; reflexivity|split; [|vm_compute; reflexivity]]].
  apply bare_shadowed_b_iff. vm_compute. reflexivity.
Qed.

(* the same requester is served when it writes both URLs the same way (either way) *)
Example f3_uniform_spellings_accepted :
  exists r, create example_in = Issued r
  /\ sp_accepts (with_acs [ABare "https://sp.example.org/acs/post"; ABare "https://sp.example.org/acs/post2"] example_sp) r <> None
  /\ sp_accepts (with_acs [APair "https://sp.example.org/acs/post" POSTB; AIndexed "https://sp.example.org/acs/post2" POSTB "7"] example_sp) r <> None.
Proof. eexists. split; [vm_compute; reflexivity|split; vm_compute; discriminate]. Qed.

(* a reading of the specifications without the slice breaks the end-to-end clause for every requester that indexes
   its consumer URLs ... *)
Definition indexed_sp : spside :=
  with_acs [AIndexed "https://sp.example.org/acs/redirect" BINDING_HTTP_REDIRECT "1";
            AIndexed "https://sp.example.org/acs/post" POSTB "2"] example_sp.

Lemma noslice_refuted :
  exists x s r ctx, create x = Issued r /\ e2e_hyp_b x s r = Some ctx
                    /\ bare_shadowed_b (sp_acs s) (a_destination (arg x)) (sp_binding s) = false
                    /\ sp_accepts s r = Some (a_identity (arg x), i_nooa_cond r, Some ctx)
                    /\ sp_accepts_with unpack_noslice s r = None.
Proof.
  exists example_in, indexed_sp. eexists. exists "/came/from".
  split; [vm_compute; reflexivity|split; [vm_compute; reflexivity|split; [vm_compute; reflexivity|split; vm_compute; reflexivity]]].
Qed.

(* ... and cannot be told from the code's reading on configurations without triples (why a check that only ever
   configures pairs does not notice) *)
Definition no_triples (acs : list acsconf) : Prop := forall u b i, ~ In (AIndexed u b i) acs.

Lemma noslice_hidden_without_triples acs : no_triples acs -> unpack_noslice acs = map conf_ep acs.
Proof.
  unfold no_triples, unpack_noslice. induction acs as [|e l IH]; intros H; [reflexivity|]. cbn [flat_map map].
  rewrite IH by (intros u b i Hi; apply (H u b i); right; exact Hi).
  destruct e as [u|u b|u b i]; [reflexivity|reflexivity|]. exfalso. apply (H u b i). left; reflexivity.
Qed.
