(* C14/Corr.v — correspondence runner: model output vs observed output, spec on observed output.
   One constructor per sub-check.  zlib and SHA-1 enter as the values observed on the real
   functions (tables carried by the case). *)
From Coq Require Import String Ascii List Bool Arith ZArith Uint63.
From Verif Require Import Base.Str Base.Run Base.Percent Base.Base64 Base.Html Base.Query C14.Model C14.Spec.
Import ListNotations.
Open Scope string_scope.

(* Case-writer helper: byte strings of 16+ bytes are written packed, 7 bytes per primitive 63-bit
   integer (little endian), because Coq parses string literals slowly (~50 us per character).
   pk len l = the first len bytes. *)
Definition bit_of (n i : int) : bool := negb (is_zero (PrimInt63.land (PrimInt63.lsr n i) 1%uint63)).
Definition byte_at (n i : int) : ascii :=
  let b := PrimInt63.lsr n (PrimInt63.mul 8%uint63 i) in
  Ascii (bit_of b 0%uint63) (bit_of b 1%uint63) (bit_of b 2%uint63) (bit_of b 3%uint63)
        (bit_of b 4%uint63) (bit_of b 5%uint63) (bit_of b 6%uint63) (bit_of b 7%uint63).
Fixpoint unpack (l : list int) : string :=
  match l with
  | [] => EmptyString
  | n :: r =>
      String (byte_at n 0%uint63) (String (byte_at n 1%uint63) (String (byte_at n 2%uint63)
     (String (byte_at n 3%uint63) (String (byte_at n 4%uint63) (String (byte_at n 5%uint63)
     (String (byte_at n 6%uint63) (unpack r)))))))
  end.
Definition pk (len : nat) (l : list int) : string := take len (unpack l).

Example pk_example : pk 9 [32495401788859493; 28271]%uint63 = "eduPerson".
Proof. vm_compute. reflexivity. Qed.

(* observed zlib behaviour: (input, output) pairs; anything else is an error / empty *)
Definition ztab := list (string * option string).
Definition tab_inflate (t : ztab) (d : string) : option string :=
  match assoc d t with Some r => r | None => None end.
Definition dtab := list (string * string).
Definition tab_deflate (t : dtab) (m : string) : string :=
  match assoc m t with Some r => r | None => "" end.
Definition no_soap (s : string) : option string := None.

(* observed SHA-1 digests of the entityIDs of a case; anything else is "" *)
Definition tab_sha1 (t : list (string * string)) (e : string) : string :=
  match assoc e t with Some d => d | None => "" end.

(* one step on one of the long-lived resolvers of the process (real Saml2Client / Server objects; rcv numbers them) *)
Inductive fstep :=
| FLoad (rcv : nat) (cfg : mdconfig) (sm : fsourcemap)
    (* Entity(config with these named sources), reload_metadata, or MetadataStore.reload + a new Entity on the same
       Config; a reload that FAILED is written as a load of the configuration the resolver had; self.sourceid afterwards *)
| FResolve (rcv : nat) (eid handle : string) (idx : nat) (r : role) (art : string) (dest : ares).
    (* create_artifact / use_artifact at the issuer, apply_binding(HTTP-Artifact), SAMLart read from the URL,
       artifact2destination at the resolver *)

Definition desc_eqb (a b : descriptor) : bool := opt_eqb attrs_eqb a b.
Definition entity_eqb (a b : entity) : bool := opt_eqb (list_eqb desc_eqb) a b.
Definition fsm_eqb (a b : fsourcemap) : bool :=
  list_eqb (fun x y => String.eqb (fst x) (fst y) && entity_eqb (fst (snd x)) (fst (snd y))
                       && entity_eqb (snd (snd x)) (snd (snd y))) a b.

Inductive case :=
(* ---- the model of the standard library against the standard library *)
| KB64enc (b enc : string)                                   (* base64.b64encode(b) *)
| KB64dec (s : string) (as_bytes as_str : option string)     (* base64.b64decode(s) for bytes / str argument *)
| KHtml (s esc : string) (py_unescape_ok : bool)             (* html.escape(s, quote=True); html.unescape(esc) == s *)
| KQuote (s q qp : string)                                   (* urllib.parse.quote / quote_plus *)
| KUnquote (s u up : string)                                 (* urllib.parse.unquote / unquote_plus *)
| KQs (qs : string) (pairs : list (string * string))         (* urllib.parse.parse_qsl(qs) *)
| KUrlenc (l : list (string * string)) (s : string)          (* urllib.parse.urlencode(dict(l)) *)
| KUrl (u q f : string)                                      (* urlsplit(u).query, .fragment *)
| KInt16 (b : string) (r : option string)                    (* str(int(b, 16)) for a slice of at most 2 bytes *)
| KFmt (n : Z) (hex dec : string)                            (* f"{n:02x}", str(n) *)
(* ---- pysaml2 *)
| KPost (x : post_in) (zt : ztab) (form : option string) (received : ures) (hp : list token)
| KRedir (x : redir_in) (dt : dtab) (zt : ztab) (url : option string) (received : ures)
| KArtUrl (x : arturl_in) (url : string)
| KUriUrl (x : uriurl_in) (url : string)
| KSoap (t : string) (env : option string) (canon_sent canon_received : option string)
| KUnravel (txt : string) (b : binding) (zt : ztab) (res : ures)
| KArt (x : art_in) (art : string) (dest : ares)
| KArtRaw (sm : sourcemap) (art : string) (dest : ares)
| KArtFed (sha : list (string * string)) (steps : list fstep).

(* the model follows the steps with its own self.sourceid per resolver *)
Fixpoint fed_agrees (sha : string -> string) (st : list (nat * fsourcemap)) (steps : list fstep) : bool :=
  match steps with
  | [] => true
  | FLoad rcv cfg obs :: r =>
      let m := store_source_id sha (store_load cfg) in fsm_eqb m obs && fed_agrees sha ((rcv, m) :: st) r
  | FResolve rcv eid h idx ro art dest :: r =>
      String.eqb (create_artifact sha eid h idx) art
      && ares_eqb (artifact2destination (project ro (fed_of st rcv)) art) dest
      && fed_agrees sha st r
  end.

Definition fres_of (cur : federation) (eid : string) (idx : nat) (ro : role) : fres_in :=
  {| f_fed := cur; f_eid := eid; f_idx := idx; f_role := ro |}.

(* every resolution is judged against the documents its resolver has loaded most recently *)
Fixpoint fed_holds (st : list (nat * federation)) (steps : list fstep) : bool :=
  match steps with
  | [] => true
  | FLoad rcv cfg _ :: r => fed_holds ((rcv, cfg_docs cfg) :: st) r
  | FResolve rcv eid _ idx ro _ dest :: r => artfed_spec_b (fres_of (fed_of st rcv) eid idx ro) dest && fed_holds st r
  end.

(* classes of the failing resolutions *)
Fixpoint fed_classes (st : list (nat * federation)) (steps : list fstep) : list nat :=
  match steps with
  | [] => []
  | FLoad rcv cfg _ :: r => fed_classes ((rcv, cfg_docs cfg) :: st) r
  | FResolve rcv eid _ idx ro _ dest :: r =>
      let x := fres_of (fed_of st rcv) eid idx ro in
      (if artfed_spec_b x dest then [] else [if idx_ok idx then (if spelling_ok x then 0 else 6) else 1])
      ++ fed_classes st r
  end.

Definition pairs_eqb := attrs_eqb.

Definition agrees (c : case) : bool :=
  match c with
  | KB64enc b enc => String.eqb (encode b) enc
  | KB64dec s ab astr => opt_str_eqb (decode s) ab && opt_str_eqb (decode_str s) astr
  | KHtml s esc ok => String.eqb (escape s) esc && String.eqb (unescape esc) s && ok
  | KQuote s q qp => String.eqb (quote s) q && String.eqb (quote_plus s) qp
  | KUnquote s u up => String.eqb (unquote s) u && String.eqb (unquote_plus s) up
  | KQs qs pairs => pairs_eqb (parse_qsl qs) pairs
  | KUrlenc l s => String.eqb (urlencode l) s
  | KUrl u q f => String.eqb (url_query u) q && String.eqb (url_fragment u) f
  | KInt16 b r => opt_str_eqb (int16_str b) r
  | KFmt n hex dec => String.eqb (fmt02x (Z.to_nat n)) hex && String.eqb (decimal (Z.to_nat n)) dec
  | KPost x zt form received _ =>
      opt_str_eqb (http_form_post_message (p_msg x) (p_loc x) (p_rs x) (p_typ x)) form
      && (negb (saml_typ (p_typ x))
          || ures_eqb (post_received (tab_inflate zt) no_soap (p_msg x) (p_typ x)) received)
  | KRedir x dt zt url received =>
      opt_str_eqb (http_redirect_message (tab_deflate dt) (r_msg x) (r_loc x) (r_rs x) (r_typ x)) url
      && (negb (saml_typ (r_typ x))
          || ures_eqb (redirect_received (tab_deflate dt) (tab_inflate zt) no_soap (r_msg x)) received)
  | KArtUrl x url => String.eqb (use_http_artifact (u_art x) (u_dest x) (u_rs x)) url
  | KUriUrl x url => String.eqb (use_http_uri (i_id x) (i_dest x) (i_rs x)) url
  | KSoap t env _ _ => opt_str_eqb (make_soap t) env
  | KUnravel txt b zt res => ures_eqb (unravel (tab_inflate zt) no_soap txt b) res
  | KArt x art dest =>
      String.eqb (create_artifact (fun _ => a_sid x) (a_eid x) (a_handle x) (a_idx x)) art
      && ares_eqb (artifact2destination (a_sm x) art) dest
  | KArtRaw sm art dest => ares_eqb (artifact2destination sm art) dest
  | KArtFed sha steps => fed_agrees (tab_sha1 sha) [] steps
  end.

Definition holds (c : case) : bool :=
  match c with
  | KPost x _ form received hp =>
      post_spec_b x form received && (negb (post_defined x) || tokens_ok x hp received)
  | KRedir x _ _ url received => redir_spec_b x url received
  | KArtUrl x url => arturl_spec_b x url
  | KUriUrl x url => uriurl_spec_b x url
  | KSoap t env cs cr =>
      soap_spec_b t env
      && match cs with
         | Some s => opt_str_eqb cr (Some s)      (* element-for-element at the receiver *)
         | None => true                           (* not parseable XML: no claim *)
         end
  | KArt x _ dest => art_spec_b x dest
  | KArtFed _ steps => fed_holds [] steps
  | _ => true
  end.

(* finding classes (consulted only when [holds] is false).  Class 1 is open; classes 2, 3, 4, 5 and 6
   are repaired in /repo (findings/C14.json: status fixed), so a case that falls into them
   is reported as a VIOLATION again: the class only names the regression. *)
Definition url_cls (dest : string) (repaired : nat) (was_ok : bool) : nat :=
  if negb (qtail_ok dest) then 5 else if was_ok then 0 else repaired.

Definition cls (c : case) : nat :=
  match c with
  | KArt x _ _ => if idx_ok (a_idx x) then 0 else 1
  | KRedir x _ _ _ _ => url_cls (r_loc x) 2 (loc_ok (r_loc x))
  | KArtUrl x _ => url_cls (u_dest x) 3 (dest_plain (u_dest x))
  | KUriUrl x _ => url_cls (i_dest x) 3 (dest_plain (i_dest x))
  | KSoap t _ _ _ => if body_ok t then 0 else 4
  | KArtFed _ steps =>
      (* an unclassified failure anywhere in the sequence wins; class 6: index spelled with leading zeros
         (repaired by fbf0c2eb, status fixed: the class only names the regression) *)
      let l := fed_classes [] steps in
      if existsb (Nat.eqb 0) l then 0 else hd 0 l
  | _ => 0
  end.

Definition run := run_cases agrees holds cls.

(* debugging aid: what the model computes for a case *)
Inductive shown :=
| SStr (a b : string) | SOpt (a b : option string) | SPairs (a : list (string * string))
| SForm (f : option string) (r : ures) (toks : option (option (list token))) (sb : bool)
| SUrl (u : option string) (r : ures) (q : list (string * string)) (sb : bool)
| SArt (a : string) (d : ares) (sb : bool) | SU (r : ures) | SNone
| SFed (l : list (nat + (ares * bool))).

(* per step: size of the model's SourceID table after a load; model result and spec verdict of a resolution *)
Fixpoint fed_shown (sha : string -> string) (cur : list (nat * federation)) (st : list (nat * fsourcemap)) (steps : list fstep)
  : list (nat + (ares * bool)) :=
  match steps with
  | [] => []
  | FLoad rcv cfg _ :: r =>
      let m := store_source_id sha (store_load cfg) in
      inl (length m) :: fed_shown sha ((rcv, cfg_docs cfg) :: cur) ((rcv, m) :: st) r
  | FResolve rcv eid h idx ro art dest :: r =>
      inr (artifact2destination (project ro (fed_of st rcv)) art, artfed_spec_b (fres_of (fed_of cur rcv) eid idx ro) dest)
      :: fed_shown sha cur st r
  end.

Definition explain (c : case) : shown * bool * bool * nat :=
  (match c with
   | KB64enc b _ => SStr (encode b) ""
   | KB64dec s _ _ => SOpt (decode s) (decode_str s)
   | KHtml s esc _ => SStr (escape s) (unescape esc)
   | KQuote s _ _ => SStr (quote s) (quote_plus s)
   | KUnquote s _ _ => SStr (unquote s) (unquote_plus s)
   | KQs qs _ => SPairs (parse_qsl qs)
   | KUrlenc l _ => SStr (urlencode l) ""
   | KUrl u _ _ => SStr (url_query u) (url_fragment u)
   | KInt16 b _ => SOpt (int16_str b) None
   | KFmt n _ _ => SStr (fmt02x (Z.to_nat n)) (decimal (Z.to_nat n))
   | KPost x zt form received _ =>
       SForm (http_form_post_message (p_msg x) (p_loc x) (p_rs x) (p_typ x))
             (post_received (tab_inflate zt) no_soap (p_msg x) (p_typ x))
             (option_map read_html form) (post_spec_b x form received)
   | KRedir x dt zt url received =>
       SUrl (http_redirect_message (tab_deflate dt) (r_msg x) (r_loc x) (r_rs x) (r_typ x))
            (redirect_received (tab_deflate dt) (tab_inflate zt) no_soap (r_msg x))
            (match url with Some u => parse_qsl (url_query u) | None => [] end) (redir_spec_b x url received)
   | KArtUrl x url => SUrl (Some (use_http_artifact (u_art x) (u_dest x) (u_rs x))) UUnravelError
                           (parse_qsl (url_query url)) (arturl_spec_b x url)
   | KUriUrl x url => SUrl (Some (use_http_uri (i_id x) (i_dest x) (i_rs x))) UUnravelError
                           (parse_qsl (url_query url)) (uriurl_spec_b x url)
   | KSoap t env _ _ => SOpt (make_soap t) (body_of t)
   | KUnravel txt b zt _ => SU (unravel (tab_inflate zt) no_soap txt b)
   | KArt x art dest => SArt (create_artifact (fun _ => a_sid x) (a_eid x) (a_handle x) (a_idx x))
                             (artifact2destination (a_sm x) art) (art_spec_b x dest)
   | KArtRaw sm art _ => SArt "" (artifact2destination sm art) true
   | KArtFed sha steps => SFed (fed_shown (tab_sha1 sha) [] [] steps)
   end, agrees c, holds c, cls c).
