(* C14/Spec.v — the property, stated over inputs and what a receiver can observe.
   Written from the property text: the receiver reads the HTML form with an HTML attribute
   reader ([read_html], defined here), the redirect URL with urlsplit/parse_qsl (Base/Query.v),
   unpacks with the standard codecs, and must end up with exactly the sender's strings. *)
From Coq Require Import String Ascii List Bool Arith.
From Verif Require Import Base.Str Base.Percent Base.Base64 Base.Html Base.Query C14.Model.
Import ListNotations.
Open Scope string_scope.

(* ================================================================== a strict reader for HTML start/end tags *)
(* Accepts: text, <!...> declarations, <name attr="value" ...>, <name .../>, </name>.
   Attribute values must be double-quoted and must not contain a raw '<' or '>'; anything
   else puts the reader into MErr.  Values are returned with the character references of
   Base/Html.v resolved.  All strings are accumulated reversed and turned round at the end. *)

Inductive token := TStart (name : string) (attrs : list (string * string)) | TEnd (name : string).
Inductive rtoken := RStart (name : string) (attrs : list (string * string)) | REnd (name : string).
Inductive mode := MText | MOpen | MDecl | MName | MEndName | MTag | MAttr | MEq | MVal | MSlash | MErr.

Record hstate := HS { md : mode; cur : string; tg : string; an : string;
                      ats : list (string * string); out : list rtoken }.

Definition is_alpha (c : ascii) : bool :=
  let n := code c in (((65 <=? n) && (n <=? 90)) || ((97 <=? n) && (n <=? 122)))%nat.
Definition is_name_char (c : ascii) : bool :=
  let n := code c in (is_alpha c || ((48 <=? n) && (n <=? 57)) || (n =? 45))%nat.
Definition is_hspace (c : ascii) : bool :=
  let n := code c in ((n =? 32) || (n =? 9) || (n =? 10) || (n =? 13) || (n =? 12))%nat.

Definition err (o : list rtoken) : hstate := HS MErr "" "" "" [] o.
Definition text (o : list rtoken) : hstate := HS MText "" "" "" [] o.

Definition step (s : hstate) (c : ascii) : hstate :=
  let '(HS m cur tg an ats out) := s in
  match m with
  | MText => if Ascii.eqb c c_lt then HS MOpen "" "" "" [] out else s
  | MOpen =>
      if Ascii.eqb c "!"%char then HS MDecl "" "" "" [] out
      else if Ascii.eqb c "/"%char then HS MEndName "" "" "" [] out
      else if is_alpha c then HS MName (String c "") "" "" [] out
      else err out
  | MDecl => if Ascii.eqb c c_gt then text out else s
  | MName =>
      if is_name_char c then HS MName (String c cur) "" "" [] out
      else if is_hspace c then HS MTag "" cur "" [] out
      else if Ascii.eqb c c_gt then text (RStart cur [] :: out)
      else if Ascii.eqb c "/"%char then HS MSlash "" cur "" [] out
      else err out
  | MEndName =>
      if is_name_char c then HS MEndName (String c cur) "" "" [] out
      else if Ascii.eqb c c_gt then text (REnd cur :: out)
      else err out
  | MTag =>
      if is_hspace c then s
      else if Ascii.eqb c c_gt then text (RStart tg ats :: out)
      else if Ascii.eqb c "/"%char then HS MSlash "" tg "" ats out
      else if is_alpha c then HS MAttr (String c "") tg "" ats out
      else err out
  | MAttr =>
      if is_name_char c then HS MAttr (String c cur) tg "" ats out
      else if Ascii.eqb c c_eq then HS MEq "" tg cur ats out
      else err out
  | MEq => if Ascii.eqb c c_quot then HS MVal "" tg an ats out else err out
  | MVal =>
      if Ascii.eqb c c_quot then HS MTag "" tg "" ((an, cur) :: ats) out
      else if Ascii.eqb c c_lt || Ascii.eqb c c_gt then err out
      else HS MVal (String c cur) tg an ats out
  | MSlash => if Ascii.eqb c c_gt then text (RStart tg ats :: out) else err out
  | MErr => s
  end.

Fixpoint run (s : hstate) (f : string) : hstate :=
  match f with
  | EmptyString => s
  | String c r => run (step s c) r
  end.

Fixpoint srevapp (a b : string) : string :=
  match a with
  | EmptyString => b
  | String c r => srevapp r (String c b)
  end.
Definition srev (a : string) : string := srevapp a "".

Definition fin_attr (a : string * string) : string * string := (srev (fst a), unescape (srev (snd a))).
Definition fin_token (t : rtoken) : token :=
  match t with
  | RStart n a => TStart (srev n) (rev (map fin_attr a))
  | REnd n => TEnd (srev n)
  end.

Definition read_html (f : string) : option (list token) :=
  let s := run (text []) f in
  match md s with
  | MText => Some (rev (map fin_token (out s)))
  | _ => None
  end.

(* ================================================================== HTTP-POST *)

Record post_in := { p_msg : string; p_loc : string; p_rs : string; p_typ : string }.

Definition saml_typ (typ : string) : bool :=
  String.eqb typ "SAMLRequest" || String.eqb typ "SAMLResponse".

Definition pair_eqb (a b : string * string) : bool :=
  String.eqb (fst a) (fst b) && String.eqb (snd a) (snd b).

Definition form_attrs (t : token) : list (list (string * string)) :=
  match t with
  | TStart n a => if String.eqb n "form" then [a] else []
  | TEnd _ => []
  end.

(* <input type="hidden" name=N value=V> with exactly these attributes *)
Definition hidden_of (t : token) : list (string * string) :=
  match t with
  | TStart n [(k1, v1); (k2, v2); (k3, v3)] =>
      if String.eqb n "input" && pair_eqb (k1, v1) ("type", "hidden")
         && String.eqb k2 "name" && String.eqb k3 "value"
      then [(v2, v3)] else []
  | _ => []
  end.

Definition data_token (t : token) : bool :=
  match form_attrs t, hidden_of t with [], [] => false | _, _ => true end.

(* the constant markup of an auto-submitting form: nothing in it depends on the caller *)
Definition inert_token (t : token) : bool :=
  match t with
  | TEnd n => mem n ["html"; "head"; "body"; "noscript"; "p"; "strong"; "form"]
  | TStart n [] => mem n ["html"; "head"; "noscript"; "p"; "strong"]
  | TStart n [a] =>
      (String.eqb n "meta" && pair_eqb a ("charset", "utf-8"))
      || (String.eqb n "body" && pair_eqb a ("onload", "document.forms[0].submit()"))
  | TStart n [a; b] =>
      String.eqb n "input" && pair_eqb a ("type", "submit") && pair_eqb b ("value", "Continue")
  | _ => false
  end.

Definition expected_inputs (typ payload rs : string) : list (string * string) :=
  (typ, payload) :: (if is_empty rs then [] else [("RelayState", rs)]).

(* inputs the POST binding is defined for: a SAML message type, or an ASCII payload *)
Definition post_defined (x : post_in) : bool :=
  saml_typ (p_typ x) || all_chars is_ascii_char (p_msg x).

(* form     : the emitted document (None: the sender raised)
   received : Entity.unravel(<value of the control named typ>, HTTP-POST) at the receiver *)
Definition post_spec (x : post_in) (form : option string) (received : ures) : Prop :=
  post_defined x = true ->
  exists f toks payload,
    form = Some f
    /\ read_html f = Some toks
    /\ flat_map form_attrs toks = [[("action", p_loc x); ("method", "post")]]
    /\ flat_map hidden_of toks = expected_inputs (p_typ x) payload (p_rs x)
    /\ (forall t, In t toks -> data_token t = true \/ inert_token t = true)
    /\ (if saml_typ (p_typ x) then received = UOk (p_msg x) else payload = p_msg x).

Definition ures_eqb (a b : ures) : bool :=
  match a, b with
  | UOk x, UOk y => String.eqb x y
  | UUnravelError, UUnravelError => true
  | UUnknownBinding, UUnknownBinding => true
  | _, _ => false
  end.

Definition attrs_eqb := list_eqb pair_eqb.

(* the checks of post_spec on a token list (also applied to what Python's html.parser reads) *)
Definition tokens_ok (x : post_in) (toks : list token) (received : ures) : bool :=
  list_eqb attrs_eqb (flat_map form_attrs toks) [[("action", p_loc x); ("method", "post")]]
  && match flat_map hidden_of toks with
     | (t, payload) :: rest =>
         attrs_eqb ((t, payload) :: rest) (expected_inputs (p_typ x) payload (p_rs x))
         && (if saml_typ (p_typ x) then ures_eqb received (UOk (p_msg x))
             else String.eqb payload (p_msg x))
     | [] => false
     end
  && forallb (fun t => data_token t || inert_token t) toks.

Definition post_spec_b (x : post_in) (form : option string) (received : ures) : bool :=
  negb (post_defined x) ||
  match form with
  | None => false
  | Some f =>
      match read_html f with
      | None => false
      | Some toks => tokens_ok x toks received
      end
  end.

(* ================================================================== HTTP-Redirect and artifact URLs *)

(* the URL still names the destination (scheme, host, path and fragment unchanged), the
   destination's own parameters are intact, and exactly [params] were added after them *)
Definition delivers (loc url : string) (params : list (string * string)) : Prop :=
  parse_qsl (url_query url) = (parse_qsl (url_query loc) ++ params)%list
  /\ url_base url = url_base loc
  /\ url_fragment url = url_fragment loc.

Definition delivers_b (loc url : string) (params : list (string * string)) : bool :=
  attrs_eqb (parse_qsl (url_query url)) (parse_qsl (url_query loc) ++ params)%list
  && (String.eqb (url_base url) (url_base loc)
      && String.eqb (url_fragment url) (url_fragment loc)).

Record redir_in := { r_msg : string; r_loc : string; r_rs : string; r_typ : string }.

Definition redir_defined (x : redir_in) : bool := saml_typ (r_typ x) || String.eqb (r_typ x) "SAMLart".

(* url      : the Location header (None: the sender raised)
   received : Entity.unravel(<value of parameter typ>, HTTP-Redirect) at the receiver *)
Definition redir_spec (x : redir_in) (url : option string) (received : ures) : Prop :=
  redir_defined x = true ->
  exists u payload,
    url = Some u
    /\ delivers (r_loc x) u (nonblank [(r_typ x, payload); ("RelayState", r_rs x)])
    /\ (if saml_typ (r_typ x) then received = UOk (r_msg x) else payload = r_msg x).

(* (written with shared sub-terms: the correspondence check evaluates it a few thousand times) *)
Definition redir_spec_b (x : redir_in) (url : option string) (received : ures) : bool :=
  negb (redir_defined x) ||
  match url with
  | None => false
  | Some u =>
      let q := parse_qsl (url_query u) in
      let q0 := parse_qsl (url_query (r_loc x)) in
      let same := String.eqb (url_base u) (url_base (r_loc x)) && String.eqb (url_fragment u) (url_fragment (r_loc x)) in
      let dl := fun params => attrs_eqb q (q0 ++ params)%list && same in
      if saml_typ (r_typ x) then
        let cand := match nth_error q (List.length q0) with
                    | Some kv => snd kv
                    | None => ""
                    end in
        (if dl (nonblank [(r_typ x, cand); ("RelayState", r_rs x)]) then true
         else dl (nonblank [(r_typ x, ""); ("RelayState", r_rs x)]))
        && ures_eqb received (UOk (r_msg x))
      else dl (nonblank [(r_typ x, r_msg x); ("RelayState", r_rs x)])
  end.

Record arturl_in := { u_art : string; u_dest : string; u_rs : string }.

Definition arturl_spec (x : arturl_in) (url : string) : Prop :=
  delivers (u_dest x) url (nonblank [("SAMLart", u_art x); ("RelayState", u_rs x)]).

Definition arturl_spec_b (x : arturl_in) (url : string) : bool :=
  delivers_b (u_dest x) url (nonblank [("SAMLart", u_art x); ("RelayState", u_rs x)]).

(* URI binding (use_http_uri, request side): the identifier travels as parameter ID *)
Record uriurl_in := { i_id : string; i_dest : string; i_rs : string }.

Definition uriurl_spec (x : uriurl_in) (url : string) : Prop :=
  delivers (i_dest x) url (nonblank [("ID", i_id x); ("RelayState", i_rs x)]).

Definition uriurl_spec_b (x : uriurl_in) (url : string) : bool :=
  delivers_b (i_dest x) url (nonblank [("ID", i_id x); ("RelayState", i_rs x)]).

(* ================================================================== SOAP *)

(* the message without its XML declaration: the document element (and what follows it) *)
Definition decl_start (t : string) : bool := String.eqb (lower (take 5 t)) "<?xml".

Definition body_of (t : string) : option string :=
  if starts "<?xml" t then
    let r := drop 5 t in
    if has c_gt r && last_is c_qm (before c_gt r) then Some (lstrip_chars is_crlf (after c_gt r)) else None
  else if decl_start t then None        (* "<?XML ...": neither a declaration nor well-formed *)
  else Some t.

(* declarative reading of [body_of] (proved in Proofs.v: msg_body t b -> body_of t = Some b) *)
Inductive msg_body : string -> string -> Prop :=
| MB_plain t : decl_start t = false -> msg_body t t
| MB_decl d nl b :
    has c_gt d = false -> all_chars is_crlf nl = true ->
    match b with EmptyString => True | String c _ => is_crlf c = false end ->
    msg_body ("<?xml" ++ d ++ "?>" ++ nl ++ b) b.

Definition ENV_PRE : string := "<ns0:Envelope xmlns:ns0=""http://schemas.xmlsoap.org/soap/envelope/"" ><ns0:Body>".
Definition ENV_POST : string := "</ns0:Body></ns0:Envelope>".

Definition opt_str_eqb := opt_eqb String.eqb.

(* env : the envelope text (None: the sender raised).  The body text is carried verbatim. *)
Definition soap_spec (t : string) (env : option string) : Prop :=
  forall b, body_of t = Some b -> env = Some (ENV_PRE ++ b ++ ENV_POST).

Definition soap_spec_b (t : string) (env : option string) : bool :=
  match body_of t with
  | Some b => opt_str_eqb env (Some (ENV_PRE ++ b ++ ENV_POST))
  | None => true
  end.

(* ================================================================== artifacts *)

Record art_in := {
  a_eid : string;           (* issuer entityID *)
  a_sid : string;           (* its SourceID: SHA-1 of the entityID *)
  a_handle : string;        (* message handle *)
  a_idx : nat;              (* endpoint index the artifact is created with *)
  a_sm : sourcemap          (* SourceID -> entity, as held by the resolving party *)
}.

Definition ares_eqb (a b : ares) : bool :=
  match a, b with
  | AOk x, AOk y => opt_str_eqb x y
  | AErr, AErr => true
  | _, _ => false
  end.

Fixpoint nodup_b (l : list string) : bool :=
  match l with
  | [] => true
  | x :: r => negb (mem x r) && nodup_b r
  end.

Fixpoint all_some {A} (l : list (option A)) : option (list A) :=
  match l with
  | [] => Some []
  | Some x :: r => match all_some r with Some r' => Some (x :: r') | None => None end
  | None :: _ => None
  end.

(* the number an index attribute denotes (xs:unsignedShort: decimal digits, leading zeros allowed).
   [raw_value]: the attribute value as a resolver holds it; [index_value]: as a metadata document spells it
   (white space around it collapsed) *)
Definition is_digit (c : ascii) : bool := let n := code c in ((48 <=? n) && (n <=? 57))%nat.
Fixpoint digits_val (acc : nat) (s : string) : option nat :=
  match s with
  | EmptyString => Some acc
  | String c r => if is_digit c then digits_val (10 * acc + (code c - 48)) r else None
  end.
Definition raw_value (s : string) : option nat := if is_empty s then None else digits_val 0 s.
Definition denotes_raw (n : nat) (s : string) : bool :=
  match raw_value s with Some v => (v =? n)%nat | None => false end.
Definition index_value (s : string) : option nat := raw_value (strip_ws s).
Definition denotes (n : nat) (s : string) : bool := denotes_raw n (strip_ws s).

(* the locations of the services whose index is n *)
Definition services_raw (n : nat) (svcs : list service) : list string :=
  map snd (filter (fun sv => denotes_raw n (fst sv)) svcs).
Definition services_for (n : nat) (svcs : list service) : list string :=
  map snd (filter (fun sv => denotes n (fst sv)) svcs).

(* dest : result of resolving the artifact at a party whose map knows the issuer.
   The artifact resolves to the issuer's entity and to the service whose index is the one the
   artifact was created with (None when the issuer has no such service); the index attribute is a number
   ("01" is index 1). *)
Definition art_spec (x : art_in) (dest : ares) : Prop :=
  forall descs svcs,
    assoc (a_sid x) (a_sm x) = Some (Some descs) -> all_some descs = Some svcs ->
    length (services_raw (a_idx x) (concat svcs)) <= 1 ->
    dest = AOk (hd_error (services_raw (a_idx x) (concat svcs))).

Definition art_spec_b (x : art_in) (dest : ares) : bool :=
  match assoc (a_sid x) (a_sm x) with
  | Some (Some descs) =>
      match all_some descs with
      | Some svcs =>
          negb (length (services_raw (a_idx x) (concat svcs)) <=? 1)%nat
          || ares_eqb dest (AOk (hd_error (services_raw (a_idx x) (concat svcs))))
      | None => true
      end
  | _ => true
  end.

(* ================================================================== artifacts through the resolver's metadata *)
(* "an artifact resolves to the entity that issued it and to the endpoint index it was created with", read
   against what the metadata DOCUMENTS say (the federation the resolving party was configured with, or has
   re-loaded most recently), not against a table the library derived from them. *)

Record fres_in := {
  f_fed : federation;       (* the metadata the resolving party holds now *)
  f_eid : string;           (* issuer entityID *)
  f_idx : nat;              (* endpoint index the artifact was created with *)
  f_role : role             (* descriptor the resolving party asks for *)
}.

Definition fed_ents (x : fres_in) : list fent := concat (f_fed x).

(* every descriptor of the role publishes at least one ArtifactResolutionService *)
Definition publishes (r : role) (e : fent) : bool :=
  negb (match role_descs r e with [] => true | _ => false end)
  && forallb (fun d => negb (match d with [] => true | _ => false end)) (role_descs r e).

(* about the issuer's own record e:
   (a) whatever location comes out is one of the ISSUER's services of that role with that index;
   (b) if the issuer publishes the service in that role and at most one service carries the index, exactly
       that one comes out (none: no destination). *)
Definition artfed_clause (x : fres_in) (e : fent) (dest : ares) : Prop :=
  let cands := services_for (f_idx x) (concat (role_descs (f_role x) e)) in
  (forall l, dest = AOk (Some l) -> In l cands)
  /\ (publishes (f_role x) e = true -> length cands <= 1 -> dest = AOk (hd_error cands)).

Definition artfed_spec (x : fres_in) (dest : ares) : Prop :=
  NoDup (map fe_eid (fed_ents x)) ->                    (* entityIDs identify the entities of the federation *)
  (forall e, In e (fed_ents x) -> fe_eid e = f_eid x -> artfed_clause x e dest)
  /\ (~ In (f_eid x) (map fe_eid (fed_ents x)) -> forall l, dest <> AOk (Some l)).   (* unknown issuer: nobody's endpoint *)

Definition artfed_clause_b (x : fres_in) (e : fent) (dest : ares) : bool :=
  let cands := services_for (f_idx x) (concat (role_descs (f_role x) e)) in
  match dest with AOk (Some l) => mem l cands | _ => true end
  && (negb (publishes (f_role x) e) || negb (length cands <=? 1)%nat || ares_eqb dest (AOk (hd_error cands))).

Definition artfed_spec_b (x : fres_in) (dest : ares) : bool :=
  negb (nodup_b (map fe_eid (fed_ents x)))
  || (forallb (fun e => negb (String.eqb (fe_eid e) (f_eid x)) || artfed_clause_b x e dest) (fed_ents x)
      && (mem (f_eid x) (map fe_eid (fed_ents x))
          || match dest with AOk (Some _) => false | _ => true end)).

(* class 6 (Entity.artifact2destination before fbf0c2eb compared the index attribute as TEXT with str(int)): a
   service of the issuer in the asked role carries the index in a non-canonical spelling ("01", "007").
   Repaired: no theorem is guarded by [spelling_ok] any more; Corr.cls uses it to recognise a regression. *)
Definition canon_for (n : nat) (svcs : list service) : bool :=
  forallb (fun sv => negb (denotes n (fst sv)) || String.eqb (strip_ws (fst sv)) (decimal n)) svcs.
Definition spelling_ok (x : fres_in) : bool :=
  forallb (fun e => negb (String.eqb (fe_eid e) (f_eid x))
                    || canon_for (f_idx x) (concat (role_descs (f_role x) e))) (fed_ents x).

(* outs: the results of the OResolve operations, in order; each one is judged against the federation
   loaded most recently before it *)
Fixpoint seq_spec (cur : federation) (ops : list fop) (outs : list ares) : Prop :=
  match ops, outs with
  | [], [] => True
  | OLoad fed :: r, _ => seq_spec fed r outs
  | OResolve eid _ idx ro :: r, d :: outs' =>
      artfed_spec {| f_fed := cur; f_eid := eid; f_idx := idx; f_role := ro |} d /\ seq_spec cur r outs'
  | _, _ => False
  end.

(* Several resolvers in one process, each configured with NAMED metadata sources (files, URLs, loaders, inline
   documents; strengthening round 6): the names do not matter, other resolvers do not matter, earlier loads do not
   matter — each resolution is judged against the documents of the configuration that the resolver which performs it
   has loaded most recently. *)
Definition cfg_docs (cfg : mdconfig) : federation := map snd cfg.

Fixpoint mseq_spec (st : list (nat * federation)) (ops : list mop) (outs : list ares) : Prop :=
  match ops, outs with
  | [], [] => True
  | MLoad rcv cfg :: r, _ => mseq_spec ((rcv, cfg_docs cfg) :: st) r outs
  | MResolve rcv eid _ idx ro :: r, d :: outs' =>
      artfed_spec {| f_fed := fed_of st rcv; f_eid := eid; f_idx := idx; f_role := ro |} d /\ mseq_spec st r outs'
  | _, _ => False
  end.

(* ================================================================== guards and finding classes *)

(* ---- open classes: the theorems hold outside them *)

(* class 1 (create_artifact): the endpoint index does not fit two hexadecimal digits *)
Definition idx_ok (idx : nat) : bool := (idx <? 256)%nat.

(* ---- repaired classes: no theorem is guarded by these any more; Corr.cls uses them to
   recognise a regression, and the ..._v0_refuted theorems show what was wrong *)

(* class 5 (pack.add_query between fc5e66e9 and d9426b2c): the destination's query component is not
   empty and ends in '?' ("https://h/p?a=1?", "https://h/p??"); add_query took that '?' for the query delimiter *)
Definition raw_query (loc : string) : string := after c_qm (before c_hash loc).
Definition qtail_ok (loc : string) : bool := negb (last_is c_qm (raw_query loc)).

(* class 2 (http_redirect_message before fc5e66e9): the destination has a fragment, or a '?' with nothing after it *)
Definition loc_ok (loc : string) : bool :=
  negb (has c_hash loc) && (negb (has c_qm loc) || negb (is_empty (url_query loc))).

(* class 3 (use_http_artifact before fc5e66e9): the destination already has a query or a fragment *)
Definition dest_plain (dest : string) : bool := negb (has c_hash dest) && negb (has c_qm dest).

(* class 4 (make_soap_enveloped_saml_thingy before 9f16767d): the literal text of a double-quoted
   UTF-8 XML declaration occurs inside the message body *)
Definition occurs (sub s : string) : bool := match find sub s with Some _ => true | None => false end.
Definition body_ok (t : string) : bool :=
  match body_of t with Some b => negb (occurs PREFIX b) | None => true end.
