(* C14/Proofs.v *)
From Coq Require Import String Ascii List Bool Arith Lia ZifyNat DecimalString ZArith.
From Verif Require Import Base.Str Base.Percent Base.Base64 Base.Html Base.Query C14.Model C14.Spec.
Import ListNotations.
Open Scope string_scope.

(* ================================================================== small facts *)

Lemma is_empty_true s : is_empty s = true <-> s = "".
Proof. destruct s; cbn; split; congruence. Qed.

Lemma sapp_nil_r (a : string) : a ++ "" = a.
Proof. induction a as [|x a IH]; cbn [append]; [reflexivity|]. rewrite IH. reflexivity. Qed.

Lemma pair_eqb_eq a b : pair_eqb a b = true <-> a = b.
Proof.
  unfold pair_eqb. rewrite andb_true_iff, !String.eqb_eq. destruct a, b; cbn.
  split; [intros [-> ->]; reflexivity|intros E; inversion E; auto].
Qed.

Lemma attrs_eqb_eq a b : attrs_eqb a b = true <-> a = b.
Proof. apply list_eqb_eq. apply pair_eqb_eq. Qed.

Lemma ures_eqb_eq a b : ures_eqb a b = true <-> a = b.
Proof.
  destruct a, b; cbn; try (split; [discriminate|discriminate]); try tauto.
  rewrite String.eqb_eq. split; [intros ->; reflexivity|intros E; inversion E; reflexivity].
Qed.

Lemma opt_str_eqb_eq a b : opt_str_eqb a b = true <-> a = b.
Proof.
  destruct a, b; cbn; try (split; [discriminate|discriminate]); try tauto.
  rewrite String.eqb_eq. split; [intros ->; reflexivity|intros E; inversion E; reflexivity].
Qed.

Lemma ares_eqb_eq a b : ares_eqb a b = true <-> a = b.
Proof.
  destruct a, b; cbn; try (split; [discriminate|discriminate]); try tauto.
  rewrite opt_str_eqb_eq. split; [intros ->; reflexivity|intros E; inversion E; reflexivity].
Qed.

(* ================================================================== the HTML reader on the emitted form *)

Lemma run_app s a b : run s (a ++ b) = run (run s a) b.
Proof. revert s. induction a as [|c r IH]; intros s; cbn [append run]; [reflexivity|apply IH]. Qed.

Definition val_safe (c : ascii) : bool :=
  negb (Ascii.eqb c c_quot) && negb (Ascii.eqb c c_lt || Ascii.eqb c c_gt).

Lemma run_val e : forall cur tg an ats o, all_chars val_safe e = true ->
  run (HS MVal cur tg an ats o) e = HS MVal (srevapp e cur) tg an ats o.
Proof.
  induction e as [|c r IH]; intros cur tg an ats o H; cbn [run srevapp]; [reflexivity|].
  cbn [all_chars] in H. apply andb_true_iff in H as [H1 H2]. unfold val_safe in H1.
  apply andb_true_iff in H1 as [Hq Hlg]. apply negb_true_iff in Hq. apply negb_true_iff in Hlg.
  cbn [step]. rewrite Hq, Hlg. apply IH. exact H2.
Qed.

Lemma inert_val_safe : forall c, html_inert_char c = true -> val_safe c = true.
Proof.
  assert (H : forall c, implb (html_inert_char c) (val_safe c) = true).
  { apply (all_ascii (fun c => implb (html_inert_char c) (val_safe c))). vm_compute. reflexivity. }
  intros c Hc. specialize (H c). rewrite Hc in H. exact H.
Qed.

Lemma escape_val_safe v : all_chars val_safe (escape v) = true.
Proof. apply (all_chars_impl html_inert_char val_safe _ inert_val_safe). apply escape_no_special. Qed.

Lemma srevapp_srevapp e : forall a b, srevapp (srevapp e a) b = srevapp a (e ++ b).
Proof.
  induction e as [|c r IH]; intros a b; cbn [srevapp append]; [reflexivity|].
  rewrite IH. reflexivity.
Qed.

Lemma srev_srevapp e : srev (srevapp e "") = e.
Proof. unfold srev. rewrite srevapp_srevapp. cbn [srevapp]. apply sapp_nil_r. Qed.

(* what the reader hands out for an attribute written as escape v *)
Lemma fin_val v : unescape (srev (srevapp (escape v) "")) = v.
Proof. rewrite srev_srevapp. apply unescape_escape. Qed.

(* literal segments of the template, from an arbitrary state of the right mode *)
Definition afterA (o : list rtoken) := Eval vm_compute in run (HS MText "" "" "" [] o) FORM_A.
Lemma segA o : run (HS MText "" "" "" [] o) FORM_A = afterA o.
Proof. vm_compute. reflexivity. Qed.

Definition afterB cur tg an ats o := Eval vm_compute in run (HS MVal cur tg an ats o) FORM_B.
Lemma segB cur tg an ats o : run (HS MVal cur tg an ats o) FORM_B = afterB cur tg an ats o.
Proof. vm_compute. reflexivity. Qed.

Definition afterIA (o : list rtoken) := Eval vm_compute in run (HS MText "" "" "" [] o) INPUT_A.
Lemma segIA o : run (HS MText "" "" "" [] o) INPUT_A = afterIA o.
Proof. vm_compute. reflexivity. Qed.

Definition afterIB cur tg an ats o := Eval vm_compute in run (HS MVal cur tg an ats o) INPUT_B.
Lemma segIB cur tg an ats o : run (HS MVal cur tg an ats o) INPUT_B = afterIB cur tg an ats o.
Proof. vm_compute. reflexivity. Qed.

Definition afterIC cur tg an ats o := Eval vm_compute in run (HS MVal cur tg an ats o) INPUT_C.
Lemma segIC cur tg an ats o : run (HS MVal cur tg an ats o) INPUT_C = afterIC cur tg an ats o.
Proof. vm_compute. reflexivity. Qed.

Definition afterC (o : list rtoken) := Eval vm_compute in run (HS MText "" "" "" [] o) FORM_C.
Lemma segC o : run (HS MText "" "" "" [] o) FORM_C = afterC o.
Proof. vm_compute. reflexivity. Qed.

Definition afterD (o : list rtoken) := Eval vm_compute in run (HS MText "" "" "" [] o) FORM_D.
Lemma segD o : run (HS MText "" "" "" [] o) FORM_D = afterD o.
Proof. vm_compute. reflexivity. Qed.

(* reading one <input type="hidden" name=N value=V/> written with escaped N and V *)
Lemma run_input n v o :
  run (HS MText "" "" "" [] o) (input_element (escape n) (escape v)) =
  HS MText "" "" "" []
     (RStart "tupni" [("eulav", srevapp (escape v) ""); ("eman", srevapp (escape n) ""); ("epyt", "neddih")] :: o).
Proof.
  unfold input_element. rewrite !run_app.
  rewrite segIA. unfold afterIA. rewrite run_val by apply escape_val_safe.
  rewrite segIB. unfold afterIB. rewrite run_val by apply escape_val_safe.
  rewrite segIC. reflexivity.
Qed.

(* RelayState is a constant name: escape leaves it alone *)
Lemma escape_RelayState : escape "RelayState" = "RelayState".
Proof. vm_compute. reflexivity. Qed.

Definition rs_rtokens (rs : string) : list rtoken :=
  if is_empty rs then []
  else [RStart "tupni" [("eulav", srevapp (escape rs) ""); ("eman", srevapp (escape "RelayState") ""); ("epyt", "neddih")]].

Definition form_rtokens (payload loc rs typ : string) : list rtoken :=
  (out (afterD (rs_rtokens rs ++
        RStart "tupni" [("eulav", srevapp (escape payload) ""); ("eman", srevapp (escape typ) ""); ("epyt", "neddih")]
        :: out (afterB (srevapp (escape loc) "") "mrof" "noitca" [] (out (afterA [])))))).

Lemma run_form payload loc rs typ :
  run (text []) (form_of payload loc rs typ) = HS MText "" "" "" [] (form_rtokens payload loc rs typ).
Proof.
  unfold text, form_of. rewrite !run_app.
  rewrite segA. unfold afterA. rewrite run_val by apply escape_val_safe.
  rewrite segB. unfold afterB. rewrite run_input. rewrite segC. unfold afterC.
  destruct rs as [|c r].
  - cbn [is_empty run]. rewrite segD. reflexivity.
  - cbn [is_empty]. rewrite <- escape_RelayState at 1. rewrite run_input. rewrite segD. reflexivity.
Qed.

(* the document, as the reader sees it *)
Definition form_tokens (payload loc rs typ : string) : list token :=
  [TStart "html" []; TStart "head" []; TStart "meta" [("charset", "utf-8")]; TEnd "head";
   TStart "body" [("onload", "document.forms[0].submit()")];
   TStart "noscript" []; TStart "p" []; TStart "strong" []; TEnd "strong"; TEnd "p"; TEnd "noscript";
   TStart "form" [("action", loc); ("method", "post")];
   TStart "input" [("type", "hidden"); ("name", typ); ("value", payload)]]
  ++ (if is_empty rs then [] else [TStart "input" [("type", "hidden"); ("name", "RelayState"); ("value", rs)]])
  ++ [TStart "noscript" []; TStart "input" [("type", "submit"); ("value", "Continue")]; TEnd "noscript";
      TEnd "form"; TEnd "body"; TEnd "html"].

Lemma fin_form_rtokens rl rt rp (rrs : list rtoken) :
  rev (map fin_token
    (out (afterD (rrs ++ RStart "tupni" [("eulav", rp); ("eman", rt); ("epyt", "neddih")]
                      :: out (afterB rl "mrof" "noitca" [] (out (afterA []))))))) =
  ([TStart "html" []; TStart "head" []; TStart "meta" [("charset", "utf-8")]; TEnd "head";
   TStart "body" [("onload", "document.forms[0].submit()")];
   TStart "noscript" []; TStart "p" []; TStart "strong" []; TEnd "strong"; TEnd "p"; TEnd "noscript";
   TStart "form" [("action", unescape (srev rl)); ("method", "post")];
   TStart "input" [("type", "hidden"); ("name", unescape (srev rt)); ("value", unescape (srev rp))]]
  ++ rev (map fin_token rrs)
  ++ [TStart "noscript" []; TStart "input" [("type", "submit"); ("value", "Continue")]; TEnd "noscript";
      TEnd "form"; TEnd "body"; TEnd "html"])%list.
Proof.
  unfold afterD, afterB, afterA. cbn [out].
  repeat (cbn [map rev]; rewrite ?map_app, ?rev_app_distr).
  cbn [map rev app]. rewrite <- !app_assoc. cbn [app].
  repeat f_equal.
Qed.

(* the strict reader recovers exactly the caller's strings, whatever they contain *)
Lemma read_form payload loc rs typ :
  read_html (form_of payload loc rs typ) = Some (form_tokens payload loc rs typ).
Proof.
  unfold read_html. rewrite run_form. cbn [md out]. f_equal.
  unfold form_rtokens, form_tokens. rewrite fin_form_rtokens, !fin_val.
  f_equal. f_equal. unfold rs_rtokens. destruct (is_empty rs); [reflexivity|].
  cbn [map rev app fin_token]. unfold fin_attr. cbn [fst snd]. rewrite !fin_val.
  reflexivity.
Qed.

Lemma form_tokens_spec payload loc rs typ :
  flat_map form_attrs (form_tokens payload loc rs typ) = [[("action", loc); ("method", "post")]]
  /\ flat_map hidden_of (form_tokens payload loc rs typ) = expected_inputs typ payload rs
  /\ forallb (fun t => data_token t || inert_token t) (form_tokens payload loc rs typ) = true.
Proof.
  unfold form_tokens, expected_inputs. destruct (is_empty rs); vm_compute; repeat split; reflexivity.
Qed.

(* ================================================================== boolean specs are the specs *)

Lemma post_spec_b_iff x form received : post_spec_b x form received = true <-> post_spec x form received.
Proof.
  unfold post_spec_b, post_spec. destruct (post_defined x); cbn [negb orb].
  2:{ split; [intros _ H; discriminate|reflexivity]. }
  split.
  - intros H _. destruct form as [f|]; [|discriminate].
    destruct (read_html f) as [toks|] eqn:Er; [|discriminate]. unfold tokens_ok in H.
    apply andb_true_iff in H as [H H3]. apply andb_true_iff in H as [H1 H2].
    destruct (flat_map hidden_of toks) as [|[t payload] rest] eqn:Eh; [discriminate|].
    apply andb_true_iff in H2 as [H2 H4].
    exists f, toks, payload. split; [reflexivity|]. split; [exact Er|].
    split; [apply (list_eqb_eq attrs_eqb attrs_eqb_eq); exact H1|].
    split; [rewrite Eh; apply attrs_eqb_eq; exact H2|].
    split.
    + intros t0 Hin. rewrite forallb_forall in H3. specialize (H3 t0 Hin). apply orb_true_iff; exact H3.
    + destruct (saml_typ (p_typ x)); [apply ures_eqb_eq|apply String.eqb_eq]; exact H4.
  - intros H. destruct (H eq_refl) as [f [toks [payload [-> [Er [H1 [H2 [H3 H4]]]]]]]].
    rewrite Er. unfold tokens_ok. rewrite !andb_true_iff. split; [split|].
    + apply (list_eqb_eq attrs_eqb attrs_eqb_eq); exact H1.
    + rewrite H2. unfold expected_inputs at 1. apply andb_true_iff. split.
      * apply attrs_eqb_eq. reflexivity.
      * destruct (saml_typ (p_typ x)); [apply ures_eqb_eq|apply String.eqb_eq]; exact H4.
    + apply forallb_forall. intros t0 Hin. apply orb_true_iff. apply H3; exact Hin.
Qed.

(* ================================================================== HTTP-POST *)

Section Zlib.
  Variable deflate : string -> string.
  Variable inflate : string -> option string.
  Variable soap_parse : string -> option string.
  Hypothesis inflate_deflate : forall m, inflate (deflate m) = Some m.
  Hypothesis inflate_empty : inflate "" = None.

  (* plain base64 payload: byte-identical, provided the message is not itself a DEFLATE stream *)
  Lemma post_roundtrip_plain m :
    inflate m = None -> unravel inflate soap_parse (encode m) BPost = UOk m.
  Proof.
    intros H. unfold unravel, decode_base64_and_inflate, b64decode_u.
    rewrite b64_decode_str_encode, H. reflexivity.
  Qed.

  (* senders that deflate their POST payload are understood as well *)
  Lemma post_roundtrip_deflated m :
    unravel inflate soap_parse (deflate_and_base64_encode deflate m) BPost = UOk m.
  Proof.
    unfold unravel, decode_base64_and_inflate, deflate_and_base64_encode.
    rewrite b64_decode_str_encode, inflate_deflate. reflexivity.
  Qed.

  Lemma redirect_roundtrip m : redirect_received deflate inflate soap_parse m = UOk m.
  Proof.
    unfold redirect_received, unravel, decode_base64_and_inflate, deflate_and_base64_encode.
    rewrite b64_decode_str_encode, inflate_deflate. reflexivity.
  Qed.

  Lemma deflate_nonempty m : deflate m <> "".
  Proof. intros H. pose proof (inflate_deflate m) as Hi. rewrite H, inflate_empty in Hi. discriminate. Qed.

  Lemma redirect_payload_nonblank m : deflate_and_base64_encode deflate m <> "".
  Proof. intros H. apply encode_empty in H. exact (deflate_nonempty m H). Qed.

  Lemma post_holds x :
    inflate (p_msg x) = None ->
    post_spec x (http_form_post_message (p_msg x) (p_loc x) (p_rs x) (p_typ x))
                (post_received inflate soap_parse (p_msg x) (p_typ x)).
  Proof.
    intros Hi Hdef. unfold http_form_post_message, post_received, post_payload.
    unfold post_defined in Hdef. change (is_saml_typ (p_typ x)) with (saml_typ (p_typ x)).
    destruct (saml_typ (p_typ x)) eqn:Et.
    - exists (form_of (encode (p_msg x)) (p_loc x) (p_rs x) (p_typ x)),
             (form_tokens (encode (p_msg x)) (p_loc x) (p_rs x) (p_typ x)), (encode (p_msg x)).
      destruct (form_tokens_spec (encode (p_msg x)) (p_loc x) (p_rs x) (p_typ x)) as [H1 [H2 H3]].
      split; [reflexivity|]. split; [apply read_form|]. split; [exact H1|]. split; [exact H2|]. split.
      + intros t Hin. rewrite forallb_forall in H3. apply orb_true_iff. apply H3; exact Hin.
      + apply post_roundtrip_plain; exact Hi.
    - cbn [orb] in Hdef. rewrite Hdef.
      exists (form_of (p_msg x) (p_loc x) (p_rs x) (p_typ x)),
             (form_tokens (p_msg x) (p_loc x) (p_rs x) (p_typ x)), (p_msg x).
      destruct (form_tokens_spec (p_msg x) (p_loc x) (p_rs x) (p_typ x)) as [H1 [H2 H3]].
      split; [reflexivity|]. split; [apply read_form|]. split; [exact H1|]. split; [exact H2|]. split.
      + intros t Hin. rewrite forallb_forall in H3. apply orb_true_iff. apply H3; exact Hin.
      + reflexivity.
  Qed.

End Zlib.

(* ================================================================== redirect / artifact URLs *)

Lemma delivers_b_iff loc url params : delivers_b loc url params = true <-> delivers loc url params.
Proof. unfold delivers_b, delivers. rewrite !andb_true_iff, attrs_eqb_eq, !String.eqb_eq. tauto. Qed.

(* redir_spec_b is written with shared sub-terms; this is what it says *)
Lemma redir_spec_b_unfold x url received :
  redir_spec_b x url received =
  (negb (redir_defined x) ||
  match url with
  | None => false
  | Some u =>
      if saml_typ (r_typ x) then
        let cand := match nth_error (parse_qsl (url_query u)) (List.length (parse_qsl (url_query (r_loc x)))) with
                    | Some kv => snd kv
                    | None => ""
                    end in
        (delivers_b (r_loc x) u (nonblank [(r_typ x, cand); ("RelayState", r_rs x)])
         || delivers_b (r_loc x) u (nonblank [(r_typ x, ""); ("RelayState", r_rs x)]))
        && ures_eqb received (UOk (r_msg x))
      else delivers_b (r_loc x) u (nonblank [(r_typ x, r_msg x); ("RelayState", r_rs x)])
  end).
Proof.
  unfold redir_spec_b, delivers_b. destruct url as [u|]; [|reflexivity].
  destruct (saml_typ (r_typ x)); [|reflexivity]. cbv zeta.
  match goal with |- context [if ?a then true else ?b] => change (if a then true else b) with (a || b) end.
  reflexivity.
Qed.

Lemma has_cons c d s : has c (String d s) = Ascii.eqb c d || has c s.
Proof. reflexivity. Qed.

Lemma clean_app a b : url_clean (a ++ b) = url_clean a ++ url_clean b.
Proof. apply remove_chars_app. Qed.

Lemma before_after sep s : has sep s = true -> s = before sep s ++ String sep (after sep s).
Proof.
  induction s as [|c r IH]; [discriminate|]. rewrite has_cons. cbn [before after].
  rewrite Ascii.eqb_sym. destruct (Ascii.eqb c sep) eqn:E.
  - apply Ascii.eqb_eq in E. subst c. reflexivity.
  - cbn [orb append]. intros H. rewrite <- (IH H). reflexivity.
Qed.

Lemma has_before sep s : has sep (before sep s) = false.
Proof.
  induction s as [|c r IH]; [reflexivity|]. cbn [before].
  destruct (Ascii.eqb c sep) eqn:E; [reflexivity|].
  rewrite has_cons, IH, Ascii.eqb_sym, E. reflexivity.
Qed.

Lemma last_is_split c s : last_is c s = true -> exists d, s = d ++ String c "".
Proof.
  induction s as [|a r IH]; [discriminate|]. destruct r as [|b r'].
  - cbn [last_is]. intros H. apply Ascii.eqb_eq in H. subst a. exists "". reflexivity.
  - intros H. change (last_is c (String b r') = true) in H. destruct (IH H) as [d Hd].
    exists (String a d). cbn [append]. rewrite <- Hd. reflexivity.
Qed.

Lemma last_is_app c d : last_is c (d ++ String c "") = true.
Proof.
  induction d as [|a r IH]; [apply Ascii.eqb_refl|]. cbn [append].
  destruct (r ++ String c "") eqn:E; [destruct r; discriminate|]. exact IH.
Qed.

(* the last character of s survives in what follows the first separator, unless nothing follows it *)
Lemma last_is_after sep c s :
  has sep s = true -> last_is c s = true -> after sep s = "" \/ last_is c (after sep s) = true.
Proof.
  induction s as [|a r IH]; [discriminate|]. rewrite has_cons. cbn [after].
  rewrite Ascii.eqb_sym. destruct (Ascii.eqb a sep) eqn:E.
  - intros _ Hl. destruct r as [|b r']; [left; reflexivity|right; exact Hl].
  - cbn [orb]. intros Hh Hl. destruct r as [|b r']; [discriminate|]. apply IH; [exact Hh|exact Hl].
Qed.

(* location.partition("#") *)
Lemma hash_split loc : loc = before c_hash loc ++ hash_tail loc.
Proof.
  unfold hash_tail. destruct (has c_hash loc) eqn:E.
  - apply before_after; exact E.
  - rewrite sapp_nil_r. symmetry. apply before_nosep; exact E.
Qed.

Definition tail_shape (t : string) : Prop := t = "" \/ exists f, t = String c_hash f.

Lemma hash_tail_shape loc : tail_shape (url_clean (hash_tail loc)).
Proof. unfold hash_tail. destruct (has c_hash loc); [right; eexists; reflexivity|left; reflexivity]. Qed.

Lemma before_hash_app b t : has c_hash b = false -> tail_shape t -> before c_hash (b ++ t) = b.
Proof.
  intros Hb [->|[f ->]].
  - rewrite sapp_nil_r. apply before_nosep; exact Hb.
  - rewrite (before_app_nosep c_hash _ _ Hb). cbn [before]. rewrite Ascii.eqb_refl. apply sapp_nil_r.
Qed.

Lemma glue_of_clean base : url_clean (glue_of base) = glue_of base /\ has c_hash (glue_of base) = false.
Proof.
  unfold glue_of. destruct (negb (has c_qm base)); [split; reflexivity|]. cbv zeta.
  destruct (is_empty (after c_qm base) || last_is c_and (after c_qm base)); split; reflexivity.
Qed.

(* pack.add_query puts the parameters into the query component: behind the destination's own
   parameters, in front of its fragment, and leaves everything else of the URL alone *)
Lemma add_query_delivers loc s :
  all_chars qs_alphabet s = true ->
  parse_qsl (url_query (add_query loc s)) = (parse_qsl (url_query loc) ++ parse_qsl s)%list
  /\ url_base (add_query loc s) = url_base loc
  /\ url_fragment (add_query loc s) = url_fragment loc.
Proof.
  intros Hs. unfold add_query.
  pose proof (hash_split loc) as Hloc. pose proof (has_before c_hash loc) as Hbh.
  pose proof (hash_tail_shape loc) as HT.
  remember (before c_hash loc) as base eqn:Eb. remember (hash_tail loc) as tl eqn:Et. clear Eb Et. subst loc.
  destruct (glue_of_clean base) as [Hgc Hgh].
  unfold url_query, url_base, url_fragment. rewrite !clean_app, Hgc, (qs_clean s Hs).
  set (B := url_clean base) in *. set (T := url_clean tl) in *. set (G := glue_of base) in *.
  assert (HBh : has c_hash B = false) by (apply has_remove_chars; exact Hbh).
  assert (Hh3 : has c_hash (B ++ G ++ s) = false).
  { rewrite !has_app, HBh, Hgh. apply (qs_no c_hash s Hs). reflexivity. }
  replace (B ++ G ++ s ++ T) with ((B ++ G ++ s) ++ T) by (rewrite !sapp_assoc; reflexivity).
  rewrite (before_hash_app _ _ Hh3 HT), (before_hash_app _ _ HBh HT).
  rewrite (after_app_nosep c_hash _ _ Hh3), (after_app_nosep c_hash _ _ HBh).
  split; [|split; [|reflexivity]].
  - (* query *)
    subst G. unfold glue_of. destruct (has c_qm base) eqn:Hq; cbn [negb].
    + pose proof (before_after c_qm base Hq) as Hbase. pose proof (has_before c_qm base) as HP.
      set (P := before c_qm base) in *. set (R := after c_qm base) in *.
      assert (HB : B = url_clean P ++ String c_qm (url_clean R)).
      { subst B. rewrite Hbase at 1. rewrite clean_app. reflexivity. }
      assert (HPc : has c_qm (url_clean P) = false) by (apply has_remove_chars; exact HP).
      assert (HBq : has c_qm B = true).
      { rewrite HB, has_app, has_cons, Ascii.eqb_refl. apply orb_true_r. }
      assert (HQ : after c_qm B = url_clean R).
      { rewrite HB, (after_app_nosep c_qm _ _ HPc). cbn [after]. rewrite Ascii.eqb_refl. reflexivity. }
      rewrite (after_app_sep c_qm _ _ HBq), HQ.
      cbv zeta. fold R. destruct (is_empty R) eqn:L1; cbn [orb].
      * apply is_empty_true in L1. rewrite L1. reflexivity.
      * destruct (last_is c_and R) eqn:L2.
        -- destruct (last_is_split _ _ L2) as [r0 Hr0]. rewrite Hr0, clean_app.
           change (url_clean (String c_and "")) with (String c_and "").
           cbn [append]. rewrite !sapp_assoc. cbn [append].
           rewrite (parse_qsl_app (url_clean r0) s), (parse_qsl_app (url_clean r0) "").
           cbn [parse_qsl split_on flat_map parse_field cut app]. rewrite app_nil_r. reflexivity.
        -- apply parse_qsl_app.
    + assert (HBq : has c_qm B = false) by (apply has_remove_chars; exact Hq).
      rewrite (after_app_nosep c_qm _ _ HBq), (after_nosep c_qm _ HBq).
      cbn [append after]. rewrite Ascii.eqb_refl. reflexivity.
  - (* base *)
    subst G. unfold glue_of. destruct (has c_qm base) eqn:Hq; cbn [negb]; cbv zeta.
    + pose proof (before_after c_qm base Hq) as Hbase. pose proof (has_before c_qm base) as HP.
      assert (HBq : has c_qm B = true).
      { subst B. rewrite Hbase, clean_app, has_app. apply orb_true_iff. right.
        change (url_clean (String c_qm (after c_qm base))) with (String c_qm (url_clean (after c_qm base))).
        rewrite has_cons, Ascii.eqb_refl. reflexivity. }
      apply (before_app_sep c_qm _ _ HBq).
    + assert (HBq : has c_qm B = false) by (apply has_remove_chars; exact Hq).
      rewrite (before_app_nosep c_qm _ _ HBq), (before_nosep c_qm _ HBq).
      cbn [append before]. rewrite Ascii.eqb_refl. apply sapp_nil_r.
Qed.

Lemma delivers_add_query loc args :
  delivers loc (add_query loc (urlencode args)) (nonblank args).
Proof.
  destruct (add_query_delivers loc (urlencode args) (urlencode_alphabet args)) as [H1 [H2 H3]].
  unfold delivers. rewrite H1, parse_qsl_urlencode. auto.
Qed.

Lemma nonblank_relay kv rs : nonblank (kv :: relay_arg rs) = nonblank [kv; ("RelayState", rs)].
Proof. unfold relay_arg. destruct rs; reflexivity. Qed.

Lemma arturl_holds x :
  arturl_spec x (use_http_artifact (u_art x) (u_dest x) (u_rs x)).
Proof.
  unfold arturl_spec, use_http_artifact. rewrite <- nonblank_relay.
  apply delivers_add_query.
Qed.

Lemma uriurl_holds x :
  uriurl_spec x (use_http_uri (i_id x) (i_dest x) (i_rs x)).
Proof.
  unfold uriurl_spec, use_http_uri. rewrite <- nonblank_relay.
  apply delivers_add_query.
Qed.

Lemma arturl_spec_b_iff x url : arturl_spec_b x url = true <-> arturl_spec x url.
Proof. apply delivers_b_iff. Qed.

Lemma uriurl_spec_b_iff x url : uriurl_spec_b x url = true <-> uriurl_spec x url.
Proof. apply delivers_b_iff. Qed.

Lemma redir_spec_b_iff x url received : redir_spec_b x url received = true <-> redir_spec x url received.
Proof.
  rewrite redir_spec_b_unfold. unfold redir_spec. destruct (redir_defined x); cbn [negb orb].
  2:{ split; [intros _ H; discriminate|reflexivity]. }
  split.
  - intros H _. destruct url as [u|]; [|discriminate]. destruct (saml_typ (r_typ x)).
    + apply andb_true_iff in H as [H1 H2]. apply ures_eqb_eq in H2.
      apply orb_true_iff in H1 as [H1|H1]; apply delivers_b_iff in H1; eexists u, _; (split; [reflexivity|]);
        (split; [exact H1|exact H2]).
    + apply delivers_b_iff in H. exists u, (r_msg x). auto.
  - intros H. destruct (H eq_refl) as [u [payload [-> [Hd Hr]]]].
    destruct (saml_typ (r_typ x)).
    + apply andb_true_iff. split; [|apply ures_eqb_eq; exact Hr].
      apply orb_true_iff. destruct payload as [|c p].
      * right. apply delivers_b_iff. exact Hd.
      * left. apply delivers_b_iff.
        assert (Hc : match nth_error (parse_qsl (url_query u)) (List.length (parse_qsl (url_query (r_loc x)))) with
                     | Some kv => snd kv
                     | None => ""
                     end = String c p).
        { destruct Hd as [Hq _]. rewrite Hq. rewrite nth_error_app2 by lia. rewrite Nat.sub_diag. reflexivity. }
        rewrite Hc. exact Hd.
    + subst payload. apply delivers_b_iff. exact Hd.
Qed.

Section Zlib2.
  Variable deflate : string -> string.
  Variable inflate : string -> option string.
  Variable soap_parse : string -> option string.
  Hypothesis inflate_deflate : forall m, inflate (deflate m) = Some m.

  Lemma redir_holds x :
    redir_spec x (http_redirect_message deflate (r_msg x) (r_loc x) (r_rs x) (r_typ x))
                 (redirect_received deflate inflate soap_parse (r_msg x)).
  Proof.
    intros Hdef. unfold http_redirect_message, redirect_args.
    change (is_saml_typ (r_typ x)) with (saml_typ (r_typ x)). unfold redir_defined in Hdef.
    destruct (saml_typ (r_typ x)) eqn:Et.
    - eexists _, (deflate_and_base64_encode deflate (r_msg x)). split; [reflexivity|].
      split; [rewrite <- nonblank_relay; apply delivers_add_query|].
      apply redirect_roundtrip. exact inflate_deflate.
    - cbn [orb] in Hdef. rewrite Hdef.
      eexists _, (r_msg x). split; [reflexivity|].
      split; [rewrite <- nonblank_relay; apply delivers_add_query|reflexivity].
  Qed.

  (* class 5 witness against the code between fc5e66e9 and d9426b2c: a destination whose query ends
     in '?' swallowed the first parameter *)
  Definition redir_qm_tail_witness : redir_in :=
    {| r_msg := "AAQAAMFbLinlXaCM"; r_loc := "https://idp.example.org/ars?a=1?"; r_rs := "state"; r_typ := "SAMLart" |}.

  Lemma redir_qm_tail_v1_refuted : exists x,
    ~ redir_spec x (http_redirect_message_v1 deflate (r_msg x) (r_loc x) (r_rs x) (r_typ x))
                   (redirect_received deflate inflate soap_parse (r_msg x)).
  Proof.
    exists redir_qm_tail_witness. intros H. apply redir_spec_b_iff in H. vm_compute in H. discriminate.
  Qed.

  (* class 2 witnesses against the code before fc5e66e9: the parameters ended up in the fragment /
     behind a second '?' *)
  Definition redir_fragment_witness : redir_in :=
    {| r_msg := "AAQAAMFbLinlXaCM"; r_loc := "https://idp.example.org/ars#top"; r_rs := "state"; r_typ := "SAMLart" |}.
  Definition redir_bare_qm_witness : redir_in :=
    {| r_msg := "AAQAAMFbLinlXaCM"; r_loc := "https://idp.example.org/ars?"; r_rs := ""; r_typ := "SAMLart" |}.

  Lemma redir_fragment_v0_refuted : exists x,
    ~ redir_spec x (http_redirect_message_v0 deflate (r_msg x) (r_loc x) (r_rs x) (r_typ x))
                   (redirect_received deflate inflate soap_parse (r_msg x)).
  Proof.
    exists redir_fragment_witness. intros H. apply redir_spec_b_iff in H. vm_compute in H. discriminate.
  Qed.

  Lemma redir_bare_qm_v0_refuted : exists x,
    ~ redir_spec x (http_redirect_message_v0 deflate (r_msg x) (r_loc x) (r_rs x) (r_typ x))
                   (redirect_received deflate inflate soap_parse (r_msg x)).
  Proof.
    exists redir_bare_qm_witness. intros H. apply redir_spec_b_iff in H. vm_compute in H. discriminate.
  Qed.

  (* the same inputs through the code as it is now *)
  Lemma redir_witnesses_now :
    http_redirect_message deflate "AAQAAMFbLinlXaCM" "https://idp.example.org/ars?a=1?" "state" "SAMLart"
       = Some "https://idp.example.org/ars?a=1?&SAMLart=AAQAAMFbLinlXaCM&RelayState=state"
    /\ http_redirect_message deflate "AAQAAMFbLinlXaCM" "https://idp.example.org/ars#top" "state" "SAMLart"
       = Some "https://idp.example.org/ars?SAMLart=AAQAAMFbLinlXaCM&RelayState=state#top"
    /\ http_redirect_message deflate "AAQAAMFbLinlXaCM" "https://idp.example.org/ars?" "" "SAMLart"
       = Some "https://idp.example.org/ars?SAMLart=AAQAAMFbLinlXaCM".
  Proof. vm_compute. auto. Qed.
End Zlib2.

(* class 5 witness for the artifact URL, against the code between fc5e66e9 and d9426b2c *)
Lemma arturl_qm_tail_v1_refuted : exists x, ~ arturl_spec x (use_http_artifact_v1 (u_art x) (u_dest x) (u_rs x)).
Proof.
  exists {| u_art := "AAQAAMFbLinlXaCM"; u_dest := "https://sp.example.org/acs??"; u_rs := "" |}.
  intros H. apply arturl_spec_b_iff in H. vm_compute in H. discriminate.
Qed.

(* class 3 witness against the code before fc5e66e9: an existing query string swallowed the artifact *)
Definition arturl_witness : arturl_in :=
  {| u_art := "AAQAAMFbLinlXaCM"; u_dest := "https://sp.example.org/acs?tenant=1"; u_rs := "" |}.

Lemma arturl_v0_refuted : exists x, ~ arturl_spec x (use_http_artifact_v0 (u_art x) (u_dest x) (u_rs x)).
Proof.
  exists arturl_witness. intros H. apply arturl_spec_b_iff in H. vm_compute in H. discriminate.
Qed.

Example arturl_witness_now :
  use_http_artifact "AAQAAMFbLinlXaCM" "https://sp.example.org/acs??" "" = "https://sp.example.org/acs??&SAMLart=AAQAAMFbLinlXaCM"
  /\ use_http_artifact (u_art arturl_witness) (u_dest arturl_witness) (u_rs arturl_witness)
     = "https://sp.example.org/acs?tenant=1&SAMLart=AAQAAMFbLinlXaCM".
Proof. vm_compute. auto. Qed.

(* ================================================================== SOAP *)

Lemma soap_spec_b_iff t env : soap_spec_b t env = true <-> soap_spec t env.
Proof.
  unfold soap_spec_b, soap_spec. destruct (body_of t) as [b|].
  - rewrite opt_str_eqb_eq. split; [intros -> b' E; inversion E; reflexivity|intros H; apply H; reflexivity].
  - split; [intros _ b E; discriminate|reflexivity].
Qed.

(* the find / rfind / replace surgery, on the serialiser's output, is plain wrapping *)
Lemma surgery_precursor th : surgery SOAP_PRECURSOR th = Some (ENV_PRE ++ th ++ ENV_POST).
Proof. vm_compute. reflexivity. Qed.

Lemma repl_absent old new s : find old s = None -> repl old new 0 s = s.
Proof.
  induction s as [|c r IH]; cbn [find repl]; [reflexivity|].
  destruct (starts old (String c r)); [discriminate|].
  intros H. destruct (find old r); [discriminate|]. rewrite IH; reflexivity.
Qed.

Lemma replace_absent old new s : occurs old s = false -> replace old new s = s.
Proof.
  unfold occurs, replace. destruct (is_empty old); [reflexivity|].
  destruct (find old s) eqn:E; [discriminate|]. intros _. apply repl_absent; exact E.
Qed.

Lemma find_cons sub c r :
  find sub (String c r) = if starts sub (String c r) then Some 0 else option_map S (find sub r).
Proof. reflexivity. Qed.

Lemma find_pi_end d rest : has c_gt d = false -> find "?>" (d ++ "?>" ++ rest) = Some (String.length d).
Proof.
  induction d as [|c d' IH]; [reflexivity|].
  rewrite has_cons. intros H. apply orb_false_iff in H as [Hc Hd].
  change (String c d' ++ "?>" ++ rest) with (String c (d' ++ "?>" ++ rest)).
  rewrite find_cons, (IH Hd). cbn [String.length].
  assert (Hs : starts "?>" (String c (d' ++ "?>" ++ rest)) = false).
  { cbn [starts]. destruct d' as [|e d'']; cbn [append].
    - change (Ascii.eqb ">" "?") with false. cbn [andb]. apply andb_false_r.
    - rewrite has_cons in Hd. apply orb_false_iff in Hd as [He _].
      change c_gt with ">"%char in He. rewrite He. cbn [andb]. apply andb_false_r. }
  rewrite Hs. reflexivity.
Qed.

Lemma drop_add a k b : drop (String.length a + k) (a ++ b) = drop k b.
Proof. induction a as [|c r IH]; cbn [String.length Nat.add append drop]; [reflexivity|exact IH]. Qed.

Lemma starts_drop p : forall t, starts p t = true -> t = p ++ drop (String.length p) t.
Proof.
  induction p as [|a p IH]; intros t H; cbn [String.length drop append]; [reflexivity|].
  cbn [starts] in H. destruct t as [|b t]; [discriminate|].
  apply andb_true_iff in H as [H1 H2]. apply Ascii.eqb_eq in H1. subst b.
  rewrite <- (IH t H2). reflexivity.
Qed.

Lemma find_xml_prefix X : find "?>" ("<?xml" ++ X) = option_map (fun n => 5 + n) (find "?>" X).
Proof. cbn [append find starts]. cbn. destruct (find "?>" X); reflexivity. Qed.

Lemma strip_decl_body t b : body_of t = Some b -> strip_decl t = b.
Proof.
  unfold body_of. destruct (starts "<?xml" t) eqn:Es.
  - apply starts_drop in Es. cbn [String.length] in Es. set (r := drop 5 t) in *.
    destruct (has c_gt r) eqn:Hg; [|discriminate]. destruct (last_is c_qm (before c_gt r)) eqn:Hl; [|discriminate].
    cbn [andb]. intros E. inversion E as [Eb]. clear E.
    destruct (last_is_split _ _ Hl) as [d Hd].
    pose proof (before_after c_gt r Hg) as Hr. rewrite Hd in Hr.
    assert (Hnd : has c_gt d = false).
    { pose proof (has_before c_gt r) as Hb. rewrite Hd, has_app in Hb. apply orb_false_iff in Hb as [Hb _]. exact Hb. }
    set (rest := after c_gt r) in *.
    rewrite sapp_assoc in Hr. change (String c_qm "" ++ String c_gt rest) with ("?>" ++ rest) in Hr.
    rewrite Es. rewrite Hr. unfold strip_decl.
    change (lower (take 5 ("<?xml" ++ d ++ "?>" ++ rest))) with "<?xml". cbn [String.eqb].
    replace (("<?xml" =? "<?xml")%string) with true by reflexivity.
    rewrite find_xml_prefix, (find_pi_end d rest Hnd). cbn [option_map].
    cbn [append Nat.add drop]. rewrite drop_add. reflexivity.
  - destruct (decl_start t) eqn:Ed; [discriminate|]. intros E. inversion E. subst b.
    unfold strip_decl. unfold decl_start in Ed. rewrite Ed. reflexivity.
Qed.

Lemma lstrip_crlf_app nl b :
  all_chars is_crlf nl = true ->
  match b with EmptyString => True | String c _ => is_crlf c = false end ->
  lstrip_chars is_crlf (nl ++ b) = b.
Proof.
  intros Hn Hb. induction nl as [|c r IH]; cbn [append].
  - destruct b as [|c b']; [reflexivity|]. cbn [lstrip_chars]. rewrite Hb. reflexivity.
  - cbn [all_chars] in Hn. apply andb_true_iff in Hn as [H1 H2]. cbn [lstrip_chars]. rewrite H1. exact (IH H2).
Qed.

Lemma starts_decl_start t : starts "<?xml" t = true -> decl_start t = true.
Proof. intros H. apply starts_drop in H. rewrite H. reflexivity. Qed.

(* the declarative reading of body_of: an optional XML declaration, line breaks, then the body *)
Lemma msg_body_body_of t b : msg_body t b -> body_of t = Some b.
Proof.
  intros H. destruct H as [t Hd | d nl b Hd Hn Hb].
  - unfold body_of. destruct (starts "<?xml" t) eqn:Es.
    + apply starts_decl_start in Es. congruence.
    + rewrite Hd. reflexivity.
  - unfold body_of. change (starts "<?xml" ("<?xml" ++ d ++ "?>" ++ nl ++ b)) with true. cbn iota.
    change (drop 5 ("<?xml" ++ d ++ "?>" ++ nl ++ b)) with (d ++ "?>" ++ nl ++ b).
    assert (Hg : has c_gt (d ++ "?>" ++ nl ++ b) = true).
    { rewrite has_app. apply orb_true_iff. right. reflexivity. }
    rewrite Hg. rewrite (before_app_nosep c_gt _ _ Hd), (after_app_nosep c_gt _ _ Hd).
    change (before c_gt ("?>" ++ nl ++ b)) with "?". change (after c_gt ("?>" ++ nl ++ b)) with (nl ++ b).
    rewrite last_is_app. cbn [andb]. rewrite (lstrip_crlf_app nl b Hn Hb). reflexivity.
Qed.

(* the envelope carries the body text verbatim, one-line and multi-line alike, whatever it contains *)
Lemma soap_holds t : soap_spec t (make_soap t).
Proof.
  unfold soap_spec. intros b Hb.
  unfold make_soap, soap_thingy. rewrite (strip_decl_body t b Hb).
  apply surgery_precursor.
Qed.

(* the code before 9f16767d agreed with this outside class 4 *)
Lemma soap_v0_holds t : body_ok t = true -> soap_spec t (make_soap_v0 t).
Proof.
  unfold body_ok, soap_spec. intros Hok b Hb. rewrite Hb in Hok. apply negb_true_iff in Hok.
  unfold make_soap_v0, soap_thingy_v0. rewrite (strip_decl_body t b Hb), (replace_absent _ _ _ Hok).
  apply surgery_precursor.
Qed.

(* class 4 witness against the code before 9f16767d: declaration text inside a CDATA section was deleted *)
Definition soap_witness : string := "<a><![CDATA[<?xml version=""1.0"" encoding=""UTF-8""?>]]></a>".

Lemma soap_v0_refuted : exists t, ~ soap_spec t (make_soap_v0 t).
Proof.
  exists soap_witness. intros H. apply soap_spec_b_iff in H. vm_compute in H. discriminate.
Qed.

(* non-vacuity *)
Example soap_example_oneline :
  make_soap "<?xml version='1.0' encoding='UTF-8'?><a>x</a>" = Some (ENV_PRE ++ "<a>x</a>" ++ ENV_POST)
  /\ body_of "<?xml version='1.0' encoding='UTF-8'?><a>x</a>" = Some "<a>x</a>"
  /\ make_soap soap_witness = Some (ENV_PRE ++ soap_witness ++ ENV_POST).
Proof. vm_compute. auto. Qed.

(* ================================================================== artifacts *)

Lemma nodup_b_iff l : nodup_b l = true <-> NoDup l.
Proof.
  induction l as [|x r IH]; cbn [nodup_b].
  - split; [intros _; constructor|reflexivity].
  - rewrite andb_true_iff, negb_true_iff, IH. split.
    + intros [H1 H2]. constructor; [|exact H2]. intros Hin. apply mem_In in Hin. congruence.
    + intros H. inversion H as [|? ? Hn Hd]; subst. split; [|exact Hd].
      destruct (mem x r) eqn:E; [|reflexivity]. apply mem_In in E. contradiction.
Qed.

Lemma art_spec_b_iff x dest : art_spec_b x dest = true <-> art_spec x dest.
Proof.
  unfold art_spec_b, art_spec. destruct (assoc (a_sid x) (a_sm x)) as [[descs|]|].
  2,3: split; [intros _ ? ? E; discriminate|reflexivity].
  destruct (all_some descs) as [svcs|] eqn:Ea.
  2: split; [intros _ ? ? E1 E2; inversion E1; subst; congruence|reflexivity].
  rewrite orb_true_iff, negb_true_iff, ares_eqb_eq. split.
  - intros H d s E1 E2 Hn. inversion E1; subst d. rewrite Ea in E2. inversion E2; subst s.
    destruct H as [H|H]; [|exact H]. apply Nat.leb_gt in H. lia.
  - intros H. destruct (length (services_raw (a_idx x) (concat svcs)) <=? 1)%nat eqn:En; [|left; reflexivity].
    right. apply (H descs svcs eq_refl Ea). apply Nat.leb_le; exact En.
Qed.

Lemma assoc_app {A} k (a b : list (string * A)) :
  assoc k (a ++ b) = match assoc k a with Some v => Some v | None => assoc k b end.
Proof.
  induction a as [|[k' v] a IH]; cbn [app assoc]; [reflexivity|].
  destruct (String.eqb k k'); [reflexivity|exact IH].
Qed.

Lemma assoc_in {A} k (l : list (string * A)) v : assoc k l = Some v -> In k (map fst l).
Proof.
  induction l as [|[k' v'] l IH]; cbn [assoc map fst In]; [discriminate|].
  destruct (String.eqb k k') eqn:E; [apply String.eqb_eq in E; auto|auto].
Qed.

Lemma assoc_notin {A} k (l : list (string * A)) : ~ In k (map fst l) -> assoc k l = None.
Proof.
  intros H. destruct (assoc k l) eqn:E; [|reflexivity]. apply assoc_in in E. contradiction.
Qed.

(* ---- the code's test (isascii, isdigit, int(..) == endpoint_index) is the number the spec reads *)
Lemma dec_go_digits : forall s acc, dec_go acc s = digits_val acc s.
Proof. induction s as [|c r IH]; intros acc; cbn [dec_go digits_val]; [reflexivity|]. rewrite IH. reflexivity. Qed.

Lemma dec_value_raw s : dec_value s = raw_value s.
Proof. unfold dec_value, raw_value. rewrite dec_go_digits. reflexivity. Qed.

Lemma idx_matches_nat n s : idx_matches (Z.of_nat n) s = denotes_raw n s.
Proof.
  unfold idx_matches, denotes_raw. rewrite dec_value_raw. destruct (raw_value s) as [v|]; [|reflexivity].
  destruct (Nat.eqb_spec v n) as [->|Hne]; [apply Z.eqb_refl|]. apply Z.eqb_neq. intros H. apply Nat2Z.inj in H. contradiction.
Qed.

Definition matches (z : Z) (sv : service) : bool := idx_matches z (fst sv).

Lemma services_raw_matches n l : services_raw n l = map snd (filter (matches (Z.of_nat n)) l).
Proof.
  unfold services_raw. f_equal. apply filter_ext. intros sv. unfold matches. rewrite idx_matches_nat. reflexivity.
Qed.

Lemma find_svc_filter z (l : list service) : find_svc z l = hd_error (map snd (filter (matches z) l)).
Proof.
  induction l as [|sv l IH]; cbn [find_svc filter]; [reflexivity|].
  unfold matches at 1. destruct (idx_matches z (fst sv)); [reflexivity|exact IH].
Qed.

Lemma find_svc_In z l loc : find_svc z l = Some loc -> exists sv, In sv l /\ idx_matches z (fst sv) = true /\ snd sv = loc.
Proof.
  induction l as [|sv l IH]; cbn [find_svc]; [discriminate|].
  destruct (idx_matches z (fst sv)) eqn:E.
  - intros H. inversion H. exists sv. repeat split; [left; reflexivity|exact E].
  - intros H. destruct (IH H) as [sv' [Hin Hr]]. exists sv'. split; [right; exact Hin|exact Hr].
Qed.

Lemma scan_err z ds : fold_left (scan_desc z) ds AErr = AErr.
Proof. induction ds as [|d ds IH]; [reflexivity|exact IH]. Qed.

(* whatever comes out of the descriptor loop is a matching service of one of the descriptors *)
Lemma scan_origin z l : forall ds d0,
  fold_left (scan_desc z) ds (AOk d0) = AOk (Some l) ->
  d0 = Some l \/ exists svcs, In (Some svcs) ds /\ find_svc z svcs = Some l.
Proof.
  induction ds as [|d ds IH]; intros d0 H; cbn [fold_left] in H.
  - inversion H. left; reflexivity.
  - destruct d as [svcs|]; cbn [scan_desc] in H; [|rewrite scan_err in H; discriminate].
    destruct (IH _ H) as [E|[s [Hin Ha]]].
    + destruct (find_svc z svcs) as [l'|] eqn:Ea; [|left; exact E].
      right. exists svcs. split; [left; reflexivity|]. rewrite Ea. exact E.
    + right. exists s. split; [right; exact Hin|exact Ha].
Qed.

(* with at most one matching service the descriptor loop finds it *)
Lemma scan_unique z : forall ds svcs d0,
  all_some ds = Some svcs -> length (filter (matches z) (concat svcs)) <= 1 ->
  fold_left (scan_desc z) ds (AOk d0) =
  AOk (match find_svc z (concat svcs) with Some l => Some l | None => d0 end).
Proof.
  induction ds as [|d ds IH]; intros svcs d0 Ha Hn.
  - cbn in Ha. inversion Ha; subst. reflexivity.
  - cbn [all_some] in Ha. destruct d as [s|]; [|discriminate].
    destruct (all_some ds) as [svcs'|] eqn:Ea; [|discriminate]. inversion Ha; subst svcs. clear Ha.
    cbn [concat] in *. rewrite filter_app, app_length in Hn. cbn [fold_left scan_desc].
    rewrite (IH svcs' _ eq_refl ltac:(lia)). rewrite !find_svc_filter, filter_app, map_app.
    destruct (filter (matches z) s) as [|a ra]; cbn [map app hd_error]; [reflexivity|].
    destruct (filter (matches z) (concat svcs')); [reflexivity|cbn [length] in Hn; lia].
Qed.

Lemma take_app_length a b : take (String.length a) (a ++ b) = a.
Proof. induction a as [|c r IH]; cbn [String.length take append]; [destruct b; reflexivity|rewrite IH; reflexivity]. Qed.

(* two hexadecimal digits for every index below 256, read back by int(.., 16) as the same number *)
Lemma fmt02x_small n : n < 256 ->
  exists h1 h2, fmt02x n = String h1 (String h2 "") /\ int16_str (String h1 (String h2 "")) = Some (decimal n).
Proof.
  intros Hn.
  pose proof (below (fun n => match fmt02x n with
                              | String h1 (String h2 EmptyString) =>
                                  opt_str_eqb (int16_str (String h1 (String h2 ""))) (Some (decimal n))
                              | _ => false
                              end) 256) as H.
  specialize (H ltac:(vm_compute; reflexivity) n Hn). cbv beta in H.
  destruct (fmt02x n) as [|h1 [|h2 [|]]]; try discriminate.
  exists h1, h2. split; [reflexivity|]. apply opt_str_eqb_eq. exact H.
Qed.

Lemma fmt02x_small_z n : n < 256 ->
  exists h1 h2, fmt02x n = String h1 (String h2 "") /\ int16_z (String h1 (String h2 "")) = Some (Z.of_nat n).
Proof.
  intros Hn.
  pose proof (below (fun n => match fmt02x n with
                              | String h1 (String h2 EmptyString) =>
                                  match int16_z (String h1 (String h2 "")) with
                                  | Some z => Z.eqb z (Z.of_nat n) | None => false end
                              | _ => false
                              end) 256) as H.
  specialize (H ltac:(vm_compute; reflexivity) n Hn). cbv beta in H.
  destruct (fmt02x n) as [|h1 [|h2 [|]]]; try discriminate.
  exists h1, h2. split; [reflexivity|].
  destruct (int16_z (String h1 (String h2 ""))) as [z|]; [|discriminate]. apply Z.eqb_eq in H. rewrite H. reflexivity.
Qed.

Lemma opt_id {A} (o : option A) : match o with Some l => Some l | None => None end = o.
Proof. destruct o; reflexivity. Qed.

Section Sha1.
  Variable sha1 : string -> string.
  Hypothesis sha1_len : forall e, String.length (sha1 e) = 20.

  Lemma artifact_parse eid handle idx h1 h2 :
    fmt02x idx = String h1 (String h2 "") ->
    exists a, decode_str (create_artifact sha1 eid handle idx) = Some a
      /\ take 2 a = ARTIFACT_TYPECODE /\ slice 2 4 a = String h1 (String h2 "") /\ slice 4 24 a = sha1 eid.
  Proof.
    intros Hf. unfold create_artifact. rewrite b64_decode_str_encode. eexists. split; [reflexivity|].
    rewrite Hf. split; [reflexivity|]. split; [reflexivity|].
    unfold slice. cbn [ARTIFACT_TYPECODE append drop Nat.sub].
    change 20 with (20 + 0). rewrite <- (sha1_len eid). cbn [Nat.add]. rewrite Nat.add_0_r.
    apply take_app_length.
  Qed.

  Lemma art_holds x :
    idx_ok (a_idx x) = true -> a_sid x = sha1 (a_eid x) ->
    art_spec x (artifact2destination (a_sm x) (create_artifact sha1 (a_eid x) (a_handle x) (a_idx x))).
  Proof.
    unfold idx_ok. intros Hi Hs descs svcs Hm Ha Hn. apply Nat.ltb_lt in Hi.
    destruct (fmt02x_small_z _ Hi) as [h1 [h2 [Hf Hint]]].
    destruct (artifact_parse (a_eid x) (a_handle x) (a_idx x) h1 h2 Hf) as [a [Hd [Ht [Hx Hsid]]]].
    unfold artifact2destination. rewrite Hd, Ht, String.eqb_refl. cbn [negb].
    rewrite Hx, Hint, Hsid, <- Hs, Hm. rewrite services_raw_matches in *. rewrite map_length in Hn.
    rewrite (scan_unique _ descs svcs None Ha Hn). rewrite find_svc_filter.
    f_equal. apply opt_id.
  Qed.

  (* class 1 witness: index 256 is written as "100"; the reader sees index 16 and a shifted SourceID *)
  Lemma art_refuted : exists x,
    a_sid x = sha1 (a_eid x) /\
    ~ art_spec x (artifact2destination (a_sm x) (create_artifact sha1 (a_eid x) (a_handle x) (a_idx x))).
  Proof.
    exists {| a_eid := "https://idp.example.org/idp.xml"; a_sid := sha1 "https://idp.example.org/idp.xml";
              a_handle := "01234567890123456789"; a_idx := 256;
              a_sm := [(sha1 "https://idp.example.org/idp.xml", Some [Some [("256", "https://idp.example.org/ars")]])] |}.
    split; [reflexivity|]. intros H. apply art_spec_b_iff in H. revert H.
    unfold art_spec_b. cbn [a_eid a_sid a_handle a_idx a_sm assoc]. rewrite String.eqb_refl.
    cbn [all_some concat app].
    change (services_raw 256 [("256", "https://idp.example.org/ars")]) with ["https://idp.example.org/ars"].
    cbn [length Nat.leb negb orb hd_error].
    unfold create_artifact, artifact2destination. rewrite b64_decode_str_encode.
    change (fmt02x 256) with "100".
    change (take 2 (ARTIFACT_TYPECODE ++ "100" ++ sha1 "https://idp.example.org/idp.xml" ++ "01234567890123456789"))
      with ARTIFACT_TYPECODE.
    rewrite String.eqb_refl. cbn [negb].
    change (slice 2 4 (ARTIFACT_TYPECODE ++ "100" ++ sha1 "https://idp.example.org/idp.xml" ++ "01234567890123456789"))
      with "10".
    change (int16_z "10") with (Some 16%Z).
    cbn [assoc]. destruct (String.eqb _ _); cbn; discriminate.
  Qed.
End Sha1.

(* ================================================================== non-vacuity of the hypotheses *)

(* a toy "zlib" satisfying the section hypotheses: deflate prefixes a marker byte *)
Definition toy_deflate (m : string) : string := String "x"%char m.
Definition toy_inflate (d : string) : option string :=
  match d with String c r => if Ascii.eqb c "x"%char then Some r else None | EmptyString => None end.

Example toy_zlib_ok :
  (forall m, toy_inflate (toy_deflate m) = Some m) /\ toy_inflate "" = None /\ toy_inflate "<a/>" = None.
Proof. repeat split. Qed.

Example post_example :
  post_spec_b {| p_msg := "<a/>"; p_loc := "https://sp.example.org/acs?a=1&b=""><script>"; p_rs := "r'""<&>"; p_typ := "SAMLResponse" |}
    (http_form_post_message "<a/>" "https://sp.example.org/acs?a=1&b=""><script>" "r'""<&>" "SAMLResponse")
    (post_received toy_inflate (fun _ => None) "<a/>" "SAMLResponse") = true.
Proof. vm_compute. reflexivity. Qed.

Example redir_example :
  qtail_ok "https://idp.example.org/sso?tenant=a%20b?#frag?" = false /\
  redir_spec_b {| r_msg := "<a/>"; r_loc := "https://idp.example.org/sso?tenant=a%20b?#frag?"; r_rs := "x&SAMLRequest=evil#"; r_typ := "SAMLRequest" |}
    (http_redirect_message toy_deflate "<a/>" "https://idp.example.org/sso?tenant=a%20b?#frag?" "x&SAMLRequest=evil#" "SAMLRequest")
    (redirect_received toy_deflate toy_inflate (fun _ => None) "<a/>") = true.
Proof. vm_compute. auto. Qed.

Definition toy_sha1 (e : string) : string := "01234567890123456789".

Example art_example :
  (forall e, String.length (toy_sha1 e) = 20) /\
  artifact2destination [(toy_sha1 "e", Some [Some [("0", "L0")]; Some [("171", "L171")]])]
                       (create_artifact toy_sha1 "e" "abcdefghijklmnopqrst" 171) = AOk (Some "L171").
Proof. split; [reflexivity|vm_compute; reflexivity]. Qed.

Lemma art_refuted_len (sha1 : string -> string) :
  (forall e, String.length (sha1 e) = 20) ->
  exists x, a_sid x = sha1 (a_eid x) /\
    ~ art_spec x (artifact2destination (a_sm x) (create_artifact sha1 (a_eid x) (a_handle x) (a_idx x))).
Proof. intros _. apply art_refuted. Qed.
