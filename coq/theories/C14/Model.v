(* C14/Model.v — the binding codecs, as coded.
   Mirrors: pack.http_form_post_message (66-99), pack.add_query (126-139),
   pack.http_redirect_message (142-204, sign=False),
   pack.make_soap_enveloped_saml_thingy for str input without header parts (211-257),
   httpbase.use_http_artifact (248-255), httpbase.use_http_uri (257-282, the SAMLRequest branch),
   s_utils.deflate_and_base64_encode /
   decode_base64_and_inflate (144-163), Entity.unravel (423-462),
   entity.create_artifact (105-127), Entity.artifact2destination (1585-1612, as repaired by fbf0c2eb: the index
   attribute is compared by NUMBER; the text comparison it replaces is kept as artifact2destination_v0).
   zlib, SHA-1 and the XML parser of the SOAP receiver are Section variables.
   Definitions named ..._v0 restate the code as it was BEFORE a repair commit (fc5e66e9: query
   glue; d9426b2c: add_query and a query ending in '?' (these are the ..._v1 definitions); 9f16767d:
   declaration text inside the SOAP body); they are kept for the ..._v0_refuted
   theorems and for Corr.cls, which recognises a regression to the old behaviour. *)
From Coq Require Import String Ascii List Bool Arith DecimalString ZArith.
From Verif Require Import Base.Str Base.Percent Base.Base64 Base.Html Base.Query.
Import ListNotations.
Open Scope string_scope.

(* ------------------------------------------------------------------ string helpers (Python slices, find, replace) *)

Fixpoint take (n : nat) (s : string) : string :=          (* s[:n] *)
  match n, s with
  | S k, String c r => String c (take k r)
  | _, _ => EmptyString
  end.

Fixpoint drop (n : nat) (s : string) : string :=          (* s[n:] *)
  match n, s with
  | S k, String _ r => drop k r
  | _, _ => s
  end.

Definition slice (a b : nat) (s : string) : string := take (b - a) (drop a s).   (* s[a:b], a <= b *)

(* s.find(sub) *)
Fixpoint find (sub s : string) : option nat :=
  match s with
  | EmptyString => if is_empty sub then Some 0 else None
  | String _ r => if starts sub s then Some 0 else option_map S (find sub r)
  end.

(* s.find(sub, k) *)
Definition find_from (sub s : string) (k : nat) : option nat :=
  option_map (fun i => i + k) (find sub (drop k s)).

(* s.rfind(sub, 0, limit) for non-empty sub: the last match that ends at or before limit *)
Fixpoint rfind_go (sub s : string) (k limit : nat) (best : option nat) : option nat :=
  match s with
  | EmptyString => best
  | String _ r =>
      rfind_go sub r (S k) limit
        (if ((k + String.length sub <=? limit)%nat && starts sub s) then Some k else best)
  end.
Definition rfind (sub s : string) (limit : nat) : option nat := rfind_go sub s 0 limit None.

(* s.replace(old, new) for non-empty old: left to right, non-overlapping *)
Fixpoint repl (old new : string) (skip : nat) (s : string) : string :=
  match s with
  | EmptyString => EmptyString
  | String c r =>
      match skip with
      | S k => repl old new k r
      | 0 => if starts old s then new ++ repl old new (String.length old - 1) r
             else String c (repl old new 0 r)
      end
  end.
Definition replace (old new s : string) : string :=
  if is_empty old then s (* not used with an empty pattern *) else repl old new 0 s.

Definition is_crlf (c : ascii) : bool := let n := code c in ((n =? 13) || (n =? 10))%nat.

Fixpoint lstrip_chars (p : ascii -> bool) (s : string) : string :=    (* s.lstrip(chars) *)
  match s with
  | EmptyString => EmptyString
  | String c r => if p c then lstrip_chars p r else s
  end.

Fixpoint rstrip_chars (p : ascii -> bool) (s : string) : string :=    (* s.rstrip(chars) *)
  match s with
  | EmptyString => EmptyString
  | String c r =>
      let r' := rstrip_chars p r in
      if p c && is_empty r' then EmptyString else String c r'
  end.

(* s.endswith(c) for a one-character c *)
Fixpoint last_is (c : ascii) (s : string) : bool :=
  match s with
  | EmptyString => false
  | String d EmptyString => Ascii.eqb d c
  | String _ r => last_is c r
  end.

(* ------------------------------------------------------------------ zlib / unravel *)

Inductive binding := BRedirect | BPost | BSoap | BUri | BArtifact | BNoBinding | BOther.

(* result of Entity.unravel *)
Inductive ures := UOk (s : string) | UUnravelError | UUnknownBinding.

Section Codec.
  Variable deflate : string -> string.              (* zlib.compress(b)[2:-4] *)
  Variable inflate : string -> option string.       (* zlib.decompress(b, -15); None = zlib.error *)
  Variable soap_parse : string -> option string.    (* soap.parse_soap_enveloped_saml_<msgtype>; None = exception *)

  Definition deflate_and_base64_encode (m : string) : string := encode (deflate m).

  Inductive dres := DOk (s : string) | DZlibError | DOtherError.

  Definition decode_base64_and_inflate (txt : string) : dres :=
    match decode_str txt with
    | None => DOtherError                       (* binascii.Error / ValueError *)
    | Some d => match inflate d with Some m => DOk m | None => DZlibError end
    end.

  Definition b64decode_u (txt : string) : ures :=
    match decode_str txt with Some d => UOk d | None => UUnravelError end.

  Definition unravel (txt : string) (b : binding) : ures :=
    match b with
    | BOther => UUnknownBinding
    | BRedirect =>
        match decode_base64_and_inflate txt with DOk m => UOk m | _ => UUnravelError end
    | BPost =>
        match decode_base64_and_inflate txt with
        | DOk m => UOk m
        | DZlibError => b64decode_u txt
        | DOtherError => UUnravelError
        end
    | BSoap => match soap_parse txt with Some m => UOk m | None => UUnravelError end
    | BArtifact => b64decode_u txt
    | BUri | BNoBinding => UOk txt
    end.

  (* ---------------------------------------------------------------- HTTP-POST form *)

  Definition is_saml_typ (typ : string) : bool :=
    String.eqb typ "SAMLRequest" || String.eqb typ "SAMLResponse".

  Definition FORM_A : string := "<!DOCTYPE html>
<html>
  <head>
    <meta charset=""utf-8"" />
  </head>
  <body onload=""document.forms[0].submit()"">
    <noscript>
      <p>
        <strong>Note:</strong>
        Since your browser does not support JavaScript,
        you must press the Continue button once to proceed.
      </p>
    </noscript>
    <form action=""".
  Definition FORM_B : string := """ method=""post"">
      ".
  Definition FORM_C : string := "
      ".
  Definition FORM_D : string := "
      <noscript>
        <input type=""submit"" value=""Continue""/>
      </noscript>
    </form>
  </body>
</html>".

  Definition INPUT_A : string := "<input type=""hidden"" name=""".
  Definition INPUT_B : string := """ value=""".
  Definition INPUT_C : string := """/>".

  Definition input_element (name val : string) : string :=
    INPUT_A ++ name ++ INPUT_B ++ val ++ INPUT_C.

  (* what goes into the value attribute (before escaping); None = UnicodeDecodeError of
     message.decode("ascii") for a non-SAML typ *)
  Definition post_payload (msg typ : string) : option string :=
    if is_saml_typ typ then Some (encode msg)
    else if all_chars is_ascii_char msg then Some msg else None.

  Definition form_of (payload loc rs typ : string) : string :=
    FORM_A ++ escape loc ++ FORM_B
    ++ input_element (escape typ) (escape payload) ++ FORM_C
    ++ (if is_empty rs then EmptyString else input_element "RelayState" (escape rs))
    ++ FORM_D.

  (* http_form_post_message(message, location, relay_state, typ)["data"] *)
  Definition http_form_post_message (msg loc rs typ : string) : option string :=
    match post_payload msg typ with
    | Some p => Some (form_of p loc rs typ)
    | None => None
    end.

  (* the receiver's Entity.unravel applied to the value the form carries *)
  Definition post_received (msg typ : string) : ures :=
    match post_payload msg typ with
    | Some p => unravel p BPost
    | None => UUnravelError
    end.

  (* ---------------------------------------------------------------- HTTP-Redirect *)

  Definition relay_arg (rs : string) : list (string * string) :=
    if is_empty rs then [] else [("RelayState", rs)].

  (* args dict, insertion order; None = Exception("Unknown message type") *)
  Definition redirect_args (msg rs typ : string) : option (list (string * string)) :=
    if is_saml_typ typ then Some ((typ, deflate_and_base64_encode msg) :: relay_arg rs)
    else if String.eqb typ "SAMLart" then Some ((typ, msg) :: relay_arg rs)
    else None.

  (* pack.add_query(location, query):
       base, _hash, fragment = location.partition("#")
       _path, _qm, old_query = base.partition("?")
       not _qm -> "?" ; old_query empty or ending in "&" -> "" ; else "&"
       f"{base}{glue_char}{query}{_hash}{fragment}" *)
  Definition glue_of (base : string) : string :=
    if negb (has c_qm base) then "?"
    else let old_query := after c_qm base in
         if is_empty old_query || last_is c_and old_query then "" else "&".

  (* between fc5e66e9 and d9426b2c: "?" not in base -> "?" ; base ends with "?" or "&" -> "" ; else "&" *)
  Definition glue_of_v1 (base : string) : string :=
    if negb (has c_qm base) then "?"
    else if last_is c_qm base || last_is c_and base then ""
    else "&".

  Definition hash_tail (loc : string) : string :=          (* _hash + fragment *)
    if has c_hash loc then String c_hash (after c_hash loc) else "".

  Definition add_query (loc q : string) : string :=
    let base := before c_hash loc in
    base ++ glue_of base ++ q ++ hash_tail loc.

  Definition add_query_v1 (loc q : string) : string :=
    let base := before c_hash loc in
    base ++ glue_of_v1 base ++ q ++ hash_tail loc.

  (* http_redirect_message(message, location, relay_state, typ, sign=False): the Location header *)
  Definition http_redirect_message (msg loc rs typ : string) : option string :=
    match redirect_args msg rs typ with
    | Some args => Some (add_query loc (urlencode args))
    | None => None
    end.

  Definition http_redirect_message_v1 (msg loc rs typ : string) : option string :=
    match redirect_args msg rs typ with
    | Some args => Some (add_query_v1 loc (urlencode args))
    | None => None
    end.

  (* before fc5e66e9: glue_char = "&" if urlparse(location).query else "?"; glue_char.join([location, string]) *)
  Definition glue_char_v0 (loc : string) : string :=
    if is_empty (url_query loc) then "?" else "&".

  Definition http_redirect_message_v0 (msg loc rs typ : string) : option string :=
    match redirect_args msg rs typ with
    | Some args => Some (loc ++ glue_char_v0 loc ++ urlencode args)
    | None => None
    end.

  (* the receiver's Entity.unravel applied to the SAMLRequest / SAMLResponse parameter *)
  Definition redirect_received (msg : string) : ures :=
    unravel (deflate_and_base64_encode msg) BRedirect.

  (* httpbase.use_http_artifact(message, destination, relay_state)["url"] *)
  Definition use_http_artifact (art dest rs : string) : string :=
    add_query dest (urlencode (("SAMLart", art) :: relay_arg rs)).

  (* httpbase.use_http_uri(message, "SAMLRequest", destination, relay_state)["url"] *)
  Definition use_http_uri (ident dest rs : string) : string :=
    add_query dest (urlencode (("ID", ident) :: relay_arg rs)).

  Definition use_http_artifact_v1 (art dest rs : string) : string :=
    add_query_v1 dest (urlencode (("SAMLart", art) :: relay_arg rs)).

  (* before fc5e66e9: f"{destination}?{query}" *)
  Definition use_http_artifact_v0 (art dest rs : string) : string :=
    dest ++ "?" ++ urlencode (("SAMLart", art) :: relay_arg rs).

  (* ---------------------------------------------------------------- SOAP envelope (str input, no header parts) *)

  Definition PREFIX : string := "<?xml version=""1.0"" encoding=""UTF-8""?>".
  Definition DUMMY_NAMESPACE : string := "http://example.org/".

  (* ElementTree.tostring(envelope, encoding="UTF-8") of Envelope/Body/FuddleMuddle
     (the serialiser is outside the model; this is its output, compared on every run) *)
  Definition SOAP_PRECURSOR : string :=
    "<ns0:Envelope xmlns:ns0=""http://schemas.xmlsoap.org/soap/envelope/"" xmlns:ns1=""http://example.org/""><ns0:Body><ns1:FuddleMuddle /></ns0:Body></ns0:Envelope>".

  (* the leading-declaration branch *)
  Definition strip_decl (t : string) : string :=
    if String.eqb (lower (take 5 t)) "<?xml" then
      match find "?>" t with
      | Some e => lstrip_chars is_crlf (drop (e + 2) t)
      | None => t
      end
    else t.

  Definition soap_thingy (t : string) : string := strip_decl t.

  (* before 9f16767d: thingy = thingy.replace(PREFIX, "") after the leading declaration was removed *)
  Definition soap_thingy_v0 (t : string) : string := replace PREFIX "" (strip_decl t).

  (* the find / rfind / replace surgery on the precursor *)
  Definition surgery (s thingy : string) : option string :=
    match find DUMMY_NAMESPACE s with
    | None => None
    | Some i =>
        match rfind "xmlns:" s i with
        | None => None
        | Some j =>
            let cut1 := slice j (i + String.length DUMMY_NAMESPACE + 1) s in
            let s1 := replace cut1 "" s in
            match find ("<" ++ slice 6 9 cut1 ++ ":FuddleMuddle") s1 with
            | None => None
            | Some first =>
                match find_from ">" s1 (first + 14) with
                | None => None
                | Some last => Some (replace (slice first (last + 1) s1) thingy s1)
                end
            end
        end
    end.

  (* make_soap_enveloped_saml_thingy(thingy: str); None is unreachable for SOAP_PRECURSOR *)
  Definition make_soap (t : string) : option string := surgery SOAP_PRECURSOR (soap_thingy t).
  Definition make_soap_v0 (t : string) : option string := surgery SOAP_PRECURSOR (soap_thingy_v0 t).

  (* ---------------------------------------------------------------- artifacts *)

  Variable sha1 : string -> string.                 (* hashlib.sha1(b).digest() *)

  Definition ARTIFACT_TYPECODE : string := String (ascii_of_nat 0) (String (ascii_of_nat 4) EmptyString).

  Definition hexlow (n : nat) : ascii := ascii_of_nat (if (n <? 10)%nat then 48 + n else 87 + n).

  Fixpoint hex_go (fuel n : nat) (acc : string) : string :=
    match fuel with
    | 0 => acc
    | S f => let acc' := String (hexlow (n mod 16)) acc in
             if (n / 16 =? 0)%nat then acc' else hex_go f (n / 16) acc'
    end.
  Definition hex_of_nat (n : nat) : string := hex_go (S n) n EmptyString.       (* format(n, "x") *)

  Definition fmt02x (n : nat) : string :=                                       (* f"{n:02x}" *)
    let h := hex_of_nat n in
    if (String.length h <? 2)%nat then String "0"%char h else h.

  Definition create_artifact (entity_id handle : string) (idx : nat) : string :=
    encode (ARTIFACT_TYPECODE ++ fmt02x idx ++ sha1 entity_id ++ handle).

  Definition decimal (n : nat) : string := NilEmpty.string_of_uint (Nat.to_uint n).   (* str(n) *)

  (* bytes whitespace accepted around the digits by int() *)
  Definition is_bspace (c : ascii) : bool :=
    let n := code c in (((9 <=? n) && (n <=? 13)) || (n =? 32))%nat.

  (* str(int(b, 16)) for a slice b of at most two bytes; None = ValueError *)
  Definition int16_str (b : string) : option string :=
    match rstrip_chars is_bspace (lstrip_chars is_bspace b) with
    | String d EmptyString =>
        match hexval d with Some x => Some (decimal x) | None => None end
    | String s (String d EmptyString) =>
        match hexval d with
        | None => None
        | Some y =>
            if Ascii.eqb s "+"%char then Some (decimal y)
            else if Ascii.eqb s "-"%char then Some (if (y =? 0)%nat then "0" else String "-"%char (decimal y))
            else match hexval s with Some x => Some (decimal (16 * x + y)) | None => None end
        end
    | _ => None
    end.

  (* metadata as artifact2destination sees it *)
  Definition service := (string * string)%type.                      (* (index, location) *)
  Definition descriptor := option (list service).                    (* None: no "artifact_resolution_service" key *)
  Definition entity := option (list descriptor).                     (* None: no "<descriptor>_descriptor" key *)
  Definition sourcemap := list (string * entity).                    (* self.sourceid *)

  Fixpoint assoc {A} (k : string) (l : list (string * A)) : option A :=
    match l with
    | [] => None
    | (k', v) :: r => if String.eqb k k' then Some v else assoc k r
    end.

  Inductive ares := AOk (dest : option string) | AErr.

  (* int(b, 16) for a slice b of at most two bytes, as a number; None = ValueError
     (int16_str above is str() of it: C14/Source2.v, int16_str_z) *)
  Definition int16_z (b : string) : option Z :=
    match rstrip_chars is_bspace (lstrip_chars is_bspace b) with
    | String d EmptyString => option_map Z.of_nat (hexval d)
    | String s (String d EmptyString) =>
        match hexval d with
        | None => None
        | Some y =>
            if Ascii.eqb s "+"%char then Some (Z.of_nat y)
            else if Ascii.eqb s "-"%char then Some (- Z.of_nat y)%Z
            else match hexval s with Some x => Some (Z.of_nat (16 * x + y)) | None => None end
        end
    | _ => None
    end.

  (* _index.isascii() and _index.isdigit() and int(_index): the value of a non-empty string of ASCII decimal
     digits (leading zeros allowed); None: isascii() or isdigit() is False *)
  Definition is_dec_digit (c : ascii) : bool := let n := code c in ((48 <=? n) && (n <=? 57))%nat.
  Fixpoint dec_go (acc : nat) (s : string) : option nat :=
    match s with
    | EmptyString => Some acc
    | String c r => if is_dec_digit c then dec_go (10 * acc + (code c - 48)) r else None
    end.
  Definition dec_value (s : string) : option nat := if is_empty s then None else dec_go 0 s.

  (* _index.isascii() and _index.isdigit() and int(_index) == endpoint_index *)
  Definition idx_matches (z : Z) (s : string) : bool :=
    match dec_value s with Some v => Z.eqb (Z.of_nat v) z | None => false end.

  (* for srv in desc["artifact_resolution_service"]: if <matches>: destination = srv["location"]; break *)
  Fixpoint find_svc (z : Z) (svcs : list service) : option string :=
    match svcs with
    | [] => None
    | sv :: r => if idx_matches z (fst sv) then Some (snd sv) else find_svc z r
    end.

  Definition scan_desc (z : Z) (acc : ares) (d : descriptor) : ares :=
    match acc, d with
    | AErr, _ => AErr
    | _, None => AErr
    | AOk dest, Some svcs =>
        AOk (match find_svc z svcs with Some l => Some l | None => dest end)
    end.

  Definition artifact2destination (sm : sourcemap) (art : string) : ares :=
    match decode_str art with
    | None => AErr
    | Some a =>
        if negb (String.eqb (take 2 a) ARTIFACT_TYPECODE) then AErr
        else match int16_z (slice 2 4 a) with
             | None => AErr
             | Some z =>
                 match assoc (slice 4 24 a) sm with
                 | None => AErr                                       (* KeyError: unknown source id *)
                 | Some None => AErr
                 | Some (Some descs) => fold_left (scan_desc z) descs (AOk None)
                 end
             end
    end.

  (* before fbf0c2eb: endpoint_index = str(int(_art[2:4], 16)); if srv["index"] == endpoint_index *)
  Definition scan_desc_v0 (idx : string) (acc : ares) (d : descriptor) : ares :=
    match acc, d with
    | AErr, _ => AErr
    | _, None => AErr
    | AOk dest, Some svcs =>
        AOk (match assoc idx svcs with Some l => Some l | None => dest end)
    end.

  Definition artifact2destination_v0 (sm : sourcemap) (art : string) : ares :=
    match decode_str art with
    | None => AErr
    | Some a =>
        if negb (String.eqb (take 2 a) ARTIFACT_TYPECODE) then AErr
        else match int16_str (slice 2 4 a) with
             | None => AErr
             | Some idx =>
                 match assoc (slice 4 24 a) sm with
                 | None => AErr
                 | Some None => AErr
                 | Some (Some descs) => fold_left (scan_desc_v0 idx) descs (AOk None)
                 end
             end
    end.

  (* ---------------------------------------------------------------- the resolver's metadata: from the documents
     to self.sourceid (mdstore.InMemoryMetaData.parse / construct_source_id, MetadataStore.construct_source_id,
     Entity.__init__ / Entity.reload_metadata) *)

  (* What the metadata documents say (input): per entity the <md:SPSSODescriptor> and <md:IDPSSODescriptor>
     elements in document order, each with its <md:ArtifactResolutionService> elements (index attribute as
     spelled in the document, Location). *)
  Inductive role := RSp | RIdp.                                       (* descriptor argument: "spsso" / "idpsso" *)
  Record fent := { fe_eid : string; fe_sp : list (list service); fe_idp : list (list service) }.
  Definition source := list fent.                                     (* one metadata document, entities in document order *)
  Definition federation := list source.                               (* the configured sources, in configuration order *)

  Definition role_descs (r : role) (e : fent) : list (list service) :=
    match r with RSp => fe_sp e | RIdp => fe_idp e end.

  (* mdie._eval: every str attribute is strip()ped, empty lists / absent elements leave no key *)
  Definition strip_ws (s : string) : string := rstrip_chars is_bspace (lstrip_chars is_bspace s).
  Definition parse_desc (svcs : list service) : descriptor :=
    match svcs with
    | [] => None
    | _ => Some (map (fun sv => (strip_ws (fst sv), snd sv)) svcs)
    end.
  Definition parse_role (descs : list (list service)) : entity :=
    match descs with [] => None | _ => Some (map parse_desc descs) end.

  Definition mview := (entity * entity)%type.                          (* ent["spsso_descriptor"], ent["idpsso_descriptor"] *)
  Definition parse_ent (e : fent) : mview := (parse_role (fe_sp e), parse_role (fe_idp e)).
  Definition view_role (r : role) (v : mview) : entity := match r with RSp => fst v | RIdp => snd v end.

  (* d[k] = v on an insertion-ordered dict *)
  Fixpoint upd {A} (k : string) (v : A) (l : list (string * A)) : list (string * A) :=
    match l with
    | [] => [(k, v)]
    | (k', v') :: r => if String.eqb k k' then (k, v) :: r else (k', v') :: upd k v r
    end.

  (* InMemoryMetaData.entity after parse(): do_entity_descriptor ignores an entityID it has seen before
     ("Duplicated Entity descriptor"), otherwise self.entity[entity_descr.entity_id] = _ent, in document order *)
  Definition ins_new {A} (k : string) (v : A) (l : list (string * A)) : list (string * A) :=
    match assoc k l with Some _ => l | None => l ++ [(k, v)] end.
  Definition source_entities (src : source) : list (string * mview) :=
    fold_left (fun acc e => ins_new (fe_eid e) (parse_ent e) acc) src [].

  Definition has_ars (en : entity) : bool :=
    match en with
    | Some ds => existsb (fun d => match d with Some _ => true | None => false end) ds
    | None => false                                                   (* KeyError: pass *)
    end.

  (* InMemoryMetaData.construct_source_id: for eid, ent in self.items(): ... res[sha1(eid).digest()] = ent *)
  Definition fsourcemap := list (string * mview).
  Definition construct_source_id (src : source) : fsourcemap :=
    fold_left (fun res kv => if has_ars (fst (snd kv)) || has_ars (snd (snd kv))
                             then upd (sha1 (fst kv)) (snd kv) res else res)
              (source_entities src) [].

  (* MetadataStore.construct_source_id: for _md in self.metadata.values(): res.update(_md.construct_source_id()) *)
  Definition dict_update {A} (res new : list (string * A)) : list (string * A) :=
    fold_left (fun r kv => upd (fst kv) (snd kv) r) new res.
  Definition store_source_id (fed : federation) : fsourcemap :=
    fold_left (fun res src => dict_update res (construct_source_id src)) fed [].

  (* entity[f"{descriptor}_descriptor"] of artifact2destination *)
  Definition project (r : role) (m : fsourcemap) : sourcemap :=
    map (fun kv => (fst kv, view_role r (snd kv))) m.

  (* Entity(config with these sources).artifact2destination(art, descriptor), also after reload_metadata *)
  Definition resolve_in (fed : federation) (r : role) (art : string) : ares :=
    artifact2destination (project r (store_source_id fed)) art.
  Definition resolve_in_v0 (fed : federation) (r : role) (art : string) : ares :=
    artifact2destination_v0 (project r (store_source_id fed)) art.

  (* sequences on a long-lived resolver: (re)loads of metadata and resolutions *)
  Inductive fop :=
  | OLoad (fed : federation)                                   (* Entity(config) or Entity.reload_metadata(conf) *)
  | OResolve (eid handle : string) (idx : nat) (r : role).     (* create_artifact ... artifact2destination *)

  (* the results of the OResolve operations, in order: self.sourceid is rebuilt by every load *)
  Fixpoint run_fed (cur : federation) (ops : list fop) : list ares :=
    match ops with
    | [] => []
    | OLoad fed :: r => run_fed fed r
    | OResolve eid h idx ro :: r => resolve_in cur ro (create_artifact eid h idx) :: run_fed cur r
    end.

  (* ---- where the documents come from (strengthening round 6).  MetadataStore.metadata is a dict
     source name -> loaded source: load() / imp() do self.metadata[key] = _md, where key is the file name, the URL,
     the loader, a counter (old-style "inline") or the text of the document (InMemoryMetaData in a "class" list);
     reload() starts again from {}.  A metadata configuration = the named sources in configuration order. *)
  Definition mdconfig := list (string * source).
  Definition store_load (cfg : mdconfig) : federation :=
    map snd (fold_left (fun d kv => upd (fst kv) (snd kv) d) cfg []).

  (* several long-lived resolvers in one process; every operation names its resolver.  MLoad = a new Entity on a
     configuration with these sources (first load of a resolver, or a new object that takes the resolver's place),
     Entity.reload_metadata, or MetadataStore.reload followed by a new Entity on the same Config object *)
  Inductive mop :=
  | MLoad (rcv : nat) (cfg : mdconfig)
  | MResolve (rcv : nat) (eid handle : string) (idx : nat) (r : role).

  Definition fed_of {A} (st : list (nat * list A)) (rcv : nat) : list A :=
    match List.find (fun p => Nat.eqb (fst p) rcv) st with Some p => snd p | None => [] end.

  Fixpoint run_multi (st : list (nat * federation)) (ops : list mop) : list ares :=
    match ops with
    | [] => []
    | MLoad rcv cfg :: r => run_multi ((rcv, store_load cfg) :: st) r
    | MResolve rcv eid h idx ro :: r => resolve_in (fed_of st rcv) ro (create_artifact eid h idx) :: run_multi st r
    end.

End Codec.
