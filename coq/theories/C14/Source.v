(* C14/Source.v — the hand-written model of pack.add_query equals the function that the translator
   (harness/py2coq.py) produced from the CURRENT source text (coq/gen/C14Src.v, regenerated on every
   run), for every destination and every query string. *)
From Coq Require Import String Ascii List Bool.
From Verif Require Import Base.Str Base.Py Base.Query C14.Model.
From VerifGen Require Import C14Src.
Import ListNotations.
Open Scope string_scope.

Lemma partition_on_spec sep s :
  partition_on sep s = (before sep s, if has sep s then String sep EmptyString else EmptyString, after sep s).
Proof.
  induction s as [|c r IH]; cbn [partition_on before after has any_char]; [reflexivity|].
  rewrite (Ascii.eqb_sym sep c). destruct (Ascii.eqb c sep) eqn:E; cbn [orb]; [reflexivity|].
  rewrite IH. unfold has. reflexivity.
Qed.

Lemma endswith_char c s : endswith s (String c EmptyString) = last_is c s.
Proof.
  induction s as [|d r IH]; [reflexivity|].
  cbn [endswith]. rewrite IH. destruct r as [|e r'].
  - cbn. destruct (Ascii.eqb d c); reflexivity.
  - cbn [String.eqb last_is]. destruct (Ascii.eqb d c); cbn; reflexivity.
Qed.

Lemma after_absent c s : has c s = false -> after c s = EmptyString.
Proof.
  unfold has. induction s as [|d r IH]; cbn [any_char after]; [reflexivity|].
  rewrite (Ascii.eqb_sym c d). destruct (Ascii.eqb d c); cbn [orb]; [discriminate|exact IH].
Qed.

Lemma app_nil_str s : (s ++ "")%string = s.
Proof. induction s as [|c r IH]; cbn; [reflexivity|rewrite IH; reflexivity]. Qed.

Theorem src_add_query_is_model : forall loc q,
  src_add_query (PStr loc) (PStr q) = PStr (add_query loc q).
Proof.
  intros loc q. unfold src_add_query, add_query, glue_of, hash_tail.
  unfold py_partition. rewrite (partition_on_spec "#" loc). cbv beta iota.
  rewrite (partition_on_spec "?" (before "#" loc)). cbv beta iota.
  change "#"%char with c_hash. change "?"%char with c_qm.
  set (base := before c_hash loc).
  destruct (has c_qm base) eqn:Hq; cbn [py_not py_truthy is_empty negb].
  - (* base has a '?' *)
    unfold py_or, py_endswith. cbn [py_not py_truthy].
    rewrite endswith_char. change "&"%char with c_and.
    destruct (is_empty (after c_qm base)) eqn:He; cbn [negb orb py_truthy].
    + cbn [py_fconcat]. destruct (has c_hash loc) eqn:Hh; [|rewrite (after_absent _ _ Hh)];
        cbn [append]; rewrite ?app_nil_str; reflexivity.
    + destruct (last_is c_and (after c_qm base)); cbn [py_truthy py_fconcat];
        (destruct (has c_hash loc) eqn:Hh; [|rewrite (after_absent _ _ Hh)]);
        cbn [append]; rewrite ?app_nil_str; reflexivity.
  - cbn [py_fconcat]. destruct (has c_hash loc) eqn:Hh; [|rewrite (after_absent _ _ Hh)];
      cbn [append]; rewrite ?app_nil_str; reflexivity.
Qed.
