(* C14/Source2.v — tie to the source TEXT, translator v2 (harness/py2coq2.py, Base/Py2.v).
   coq/gen/C14Src2.v is regenerated on every run from the CURRENT text of pack.py, httpbase.py, s_utils.py and
   entity.py.  For each translated function: a theorem, for ALL inputs of the model's domain, that the
   translated function applied to the encoded input is the encoded output of the hand-written model
   (C14/Model.v).  External calls (html.escape, base64, zlib, urlencode, str.encode / bytes.decode, the soap
   module, int(b, 16)) are Section variables with hypotheses; every Section ends with an Example showing the
   hypotheses satisfiable. *)
From Coq Require Import String Ascii List Bool ZArith Arith Lia DecimalString.
From Verif Require Import Base.Str Base.Py Base.Py2 Base.Percent Base.Base64 Base.Html Base.Query C14.Model C14.Spec C14.Proofs C14.FedProofs C14.Source.
From VerifGen Require Import C14Src2.
Import ListNotations.
Open Scope string_scope.

(* ------------------------------------------------------------------ strings *)
Lemma substring_all s : forall m, String.length s <= m -> substring 0 m s = s.
Proof.
  induction s as [|c r IH]; intros m H.
  - destruct m; reflexivity.
  - destruct m as [|m]; [cbn in H; lia|]. cbn [substring]. rewrite IH by (cbn in H; lia). reflexivity.
Qed.

(* s.partition(c): what find_sub / substring compute is before / after *)
Lemma find_sub_char c s :
  match find_sub (String c EmptyString) s with
  | Some i => substring 0 i s = before c s /\ has c s = true
              /\ forall m, String.length s <= m -> substring (i + 1) m s = after c s
  | None => has c s = false
  end.
Proof.
  induction s as [|d r IH].
  - reflexivity.
  - cbn [find_sub]. rewrite prefix_char. unfold has. cbn [any_char before after]. rewrite (Ascii.eqb_sym c d).
    destruct (Ascii.eqb d c) eqn:E; cbn [orb].
    + split; [reflexivity|]. split; [reflexivity|]. intros m H. cbn [Nat.add substring].
      destruct m as [|m]; [cbn in H; lia|]. cbn [substring]. apply substring_all. cbn in H. lia.
    + fold (has c r). destruct (find_sub (String c EmptyString) r) as [i|]; cbn [option_map].
      * destruct IH as (H1 & H2 & H3). split; [cbn [substring]; rewrite H1; reflexivity|]. split; [exact H2|].
        intros m H. destruct m as [|m]; [cbn in H; lia|]. cbn [Nat.add substring]. apply H3. cbn in H. lia.
      * exact IH.
Qed.

Lemma p2_partition_char c s :
  p2_partition (PStr s) (PStr (String c EmptyString))
  = PList [PStr (before c s); PStr (if has c s then String c EmptyString else EmptyString); PStr (after c s)].
Proof.
  unfold p2_partition. rewrite s2_good by reflexivity. pose proof (find_sub_char c s) as H.
  destruct (find_sub (String c EmptyString) s) as [i|].
  - destruct H as (H1 & H2 & H3). rewrite H1, H2. cbn [String.length]. rewrite H3 by lia. reflexivity.
  - rewrite H, (before_nosep _ _ H), (after_nosep _ _ H). reflexivity.
Qed.

Lemma p2_in_char c s : p2_in (PStr (String c EmptyString)) (PStr s) = PBool (has c s).
Proof.
  unfold p2_in. rewrite s2_good by reflexivity. pose proof (find_sub_char c s) as H.
  destruct (find_sub (String c EmptyString) s); [destruct H as (_ & -> & _)|rewrite H]; reflexivity.
Qed.

(* ================================================================== pack.add_query *)
Theorem src2_add_query_is_model : forall loc q,
  src2_add_query (PStr loc) (PStr q) = PStr (add_query loc q).
Proof.
  intros loc q. unfold src2_add_query, add_query, glue_of, hash_tail. cbv beta zeta.
  change "#" with (String c_hash EmptyString). change "?" with (String c_qm EmptyString).
  rewrite p2_partition_char. cbn [py_bind p2_unpack length Nat.eqb].
  rewrite p2_partition_char. cbn [py_bind p2_unpack length Nat.eqb].
  set (base := before c_hash loc).
  destruct (has c_qm base) eqn:Hq; cbn [p2_not s1 py_bind py_truthy is_empty negb p2_branch].
  - unfold p2_endswith. rewrite s2_good by reflexivity. cbn [affix_raw]. rewrite endswith_char.
    change "&"%char with c_and.
    destruct (is_empty (after c_qm base)) eqn:He; cbn [negb p2_or py_truthy orb p2_branch].
    + cbn [p2_str s1 py_bind p2_fconcat]. destruct (has c_hash loc) eqn:Hh; [|rewrite (after_absent _ _ Hh)];
        cbn [append]; rewrite ?app_nil_str; reflexivity.
    + destruct (last_is c_and (after c_qm base)); cbn [py_truthy p2_branch p2_str s1 py_bind p2_fconcat];
        (destruct (has c_hash loc) eqn:Hh; [|rewrite (after_absent _ _ Hh)]);
        cbn [append]; rewrite ?app_nil_str; reflexivity.
  - cbn [p2_str s1 py_bind p2_fconcat]. destruct (has c_hash loc) eqn:Hh; [|rewrite (after_absent _ _ Hh)];
      cbn [append]; rewrite ?app_nil_str; reflexivity.
Qed.

(* ================================================================== pack._html_escape, pack.http_form_post_message *)
Definition enc_post (r : option string) : pyval :=
  match r with
  | Some form => PObj [("headers", PList [PList [PStr "Content-type"; PStr "text/html"]]); ("data", PStr form);
                       ("status", PInt 200)]
  | None => PExc "UnicodeDecodeError"
  end.

Section Form.
  Variable html_escape : pyval -> pyval -> pyval.      (* html.escape(s, quote=...) *)
  Variable b64encode : pyval -> pyval.                 (* base64.b64encode *)
  Variable str_encode bytes_decode : pyval -> pyval -> pyval.   (* str.encode(codec), bytes.decode(codec) *)
  Hypothesis html_escape_spec : forall s, html_escape (PStr s) (PBool true) = PStr (escape s).
  Hypothesis b64encode_spec : forall s, b64encode (PStr s) = PStr (encode s).
  (* str = the Coq string of its UTF-8 bytes: encoding to UTF-8 does not change the representation *)
  Hypothesis str_encode_spec : forall s, str_encode (PStr s) (PStr "utf-8") = PStr s.
  Hypothesis bytes_decode_spec : forall s,
    bytes_decode (PStr s) (PStr "ascii") = if all_chars is_ascii_char s then PStr s else PExc "UnicodeDecodeError".

  Theorem src2_html_escape_is_model : forall s, src2_html_escape html_escape (PStr s) = PStr (escape s).
  Proof. intros s. unfold src2_html_escape. cbv beta zeta. cbn [py_bind]. rewrite html_escape_spec. reflexivity. Qed.

  Theorem src2_http_form_post_message_is_model : forall msg loc rs typ kw,
    src2_http_form_post_message html_escape b64encode str_encode bytes_decode
      (PStr msg) (PStr loc) (PStr rs) (PStr typ) kw
    = enc_post (http_form_post_message msg loc rs typ).
  Proof.
    intros msg loc rs typ kw. unfold src2_http_form_post_message. cbv beta zeta.
    cbn [p2_isinstance s1 py_bind kind_of existsb mem String.eqb Ascii.eqb Bool.eqb orb p2_not py_truthy negb p2_branch].
    rewrite str_encode_spec. cbn [py_bind]. rewrite !p2_eq_str.
    unfold http_form_post_message, post_payload, is_saml_typ, form_of, input_element.
    (* after _msg.decode("ascii") succeeded: the two input elements and the form *)
    Ltac form_tail H :=
      cbn [py_bind]; rewrite !H; cbn [py_bind p2_str s1 p2_fconcat];
      match goal with |- context [is_empty ?rs] => destruct (is_empty rs) end; cbn [negb];
      rewrite ?H; cbn [py_bind p2_str s1 p2_fconcat];
      unfold p2_mkdict, p2_mklist; cbn [map snd first_bad enc_post]; reflexivity.
    assert (Hb64 : all_chars is_ascii_char (encode msg) = true)
      by exact (all_chars_impl b64_alphabet is_ascii_char _ b64_alphabet_ascii (encode_alphabet msg)).
    destruct (String.eqb typ "SAMLRequest") eqn:E1; cbn [p2_or py_truthy orb p2_branch].
    - rewrite b64encode_spec. cbn [py_bind]. rewrite bytes_decode_spec, Hb64. form_tail src2_html_escape_is_model.
    - destruct (String.eqb typ "SAMLResponse") eqn:E2; cbn [py_truthy p2_branch].
      + rewrite b64encode_spec. cbn [py_bind]. rewrite bytes_decode_spec, Hb64. form_tail src2_html_escape_is_model.
      + cbn [py_bind]. rewrite bytes_decode_spec. destruct (all_chars is_ascii_char msg).
        * form_tail src2_html_escape_is_model.
        * reflexivity.
  Qed.
End Form.

Example form_hypotheses_satisfiable :
  exists html_escape b64encode str_encode bytes_decode,
    (forall s, html_escape (PStr s) (PBool true) = PStr (escape s)) /\
    (forall s, b64encode (PStr s) = PStr (encode s)) /\
    (forall s, str_encode (PStr s) (PStr "utf-8") = PStr s) /\
    (forall s, bytes_decode (PStr s) (PStr "ascii")
               = if all_chars is_ascii_char s then PStr s else PExc "UnicodeDecodeError").
Proof.
  exists (fun v _ => match v with PStr s => PStr (escape s) | _ => PErr end),
         (fun v => match v with PStr s => PStr (encode s) | _ => PErr end),
         (fun v _ => v),
         (fun v _ => match v with PStr s => if all_chars is_ascii_char s then PStr s else PExc "UnicodeDecodeError" | _ => PErr end).
  repeat split; reflexivity.
Qed.

(* ================================================================== s_utils.decode_base64_and_inflate, Entity.unravel *)
Notation B_REDIRECT := "urn:oasis:names:tc:SAML:2.0:bindings:HTTP-Redirect" (only parsing).
Notation B_POST := "urn:oasis:names:tc:SAML:2.0:bindings:HTTP-POST" (only parsing).
Notation B_SOAP := "urn:oasis:names:tc:SAML:2.0:bindings:SOAP" (only parsing).
Notation B_URI := "urn:oasis:names:tc:SAML:2.0:bindings:URI" (only parsing).
Notation B_ARTIFACT := "urn:oasis:names:tc:SAML:2.0:bindings:HTTP-Artifact" (only parsing).

(* the binding argument: None or any str *)
Definition enc_binding (b : option string) : pyval := match b with Some s => PStr s | None => PNone end.
Definition binding_of (b : option string) : binding :=
  match b with
  | None => BNoBinding
  | Some s => if String.eqb s B_REDIRECT then BRedirect else if String.eqb s B_POST then BPost
              else if String.eqb s B_SOAP then BSoap else if String.eqb s B_URI then BUri
              else if String.eqb s B_ARTIFACT then BArtifact else BOther
  end.
Definition enc_ures (r : ures) : pyval :=
  match r with UOk m => PStr m | UUnravelError => PExc "UnravelError" | UUnknownBinding => PExc "UnknownBinding" end.

Lemma list_has_strs s l tl :
  list_has (PStr s) (map PStr l ++ tl)%list
  = if existsb (String.eqb s) l then Some true else list_has (PStr s) tl.
Proof.
  induction l as [|x r IH]; [reflexivity|]. cbn [map app list_has existsb].
  change (pv_eq (PStr s) (PStr x)) with (Some (String.eqb s x)). destruct (String.eqb s x); [reflexivity|exact IH].
Qed.

Lemma p2_not_in_strs s l :
  p2_not_in (PStr s) (p2_mklist (map PStr l ++ [PNone])%list) = PBool (negb (existsb (String.eqb s) l)).
Proof.
  rewrite p2_mklist_good.
  - unfold p2_not_in, p2_in. rewrite s2_good by reflexivity. rewrite list_has_strs.
    destruct (existsb (String.eqb s) l); reflexivity.
  - rewrite forallb_app. cbn [forallb is_bad negb andb]. rewrite andb_true_r.
    induction l as [|x r IH]; [reflexivity|exact IH].
Qed.

Section Unravel.
  Variable b64decode : pyval -> pyval.                   (* base64.b64decode *)
  Variable zlib_decompress : pyval -> pyval -> pyval.    (* zlib.decompress(data, wbits) *)
  Variable soap_mod : pyval.                             (* the module saml2.soap *)
  Variable call_fn : pyval -> pyval -> pyval.            (* application of a function value to one argument *)
  Variable inflate : string -> option string.
  Variable soap_parse : string -> option string.
  Variable msgtype : string.
  Variable soap_fn : pyval.                              (* soap.parse_soap_enveloped_saml_<msgtype> *)

  (* binascii.Error / ValueError: anything but zlib.error *)
  Hypothesis b64decode_ok : forall s d, decode_str s = Some d -> b64decode (PStr s) = PStr d.
  Hypothesis b64decode_fail : forall s, decode_str s = None -> exists n, b64decode (PStr s) = PExc n /\ n <> "error".
  Hypothesis zlib_spec : forall d,
    zlib_decompress (PStr d) (PInt (-15)) = match inflate d with Some m => PStr m | None => PExc "error" end.
  Hypothesis soap_attr :
    p2_getattr_dyn false soap_mod (PStr ("parse_soap_enveloped_saml_" ++ msgtype)) = soap_fn /\ is_bad soap_fn = false.
  Hypothesis soap_call_ok : forall txt m, soap_parse txt = Some m -> call_fn soap_fn (PStr txt) = PStr m.
  Hypothesis soap_call_fail : forall txt, soap_parse txt = None -> exists n, call_fn soap_fn (PStr txt) = PExc n.

  Definition dres_is (r : dres) (v : pyval) : Prop :=
    match r with
    | DOk m => v = PStr m
    | DZlibError => v = PExc "error"
    | DOtherError => exists n, v = PExc n /\ n <> "error"
    end.

  Theorem src2_decode_base64_and_inflate_is_model : forall txt,
    dres_is (decode_base64_and_inflate inflate txt)
            (src2_decode_base64_and_inflate b64decode zlib_decompress (PStr txt)).
  Proof.
    intros txt. unfold src2_decode_base64_and_inflate, decode_base64_and_inflate. cbn [py_bind].
    destruct (decode_str txt) as [d|] eqn:E.
    - rewrite (b64decode_ok _ _ E). cbn [py_bind]. rewrite zlib_spec. destruct (inflate d); reflexivity.
    - destruct (b64decode_fail _ E) as (n & -> & Hn). cbn [py_bind dres_is]. exists n. split; [reflexivity|exact Hn].
  Qed.

  Theorem src2_unravel_is_model : forall txt b,
    src2_unravel b64decode zlib_decompress soap_mod call_fn (PStr txt) (enc_binding b) (PStr msgtype)
    = enc_ures (unravel inflate soap_parse txt (binding_of b)).
  Proof.
    intros txt b. unfold src2_unravel. cbv beta zeta. destruct b as [s|]; cbn [enc_binding binding_of].
    - match goal with |- context [p2_not_in (PStr s) ?l] =>
        change (p2_not_in (PStr s) l)
          with (p2_not_in (PStr s) (p2_mklist (map PStr [B_REDIRECT; B_POST; B_SOAP; B_URI; B_ARTIFACT] ++ [PNone])%list)) end.
      rewrite p2_not_in_strs. cbn [existsb]. rewrite !p2_eq_str.
      pose proof (src2_decode_base64_and_inflate_is_model txt) as Hd.
      Ltac unravel_fail := cbn [py_bindh p2_bind p2_str s1 py_bind p2_fconcat enc_ures]; reflexivity.
      destruct (String.eqb s B_REDIRECT) eqn:E1; cbn [orb negb py_truthy p2_branch py_bind unravel].
      { destruct (decode_base64_and_inflate inflate txt) as [m| |]; cbn [dres_is] in Hd.
        - rewrite Hd. reflexivity.
        - rewrite Hd. unravel_fail.
        - destruct Hd as (n & -> & _). unravel_fail. }
      destruct (String.eqb s B_POST) eqn:E2; cbn [orb negb py_truthy p2_branch py_bind unravel].
      { unfold b64decode_u. destruct (decode_base64_and_inflate inflate txt) as [m| |]; cbn [dres_is] in Hd.
        - rewrite Hd. reflexivity.
        - rewrite Hd. cbn [py_bindh p2_bind exc_matches mem String.eqb Ascii.eqb Bool.eqb orb].
          destruct (decode_str txt) as [d|] eqn:E.
          + rewrite (b64decode_ok _ _ E). reflexivity.
          + destruct (b64decode_fail _ E) as (n & -> & _). unravel_fail.
        - destruct Hd as (n & -> & Hn). cbn [py_bindh p2_bind exc_matches mem].
          apply String.eqb_neq in Hn. rewrite Hn. unravel_fail. }
      destruct (String.eqb s B_SOAP) eqn:E3; cbn [orb negb py_truthy p2_branch py_bind unravel].
      { cbn [p2_fconcat p2_str s1 py_bind]. rewrite app_nil_str. destruct soap_attr as [Ha Hg]. rewrite Ha.
        rewrite py_bindh_good by exact Hg. destruct (soap_parse txt) as [m|] eqn:E.
        - rewrite (soap_call_ok _ _ E). reflexivity.
        - destruct (soap_call_fail _ E) as (n & ->). unravel_fail. }
      destruct (String.eqb s B_URI) eqn:E4; destruct (String.eqb s B_ARTIFACT) eqn:E5;
        cbn [orb negb py_truthy p2_branch py_bind unravel].
      + apply String.eqb_eq in E4, E5. subst s. discriminate E5.
      + reflexivity.
      + unfold b64decode_u. destruct (decode_str txt) as [d|] eqn:E.
        * rewrite (b64decode_ok _ _ E). reflexivity.
        * destruct (b64decode_fail _ E) as (n & -> & _). unravel_fail.
      + cbn [p2_str s1 py_bind p2_fconcat]. reflexivity.
    - match goal with |- context [p2_not_in PNone ?l] => change (p2_not_in PNone l) with (PBool false) end.
      rewrite !p2_eq_none_str. cbn [py_truthy p2_branch py_bind py_bindh p2_bind unravel]. reflexivity.
  Qed.
End Unravel.

Example unravel_hypotheses_satisfiable :
  forall (inflate soap_parse : string -> option string) (msgtype : string),
  exists b64decode zlib_decompress soap_mod call_fn soap_fn,
    (forall s d, decode_str s = Some d -> b64decode (PStr s) = PStr d) /\
    (forall s, decode_str s = None -> exists n, b64decode (PStr s) = PExc n /\ n <> "error") /\
    (forall d, zlib_decompress (PStr d) (PInt (-15)) = match inflate d with Some m => PStr m | None => PExc "error" end) /\
    (p2_getattr_dyn false soap_mod (PStr ("parse_soap_enveloped_saml_" ++ msgtype)) = soap_fn /\ is_bad soap_fn = false) /\
    (forall txt m, soap_parse txt = Some m -> call_fn soap_fn (PStr txt) = PStr m) /\
    (forall txt, soap_parse txt = None -> exists n, call_fn soap_fn (PStr txt) = PExc n).
Proof.
  intros inflate soap_parse msgtype.
  exists (fun v => match v with PStr s => match decode_str s with Some d => PStr d | None => PExc "Error" end | _ => PErr end),
         (fun v _ => match v with PStr d => match inflate d with Some m => PStr m | None => PExc "error" end | _ => PErr end),
         (PObj [("__class__", PStr "module"); ("parse_soap_enveloped_saml_" ++ msgtype, PStr "<function>")]),
         (fun _ v => match v with PStr t => match soap_parse t with Some m => PStr m | None => PExc "Exception" end | _ => PErr end),
         (PStr "<function>").
  repeat split.
  - intros s d E. rewrite E. reflexivity.
  - intros s E. rewrite E. exists "Error". split; [reflexivity|discriminate].
  - unfold p2_getattr_dyn. rewrite s2_good by reflexivity. cbn [dyn_name_ok String.prefix append negb].
    cbn [p2_attr_gen s1 py_bind is_obj String.eqb Ascii.eqb Bool.eqb assoc_py]. rewrite String.eqb_refl. reflexivity.
  - intros txt m E. rewrite E. reflexivity.
  - intros txt E. rewrite E. exists "Exception". reflexivity.
Qed.

(* ================================================================== URLs: http_redirect_message, use_http_artifact, use_http_uri *)
Definition enc_args (l : list (string * string)) : pyval := PObj (map (fun kv => (fst kv, PStr (snd kv))) l).
Definition enc_url_info (url : string) : pyval := PObj [("data", PStr ""); ("url", PStr url)].
Definition enc_redirect (r : option string) : pyval :=
  match r with
  | Some url => PObj [("headers", PList [PList [PStr "Location"; PStr url]]); ("data", PList []); ("status", PInt 303)]
  | None => PExc "Exception"
  end.

Definition c_nl : ascii := ascii_of_N 10.
(* the message of use_http_uri: `data` is computed from it on every path (split("\n")[1], or strip() whose
   Unicode-whitespace corner the embedding refuses) *)
Definition uri_msg_ok (m : string) : bool := has c_nl m || end_ascii (strip m).

Lemma p2_in_strs s l : p2_in (PStr s) (p2_mklist (map PStr l)) = PBool (existsb (String.eqb s) l).
Proof.
  rewrite p2_mklist_good by (induction l as [|x r IH]; [reflexivity|exact IH]).
  unfold p2_in. rewrite s2_good by reflexivity. rewrite <- (app_nil_r (map PStr l)), list_has_strs.
  destruct (existsb (String.eqb s) l); reflexivity.
Qed.

Lemma split_on_has c s : has c s = true -> exists a b r, split_on c s = a :: b :: r.
Proof.
  unfold has. induction s as [|d t IH]; cbn [any_char split_on]; [discriminate|].
  rewrite (Ascii.eqb_sym c d). destruct (Ascii.eqb d c); cbn [orb].
  - intros _. pose proof (split_on_nonempty c t) as Hne. destruct (split_on c t) as [|b r]; [contradiction|].
    exists EmptyString, b, r. reflexivity.
  - intros H. destruct (IH H) as (a & b & r & ->). exists (String d a), b, r. reflexivity.
Qed.

Lemma p2_getitem_second a b r : p2_getitem (PList (a :: b :: r)) (PInt 1) = b.
Proof.
  unfold p2_getitem. rewrite s2_good by reflexivity. cbn [as_z]. unfold nth_index.
  change (1 <? 0)%Z with false. cbv iota.
  assert (H : (1 <? Z.of_nat (length (a :: b :: r)))%Z = true) by (apply Z.ltb_lt; cbn [length]; lia).
  rewrite H. reflexivity.
Qed.

Section Urls.
  Variable py_urlencode : pyval -> pyval.       (* urllib.parse.urlencode on a dict of str *)
  Variable deflate_b64 : pyval -> pyval.        (* s_utils.deflate_and_base64_encode *)
  Variable deflate : string -> string.
  Hypothesis urlencode_spec : forall l, py_urlencode (enc_args l) = PStr (urlencode l).
  Hypothesis deflate_spec : forall m, deflate_b64 (PStr m) = PStr (deflate_and_base64_encode deflate m).

  Theorem src2_use_http_artifact_is_model : forall art dest rs,
    src2_use_http_artifact py_urlencode (PStr art) (PStr dest) (PStr rs) = enc_url_info (use_http_artifact art dest rs).
  Proof.
    intros art dest rs. unfold src2_use_http_artifact, use_http_artifact, relay_arg. cbv beta zeta.
    cbn [p2_branch py_truthy]. destruct (is_empty rs); cbn [negb].
    - cbn [p2_mkdict map snd first_bad py_bind].
      change (PObj [("SAMLart", PStr art)]) with (enc_args [("SAMLart", art)]). rewrite urlencode_spec. cbn [py_bind]. rewrite src2_add_query_is_model. reflexivity.
    - cbn [p2_mkdict map snd first_bad py_bind].
      change (PObj [("SAMLart", PStr art); ("RelayState", PStr rs)]) with (enc_args [("SAMLart", art); ("RelayState", rs)]).
      rewrite urlencode_spec. cbn [py_bind]. rewrite src2_add_query_is_model. reflexivity.
  Qed.

  Theorem src2_use_http_uri_is_model : forall ident dest rs, uri_msg_ok ident = true ->
    src2_use_http_uri py_urlencode (PStr ident) (PStr "SAMLRequest") (PStr dest) (PStr rs)
    = enc_url_info (use_http_uri ident dest rs).
  Proof.
    intros ident dest rs Hok. unfold src2_use_http_uri, use_http_uri, relay_arg. cbv beta zeta.
    change (sb [10%N]) with (String c_nl EmptyString). rewrite p2_in_char.
    assert (Hdata : exists d, (if has c_nl ident
                               then p2_getitem (p2_split (PStr ident) (PStr (String c_nl EmptyString))) (PInt 1)
                               else p2_strip (PStr ident)) = PStr d).
    { unfold uri_msg_ok in Hok. destruct (has c_nl ident) eqn:Hn.
      - destruct (split_on_has _ _ Hn) as (a & b & r & Hs). exists b.
        unfold p2_split. rewrite s2_good by reflexivity. rewrite split_str_char, Hs. cbn [map]. apply p2_getitem_second.
      - cbn [orb] in Hok. exists (strip ident). unfold p2_strip. rewrite s1_good by reflexivity.
        unfold guard_ends. rewrite Hok. reflexivity. }
    destruct Hdata as (d & Hdata). rewrite p2_branch_bool.
    destruct (has c_nl ident); rewrite Hdata; cbn [py_bind]; rewrite !p2_eq_str;
      cbn [String.eqb Ascii.eqb Bool.eqb p2_branch py_truthy]; destruct (is_empty rs); cbn [negb];
      cbn [p2_mkdict map snd first_bad py_bind].
    1, 3: change (PObj [("ID", PStr ident)]) with (enc_args [("ID", ident)]).
    3, 4: change (PObj [("ID", PStr ident); ("RelayState", PStr rs)]) with (enc_args [("ID", ident); ("RelayState", rs)]).
    all: rewrite urlencode_spec; cbn [py_bind]; rewrite src2_add_query_is_model; reflexivity.
  Qed.

  (* any other typ than the two the method knows *)
  Theorem src2_use_http_uri_other_typ : forall ident typ dest rs, uri_msg_ok ident = true ->
    String.eqb typ "SAMLResponse" = false -> String.eqb typ "SAMLRequest" = false ->
    src2_use_http_uri py_urlencode (PStr ident) (PStr typ) (PStr dest) (PStr rs) = PExc "NotImplementedError".
  Proof.
    intros ident typ dest rs Hok E1 E2. unfold src2_use_http_uri. cbv beta zeta.
    change (sb [10%N]) with (String c_nl EmptyString). rewrite p2_in_char.
    assert (Hdata : exists d, (if has c_nl ident
                               then p2_getitem (p2_split (PStr ident) (PStr (String c_nl EmptyString))) (PInt 1)
                               else p2_strip (PStr ident)) = PStr d).
    { unfold uri_msg_ok in Hok. destruct (has c_nl ident) eqn:Hn.
      - destruct (split_on_has _ _ Hn) as (a & b & r & Hs). exists b.
        unfold p2_split. rewrite s2_good by reflexivity. rewrite split_str_char, Hs. cbn [map]. apply p2_getitem_second.
      - cbn [orb] in Hok. exists (strip ident). unfold p2_strip. rewrite s1_good by reflexivity.
        unfold guard_ends. rewrite Hok. reflexivity. }
    destruct Hdata as (d & Hdata). rewrite p2_branch_bool.
    destruct (has c_nl ident); rewrite Hdata; cbn [py_bind]; rewrite !p2_eq_str, E1, E2; reflexivity.
  Qed.

  (* sign=None / False (signing is property C15): the Location header *)
  Theorem src2_http_redirect_message_is_model : forall msg loc rs typ sigalg sign backend sig_allowed_alg ext,
    is_bad sign = false -> py_truthy sign = false ->
    src2_http_redirect_message py_urlencode deflate_b64 sig_allowed_alg ext
      (PStr msg) (PStr loc) (PStr rs) (PStr typ) sigalg sign backend
    = enc_redirect (http_redirect_message deflate msg loc rs typ).
  Proof.
    intros msg loc rs typ sigalg sign backend saa ext Hs1 Hs2.
    unfold src2_http_redirect_message, http_redirect_message, redirect_args, is_saml_typ, relay_arg. cbv beta zeta.
    cbn [p2_isinstance s1 py_bind kind_of existsb mem String.eqb Ascii.eqb Bool.eqb orb p2_not py_truthy negb p2_branch].
    change (p2_mklist [PStr "SAMLRequest"; PStr "SAMLResponse"]) with (p2_mklist (map PStr ["SAMLRequest"; "SAMLResponse"])).
    rewrite p2_in_strs. cbn [existsb]. rewrite !p2_eq_str. rewrite (p2_branch_good sign Hs1), Hs2.
    Ltac redirect_tail us :=
      cbn [py_bind p2_setitem s3 is_obj dict_key_ok set_assoc String.eqb Ascii.eqb Bool.eqb negb];
      match goal with |- context [is_empty ?rs] => destruct (is_empty rs) end; cbn [negb];
      cbn [py_bind p2_setitem s3 is_obj dict_key_ok set_assoc String.eqb Ascii.eqb Bool.eqb negb];
      match goal with |- context [?f (PObj ?l)] =>
        match l with
        | [(?k, PStr ?v)] => change (PObj l) with (enc_args [(k, v)])
        | [(?k, PStr ?v); (?k2, PStr ?v2)] => change (PObj l) with (enc_args [(k, v); (k2, v2)])
        end end;
      rewrite us; cbn [py_bind]; rewrite src2_add_query_is_model; reflexivity.
    destruct (String.eqb typ "SAMLRequest") eqn:E1; cbn [orb p2_branch py_truthy].
    { apply String.eqb_eq in E1. subst typ. cbn [py_bind]. rewrite deflate_spec. redirect_tail urlencode_spec. }
    destruct (String.eqb typ "SAMLResponse") eqn:E2; cbn [orb p2_branch py_truthy].
    { apply String.eqb_eq in E2. subst typ. cbn [py_bind]. rewrite deflate_spec. redirect_tail urlencode_spec. }
    destruct (String.eqb typ "SAMLart") eqn:E3; cbn [orb p2_branch py_truthy].
    { apply String.eqb_eq in E3. subst typ. redirect_tail urlencode_spec. }
    cbn [p2_str s1 py_bind p2_fconcat]. reflexivity.
  Qed.
End Urls.

Example urls_hypotheses_satisfiable : forall deflate : string -> string,
  exists py_urlencode deflate_b64,
    (forall l, py_urlencode (enc_args l) = PStr (urlencode l)) /\
    (forall m, deflate_b64 (PStr m) = PStr (deflate_and_base64_encode deflate m)).
Proof.
  intros deflate.
  exists (fun v => match v with
                   | PObj f => PStr (urlencode (map (fun kv => (fst kv, match snd kv with PStr s => s | _ => EmptyString end)) f))
                   | _ => PErr end),
         (fun v => match v with PStr m => PStr (deflate_and_base64_encode deflate m) | _ => PErr end).
  split; [|reflexivity]. intros l. unfold enc_args. rewrite map_map. cbn [fst snd]. f_equal. f_equal.
  induction l as [|[k v] r IH]; [reflexivity|]. cbn [map fst snd]. rewrite IH. reflexivity.
Qed.

(* ================================================================== Entity.artifact2destination *)
(* ---- slices of an (ASCII) str *)
Lemma take_nil k : take k EmptyString = EmptyString.
Proof. destruct k; reflexivity. Qed.
Lemma drop_nil k : drop k EmptyString = EmptyString.
Proof. destruct k; reflexivity. Qed.

Lemma substring_take_drop s : forall a m, substring a m s = take m (drop a s).
Proof.
  induction s as [|c r IH]; intros a m.
  - rewrite drop_nil, take_nil. destruct a, m; reflexivity.
  - destruct a as [|a].
    + destruct m as [|m]; [reflexivity|]. cbn [substring drop take]. rewrite IH. destruct r; reflexivity.
    + cbn [substring drop]. apply IH.
Qed.

Lemma drop_length_ge s : forall k, String.length s <= k -> drop k s = EmptyString.
Proof.
  induction s as [|c r IH]; intros k H; [apply drop_nil|].
  destruct k as [|k]; [cbn in H; lia|]. cbn [drop]. apply IH. cbn in H. lia.
Qed.

Lemma take_length_ge s : forall k, String.length s <= k -> take k s = s.
Proof.
  induction s as [|c r IH]; intros k H; [apply take_nil|].
  destruct k as [|k]; [cbn in H; lia|]. cbn [take]. rewrite IH by (cbn in H; lia). reflexivity.
Qed.

Lemma length_drop s : forall k, String.length (drop k s) = String.length s - k.
Proof.
  induction s as [|c r IH]; intros k; [rewrite drop_nil; reflexivity|].
  destruct k as [|k]; [reflexivity|]. cbn [drop String.length Nat.sub]. apply IH.
Qed.

Lemma slice_clip s lo hi :
  substring (Nat.min (String.length s) lo) (Nat.min (String.length s) hi - Nat.min (String.length s) lo) s = slice lo hi s.
Proof.
  rewrite substring_take_drop. unfold slice. destruct (le_lt_dec (String.length s) lo) as [H|H].
  - rewrite (Nat.min_l _ lo) by exact H. rewrite !drop_length_ge by lia. rewrite !take_nil. reflexivity.
  - rewrite (Nat.min_r _ lo) by lia. destruct (le_lt_dec hi (String.length s)) as [H2|H2].
    + rewrite (Nat.min_r _ hi) by exact H2. reflexivity.
    + rewrite (Nat.min_l _ hi) by lia. rewrite !take_length_ge by (rewrite length_drop; lia). reflexivity.
Qed.

Lemma p2_slice_ascii s lo hi : Py2.all_ascii s = true -> (0 <= lo)%Z -> (0 <= hi)%Z ->
  p2_slice (PStr s) (PInt lo) (PInt hi) = PStr (slice (Z.to_nat lo) (Z.to_nat hi) s).
Proof.
  intros Ha Hlo Hhi. unfold p2_slice. rewrite s3_good by reflexivity. rewrite Ha. unfold slice_bound. cbn [as_z].
  apply Z.ltb_ge in Hlo as Hlo'. apply Z.ltb_ge in Hhi as Hhi'. rewrite Hlo', Hhi'.
  rewrite !Z.max_r by assumption. rewrite slice_clip. reflexivity.
Qed.

Lemma p2_slice_ascii_to s hi : Py2.all_ascii s = true -> (0 <= hi)%Z ->
  p2_slice (PStr s) PNone (PInt hi) = PStr (take (Z.to_nat hi) s).
Proof.
  intros Ha Hhi. unfold p2_slice. rewrite s3_good by reflexivity. rewrite Ha. unfold slice_bound. cbn [as_z].
  apply Z.ltb_ge in Hhi as Hhi'. rewrite Hhi'. rewrite Z.max_r by assumption.
  pose proof (slice_clip s 0 (Z.to_nat hi)) as H. rewrite Nat.min_0_r in H. rewrite H. unfold slice.
  rewrite Nat.sub_0_r. destruct s; reflexivity.
Qed.

Lemma length_slice_le a b s : String.length (slice a b s) <= b - a.
Proof.
  unfold slice. generalize (drop a s) as t, (b - a) as n. intros t n. revert t.
  induction n as [|n IH]; intros t; [destruct t; cbn; lia|]. destruct t as [|c r]; cbn [take String.length]; [lia|].
  specialize (IH r). lia.
Qed.

(* ---- int(b, 16) on at most two bytes: Model.int16_z is the int, Model.int16_str is str() of it *)
Lemma hexval_lt c x : hexval c = Some x -> x < 16.
Proof.
  assert (A : forall c, (match hexval c with Some x => (x <? 16)%nat | None => true end) = true).
  { apply (Percent.all_ascii (fun c => match hexval c with Some x => (x <? 16)%nat | None => true end)).
    vm_compute. reflexivity. }
  intros H. specialize (A c). rewrite H in A. apply Nat.ltb_lt. exact A.
Qed.

Lemma dec_small n : n < 256 -> dec_of_Z (Z.of_nat n) = decimal n.
Proof.
  intros H.
  assert (A : forallb (fun n => String.eqb (dec_of_Z (Z.of_nat n)) (decimal n)) (seq 0 256) = true) by (vm_compute; reflexivity).
  rewrite forallb_forall in A. apply String.eqb_eq, A, in_seq. lia.
Qed.

Lemma dec_neg_small y : y < 16 ->
  dec_of_Z (- Z.of_nat y) = if (y =? 0)%nat then "0" else String "-"%char (decimal y).
Proof.
  intros H.
  assert (A : forallb (fun y => String.eqb (dec_of_Z (- Z.of_nat y))
                                 (if (y =? 0)%nat then "0" else String "-"%char (decimal y))) (seq 0 16) = true)
    by (vm_compute; reflexivity).
  rewrite forallb_forall in A. apply String.eqb_eq, A, in_seq. lia.
Qed.

Lemma int16_str_z b : int16_str b = option_map dec_of_Z (int16_z b).
Proof.
  unfold int16_str, int16_z.
  destruct (Model.rstrip_chars is_bspace (Model.lstrip_chars is_bspace b)) as [|s [|d [|e r]]]; try reflexivity.
  - destruct (hexval s) as [x|] eqn:Ex; [|reflexivity]. cbn [option_map].
    rewrite dec_small by (pose proof (hexval_lt _ _ Ex); lia). reflexivity.
  - destruct (hexval d) as [y|] eqn:Ey; [|reflexivity]. pose proof (hexval_lt _ _ Ey) as Hy.
    destruct (Ascii.eqb s "+"%char); [cbn [option_map]; rewrite dec_small by lia; reflexivity|].
    destruct (Ascii.eqb s "-"%char); [cbn [option_map]; rewrite dec_neg_small by exact Hy; reflexivity|].
    destruct (hexval s) as [x|] eqn:Ex; [|reflexivity]. pose proof (hexval_lt _ _ Ex) as Hx.
    cbn [option_map]. rewrite dec_small by lia. reflexivity.
Qed.

(* ---- metadata as artifact2destination reads it: self.sourceid[sid]["<descriptor>_descriptor"][..]
        ["artifact_resolution_service"][..]["index" / "location"] *)
Definition enc_svc (s : service) : pyval := PObj [("index", PStr (fst s)); ("location", PStr (snd s))].
Definition enc_desc (d : descriptor) : pyval :=
  match d with
  | Some svcs => PObj [("artifact_resolution_service", PList (map enc_svc svcs))]
  | None => PObj []                                   (* no "artifact_resolution_service" key *)
  end.
Definition enc_entity (dname : string) (e : entity) : pyval :=
  match e with
  | Some descs => PObj [(dname ++ "_descriptor", PList (map enc_desc descs))]
  | None => PObj []                                   (* no "<descriptor>_descriptor" key *)
  end.
Definition enc_sourceid (dname : string) (sm : sourcemap) : list (string * pyval) :=
  map (fun ke => (fst ke, enc_entity dname (snd ke))) sm.
Definition enc_self (dname : string) (sm : sourcemap) : pyval :=
  PObj [("__class__", PStr "Entity"); ("sourceid", PObj (enc_sourceid dname sm))].
Definition enc_dest (d : option string) : pyval := match d with Some l => PStr l | None => PNone end.

(* the model does not name exception classes: AErr = some exception *)
Definition ares_is (r : ares) (v : pyval) : Prop :=
  match r with AOk d => v = enc_dest d | AErr => exists n, v = PExc n end.

Lemma assoc_enc_sourceid dname k sm :
  assoc_py k (enc_sourceid dname sm) = option_map (enc_entity dname) (assoc k sm).
Proof.
  induction sm as [|[k' e] r IH]; [reflexivity|]. cbn [enc_sourceid map fst snd assoc_py assoc].
  destruct (String.eqb k k'); [reflexivity|exact IH].
Qed.

Lemma length_app_str a b : String.length (a ++ b) = String.length a + String.length b.
Proof. induction a as [|c r IH]; cbn [append String.length]; [reflexivity|rewrite IH; reflexivity]. Qed.

Lemma descriptor_key_ok dname : String.eqb (dname ++ "_descriptor") "__class__" = false.
Proof.
  apply String.eqb_neq. intros H. apply (f_equal String.length) in H. rewrite length_app_str in H. cbn in H. lia.
Qed.

Lemma fold_scan_err idx descs : fold_left (scan_desc idx) descs AErr = AErr.
Proof. induction descs as [|d r IH]; [reflexivity|exact IH]. Qed.

(* a string of ASCII decimal digits is ASCII *)
Lemma dec_go_ascii : forall s acc v, dec_go acc s = Some v -> Py2.all_ascii s = true.
Proof.
  induction s as [|c r IH]; intros acc v H; [reflexivity|]. cbn [dec_go] in H.
  destruct (is_dec_digit c) eqn:Ec; [|discriminate]. cbn [Py2.all_ascii all_chars]. fold (Py2.all_ascii r).
  rewrite (IH _ _ H), andb_true_r. unfold is_dec_digit in Ec. unfold Py2.is_ascii_char.
  apply andb_true_iff in Ec. destruct Ec as [_ E]. apply Nat.leb_le in E. apply Nat.ltb_lt. lia.
Qed.

Lemma dec_value_ascii s v : dec_value s = Some v -> Py2.all_ascii s = true.
Proof. unfold dec_value. destruct (is_empty s); [discriminate|]. apply dec_go_ascii. Qed.

(* the service loop, for any body that does what the source's body does on one service; the state is
   [_index; destination] (the loop variable _index of the source is assigned in the body) *)
Lemma svc_loop z body :
  (forall ix d s, body [ix; d] (enc_svc s)
                  = if idx_matches z (fst s) then BrkS [PStr (fst s); PStr (snd s)] else NextS [PStr (fst s); d]) ->
  forall svcs ix d, exists ix',
    pyfor2 (map enc_svc svcs) [ix; d] body
    = match find_svc z svcs with Some l => BrkS [ix'; PStr l] | None => NextS [ix'; d] end.
Proof.
  intros Hb. induction svcs as [|[i l] r IH]; intros ix d; [exists ix; reflexivity|].
  cbn [map pyfor2 find_svc]. rewrite Hb. cbn [fst snd].
  destruct (idx_matches z i); [exists (PStr i); reflexivity|apply IH].
Qed.

(* the descriptor loop *)
Lemma desc_loop z body :
  (forall ix d desc, exists ix',
     body [ix; d] (enc_desc desc)
     = match desc with
       | None => ExcS "KeyError" [ix; d]
       | Some svcs => NextS [ix'; match find_svc z svcs with Some l => PStr l | None => d end]
       end) ->
  forall descs ix acc,
    match fold_left (scan_desc z) descs (AOk acc) with
    | AOk r => exists ix', pyfor2 (map enc_desc descs) [ix; enc_dest acc] body = NextS [ix'; enc_dest r]
    | AErr => exists ix' d, pyfor2 (map enc_desc descs) [ix; enc_dest acc] body = ExcS "KeyError" [ix'; d]
    end.
Proof.
  intros Hb. induction descs as [|[svcs|] r IH]; intros ix acc.
  - exists ix. reflexivity.
  - cbn [map pyfor2 fold_left scan_desc]. destruct (Hb ix (enc_dest acc) (Some svcs)) as [ix1 ->].
    specialize (IH ix1 (match find_svc z svcs with Some l => Some l | None => acc end)).
    replace (enc_dest (match find_svc z svcs with Some l => Some l | None => acc end))
      with (match find_svc z svcs with Some l => PStr l | None => enc_dest acc end) in IH
      by (destruct (find_svc z svcs); reflexivity).
    exact IH.
  - cbn [map pyfor2 fold_left scan_desc]. destruct (Hb ix (enc_dest acc) None) as [ix1 ->]. rewrite fold_scan_err.
    exists ix, (enc_dest acc). reflexivity.
Qed.

Section Artifact.
  Variable b64decode : pyval -> pyval.              (* base64.b64decode; bytes = the str of the same bytes *)
  Variable int_base : pyval -> pyval -> pyval.      (* int(b, base) *)
  Variable int_dec : pyval -> pyval.                (* int(s) *)
  Variable str_isascii : pyval -> pyval.            (* s.isascii() *)
  Variable str_isdigit : pyval -> pyval.            (* s.isdigit() *)
  Hypothesis b64decode_ok : forall s d, decode_str s = Some d -> b64decode (PStr s) = PStr d.
  Hypothesis b64decode_fail : forall s, decode_str s = None -> exists n, b64decode (PStr s) = PExc n.
  Hypothesis int_base_spec : forall b, String.length b <= 2 ->
    int_base (PStr b) (PInt 16) = match int16_z b with Some z => PInt z | None => PExc "ValueError" end.
  (* str = its UTF-8 bytes: isascii() = no byte >= 128; on an ASCII str isdigit() = non-empty, all of '0'..'9';
     int() of such a str is its decimal value (leading zeros allowed) *)
  Hypothesis isascii_spec : forall s, str_isascii (PStr s) = PBool (Py2.all_ascii s).
  Hypothesis isdigit_spec : forall s, Py2.all_ascii s = true ->
    str_isdigit (PStr s) = PBool (match dec_value s with Some _ => true | None => false end).
  Hypothesis int_dec_spec : forall s v, dec_value s = Some v -> int_dec (PStr s) = PInt (Z.of_nat v).

  (* [sm_ok]: the first key of self.sourceid is not the reserved "__class__" (keys are 20-byte digests);
     decoded artifact bytes < 128: the embedding refuses to slice a str with a byte >= 128 (index = code point) *)
  Definition sm_ok (sm : sourcemap) : bool :=
    match sm with (k, _) :: _ => negb (String.eqb k "__class__") | [] => true end.
  Definition art_ascii (art : string) : bool :=
    match decode_str art with Some a => Py2.all_ascii a | None => true end.

  (* _index.isascii() and _index.isdigit() and int(_index) == endpoint_index *)
  Lemma index_test z i :
    p2_branch (p2_and (str_isascii (PStr i)) (p2_and (str_isdigit (PStr i)) (p2_eq (py_bind (PStr i) (fun a => int_dec a)) (PInt z))))
    = if idx_matches z i then BTrue else BFalse.
  Proof.
    rewrite isascii_spec. unfold idx_matches. destruct (Py2.all_ascii i) eqn:Ea.
    - rewrite isdigit_spec by exact Ea. destruct (dec_value i) as [v|] eqn:Ev.
      + cbn [py_bind]. rewrite (int_dec_spec _ _ Ev), p2_eq_int. destruct (Z.of_nat v =? z)%Z; reflexivity.
      + reflexivity.
    - destruct (dec_value i) as [v|] eqn:Ev; [|reflexivity]. rewrite (dec_value_ascii _ _ Ev) in Ea. discriminate.
  Qed.

  Theorem src2_artifact2destination_is_model : forall sm art dname,
    sm_ok sm = true -> art_ascii art = true ->
    ares_is (artifact2destination sm art)
            (src2_artifact2destination b64decode int_base int_dec str_isascii str_isdigit (enc_self dname sm) (PStr art) (PStr dname)).
  Proof.
    intros sm art dname Hsm Hasc. unfold src2_artifact2destination, artifact2destination, art_ascii in *.
    cbv beta zeta. cbn [py_bind].
    destruct (decode_str art) as [a|] eqn:Ed.
    2:{ destruct (b64decode_fail _ Ed) as (n & ->). exists n. reflexivity. }
    rewrite (b64decode_ok _ _ Ed). cbn [py_bind].
    rewrite p2_slice_ascii_to by (assumption || lia). rewrite !p2_slice_ascii by (assumption || lia).
    change (Z.to_nat 2) with 2. change (Z.to_nat 4) with 4. change (Z.to_nat 24) with 24. cbn [py_bind].
    rewrite p2_ne_str. change (sb [0%N; 4%N]) with ARTIFACT_TYPECODE. rewrite p2_branch_bool.
    destruct (negb (String.eqb (take 2 a) ARTIFACT_TYPECODE)); [exists "ValueError"; reflexivity|].
    rewrite int_base_spec by apply (length_slice_le 2 4).
    destruct (int16_z (slice 2 4 a)) as [z|]; [|exists "ValueError"; reflexivity].
    cbn [py_bind].
    change (p2_attr (enc_self dname sm) "sourceid") with (PObj (enc_sourceid dname sm)).
    assert (Hobj : is_obj (enc_sourceid dname sm) = false).
    { destruct sm as [|[k e] r]; [reflexivity|]. cbn [sm_ok] in Hsm. cbn [enc_sourceid map fst is_obj].
      destruct (String.eqb k "__class__"); [discriminate|reflexivity]. }
    rewrite p2_getitem_dict by exact Hobj. rewrite assoc_enc_sourceid.
    destruct (assoc (slice 4 24 a) sm) as [[descs|]|]; cbn [option_map enc_entity py_bind].
    3:{ exists "KeyError". reflexivity. }
    2:{ exists "KeyError". reflexivity. }
    cbn [p2_fconcat p2_str s1 py_bind]. change ("_descriptor" ++ "") with "_descriptor".
    rewrite p2_getitem_dict by (cbn [is_obj]; apply descriptor_key_ok).
    cbn [assoc_py]. rewrite String.eqb_refl. rewrite p2_iter_check_list. cbn [py_bind py_iter2].
    match goal with |- context [pyfor2 (map enc_desc descs) [PErr; PNone] ?body] =>
      pose proof (desc_loop z body) as Hloop end.
    lapply Hloop; clear Hloop.
    - intros Hloop. specialize (Hloop descs PErr None). cbn [enc_dest] in Hloop.
      destruct (fold_left (scan_desc z) descs (AOk None)) as [r|].
      + destruct Hloop as (ix' & ->). reflexivity.
      + destruct Hloop as (ix' & d & ->). exists "KeyError". reflexivity.
    - intros ix d [svcs|]; cbv beta zeta.
      + change (p2_getitem (enc_desc (Some svcs)) (PStr "artifact_resolution_service")) with (PList (map enc_svc svcs)).
        rewrite p2_iter_check_list. rewrite py_bindS_good by reflexivity. cbn [py_iter2].
        match goal with |- context [pyfor2 (map enc_svc svcs) [ix; d] ?ibody] =>
          destruct (svc_loop z ibody) with (svcs := svcs) (ix := ix) (d := d) as [ix' Hs] end.
        * intros ix0 d' [i l]. cbv beta zeta.
          change (p2_getitem (enc_svc (i, l)) (PStr "index")) with (PStr i).
          change (p2_getitem (enc_svc (i, l)) (PStr "location")) with (PStr l).
          rewrite py_bindS_good by reflexivity. rewrite index_test. cbn [fst snd].
          destruct (idx_matches z i); [rewrite py_bindS_good by reflexivity; reflexivity|reflexivity].
        * rewrite Hs. exists ix'. destruct (find_svc z svcs); reflexivity.
      + exists ix. reflexivity.
  Qed.
End Artifact.

Example artifact_hypotheses_satisfiable :
  exists b64decode int_base int_dec str_isascii str_isdigit,
    (forall s d, decode_str s = Some d -> b64decode (PStr s) = PStr d) /\
    (forall s, decode_str s = None -> exists n, b64decode (PStr s) = PExc n) /\
    (forall b, String.length b <= 2 ->
       int_base (PStr b) (PInt 16) = match int16_z b with Some z => PInt z | None => PExc "ValueError" end) /\
    (forall s, str_isascii (PStr s) = PBool (Py2.all_ascii s)) /\
    (forall s, Py2.all_ascii s = true ->
       str_isdigit (PStr s) = PBool (match dec_value s with Some _ => true | None => false end)) /\
    (forall s v, dec_value s = Some v -> int_dec (PStr s) = PInt (Z.of_nat v)).
Proof.
  exists (fun v => match v with PStr s => match decode_str s with Some d => PStr d | None => PExc "Error" end | _ => PErr end),
         (fun v _ => match v with PStr b => match int16_z b with Some z => PInt z | None => PExc "ValueError" end | _ => PErr end),
         (fun v => match v with PStr s => match dec_value s with Some n => PInt (Z.of_nat n) | None => PExc "ValueError" end | _ => PErr end),
         (fun v => match v with PStr s => PBool (Py2.all_ascii s) | _ => PErr end),
         (fun v => match v with PStr s => PBool (match dec_value s with Some _ => true | None => false end) | _ => PErr end).
  repeat split.
  - intros s d E. rewrite E. reflexivity.
  - intros s E. rewrite E. exists "Error". reflexivity.
  - intros s v E. rewrite E. reflexivity.
Qed.

(* the restriction [art_ascii] is not vacuous: a well-formed artifact with an ASCII source id resolves *)
Example artifact_ascii_instance :
  let art := encode (ARTIFACT_TYPECODE ++ "0a" ++ "SSSSSSSSSSSSSSSSSSSS" ++ "HHHHHHHHHHHHHHHHHHHH") in
  let sm := [("SSSSSSSSSSSSSSSSSSSS", Some [Some [("9", "L9"); ("10", "L10")]])] in
  art_ascii art = true /\ sm_ok sm = true /\ artifact2destination sm art = AOk (Some "L10").
Proof. vm_compute. repeat split. Qed.


(* ================================================================== MetadataStore.construct_source_id (round 6)
   res = {}; for _md in self.metadata.values(): res.update(_md.construct_source_id()); return res
   The table that Entity.__init__ / Entity.reload_metadata store in self.sourceid is computed from the sources the
   store holds NOW, by one dict.update per source in the order of self.metadata — nothing is kept between calls.
   The per-source method (InMemoryMetaData.construct_source_id) is an external call. *)
Definition enc_mview (v : mview) : pyval :=
  PObj ((match fst v with Some ds => [("spsso_descriptor", PList (map enc_desc ds))] | None => [] end) ++
        (match snd v with Some ds => [("idpsso_descriptor", PList (map enc_desc ds))] | None => [] end))%list.
Definition enc_table (m : fsourcemap) : list (string * pyval) := map (fun kv => (fst kv, enc_mview (snd kv))) m.
Definition keys_ok {A} (l : list (string * A)) : Prop := forall kv, In kv l -> fst kv <> "__class__".

Lemma keys_ok_is_obj m : keys_ok m -> is_obj (enc_table m) = false.
Proof.
  destruct m as [|[k v] r]; intros H; [reflexivity|]. cbn [enc_table map fst is_obj].
  apply String.eqb_neq. apply (H (k, v)). left. reflexivity.
Qed.

Lemma keys_ok_upd {A} k (v : A) l : k <> "__class__" -> keys_ok l -> keys_ok (upd k v l).
Proof.
  intros Hk Hl [k' v'] Hin. apply In_upd in Hin. destruct Hin as [[-> _]|Hin]; [exact Hk|apply (Hl _ Hin)].
Qed.

Lemma keys_ok_dict_update {A} (new : list (string * A)) : forall res, keys_ok res -> keys_ok new -> keys_ok (dict_update res new).
Proof.
  unfold dict_update. induction new as [|[k v] r IH]; intros res Hr Hn; [exact Hr|].
  cbn [fold_left fst snd]. apply IH.
  - apply keys_ok_upd; [apply (Hn (k, v)); left; reflexivity|exact Hr].
  - intros kv Hin. apply Hn. right. exact Hin.
Qed.

Lemma set_assoc_enc k v l : set_assoc k (enc_mview v) (enc_table l) = enc_table (upd k v l).
Proof.
  induction l as [|[k' v'] r IH]; [reflexivity|]. cbn [enc_table map fst snd set_assoc upd].
  destruct (String.eqb k k') eqn:E.
  - apply String.eqb_eq in E. subst k'. reflexivity.
  - cbn [map fst snd]. f_equal. exact IH.
Qed.

Lemma update_enc new : forall res,
  fold_left (fun acc kv => set_assoc (fst kv) (snd kv) acc) (enc_table new) (enc_table res)
  = enc_table (dict_update res new).
Proof.
  unfold dict_update. induction new as [|[k v] r IH]; intros res; [reflexivity|].
  cbn [enc_table map fold_left fst snd]. rewrite set_assoc_enc. apply IH.
Qed.

Lemma p2_update_tables res new : keys_ok res -> keys_ok new ->
  p2_update (PObj (enc_table res)) (PObj (enc_table new)) = PObj (enc_table (dict_update res new)).
Proof.
  intros Hr Hn. unfold p2_update, s2. cbn [py_bind]. rewrite (keys_ok_is_obj _ Hr), (keys_ok_is_obj _ Hn). cbn [orb].
  rewrite update_enc. reflexivity.
Qed.

Section StoreSourceId.
  Variable md_csi : pyval -> pyval.                  (* _md.construct_source_id() *)
  Variable enc_md : source -> pyval.                 (* a loaded source (InMemoryMetaData, MetaDataFile, ...): opaque *)
  Variable csi : source -> fsourcemap.               (* what its construct_source_id returns *)
  Hypothesis md_csi_spec : forall src, md_csi (enc_md src) = PObj (enc_table (csi src)).
  Hypothesis csi_keys : forall src, keys_ok (csi src).

  Definition enc_store (cfg : mdconfig) : pyval :=
    PObj [("__class__", PStr "MetadataStore"); ("metadata", PObj (map (fun ns => (fst ns, enc_md (snd ns))) cfg))].
  (* the first key of self.metadata is not the reserved name of the embedding *)
  Definition names_ok (cfg : mdconfig) : bool :=
    match cfg with (n, _) :: _ => negb (String.eqb n "__class__") | [] => true end.

  Lemma store_loop body :
    (forall res src, keys_ok res ->
       body [PObj (enc_table res)] (enc_md src) = NextS [PObj (enc_table (dict_update res (csi src)))]) ->
    forall srcs res, keys_ok res ->
      pyfor2 (map enc_md srcs) [PObj (enc_table res)] body
      = NextS [PObj (enc_table (fold_left (fun r s => dict_update r (csi s)) srcs res))].
  Proof.
    intros Hb. induction srcs as [|src r IH]; intros res Hr; [reflexivity|].
    cbn [map pyfor2 fold_left]. rewrite (Hb _ _ Hr). apply IH. apply keys_ok_dict_update; [exact Hr|apply csi_keys].
  Qed.

  Theorem src2_store_construct_source_id_is_model : forall cfg, names_ok cfg = true ->
    src2_store_construct_source_id md_csi (enc_store cfg)
    = PObj (enc_table (fold_left (fun r s => dict_update r (csi s)) (map snd cfg) [])).
  Proof.
    intros cfg Hn. unfold src2_store_construct_source_id. cbv beta zeta.
    change (p2_attr (enc_store cfg) "metadata") with (PObj (map (fun ns => (fst ns, enc_md (snd ns))) cfg)).
    assert (Hobj : is_obj (map (fun ns => (fst ns, enc_md (snd ns))) cfg) = false).
    { destruct cfg as [|[n src] r]; [reflexivity|]. cbn [names_ok] in Hn. cbn [map fst is_obj].
      destruct (String.eqb n "__class__"); [discriminate|reflexivity]. }
    unfold p2_values, dict_view, s1. cbn [py_bind]. rewrite Hobj. rewrite p2_iter_check_list. cbn [py_bind py_iter2].
    rewrite map_map. cbn [snd].
    replace (map (fun x : string * source => enc_md (snd x)) cfg) with (map enc_md (map snd cfg)) by (rewrite map_map; reflexivity).
    match goal with |- context [pyfor2 (map enc_md (map snd cfg)) [PObj []] ?body] =>
      pose proof (store_loop body) as Hloop end.
    lapply Hloop; clear Hloop.
    - intros Hloop. specialize (Hloop (map snd cfg) []). change (PObj []) with (PObj (enc_table [])).
      rewrite Hloop by (intros kv []). reflexivity.
    - intros res src Hr. cbv beta zeta. rewrite md_csi_spec. rewrite (p2_update_tables _ _ Hr (csi_keys src)).
      rewrite py_bindS_good by reflexivity. reflexivity.
  Qed.
End StoreSourceId.

(* instance: the sources are metadata documents, their tables InMemoryMetaData.construct_source_id of the model;
   the result is the model's MetadataStore table of the documents the store holds, whatever the sources are called *)
Theorem src2_store_source_id : forall (sha1 : string -> string) (md_csi : pyval -> pyval) (enc_md : source -> pyval),
  (forall e, String.length (sha1 e) = 20) ->
  (forall src, md_csi (enc_md src) = PObj (enc_table (construct_source_id sha1 src))) ->
  forall cfg, names_ok cfg = true ->
  src2_store_construct_source_id md_csi (enc_store enc_md cfg)
  = PObj (enc_table (store_source_id sha1 (map snd cfg))).
Proof.
  intros sha1 md_csi enc_md Hlen Hspec cfg Hn.
  apply (src2_store_construct_source_id_is_model md_csi enc_md (construct_source_id sha1) Hspec); [|exact Hn].
  intros src [sid v] Hin. cbn [fst]. apply csi_origin in Hin. destruct Hin as [e [_ [Hs _]]].
  intros E. subst sid. pose proof (Hlen (fe_eid e)) as L. rewrite E in L. cbn in L. discriminate.
Qed.

Example store_source_id_hypotheses_satisfiable :
  exists (md_csi : pyval -> pyval) (enc_md : source -> pyval),
    forall src, md_csi (enc_md src) = PObj (enc_table (construct_source_id toy_sha1_fed src)).
Proof.
  exists (fun v => v), (fun src => PObj (enc_table (construct_source_id toy_sha1_fed src))). reflexivity.
Qed.
