(* C14/FedProofs.v — artifacts through the resolver's metadata: from the metadata documents to
   Entity.sourceid (InMemoryMetaData.parse / construct_source_id, MetadataStore.construct_source_id,
   Entity.__init__ / reload_metadata) and on to Entity.artifact2destination.
   Main results: [artfed_spec_b_iff], [artfed_holds] (every federation, every document order, every issuer),
   [artfed_seq_holds] (every sequence of loads and resolutions), [artfed_v0_refuted] (finding class 6, repaired by
   fbf0c2eb: the text comparison of the index attribute). *)
From Coq Require Import String Ascii List Bool Arith Lia ZArith.
From Verif Require Import Base.Str Base.Percent Base.Base64 Base.Html Base.Query C14.Model C14.Spec C14.Proofs.
Import ListNotations.
Open Scope string_scope.
Set Default Timeout 30.

(* ================================================================== the spec as a boolean *)

Lemma artfed_clause_b_iff x e dest : artfed_clause_b x e dest = true <-> artfed_clause x e dest.
Proof.
  unfold artfed_clause_b, artfed_clause. cbv zeta.
  set (cands := services_for (f_idx x) (concat (role_descs (f_role x) e))).
  assert (Ha : match dest with AOk (Some l) => mem l cands | _ => true end = true
               <-> (forall l, dest = AOk (Some l) -> In l cands)).
  { destruct dest as [[l|]|].
    + rewrite mem_In. split; [intros H l' E; inversion E; subst; exact H|intros H; apply H; reflexivity].
    + split; [intros _ l E; discriminate|reflexivity].
    + split; [intros _ l E; discriminate|reflexivity]. }
  assert (Hb : negb (publishes (f_role x) e) || negb (length cands <=? 1)%nat || ares_eqb dest (AOk (hd_error cands)) = true
               <-> (publishes (f_role x) e = true -> length cands <= 1 -> dest = AOk (hd_error cands))).
  { destruct (publishes (f_role x) e); cbn [negb orb].
    2: split; [intros _ E; discriminate|reflexivity].
    destruct (length cands <=? 1)%nat eqn:El; cbn [negb orb].
    + rewrite ares_eqb_eq. apply Nat.leb_le in El. split; [intros H _ _; exact H|intros H; apply H; [reflexivity|exact El]].
    + apply Nat.leb_gt in El. split; [intros _ _ H; lia|reflexivity]. }
  rewrite andb_true_iff. tauto.
Qed.

Lemma artfed_spec_b_iff x dest : artfed_spec_b x dest = true <-> artfed_spec x dest.
Proof.
  unfold artfed_spec_b, artfed_spec.
  destruct (nodup_b (map fe_eid (fed_ents x))) eqn:En; cbn [negb orb].
  2: { split; [|reflexivity]. intros _ Hn. apply nodup_b_iff in Hn. congruence. }
  apply nodup_b_iff in En. rewrite andb_true_iff, forallb_forall. split.
  - intros [Hall Hun] _. split.
    + intros e Hin He. specialize (Hall e Hin). cbv beta in Hall. rewrite He, String.eqb_refl in Hall. cbn [negb orb] in Hall.
      apply artfed_clause_b_iff. exact Hall.
    + intros Hnot l E. subst dest. destruct (mem (f_eid x) (map fe_eid (fed_ents x))) eqn:Em; [|discriminate].
      apply mem_In in Em. contradiction.
  - intros H. destruct (H En) as [Hc Hu]. split.
    + intros e Hin. destruct (String.eqb (fe_eid e) (f_eid x)) eqn:Ee; cbn [negb orb]; [|reflexivity].
      apply String.eqb_eq in Ee. apply artfed_clause_b_iff. apply Hc; assumption.
    + destruct (mem (f_eid x) (map fe_eid (fed_ents x))) eqn:Em; [reflexivity|]. cbn [orb].
      destruct dest as [[l|]|]; [|reflexivity|reflexivity]. exfalso. apply (Hu ltac:(intros Hi; apply mem_In in Hi; congruence) l eq_refl).
Qed.

(* ================================================================== insertion-ordered dicts *)

Lemma assoc_upd {A} k k' (v : A) l : assoc k (upd k' v l) = if String.eqb k k' then Some v else assoc k l.
Proof.
  induction l as [|[k0 v0] r IH]; cbn [upd assoc]; [reflexivity|].
  destruct (String.eqb k' k0) eqn:E0; cbn [assoc].
  - apply String.eqb_eq in E0. subst k0. destruct (String.eqb k k'); reflexivity.
  - rewrite IH. destruct (String.eqb k k0) eqn:E1; [|reflexivity].
    destruct (String.eqb k k') eqn:E2; [|reflexivity].
    apply String.eqb_eq in E1. apply String.eqb_eq in E2. subst. rewrite String.eqb_refl in E0. discriminate.
Qed.

Lemma In_upd {A} k (v : A) k' v' l : In (k, v) (upd k' v' l) -> (k = k' /\ v = v') \/ In (k, v) l.
Proof.
  induction l as [|[k0 v0] r IH]; cbn [upd In].
  - intros [E|[]]. inversion E; subst. left; auto.
  - destruct (String.eqb k' k0); cbn [In].
    + intros [E|H]; [inversion E; subst; left; auto|right; right; exact H].
    + intros [E|H]; [right; left; exact E|]. destruct (IH H) as [?|?]; [left; assumption|right; right; assumption].
Qed.

Lemma assoc_In_pair {A} k (v : A) l : assoc k l = Some v -> In (k, v) l.
Proof.
  induction l as [|[k0 v0] r IH]; cbn [assoc In]; [discriminate|].
  destruct (String.eqb k k0) eqn:E; [|auto]. apply String.eqb_eq in E. intros H; inversion H; subst. left; reflexivity.
Qed.

Section FoldUpd.
  Context {A B : Type} (p : B -> bool) (f : B -> string) (g : B -> A).
  Definition ustep (r : list (string * A)) (b : B) := if p b then upd (f b) (g b) r else r.

  Lemma fold_upd_origin k v : forall l init,
    In (k, v) (fold_left ustep l init) ->
    (exists b, In b l /\ p b = true /\ f b = k /\ g b = v) \/ In (k, v) init.
  Proof.
    induction l as [|b l IH]; intros init H; cbn [fold_left] in H; [right; exact H|].
    destruct (IH _ H) as [[b' [Hin Hb]]|Hi].
    - left. exists b'. split; [right; exact Hin|exact Hb].
    - unfold ustep in Hi. destruct (p b) eqn:Ep; [|right; exact Hi].
      destruct (In_upd _ _ _ _ _ Hi) as [[-> ->]|Hi']; [|right; exact Hi'].
      left. exists b. repeat split; [left; reflexivity|exact Ep].
  Qed.

  Lemma fold_upd_keep k v : forall l init,
    assoc k init = Some v ->
    (forall b, In b l -> p b = true -> f b = k -> g b = v) ->
    assoc k (fold_left ustep l init) = Some v.
  Proof.
    induction l as [|b l IH]; intros init Hi Hall; cbn [fold_left]; [exact Hi|].
    apply IH; [|intros b' Hb; apply Hall; right; exact Hb].
    unfold ustep. destruct (p b) eqn:Ep; [|exact Hi]. rewrite assoc_upd.
    destruct (String.eqb k (f b)) eqn:E; [|exact Hi]. apply String.eqb_eq in E.
    rewrite (Hall b (or_introl eq_refl) Ep (eq_sym E)). reflexivity.
  Qed.

  Lemma fold_upd_complete b : forall l init,
    In b l -> p b = true ->
    (forall b', In b' l -> p b' = true -> f b' = f b -> g b' = g b) ->
    assoc (f b) (fold_left ustep l init) = Some (g b).
  Proof.
    induction l as [|a l IH]; intros init Hin Hp Hall; [contradiction|]. cbn [fold_left].
    destruct Hin as [->|Hin].
    - apply fold_upd_keep; [|intros b' Hb; apply Hall; right; exact Hb].
      unfold ustep. rewrite Hp, assoc_upd, String.eqb_refl. reflexivity.
    - apply IH; [exact Hin|exact Hp|intros b' Hb; apply Hall; right; exact Hb].
  Qed.
End FoldUpd.

Lemma fold_flat {S T R} (h : R -> T -> R) (c : S -> list T) : forall l init,
  fold_left (fun res s => fold_left h (c s) res) l init = fold_left h (flat_map c l) init.
Proof.
  induction l as [|a l IH]; intros init; cbn [fold_left flat_map]; [reflexivity|].
  rewrite fold_left_app. apply IH.
Qed.

Lemma nodup_map_inj {T} (f : T -> string) l a b :
  NoDup (map f l) -> In a l -> In b l -> f a = f b -> a = b.
Proof.
  induction l as [|x l IH]; cbn [map In]; [contradiction|].
  intros Hn Ha Hb E. inversion Hn as [|? ? Hx Hd]; subst.
  destruct Ha as [->|Ha], Hb as [->|Hb].
  - reflexivity.
  - exfalso. apply Hx. rewrite E. apply in_map. exact Hb.
  - exfalso. apply Hx. rewrite <- E. apply in_map. exact Ha.
  - apply IH; assumption.
Qed.

(* ================================================================== from the documents to self.sourceid *)

Definition ent_has_ars (e : fent) : bool := has_ars (parse_role (fe_sp e)) || has_ars (parse_role (fe_idp e)).

(* one document: self.entity *)
Lemma ins_new_In {A} k (v : A) l x : In x l -> In x (ins_new k v l).
Proof. unfold ins_new. destruct (assoc k l); [auto|]. intros H. apply in_or_app. left; exact H. Qed.

Lemma src_ents_mono : forall src acc x,
  In x acc -> In x (fold_left (fun acc e => ins_new (fe_eid e) (parse_ent e) acc) src acc).
Proof. induction src as [|a src IH]; intros acc x H; cbn [fold_left]; [exact H|]. apply IH. apply ins_new_In. exact H. Qed.

Lemma src_ents_origin k v : forall src acc,
  In (k, v) (fold_left (fun acc e => ins_new (fe_eid e) (parse_ent e) acc) src acc) ->
  (exists e, In e src /\ fe_eid e = k /\ parse_ent e = v) \/ In (k, v) acc.
Proof.
  induction src as [|a src IH]; intros acc H; cbn [fold_left] in H; [right; exact H|].
  destruct (IH _ H) as [[e [Hin He]]|Hi].
  - left. exists e. split; [right; exact Hin|exact He].
  - unfold ins_new in Hi. destruct (assoc (fe_eid a) acc); [right; exact Hi|].
    apply in_app_or in Hi. destruct Hi as [Hi|[E|[]]]; [right; exact Hi|].
    inversion E; subst. left. exists a. repeat split. left; reflexivity.
Qed.

Lemma src_ents_complete e : forall src acc,
  In e src -> assoc (fe_eid e) acc = None ->
  (forall e', In e' src -> fe_eid e' = fe_eid e -> e' = e) ->
  In (fe_eid e, parse_ent e) (fold_left (fun acc e => ins_new (fe_eid e) (parse_ent e) acc) src acc).
Proof.
  induction src as [|a src IH]; intros acc Hin Hacc Hu; [contradiction|]. cbn [fold_left].
  destruct (String.eqb (fe_eid a) (fe_eid e)) eqn:Ea.
  - apply String.eqb_eq in Ea. assert (a = e) as -> by (apply Hu; [left; reflexivity|exact Ea]).
    apply src_ents_mono. unfold ins_new. rewrite Hacc. apply in_or_app. right. left. reflexivity.
  - destruct Hin as [->|Hin]; [rewrite String.eqb_refl in Ea; discriminate|].
    apply IH; [exact Hin| |intros e' He'; apply Hu; right; exact He'].
    unfold ins_new. destruct (assoc (fe_eid a) acc) eqn:E0; [exact Hacc|].
    rewrite assoc_app, Hacc. cbn [assoc]. rewrite String.eqb_sym, Ea. reflexivity.
Qed.

(* ---- MetadataStore.metadata: with distinct source names the store holds exactly the configured documents, in
   configuration order *)
Lemma upd_fresh {A} k (v : A) : forall l, ~ In k (map fst l) -> upd k v l = (l ++ [(k, v)])%list.
Proof.
  induction l as [|[k' v'] l IH]; intros Hn; [reflexivity|].
  cbn [upd]. destruct (String.eqb k k') eqn:E.
  - apply String.eqb_eq in E. exfalso. apply Hn. left. cbn. congruence.
  - cbn [app]. f_equal. apply IH. intros Hin. apply Hn. right. exact Hin.
Qed.

Lemma fold_upd_distinct {A} : forall (cfg d : list (string * A)),
  NoDup (map fst d ++ map fst cfg)%list ->
  fold_left (fun d kv => upd (fst kv) (snd kv) d) cfg d = (d ++ cfg)%list.
Proof.
  induction cfg as [|[k v] cfg IH]; intros d Hn; [cbn; rewrite app_nil_r; reflexivity|].
  cbn [fold_left fst snd]. rewrite upd_fresh.
  - rewrite IH; [rewrite <- app_assoc; reflexivity|].
    rewrite map_app. cbn [map fst]. rewrite <- app_assoc. exact Hn.
  - cbn [map fst] in Hn. apply NoDup_remove_2 in Hn. intros Hin. apply Hn. apply in_or_app. left. exact Hin.
Qed.

Lemma store_load_distinct (cfg : mdconfig) : NoDup (map fst cfg) -> store_load cfg = cfg_docs cfg.
Proof. intros Hn. unfold store_load. rewrite (fold_upd_distinct cfg []); [reflexivity|exact Hn]. Qed.

(* ... and a name configured twice holds the document read last, at the place of the first (dict assignment) *)
Example store_load_same_name :
  store_load [("a.xml", [{| fe_eid := "urn:1"; fe_sp := []; fe_idp := [] |}]); ("b.xml", []);
              ("a.xml", [{| fe_eid := "urn:2"; fe_sp := []; fe_idp := [] |}])]
  = [[{| fe_eid := "urn:2"; fe_sp := []; fe_idp := [] |}]; []].
Proof. reflexivity. Qed.

Section Fed.
  Variable sha1 : string -> string.
  Hypothesis sha1_len : forall e, String.length (sha1 e) = 20.

  Notation csi := (construct_source_id sha1).
  Notation store := (store_source_id sha1).

  Definition p2 (kv : string * mview) : bool := has_ars (fst (snd kv)) || has_ars (snd (snd kv)).
  Definition f2 (kv : string * mview) : string := sha1 (fst kv).
  Definition g2 (kv : string * mview) : mview := snd kv.

  Lemma csi_fold src : csi src = fold_left (ustep p2 f2 g2) (source_entities src) [].
  Proof. reflexivity. Qed.

  Definition p3 (kv : string * mview) : bool := true.
  Definition f3 (kv : string * mview) : string := fst kv.
  Definition g3 (kv : string * mview) : mview := snd kv.

  Lemma store_flat fed : store fed = fold_left (ustep p3 f3 g3) (flat_map csi fed) [].
  Proof. unfold store_source_id, dict_update. apply (fold_flat (ustep p3 f3 g3) csi). Qed.

  (* every entry of a document's SourceID table comes from an entity of that document that has the service *)
  Lemma csi_origin src sid v : In (sid, v) (csi src) ->
    exists e, In e src /\ sha1 (fe_eid e) = sid /\ parse_ent e = v /\ ent_has_ars e = true.
  Proof.
    rewrite csi_fold. intros H. apply fold_upd_origin in H. destruct H as [[[k w] [Hin [Hp [Hf Hg]]]]|[]].
    unfold p2, f2, g2 in *. cbn [fst snd] in *. subst w.
    apply src_ents_origin in Hin. destruct Hin as [[e [He [Hk Hv]]]|[]].
    exists e. subst k. repeat split; try assumption. unfold ent_has_ars. rewrite <- Hv in Hp. exact Hp.
  Qed.

  Lemma store_origin fed sid v : assoc sid (store fed) = Some v ->
    exists e, In e (concat fed) /\ sha1 (fe_eid e) = sid /\ parse_ent e = v /\ ent_has_ars e = true.
  Proof.
    rewrite store_flat. intros H. apply assoc_In_pair in H. apply fold_upd_origin in H.
    destruct H as [[[k w] [Hin [_ [Hf Hg]]]]|[]]. unfold f3, g3 in *. cbn [fst snd] in *. subst k w.
    apply in_flat_map in Hin. destruct Hin as [src [Hs Hin]]. apply csi_origin in Hin.
    destruct Hin as [e [He Hr]]. exists e. split; [|exact Hr]. apply in_concat. exists src. split; assumption.
  Qed.

  (* with distinct entityIDs and no SHA-1 collision among them, every entity that has the service is in the
     table under its own SourceID, with its own record — wherever it stands in whichever document *)
  Lemma store_complete fed e :
    NoDup (map fe_eid (concat fed)) ->
    (forall a b, In a (map fe_eid (concat fed)) -> In b (map fe_eid (concat fed)) -> sha1 a = sha1 b -> a = b) ->
    In e (concat fed) -> ent_has_ars e = true ->
    assoc (sha1 (fe_eid e)) (store fed) = Some (parse_ent e).
  Proof.
    intros Hn Hinj Hin Hars.
    assert (Huniq : forall e', In e' (concat fed) -> sha1 (fe_eid e') = sha1 (fe_eid e) -> e' = e).
    { intros e' He' Es. apply (nodup_map_inj fe_eid (concat fed)); try assumption.
      apply Hinj; [apply in_map; exact He'|apply in_map; exact Hin|exact Es]. }
    apply in_concat in Hin. destruct Hin as [src [Hsrc Hes]].
    assert (Hsub : forall e', In e' src -> In e' (concat fed)).
    { intros e' He'. apply in_concat. exists src. split; assumption. }
    (* layer 2: the document's own table *)
    assert (H2 : assoc (sha1 (fe_eid e)) (csi src) = Some (parse_ent e)).
    { rewrite csi_fold.
      apply (fold_upd_complete p2 f2 g2 (fe_eid e, parse_ent e)).
      - apply src_ents_complete; [exact Hes|reflexivity|].
        intros e' He' Ee. apply Huniq; [apply Hsub; exact He'|rewrite Ee; reflexivity].
      - exact Hars.
      - intros [k w] Hb _ Hf. unfold f2, g2 in *. cbn [fst snd] in *.
        apply src_ents_origin in Hb. destruct Hb as [[e' [He' [Hk Hw]]]|[]]. subst k w.
        rewrite (Huniq e' (Hsub _ He') Hf). reflexivity. }
    (* layer 3: the union over the documents *)
    rewrite store_flat.
    apply (fold_upd_complete p3 f3 g3 (sha1 (fe_eid e), parse_ent e)).
    - apply in_flat_map. exists src. split; [exact Hsrc|]. apply assoc_In_pair. exact H2.
    - reflexivity.
    - intros [k w] Hb _ Hf. unfold f3, g3 in *. cbn [fst snd] in *. subst k.
      apply in_flat_map in Hb. destruct Hb as [src' [Hs' Hb]]. apply csi_origin in Hb.
      destruct Hb as [e' [He' [Hsid [Hw _]]]]. subst w.
      rewrite (Huniq e'); [reflexivity| |exact Hsid]. apply in_concat. exists src'. split; assumption.
  Qed.

  Lemma assoc_project r k m : assoc k (project r m) = option_map (view_role r) (assoc k m).
  Proof.
    induction m as [|[k0 v0] m IH]; cbn [project map assoc fst snd option_map]; [reflexivity|].
    destruct (String.eqb k k0); [reflexivity|exact IH].
  Qed.

  (* ================================================================== what the parser keeps of a role *)

  Definition stripfst (sv : service) : service := (strip_ws (fst sv), snd sv).

  Lemma parse_desc_some d s : parse_desc d = Some s -> d <> [] /\ s = map stripfst d.
  Proof. destruct d; cbn [parse_desc]; [discriminate|]. intros H. inversion H. split; [discriminate|reflexivity]. Qed.

  Lemma all_some_parse : forall descs,
    forallb (fun d => negb (match d with [] => true | _ => false end)) descs = true ->
    all_some (map parse_desc descs) = Some (map (map stripfst) descs).
  Proof.
    induction descs as [|d descs IH]; cbn [forallb map all_some]; [reflexivity|].
    rewrite andb_true_iff. intros [Hd Hr]. rewrite (IH Hr). destruct d; [discriminate|reflexivity].
  Qed.

  Lemma concat_map_map {X Y} (h : X -> Y) (l : list (list X)) : concat (map (map h) l) = map h (concat l).
  Proof. induction l as [|a l IH]; cbn [map concat]; [reflexivity|]. rewrite map_app, IH. reflexivity. Qed.

  Lemma filter_stripfst z l :
    map snd (filter (matches z) (map stripfst l)) = map snd (filter (fun sv => idx_matches z (strip_ws (fst sv))) l).
  Proof.
    induction l as [|sv l IH]; cbn [map filter]; [reflexivity|].
    unfold matches at 1. cbn [stripfst fst]. destruct (idx_matches z (strip_ws (fst sv))); cbn [map snd stripfst]; rewrite IH; reflexivity.
  Qed.

  (* what the repaired code tests on the stripped attribute is the number the document spells *)
  Lemma matches_denotes n (l : list service) :
    filter (fun sv : service => idx_matches (Z.of_nat n) (strip_ws (fst sv))) l = filter (fun sv => denotes n (fst sv)) l.
  Proof. apply filter_ext. intros sv. rewrite idx_matches_nat. reflexivity. Qed.

  (* ================================================================== the theorem *)

  Lemma resolve_unfold fed r eid handle idx :
    idx < 256 ->
    resolve_in sha1 fed r (create_artifact sha1 eid handle idx) =
    match assoc (sha1 eid) (store fed) with
    | None => AErr
    | Some v => match view_role r v with
                | None => AErr
                | Some descs => fold_left (scan_desc (Z.of_nat idx)) descs (AOk None)
                end
    end.
  Proof.
    intros Hi. destruct (fmt02x_small_z _ Hi) as [h1 [h2 [Hf Hint]]].
    destruct (artifact_parse sha1 sha1_len eid handle idx h1 h2 Hf) as [a [Hd [Ht [Hx Hsid]]]].
    unfold resolve_in, artifact2destination. rewrite Hd, Ht, String.eqb_refl. cbn [negb].
    rewrite Hx, Hint, Hsid, assoc_project. destruct (assoc (sha1 eid) (store fed)) as [v|]; reflexivity.
  Qed.

  Lemma resolve_unfold_v0 fed r eid handle idx :
    idx < 256 ->
    resolve_in_v0 sha1 fed r (create_artifact sha1 eid handle idx) =
    match assoc (sha1 eid) (store fed) with
    | None => AErr
    | Some v => match view_role r v with
                | None => AErr
                | Some descs => fold_left (scan_desc_v0 (decimal idx)) descs (AOk None)
                end
    end.
  Proof.
    intros Hi. destruct (fmt02x_small _ Hi) as [h1 [h2 [Hf Hint]]].
    destruct (artifact_parse sha1 sha1_len eid handle idx h1 h2 Hf) as [a [Hd [Ht [Hx Hsid]]]].
    unfold resolve_in_v0, artifact2destination_v0. rewrite Hd, Ht, String.eqb_refl. cbn [negb].
    rewrite Hx, Hint, Hsid, assoc_project. destruct (assoc (sha1 eid) (store fed)) as [v|]; reflexivity.
  Qed.

  Lemma has_ars_publishes r e : publishes r e = true -> has_ars (parse_role (role_descs r e)) = true.
  Proof.
    unfold publishes. rewrite andb_true_iff. intros [Hne Hall].
    destruct (role_descs r e) as [|d ds]; [discriminate|]. cbn [parse_role has_ars map existsb].
    cbn [forallb] in Hall. apply andb_true_iff in Hall. destruct Hall as [Hd _]. destruct d; [discriminate|reflexivity].
  Qed.

  Lemma view_parse r e : view_role r (parse_ent e) = parse_role (role_descs r e).
  Proof. destruct r; reflexivity. Qed.

  Lemma artfed_holds x handle :
    idx_ok (f_idx x) = true ->                                   (* outside class 1 *)
    (forall a b, In a (f_eid x :: map fe_eid (fed_ents x)) -> In b (f_eid x :: map fe_eid (fed_ents x)) ->
                 sha1 a = sha1 b -> a = b) ->                     (* no SHA-1 collision among these entityIDs *)
    artfed_spec x (resolve_in sha1 (f_fed x) (f_role x) (create_artifact sha1 (f_eid x) handle (f_idx x))).
  Proof.
    unfold idx_ok. intros Hi Hinj Hn. apply Nat.ltb_lt in Hi. rewrite (resolve_unfold _ _ _ _ _ Hi).
    unfold fed_ents in *. split.
    - intros e Hin He.
      assert (Hinj' : forall a b, In a (map fe_eid (concat (f_fed x))) -> In b (map fe_eid (concat (f_fed x))) -> sha1 a = sha1 b -> a = b).
      { intros a b Ha Hb. apply Hinj; right; assumption. }
      destruct (assoc (sha1 (f_eid x)) (store (f_fed x))) as [v|] eqn:Ea.
      2: { (* the issuer is not in the table: it has no service in any role *)
           split; [intros l E; discriminate|]. intros Hp _. exfalso.
           assert (Hars : ent_has_ars e = true).
           { unfold ent_has_ars. apply has_ars_publishes in Hp. destruct (f_role x); cbn [role_descs] in Hp; rewrite Hp; [reflexivity|apply orb_true_r]. }
           rewrite <- He, (store_complete _ e Hn Hinj' Hin Hars) in Ea. discriminate. }
      (* the entry under the issuer's SourceID is the issuer's own record *)
      apply store_origin in Ea. destruct Ea as [e' [Hin' [Hsid [Hv _]]]].
      assert (e' = e) as ->.
      { apply (nodup_map_inj fe_eid (concat (f_fed x))); try assumption.
        rewrite He. apply Hinj; [right; apply in_map; exact Hin'|left; reflexivity|exact Hsid]. }
      subst v. rewrite view_parse. unfold artfed_clause. cbv zeta.
      set (descs := role_descs (f_role x) e).
      destruct descs as [|d0 ds0] eqn:Ed; cbn [parse_role].
      { split; [intros l E; discriminate|]. unfold publishes. fold descs. rewrite Ed. intros E; discriminate. }
      rewrite <- Ed. clear Ed d0 ds0. split.
      + (* (a) only the issuer's own service with that index *)
        intros l E. apply scan_origin in E. destruct E as [E|[svcs [Hs Ha]]]; [discriminate|].
        apply in_map_iff in Hs. destruct Hs as [d [Hd Hdin]]. apply parse_desc_some in Hd. destruct Hd as [_ ->].
        apply find_svc_In in Ha. destruct Ha as [sv' [Hsv' [Hm Hl]]].
        apply in_map_iff in Hsv'. destruct Hsv' as [sv [Esv Hsv]]. subst sv'. cbn [stripfst fst snd] in Hm, Hl.
        unfold services_for. apply in_map_iff. exists sv. split; [exact Hl|]. apply filter_In. split.
        * apply in_concat. exists d. split; assumption.
        * rewrite idx_matches_nat in Hm. exact Hm.
      + (* (b) exactly that service *)
        intros Hp Hlen. unfold publishes in Hp. fold descs in Hp. apply andb_true_iff in Hp. destruct Hp as [_ Hall].
        unfold services_for in Hlen |- *. rewrite <- matches_denotes in Hlen |- *.
        rewrite (scan_unique _ _ _ None (all_some_parse _ Hall)).
        * rewrite concat_map_map, find_svc_filter, filter_stripfst. f_equal. apply opt_id.
        * rewrite concat_map_map. rewrite <- (map_length (@snd string string)), filter_stripfst. exact Hlen.
    - (* unknown issuer *)
      intros Hnot l E.
      destruct (assoc (sha1 (f_eid x)) (store (f_fed x))) as [v|] eqn:Ea; [|discriminate].
      apply store_origin in Ea. destruct Ea as [e' [Hin' [Hsid _]]]. apply Hnot.
      rewrite <- (Hinj (fe_eid e') (f_eid x)); [apply in_map; exact Hin'|right; apply in_map; exact Hin'|left; reflexivity|exact Hsid].
  Qed.

  (* ---- sequences: construction, reload_metadata, resolutions in any order *)
  Definition res_guard (cur : federation) (eid : string) (idx : nat) (ro : role) : Prop :=
    idx_ok idx = true /\
    (forall a b, In a (eid :: map fe_eid (concat cur)) -> In b (eid :: map fe_eid (concat cur)) -> sha1 a = sha1 b -> a = b).

  Fixpoint seq_guard (cur : federation) (ops : list fop) : Prop :=
    match ops with
    | [] => True
    | OLoad fed :: r => seq_guard fed r
    | OResolve eid _ idx ro :: r => res_guard cur eid idx ro /\ seq_guard cur r
    end.

  Lemma artfed_seq_holds : forall ops cur, seq_guard cur ops -> seq_spec cur ops (run_fed sha1 cur ops).
  Proof.
    induction ops as [|op ops IH]; intros cur Hg; [exact I|].
    destruct op as [fed|eid h idx ro]; cbn [seq_guard run_fed seq_spec] in *.
    - apply IH. exact Hg.
    - destruct Hg as [[H1 H3] Hr]. split; [|apply IH; exact Hr].
      apply (artfed_holds {| f_fed := cur; f_eid := eid; f_idx := idx; f_role := ro |} h H1 H3).
  Qed.

  (* ---- several resolvers, named sources (strengthening round 6) *)
  Fixpoint mseq_guard (st : list (nat * federation)) (ops : list mop) : Prop :=
    match ops with
    | [] => True
    | MLoad rcv cfg :: r => NoDup (map fst cfg) /\ mseq_guard ((rcv, cfg_docs cfg) :: st) r
    | MResolve rcv eid _ idx ro :: r => res_guard (fed_of st rcv) eid idx ro /\ mseq_guard st r
    end.

  Lemma artfed_mseq_holds : forall ops st, mseq_guard st ops -> mseq_spec st ops (run_multi sha1 st ops).
  Proof.
    induction ops as [|op ops IH]; intros st Hg; [exact I|].
    destruct op as [rcv cfg|rcv eid h idx ro]; cbn [mseq_guard run_multi mseq_spec] in *.
    - destruct Hg as [Hn Hr]. rewrite (store_load_distinct cfg Hn). apply IH. exact Hr.
    - destruct Hg as [[H1 H3] Hr]. split; [|apply IH; exact Hr].
      apply (artfed_holds {| f_fed := fed_of st rcv; f_eid := eid; f_idx := idx; f_role := ro |} h H1 H3).
  Qed.

  (* the SourceID table of a resolver is a function of the DOCUMENTS it has loaded, not of what the sources are called:
     two configurations with the same documents under different (distinct) names give the same table *)
  Lemma source_names_irrelevant (cfg cfg' : mdconfig) :
    NoDup (map fst cfg) -> NoDup (map fst cfg') -> map snd cfg = map snd cfg' ->
    store (store_load cfg) = store (store_load cfg').
  Proof. intros H1 H2 E. rewrite (store_load_distinct _ H1), (store_load_distinct _ H2). unfold cfg_docs. rewrite E. reflexivity. Qed.

  (* ---- finding class 6 (repaired by fbf0c2eb): the metadata spells index 1 as "01" (a legal xs:unsignedShort); with
     the text comparison the artifact created with index 1 found no endpoint, although the issuer publishes exactly
     one service with that index.  The repaired code resolves it ([spelling_witness_now]). *)
  Definition spelling_witness : fres_in :=
    {| f_fed := [[ {| fe_eid := "urn:a"; fe_sp := []; fe_idp := [[("01", "https://a.example.org/ars")]] |} ]];
       f_eid := "urn:a"; f_idx := 1; f_role := RIdp |}.

  Lemma spelling_witness_store :
    store (f_fed spelling_witness) = [(sha1 "urn:a", (None, Some [Some [("01", "https://a.example.org/ars")]]))].
  Proof. reflexivity. Qed.

  Lemma artfed_v0_refuted : exists x handle,
    idx_ok (f_idx x) = true /\
    (forall a b, In a (f_eid x :: map fe_eid (fed_ents x)) -> In b (f_eid x :: map fe_eid (fed_ents x)) -> sha1 a = sha1 b -> a = b) /\
    spelling_ok x = false /\
    ~ artfed_spec x (resolve_in_v0 sha1 (f_fed x) (f_role x) (create_artifact sha1 (f_eid x) handle (f_idx x))).
  Proof.
    exists spelling_witness, "01234567890123456789". split; [reflexivity|]. split.
    { cbn. intros a b [<-|[<-|[]]] [<-|[<-|[]]] _; reflexivity. }
    split; [vm_compute; reflexivity|].
    intros H. assert (H1 : f_idx spelling_witness < 256) by (cbn; lia). rewrite (resolve_unfold_v0 _ _ _ _ _ H1) in H.
    rewrite spelling_witness_store in H. cbn [f_eid spelling_witness assoc] in H. rewrite String.eqb_refl in H.
    cbn [f_role view_role snd] in H.
    apply artfed_spec_b_iff in H. revert H. vm_compute. discriminate.
  Qed.

  Lemma spelling_witness_now handle :
    resolve_in sha1 (f_fed spelling_witness) (f_role spelling_witness)
               (create_artifact sha1 (f_eid spelling_witness) handle (f_idx spelling_witness))
    = AOk (Some "https://a.example.org/ars").
  Proof.
    assert (H1 : f_idx spelling_witness < 256) by (cbn; lia). rewrite (resolve_unfold _ _ _ _ _ H1).
    rewrite spelling_witness_store. cbn [f_eid spelling_witness assoc]. rewrite String.eqb_refl. reflexivity.
  Qed.
End Fed.

(* ================================================================== non-vacuity *)

(* a toy digest that is collision-free on the entityIDs used below *)
Definition toy_sha1_fed (e : string) : string := take 20 (e ++ "....................").

Example artfed_example :
  let fed := [[ {| fe_eid := "urn:a"; fe_sp := []; fe_idp := [[("0", "A0"); ("1", "A1")]] |};
                {| fe_eid := "urn:b"; fe_sp := [[(" 1", "B1s")]]; fe_idp := [[("0", "B0")]; [("1", "B1")]] |} ];
              [ {| fe_eid := "urn:c"; fe_sp := [[]]; fe_idp := [] |} ]] in
  run_fed toy_sha1_fed [] [OLoad fed; OResolve "urn:a" "abcdefghijklmnopqrst" 1 RIdp; OResolve "urn:b" "abcdefghijklmnopqrst" 1 RSp;
                           OResolve "urn:b" "abcdefghijklmnopqrst" 1 RIdp; OResolve "urn:c" "abcdefghijklmnopqrst" 0 RSp;
                           OLoad [[]]; OResolve "urn:a" "abcdefghijklmnopqrst" 1 RIdp]
  = [AOk (Some "A1"); AOk (Some "B1s"); AOk (Some "B1"); AErr; AErr]
  /\ seq_guard toy_sha1_fed [] [OLoad fed; OResolve "urn:a" "abcdefghijklmnopqrst" 1 RIdp; OResolve "urn:b" "abcdefghijklmnopqrst" 1 RSp].
Proof.
  split; [vm_compute; reflexivity|].
  cbn [seq_guard]. unfold res_guard. repeat split; try (vm_compute; reflexivity).
  - intros a b Ha Hb. cbn in Ha, Hb.
    repeat (destruct Ha as [<-|Ha]; [repeat (destruct Hb as [<-|Hb]; [vm_compute; intros E; try reflexivity; discriminate|]); contradiction|]).
    contradiction.
  - intros a b Ha Hb. cbn in Ha, Hb.
    repeat (destruct Ha as [<-|Ha]; [repeat (destruct Hb as [<-|Hb]; [vm_compute; intros E; try reflexivity; discriminate|]); contradiction|]).
    contradiction.
Qed.
