(* C14/Property.v — property theorems only. *)
From Coq Require Import String Ascii List Bool.
From Coq Require Import ZArith.
From Verif Require Import Base.Str Base.Py Base.Py2 Base.Percent Base.Base64 Base.Html Base.Query C14.Model C14.Spec C14.Proofs C14.FedProofs C14.Source C14.Source2.
From VerifGen Require Import C14Src C14Src2.
Import ListNotations.

(* ---- the codecs, for every byte string *)

Theorem c14_b64_roundtrip : forall b, decode (encode b) = Some b.
Proof. exact b64_decode_encode. Qed.
Print Assumptions c14_b64_roundtrip.

Theorem c14_b64_alphabet : forall b, all_chars b64_alphabet (encode b) = true.
Proof. exact encode_alphabet. Qed.
Print Assumptions c14_b64_alphabet.

(* html.escape output has no angle bracket, double or single quote, and every ampersand starts
   one of its five entities *)
Theorem c14_escape_inert : forall s, all_chars html_inert_char (escape s) = true /\ amps_ok (escape s) = true.
Proof. intros s. split; [apply escape_no_special|apply escape_amps_ok]. Qed.
Print Assumptions c14_escape_inert.

Theorem c14_unescape_escape : forall s, unescape (escape s) = s.
Proof. exact unescape_escape. Qed.
Print Assumptions c14_unescape_escape.

(* a receiver's parse_qsl of a urlencode'd dict returns the dict: no key or value (RelayState
   included) can add, drop or change a parameter *)
Theorem c14_query_params : forall l, parse_qsl (urlencode l) = nonblank l.
Proof. exact parse_qsl_urlencode. Qed.
Print Assumptions c14_query_params.

(* ---- HTTP-POST *)

(* the emitted document read by the strict HTML reader: exactly this tag list, with the caller's
   strings as attribute values and nowhere else — for all strings *)
Theorem c14_form_inert : forall payload loc rs typ,
  read_html (form_of payload loc rs typ) = Some (form_tokens payload loc rs typ).
Proof. exact read_form. Qed.
Print Assumptions c14_form_inert.

(* form well-formed and inert, and the receiver's unravel returns the message byte for byte
   (zlib abstract: the message must not itself be a complete raw DEFLATE stream) *)
Theorem c14_post : forall (inflate soap_parse : string -> option string) x,
  inflate (p_msg x) = None ->
  post_spec x (http_form_post_message (p_msg x) (p_loc x) (p_rs x) (p_typ x))
              (post_received inflate soap_parse (p_msg x) (p_typ x)).
Proof. exact post_holds. Qed.
Print Assumptions c14_post.

(* receivers also understand senders that deflate the POST payload *)
Theorem c14_post_deflated : forall deflate (inflate soap_parse : string -> option string),
  (forall m, inflate (deflate m) = Some m) ->
  forall m, unravel inflate soap_parse (deflate_and_base64_encode deflate m) BPost = UOk m.
Proof. exact post_roundtrip_deflated. Qed.
Print Assumptions c14_post_deflated.

Theorem c14_post_spec_reflect : forall x form received, post_spec_b x form received = true <-> post_spec x form received.
Proof. exact post_spec_b_iff. Qed.
Print Assumptions c14_post_spec_reflect.

(* ---- HTTP-Redirect *)

(* pack.add_query: for every destination and every urlencode'd parameter string, the parameters
   land in the query component behind the destination's own parameters; scheme/host/path and
   fragment are untouched.  (No restriction on '#', on an existing query or on a trailing '?' / '&'
   any more: classes 2, 3 and 5 are repaired.) *)
Theorem c14_add_query : forall loc s,
  all_chars qs_alphabet s = true ->
  parse_qsl (url_query (add_query loc s)) = (parse_qsl (url_query loc) ++ parse_qsl s)%list
  /\ url_base (add_query loc s) = url_base loc
  /\ url_fragment (add_query loc s) = url_fragment loc.
Proof. exact add_query_delivers. Qed.
Print Assumptions c14_add_query.

(* the URL names the destination, keeps its parameters and its fragment and adds exactly
   (typ, payload) and RelayState; unravel of the payload is the message *)
Theorem c14_redirect : forall deflate (inflate soap_parse : string -> option string),
  (forall m, inflate (deflate m) = Some m) ->
  forall x,
  redir_spec x (http_redirect_message deflate (r_msg x) (r_loc x) (r_rs x) (r_typ x))
               (redirect_received deflate inflate soap_parse (r_msg x)).
Proof. exact redir_holds. Qed.
Print Assumptions c14_redirect.

Theorem c14_redirect_payload_nonblank : forall deflate (inflate : string -> option string),
  (forall m, inflate (deflate m) = Some m) -> inflate EmptyString = None ->
  forall m, deflate_and_base64_encode deflate m <> EmptyString.
Proof. exact redirect_payload_nonblank. Qed.
Print Assumptions c14_redirect_payload_nonblank.

(* finding class 5 (repaired by d9426b2c): a destination whose query component ends in '?' *)
Theorem c14_redirect_qm_tail_v1_refuted : forall deflate (inflate soap_parse : string -> option string),
  exists x, ~ redir_spec x (http_redirect_message_v1 deflate (r_msg x) (r_loc x) (r_rs x) (r_typ x))
                           (redirect_received deflate inflate soap_parse (r_msg x)).
Proof. exact redir_qm_tail_v1_refuted. Qed.
Print Assumptions c14_redirect_qm_tail_v1_refuted.

(* finding class 2 (repaired by fc5e66e9): the property was false of the code as it was — destination
   with a fragment / ending in a bare '?' *)
Theorem c14_redirect_fragment_v0_refuted : forall deflate (inflate soap_parse : string -> option string),
  exists x, ~ redir_spec x (http_redirect_message_v0 deflate (r_msg x) (r_loc x) (r_rs x) (r_typ x))
                           (redirect_received deflate inflate soap_parse (r_msg x)).
Proof. exact redir_fragment_v0_refuted. Qed.
Print Assumptions c14_redirect_fragment_v0_refuted.

Theorem c14_redirect_bare_qm_v0_refuted : forall deflate (inflate soap_parse : string -> option string),
  exists x, ~ redir_spec x (http_redirect_message_v0 deflate (r_msg x) (r_loc x) (r_rs x) (r_typ x))
                           (redirect_received deflate inflate soap_parse (r_msg x)).
Proof. exact redir_bare_qm_v0_refuted. Qed.
Print Assumptions c14_redirect_bare_qm_v0_refuted.

Theorem c14_redirect_spec_reflect : forall x url received, redir_spec_b x url received = true <-> redir_spec x url received.
Proof. exact redir_spec_b_iff. Qed.
Print Assumptions c14_redirect_spec_reflect.

(* ---- artifact URL (use_http_artifact) and URI binding URL (use_http_uri) *)

Theorem c14_artifact_url : forall x,
  arturl_spec x (use_http_artifact (u_art x) (u_dest x) (u_rs x)).
Proof. exact arturl_holds. Qed.
Print Assumptions c14_artifact_url.

Theorem c14_uri_url : forall x,
  uriurl_spec x (use_http_uri (i_id x) (i_dest x) (i_rs x)).
Proof. exact uriurl_holds. Qed.
Print Assumptions c14_uri_url.

(* finding class 5 (repaired by d9426b2c) *)
Theorem c14_artifact_url_qm_tail_v1_refuted : exists x, ~ arturl_spec x (use_http_artifact_v1 (u_art x) (u_dest x) (u_rs x)).
Proof. exact arturl_qm_tail_v1_refuted. Qed.
Print Assumptions c14_artifact_url_qm_tail_v1_refuted.

(* finding class 3 (repaired by fc5e66e9) *)
Theorem c14_artifact_url_v0_refuted : exists x, ~ arturl_spec x (use_http_artifact_v0 (u_art x) (u_dest x) (u_rs x)).
Proof. exact arturl_v0_refuted. Qed.
Print Assumptions c14_artifact_url_v0_refuted.

Theorem c14_artifact_url_spec_reflect : forall x url, arturl_spec_b x url = true <-> arturl_spec x url.
Proof. exact arturl_spec_b_iff. Qed.
Print Assumptions c14_artifact_url_spec_reflect.

Theorem c14_uri_url_spec_reflect : forall x url, uriurl_spec_b x url = true <-> uriurl_spec x url.
Proof. exact uriurl_spec_b_iff. Qed.
Print Assumptions c14_uri_url_spec_reflect.

(* ---- SOAP *)

(* the envelope carries the body verbatim; with or without an XML declaration, on one line or
   several, whatever text the body contains *)
Theorem c14_soap : forall t, soap_spec t (make_soap t).
Proof. exact soap_holds. Qed.
Print Assumptions c14_soap.

Theorem c14_soap_shapes : forall t b, msg_body t b -> body_of t = Some b.
Proof. exact msg_body_body_of. Qed.
Print Assumptions c14_soap_shapes.

(* finding class 4 (repaired by 9f16767d): declaration text inside the body was deleted *)
Theorem c14_soap_v0_refuted : exists t, ~ soap_spec t (make_soap_v0 t).
Proof. exact soap_v0_refuted. Qed.
Print Assumptions c14_soap_v0_refuted.

Theorem c14_soap_spec_reflect : forall t env, soap_spec_b t env = true <-> soap_spec t env.
Proof. exact soap_spec_b_iff. Qed.
Print Assumptions c14_soap_spec_reflect.

(* ---- artifacts *)

(* outside finding class 1 (open; index < 256): the artifact resolves to its issuer and its index *)
Theorem c14_artifact_roundtrip : forall (sha1 : string -> string),
  (forall e, String.length (sha1 e) = 20) ->
  forall x, idx_ok (a_idx x) = true -> a_sid x = sha1 (a_eid x) ->
  art_spec x (artifact2destination (a_sm x) (create_artifact sha1 (a_eid x) (a_handle x) (a_idx x))).
Proof. exact art_holds. Qed.
Print Assumptions c14_artifact_roundtrip.

(* finding class 1: create_artifact writes index 256 with three characters *)
Theorem c14_artifact_refuted : forall (sha1 : string -> string),
  (forall e, String.length (sha1 e) = 20) ->
  exists x, a_sid x = sha1 (a_eid x) /\
    ~ art_spec x (artifact2destination (a_sm x) (create_artifact sha1 (a_eid x) (a_handle x) (a_idx x))).
Proof. exact art_refuted_len. Qed.
Print Assumptions c14_artifact_refuted.

Theorem c14_artifact_spec_reflect : forall x dest, art_spec_b x dest = true <-> art_spec x dest.
Proof. exact art_spec_b_iff. Qed.
Print Assumptions c14_artifact_spec_reflect.

(* ---- artifacts through the resolver's metadata: from the metadata DOCUMENTS (any number of documents, any
   number of entities per document, any document order; SP and IdP roles, several descriptors per role) over
   Entity.sourceid (InMemoryMetaData.construct_source_id, MetadataStore.construct_source_id) to
   Entity.artifact2destination *)

(* the SourceID table: with distinct entityIDs and no SHA-1 collision among them, every entity that publishes an
   ArtifactResolutionService in some role sits in the table under its own SourceID with its OWN record ... *)
Theorem c14_source_id_table_complete : forall (sha1 : string -> string) (fed : federation) (e : fent),
  NoDup (map fe_eid (concat fed)) ->
  (forall a b, In a (map fe_eid (concat fed)) -> In b (map fe_eid (concat fed)) -> sha1 a = sha1 b -> a = b) ->
  In e (concat fed) -> ent_has_ars e = true ->
  assoc (sha1 (fe_eid e)) (store_source_id sha1 fed) = Some (parse_ent e).
Proof. exact store_complete. Qed.
Print Assumptions c14_source_id_table_complete.

(* ... and every entry of the table is the record of an entity of the metadata, filed under that entity's SourceID *)
Theorem c14_source_id_table_sound : forall (sha1 : string -> string) (fed : federation) sid v,
  assoc sid (store_source_id sha1 fed) = Some v ->
  exists e, In e (concat fed) /\ sha1 (fe_eid e) = sid /\ parse_ent e = v /\ ent_has_ars e = true.
Proof. exact store_origin. Qed.
Print Assumptions c14_source_id_table_sound.

(* outside finding class 1 (index >= 256, open) - and, since fbf0c2eb, for every legal spelling of the index
   attribute (class 6 is repaired: no premise about spelling) -: the
   artifact resolves to the ISSUER's endpoint with the index it was created with, to nobody else's endpoint and to
   no other index; an artifact of an unknown issuer resolves to nobody's endpoint *)
Theorem c14_artifact_federation : forall (sha1 : string -> string),
  (forall e, String.length (sha1 e) = 20) ->
  forall x handle,
  idx_ok (f_idx x) = true ->
  (forall a b, In a (f_eid x :: map fe_eid (fed_ents x)) -> In b (f_eid x :: map fe_eid (fed_ents x)) ->
               sha1 a = sha1 b -> a = b) ->
  artfed_spec x (resolve_in sha1 (f_fed x) (f_role x) (create_artifact sha1 (f_eid x) handle (f_idx x))).
Proof. exact artfed_holds. Qed.
Print Assumptions c14_artifact_federation.

(* the same for every sequence of constructions / metadata reloads and resolutions on a long-lived resolver:
   each resolution is right with respect to the metadata loaded most recently *)
Theorem c14_artifact_federation_sequences : forall (sha1 : string -> string),
  (forall e, String.length (sha1 e) = 20) ->
  forall ops cur, seq_guard sha1 cur ops -> seq_spec cur ops (run_fed sha1 cur ops).
Proof. exact artfed_seq_holds. Qed.
Print Assumptions c14_artifact_federation_sequences.

(* several long-lived resolvers in one process, each configured with NAMED metadata sources (files, URLs, loaders,
   inline documents): for every interleaving of loads (construction, reload_metadata, a new Entity on a reloaded
   store) and resolutions, each resolution is right with respect to the documents of the configuration which the
   resolver that performs it has loaded most recently — whatever the sources are called (the same names as before
   or new ones), whatever was loaded before, whatever other resolvers have loaded *)
Theorem c14_artifact_federation_receivers : forall (sha1 : string -> string),
  (forall e, String.length (sha1 e) = 20) ->
  forall ops st, mseq_guard sha1 st ops -> mseq_spec st ops (run_multi sha1 st ops).
Proof. exact artfed_mseq_holds. Qed.
Print Assumptions c14_artifact_federation_receivers.

(* the SourceID table is a function of the documents, not of the names of the sources *)
Theorem c14_source_names_irrelevant : forall (sha1 : string -> string) (cfg cfg' : mdconfig),
  NoDup (map fst cfg) -> NoDup (map fst cfg') -> map snd cfg = map snd cfg' ->
  store_source_id sha1 (store_load cfg) = store_source_id sha1 (store_load cfg').
Proof. exact source_names_irrelevant. Qed.
Print Assumptions c14_source_names_irrelevant.

(* finding class 6 (repaired by fbf0c2eb): index="01" in the metadata, artifact created with index 1 -> the code
   before the repair (text comparison, resolve_in_v0) found no destination ... *)
Theorem c14_artifact_index_spelling_v0_refuted : forall (sha1 : string -> string),
  (forall e, String.length (sha1 e) = 20) ->
  exists x handle,
    idx_ok (f_idx x) = true /\
    (forall a b, In a (f_eid x :: map fe_eid (fed_ents x)) -> In b (f_eid x :: map fe_eid (fed_ents x)) ->
                 sha1 a = sha1 b -> a = b) /\
    spelling_ok x = false /\
    ~ artfed_spec x (resolve_in_v0 sha1 (f_fed x) (f_role x) (create_artifact sha1 (f_eid x) handle (f_idx x))).
Proof. exact artfed_v0_refuted. Qed.
Print Assumptions c14_artifact_index_spelling_v0_refuted.

(* ... and the code as it is now resolves that witness to the issuer's endpoint *)
Theorem c14_artifact_index_spelling_now : forall (sha1 : string -> string),
  (forall e, String.length (sha1 e) = 20) ->
  forall handle,
    resolve_in sha1 (f_fed spelling_witness) (f_role spelling_witness)
               (create_artifact sha1 (f_eid spelling_witness) handle (f_idx spelling_witness))
    = AOk (Some "https://a.example.org/ars").
Proof. exact spelling_witness_now. Qed.
Print Assumptions c14_artifact_index_spelling_now.

Theorem c14_artifact_federation_spec_reflect : forall x dest, artfed_spec_b x dest = true <-> artfed_spec x dest.
Proof. exact artfed_spec_b_iff. Qed.
Print Assumptions c14_artifact_federation_spec_reflect.

(* tie to the source TEXT: pack.add_query as translated from /repo's current source on this run
   (coq/gen/C14Src.v, harness/py2coq.py) computes the model's add_query for every destination and query *)
Theorem c14_source_add_query : forall loc q, src_add_query (PStr loc) (PStr q) = PStr (add_query loc q).
Proof. exact src_add_query_is_model. Qed.
Print Assumptions c14_source_add_query.

(* ---- tie to the source TEXT, translator v2 (harness/py2coq2.py, Base/Py2.v): the functions below are re-translated
   from /repo's current source on every run (coq/gen/C14Src2.v); each computes, on the encoding of every input of
   the model's domain, the encoding of the model's output.  External calls are hypotheses (C14/Source2.v shows
   each set satisfiable). *)

Theorem c14_source2_add_query : forall loc q, src2_add_query (PStr loc) (PStr q) = PStr (add_query loc q).
Proof. exact src2_add_query_is_model. Qed.
Print Assumptions c14_source2_add_query.

Theorem c14_source2_html_escape : forall html_escape : pyval -> pyval -> pyval,
  (forall s, html_escape (PStr s) (PBool true) = PStr (escape s)) ->
  forall s, src2_html_escape html_escape (PStr s) = PStr (escape s).
Proof. exact src2_html_escape_is_model. Qed.
Print Assumptions c14_source2_html_escape.

Theorem c14_source2_http_form_post_message :
  forall (html_escape : pyval -> pyval -> pyval) (b64encode : pyval -> pyval) (str_encode bytes_decode : pyval -> pyval -> pyval),
  (forall s, html_escape (PStr s) (PBool true) = PStr (escape s)) ->
  (forall s, b64encode (PStr s) = PStr (encode s)) ->
  (forall s, str_encode (PStr s) (PStr "utf-8") = PStr s) ->
  (forall s, bytes_decode (PStr s) (PStr "ascii")
             = if all_chars is_ascii_char s then PStr s else PExc "UnicodeDecodeError") ->
  forall (msg loc rs typ : string) (kw : pyval),
    src2_http_form_post_message html_escape b64encode str_encode bytes_decode (PStr msg) (PStr loc) (PStr rs) (PStr typ) kw
    = enc_post (http_form_post_message msg loc rs typ).
Proof. exact src2_http_form_post_message_is_model. Qed.
Print Assumptions c14_source2_http_form_post_message.

Theorem c14_source2_http_redirect_message :
  forall (py_urlencode deflate_b64 : pyval -> pyval) (deflate : string -> string),
  (forall l, py_urlencode (enc_args l) = PStr (urlencode l)) ->
  (forall m, deflate_b64 (PStr m) = PStr (deflate_and_base64_encode deflate m)) ->
  forall (msg loc rs typ : string) (sigalg sign backend sig_allowed_alg : pyval) (ext : string -> list pyval -> pyval),
    is_bad sign = false -> py_truthy sign = false ->
    src2_http_redirect_message py_urlencode deflate_b64 sig_allowed_alg ext
      (PStr msg) (PStr loc) (PStr rs) (PStr typ) sigalg sign backend
    = enc_redirect (http_redirect_message deflate msg loc rs typ).
Proof. exact src2_http_redirect_message_is_model. Qed.
Print Assumptions c14_source2_http_redirect_message.

Theorem c14_source2_use_http_artifact : forall py_urlencode : pyval -> pyval,
  (forall l, py_urlencode (enc_args l) = PStr (urlencode l)) ->
  forall art dest rs,
    src2_use_http_artifact py_urlencode (PStr art) (PStr dest) (PStr rs) = enc_url_info (use_http_artifact art dest rs).
Proof. exact src2_use_http_artifact_is_model. Qed.
Print Assumptions c14_source2_use_http_artifact.

Theorem c14_source2_use_http_uri : forall py_urlencode : pyval -> pyval,
  (forall l, py_urlencode (enc_args l) = PStr (urlencode l)) ->
  forall ident dest rs, uri_msg_ok ident = true ->
    src2_use_http_uri py_urlencode (PStr ident) (PStr "SAMLRequest") (PStr dest) (PStr rs)
    = enc_url_info (use_http_uri ident dest rs).
Proof. exact src2_use_http_uri_is_model. Qed.
Print Assumptions c14_source2_use_http_uri.

Theorem c14_source2_use_http_uri_other_typ : forall (py_urlencode : pyval -> pyval) ident typ dest rs,
  uri_msg_ok ident = true -> String.eqb typ "SAMLResponse" = false -> String.eqb typ "SAMLRequest" = false ->
  src2_use_http_uri py_urlencode (PStr ident) (PStr typ) (PStr dest) (PStr rs) = PExc "NotImplementedError".
Proof. exact src2_use_http_uri_other_typ. Qed.
Print Assumptions c14_source2_use_http_uri_other_typ.

Theorem c14_source2_decode_base64_and_inflate :
  forall (b64decode : pyval -> pyval) (zlib_decompress : pyval -> pyval -> pyval) (inflate : string -> option string),
  (forall s d, decode_str s = Some d -> b64decode (PStr s) = PStr d) ->
  (forall s, decode_str s = None -> exists n, b64decode (PStr s) = PExc n /\ n <> "error") ->
  (forall d, zlib_decompress (PStr d) (PInt (-15)) = match inflate d with Some m => PStr m | None => PExc "error" end) ->
  forall txt,
    dres_is (decode_base64_and_inflate inflate txt) (src2_decode_base64_and_inflate b64decode zlib_decompress (PStr txt)).
Proof. exact src2_decode_base64_and_inflate_is_model. Qed.
Print Assumptions c14_source2_decode_base64_and_inflate.

Theorem c14_source2_unravel :
  forall (b64decode : pyval -> pyval) (zlib_decompress : pyval -> pyval -> pyval) (soap_mod : pyval)
         (call_fn : pyval -> pyval -> pyval) (inflate soap_parse : string -> option string) (msgtype : string) (soap_fn : pyval),
  (forall s d, decode_str s = Some d -> b64decode (PStr s) = PStr d) ->
  (forall s, decode_str s = None -> exists n, b64decode (PStr s) = PExc n /\ n <> "error") ->
  (forall d, zlib_decompress (PStr d) (PInt (-15)) = match inflate d with Some m => PStr m | None => PExc "error" end) ->
  p2_getattr_dyn false soap_mod (PStr ("parse_soap_enveloped_saml_" ++ msgtype)) = soap_fn /\ is_bad soap_fn = false ->
  (forall txt m, soap_parse txt = Some m -> call_fn soap_fn (PStr txt) = PStr m) ->
  (forall txt, soap_parse txt = None -> exists n, call_fn soap_fn (PStr txt) = PExc n) ->
  forall (txt : string) (b : option string),
    src2_unravel b64decode zlib_decompress soap_mod call_fn (PStr txt) (enc_binding b) (PStr msgtype)
    = enc_ures (unravel inflate soap_parse txt (binding_of b)).
Proof. exact src2_unravel_is_model. Qed.
Print Assumptions c14_source2_unravel.

Theorem c14_source2_artifact2destination :
  forall (b64decode : pyval -> pyval) (int_base : pyval -> pyval -> pyval) (int_dec str_isascii str_isdigit : pyval -> pyval),
  (forall s d, decode_str s = Some d -> b64decode (PStr s) = PStr d) ->
  (forall s, decode_str s = None -> exists n, b64decode (PStr s) = PExc n) ->
  (forall b, String.length b <= 2 ->
     int_base (PStr b) (PInt 16) = match int16_z b with Some z => PInt z | None => PExc "ValueError" end) ->
  (forall s, str_isascii (PStr s) = PBool (Py2.all_ascii s)) ->
  (forall s, Py2.all_ascii s = true ->
     str_isdigit (PStr s) = PBool (match dec_value s with Some _ => true | None => false end)) ->
  (forall s v, dec_value s = Some v -> int_dec (PStr s) = PInt (Z.of_nat v)) ->
  forall (sm : sourcemap) (art dname : string), sm_ok sm = true -> art_ascii art = true ->
    ares_is (artifact2destination sm art)
            (src2_artifact2destination b64decode int_base int_dec str_isascii str_isdigit (enc_self dname sm) (PStr art) (PStr dname)).
Proof. exact src2_artifact2destination_is_model. Qed.
Print Assumptions c14_source2_artifact2destination.

(* the model's str(int(b, 16)) is the decimal text of the int the hypothesis above speaks about *)
Theorem c14_source2_int16 : forall b, int16_str b = option_map dec_of_Z (int16_z b).
Proof. exact int16_str_z. Qed.
Print Assumptions c14_source2_int16.

(* MetadataStore.construct_source_id as it reads NOW (round 6): on a store that holds the named sources cfg, it returns
   the model's table of the documents — one dict.update per source in the order of self.metadata, and nothing else:
   no state of the store other than the sources it holds now enters (a table kept from an earlier call, keyed by the
   names of the sources or by anything else, cannot satisfy this for two configurations with the same names and
   different documents).  The per-source InMemoryMetaData.construct_source_id is the hypothesis md_csi. *)
Theorem c14_source2_store_construct_source_id :
  forall (sha1 : string -> string) (md_csi : pyval -> pyval) (enc_md : source -> pyval),
  (forall e, String.length (sha1 e) = 20) ->
  (forall src, md_csi (enc_md src) = PObj (enc_table (construct_source_id sha1 src))) ->
  forall cfg : mdconfig, names_ok cfg = true ->
  src2_store_construct_source_id md_csi (enc_store enc_md cfg)
  = PObj (enc_table (store_source_id sha1 (map snd cfg))).
Proof. exact src2_store_source_id. Qed.
Print Assumptions c14_source2_store_construct_source_id.
