(* C01/Source2pa.v — source tie of response.py AuthnResponse.parse_assertion (round 5, follow-up).

   coq/gen/C01Src2a.v is re-translated from the source text of /repo on every run (translator v2 after the three
   rewrites of harness/c01.py:_DesugarPA; the two `while` loops are recursion on the extra parameter `fuel`, out of
   fuel = PErr).  It is run here on Responses with a LIST of assertions and proved equal to the walk of
   Model.verify_all (number rule, plain assertions, decryption loop, signatures of all decrypted assertions, their
   remaining checks; the first failure decides), with the NAME of the exception, and - on success - with what is left
   in self.assertions / self.assertion / self.response / self.xmlstr.

   The external calls are the functions ext_* below.  The decryption ENGINE among them works on the text of the
   document: decrypt_keys opens ONE EncryptedData - the first that is still closed - per call and raises DecryptError
   when there is none; response_from_string reads the text as it then is; find_encrypt_data says whether an
   EncryptedAssertion with an EncryptedData is left.  _assertion / decrypt_assertions answer what Model.run_chk says
   (theorem c01_source2_assertion ties _assertion itself; C16 ties decrypt_assertions).

   The walk ends with the repaired number rule of /repo fix 6a3bb24f (more than one processed assertion in a Response
   without signature -> InvalidAssertion): Model.KNumber.

   Proof: ONE evaluation over all lists of at most 3 assertions (each: 5 findings x issuer comparison x plain /
   encrypted = 20; 8421 lists) x the requirement flag x Response signed or not, with the fuel `bound + n` for a FREE n: the loops end within
   the bound, so the stuck `pywhile2 n` never shows and the result holds for every fuel above the bound. *)
Set Default Timeout 20.
From Coq Require Import String Ascii List Bool ZArith Arith Lia.
From Verif Require Import Base.Str Base.Py Base.Py2 C01.Model C01.Spec C01.Proofs C01.Source2.
From VerifGen Require Import C01Src2a.
Import ListNotations.
Open Scope string_scope.

(* ================================================================================================ *)
(* the walk of Model.verify_all with the NAME of the exception *)

(* one assertion of the list as the walk sees it: what is found on its signature, the issuer comparison, sent encrypted *)
Definition item := (sres * bool * bool)%type.
Definition i_s (x : item) : sres := fst (fst x).
Definition i_im (x : item) : bool := snd (fst x).
Definition i_enc (x : item) : bool := snd x.

Definition items_of (only_md : bool) (mm : mmsg) : list item :=
  map (fun x => (x_find only_md mm x, x_im mm x, x_enc x)) (mm_asl mm).

(* rsigned: the Response element carries a ds:Signature (fix 6a3bb24f: the last check of the walk) *)
Definition sched_of (rsigned : bool) (l : list item) : list chk :=
  map (fun x => KPlain (i_s x) (i_im x)) (filter (fun x => negb (i_enc x)) l)
  ++ map (fun x => KDecrypted (i_s x)) (filter i_enc l)
  ++ map (fun x => KRest (i_s x) (i_im x)) (filter i_enc l)
  ++ [KNumber (Nat.ltb 1 (length l) && negb rsigned)].
Definition r_signed (mm : mmsg) : bool := match mm_rs mm with Some _ => true | None => false end.
Definition count_items (l : list item) : bool :=
  Nat.eqb (length (filter (fun x => negb (i_enc x)) l)) 1 || Nat.eqb (length (filter i_enc l)) 1.

Lemma filter_map_comm {A B} (f : A -> B) (p : B -> bool) l : filter p (map f l) = map f (filter (fun x => p (f x)) l).
Proof. induction l as [|x l IH]; [reflexivity|]. cbn. destruct (p (f x)); cbn; rewrite IH; reflexivity. Qed.

Lemma sched_of_items only mm : sched_of (r_signed mm) (items_of only mm) = schedule only mm.
Proof.
  unfold sched_of, items_of, schedule, schedule_v0, several_unsigned, r_signed, plain_of, enc_of, is_plain.
  rewrite !filter_map_comm, !map_map, map_length, <- !app_assoc.
  destruct (mm_rs mm); reflexivity.
Qed.

Lemma count_items_of only mm : count_items (items_of only mm) = count_ok (mm_asl mm).
Proof.
  unfold count_items, items_of, count_ok, plain_of, enc_of, is_plain.
  rewrite !filter_map_comm, !map_length. reflexivity.
Qed.

(* the exception a failed check ends with (verify_exc: Source2.v, tied to _assertion by c01_source2_assertion) *)
Definition chk_exc (q : bool) (k : chk) : option string :=
  match k with
  | KPlain s im => verify_exc q s im
  | KDecrypted s => match s with SMissingKey => Some "MissingKey" | SSigErr => Some "SignatureError" | SCrash => Some "AttributeError"
                                 | SAbsent | SOk => None end
  | KRest s im => match s with
                  | SAbsent => if q then Some "SignatureError" else if im then None else Some "VerificationError"
                  | _ => if im then None else Some "VerificationError"
                  end
  | KNumber bad => if bad then Some "InvalidAssertion" else None
  end.
Fixpoint first_exc (l : list (option string)) : option string :=
  match l with [] => None | None :: l' => first_exc l' | Some n :: _ => Some n end.
Definition verify_all_exc (q : bool) (ok_count : bool) (sch : list chk) : option string :=
  if negb ok_count then Some "InvalidAssertion" else first_exc (map (chk_exc q) sch).

(* how the handlers of _parse_response class an exception: SignatureError / another SigverError / anything else *)
Definition outcome_of_name (n : option string) : outcome :=
  match n with
  | None => Done
  | Some s => if String.eqb s "SignatureError" then SignatureErr else if String.eqb s "MissingKey" then SigverErr else OtherErr
  end.

Lemma chk_exc_outcome q k : outcome_of_name (chk_exc q k) = run_chk q k.
Proof. destruct k as [s im|s|s im|b]; [destruct q, s, im | destruct s | destruct q, s, im | destruct b]; reflexivity. Qed.

Lemma first_exc_outcome q sch : outcome_of_name (first_exc (map (chk_exc q) sch)) = first_err (map (run_chk q) sch).
Proof.
  induction sch as [|k sch IH]; [reflexivity|]. cbn [map first_exc first_err].
  rewrite <- (chk_exc_outcome q k). destruct (chk_exc q k) as [n|]; [|exact IH].
  cbn [outcome_of_name]. destruct (String.eqb n "SignatureError"); [reflexivity|]. destruct (String.eqb n "MissingKey"); reflexivity.
Qed.

Lemma verify_all_exc_outcome q okc sch : outcome_of_name (verify_all_exc q okc sch) = verify_all q okc sch.
Proof. unfold verify_all_exc, verify_all. destruct okc; cbn [negb]; [apply first_exc_outcome | reflexivity]. Qed.

(* ================================================================================================ *)
(* encodings *)

Definition all_items1 : list (sres * bool) :=
  flat_map (fun s => [(s, false); (s, true)]) all_sres.
Definition code_of (s : sres) (im : bool) : Z :=
  (match s with SAbsent => 0 | SOk => 2 | SMissingKey => 4 | SSigErr => 6 | SCrash => 8 end + (if im then 1 else 0))%Z.
Definition decode (z : Z) : sres * bool := nth (Z.to_nat z) all_items1 (SCrash, false).

(* a parsed saml:Assertion (no saml:Advice) *)
Definition mk_asn (z : Z) : pyval := PObj [("__class__", PStr "Assertion"); ("code", PInt z); ("advice", PNone)].
Definition asn_of_code (v : pyval) : pyval := match v with PInt z => mk_asn z | _ => PErr end.

(* the EncryptedAssertion elements of the document as parsed: the first j are open (the Assertion is an extension
   element, no EncryptedData any more), the others still hold their EncryptedData *)
Fixpoint mk_encs (j : nat) (es : list pyval) : list pyval :=
  match es with
  | [] => []
  | e :: es' =>
      match j with
      | S j' => PObj [("__class__", PStr "EncryptedAssertion"); ("encrypted_data", PNone); ("extension_elements", PList [asn_of_code e])]
                :: mk_encs j' es'
      | O => PObj [("__class__", PStr "EncryptedAssertion"); ("encrypted_data", PObj [("__class__", PStr "EncryptedData")]);
                   ("extension_elements", PList [])] :: mk_encs O es'
      end
  end.

(* the TEXT of the document: how many EncryptedData have been opened, the plain assertions, the encrypted ones, whether the
   Response element carries a ds:Signature *)
Definition mk_text (rsigned : bool) (j : nat) (ps es : list pyval) : pyval :=
  PList [PInt (Z.of_nat j); PList ps; PList es; PBool rsigned].

(* samlp.response_from_string *)
Definition ext_response_from_string : pyval -> pyval := fun t =>
  match t with
  | PList [PInt j; PList ps; PList es; PBool rsigned] =>
      PObj [("__class__", PStr "Response"); ("text", t);
            ("signature", if rsigned then PObj [("__class__", PStr "Signature")] else PNone);
            ("assertion", PList (map asn_of_code ps));
            ("encrypted_assertion", PList (mk_encs (Z.to_nat j) es))]
  | _ => PErr
  end.
(* str(self.response) *)
Definition ext_str : pyval -> pyval := fun r => p2_attr r "text".

(* self.sec.decrypt_keys: xmlsec1 --decrypt opens ONE EncryptedData, the first in document order; none left: DecryptError *)
Definition ext_decrypt_keys : pyval -> pyval -> pyval -> pyval := fun _ t _ =>
  match t with
  | PList [PInt j; PList ps; PList es; sg] =>
      if (Z.to_nat j <? length es)%nat then PList [PInt (j + 1)%Z; PList ps; PList es; sg] else PExc "DecryptError"
  | _ => PErr
  end.

Definition has_data (e : pyval) : bool := match p2_attr e "encrypted_data" with PNone => false | _ => true end.
(* self.find_encrypt_data(resp): an EncryptedAssertion with EncryptedData at top level (no saml:Advice here) *)
Definition ext_find_encrypt_data : pyval -> pyval -> pyval := fun _ r =>
  match p2_attr r "encrypted_assertion" with PList l => PBool (existsb has_data l) | _ => PErr end.
(* self.find_encrypt_data_assertion_list: EncryptedAssertions inside saml:Advice: none; the method then returns None *)
Definition ext_find_list : pyval -> pyval -> pyval := fun _ _ => PNone.

(* self.decrypt_assertions(encrypted_assertions, text, issuer, verified): the Assertions found as extension elements;
   unless `verified`, the signature of each: Model.run_chk (KDecrypted ..) with the name of the exception *)
Fixpoint walk_decrypted (verified : bool) (l : list pyval) (acc : list pyval) : pyval :=
  match l with
  | [] => PList (rev acc)
  | e :: l' =>
      match p2_attr e "extension_elements" with
      | PList [] => walk_decrypted verified l' acc
      | PList [a] =>
          match p2_attr a "code" with
          | PInt z => match (if verified then None else chk_exc false (KDecrypted (fst (decode z)))) with
                      | Some n => PExc n
                      | None => walk_decrypted verified l' (a :: acc)
                      end
          | _ => PErr
          end
      | _ => PErr
      end
  end.
Definition ext_decrypt_assertions : pyval -> pyval -> pyval -> pyval -> pyval -> pyval := fun _ encs _ _ verified =>
  match encs, verified with PList l, PBool v => walk_decrypted v l [] | _, _ => PErr end.

(* self._assertion(assertion, verified): Model.run_chk (KPlain .. / KRest ..) under the requirement flag the object
   carries, with the name of the exception *)
Definition ext_assertion : pyval -> pyval -> pyval -> pyval := fun self a verified =>
  match p2_attr self "require_signature", p2_attr a "code", verified with
  | PBool q, PInt z, PBool v =>
      let '(s, im) := decode z in
      match chk_exc q (if v then KRest s im else KPlain s im) with Some n => PExc n | None => PBool true end
  | _, _, _ => PErr
  end.
Definition ext_get_identity : pyval -> pyval := fun _ => PObj [].

Definition codes (l : list item) : list pyval := map (fun x => PInt (code_of (i_s x) (i_im x))) l.
Definition plain_codes (l : list item) := codes (filter (fun x => negb (i_enc x)) l).
Definition enc_codes (l : list item) := codes (filter i_enc l).

(* the AuthnResponse object when verify() calls parse_assertion for the first time *)
Definition pa_self (q rsigned : bool) (l : list item) : pyval :=
  PObj [("__class__", PStr "AuthnResponse"); ("context", PStr "AuthnReq"); ("require_signature", PBool q);
        ("response", ext_response_from_string (mk_text rsigned 0 (plain_codes l) (enc_codes l)));
        ("assertion", PNone); ("assertions", PList []); ("xmlstr", PStr "<as received/>"); ("ava", PNone)].

Definition pa_run (fuel : nat) (q rsigned : bool) (l : list item) : pyval :=
  src2_parse_assertion fuel ext_assertion ext_find_encrypt_data ext_find_list ext_decrypt_keys ext_response_from_string
                       ext_decrypt_assertions ext_get_identity ext_str (pa_self q rsigned l) PNone.

(* what the property can see of the outcome: the exception, or True together with the assertions that were taken
   (self.assertions, self.assertion), what is left in self.response and the text kept in self.xmlstr *)
Definition pa_view (v : pyval) : pyval :=
  match v with
  | PList [PExc n; _] => PExc n
  | PList [r; s] => PList [r; p2_attr s "assertions"; p2_attr s "assertion"; p2_attr (p2_attr s "response") "assertion";
                           p2_attr (p2_attr s "response") "encrypted_assertion"; p2_attr s "xmlstr"]
  | _ => PErr
  end.

Definition pa_expected (q rsigned : bool) (l : list item) : pyval :=
  match verify_all_exc q (count_items l) (sched_of rsigned l) with
  | Some n => PExc n
  | None =>
      let ps := map asn_of_code (plain_codes l) in
      let es := map asn_of_code (enc_codes l) in
      let taken := (es ++ ps)%list in
      PList [PBool true; PList taken; hd PNone taken; PList ps;
             PList [];
             match es with
             | [] => PStr "<as received/>"
             | _ => mk_text rsigned (length es) (plain_codes l) (enc_codes l)
             end]
  end.

(* ================================================================================================ *)
(* the finite domain *)
Definition all_items : list item := flat_map (fun sm => [(sm, false); (sm, true)]) all_items1.
Fixpoint lists_exact (n : nat) : list (list item) :=
  match n with O => [[]] | S n' => flat_map (fun x => map (cons x) (lists_exact n')) all_items end.
Definition lists_upto (n : nat) : list (list item) := flat_map lists_exact (seq 0 (S n)).

(* longer lists over the findings that matter most: no signature / good signature / bad signature, issuers equal *)
Definition small_items : list item := flat_map (fun s => [((s, true), false); ((s, true), true)]) [SAbsent; SOk; SSigErr].
Fixpoint small_exact (n : nat) : list (list item) :=
  match n with O => [[]] | S n' => flat_map (fun x => map (cons x) (small_exact n')) small_items end.
Definition small_upto (n : nat) : list (list item) := flat_map small_exact (seq 0 (S n)).

Definition pa_ok (n : nat) (q rsigned : bool) (l : list item) : bool :=
  pyval_eqb (pa_view (pa_run (S (length (filter i_enc l)) + n) q rsigned l)) (pa_expected q rsigned l).

(* fuel = (number of EncryptedData + 1) + n for a FREE n: every loop ends within the bound, the stuck `pywhile2 n` never
   shows in the normal form *)
Lemma pa_table_full n : forallb (fun q => forallb (fun g => forallb (pa_ok n q g) (lists_upto 3)) all_bool) all_bool = true.
Proof. vm_compute. reflexivity. Qed.

Lemma pa_table_small n : forallb (fun q => forallb (fun g => forallb (pa_ok n q g) (small_upto 5)) all_bool) all_bool = true.
Proof. vm_compute. reflexivity. Qed.

(* one EncryptedData too few in the fuel: the translated function answers PErr (never a normal-looking value) *)
Example out_of_fuel :
  pa_run 2 true true [((SOk, true), false); ((SOk, true), true); ((SOk, true), true)] = PErr
  /\ pa_view (pa_run 3 true true [((SOk, true), false); ((SOk, true), true); ((SOk, true), true)])
     = pa_expected true true [((SOk, true), false); ((SOk, true), true); ((SOk, true), true)].
Proof. split; vm_compute; reflexivity. Qed.

Lemma in_all_items (x : item) : In x all_items.
Proof. destruct x as [[s im] e]. destruct s, im, e; cbn; auto 25. Qed.

Lemma in_exact {A} (alphabet : list A) (exact : nat -> list (list A)) :
  exact 0%nat = [[]] -> (forall n, exact (S n) = flat_map (fun x => map (cons x) (exact n)) alphabet) ->
  forall l, Forall (fun x => In x alphabet) l -> In l (exact (length l)).
Proof.
  intros H0 HS l. induction 1 as [|x l Hx _ IH]; cbn [length].
  - rewrite H0. left. reflexivity.
  - rewrite HS. apply in_flat_map. exists x. split; [exact Hx|]. apply in_map, IH.
Qed.

Lemma in_upto {A} (exact : nat -> list (list A)) (l : list A) n :
  In l (exact (length l)) -> (length l <= n)%nat -> In l (flat_map exact (seq 0 (S n))).
Proof. intros H Hn. apply in_flat_map. exists (length l). split; [apply in_seq; lia | exact H]. Qed.

Lemma in_lists_upto l : (length l <= 3)%nat -> In l (lists_upto 3).
Proof.
  intros H. apply in_upto; [|exact H]. apply (in_exact all_items lists_exact); try reflexivity.
  apply Forall_forall. intros x _. apply in_all_items.
Qed.

Definition small (x : item) : Prop := i_im x = true /\ (i_s x = SAbsent \/ i_s x = SOk \/ i_s x = SSigErr).
Lemma in_small_items x : small x -> In x small_items.
Proof. destruct x as [[s im] e]. unfold small; cbn. intros [H1 [H2 | [H2 | H2]]]; subst im s; destruct e; cbn; auto 10. Qed.
Lemma in_small_upto l : Forall small l -> (length l <= 5)%nat -> In l (small_upto 5).
Proof.
  intros Hs H. apply in_upto; [|exact H]. apply (in_exact small_items small_exact); try reflexivity.
  eapply Forall_impl; [|exact Hs]. intros x. apply in_small_items.
Qed.

(* THE TIE: the translated parse_assertion, run on a Response with the list l of assertions by an engine that opens one
   EncryptedData per call, with any fuel above the number of EncryptedData, ends as the walk of the model says *)
Definition in_domain (l : list item) : Prop := (length l <= 3)%nat \/ (Forall small l /\ (length l <= 5)%nat).

Theorem src2_parse_assertion_is_model : forall (q rsigned : bool) (l : list item) (fuel : nat),
  in_domain l -> (length (filter i_enc l) < fuel)%nat ->
  pa_view (pa_run fuel q rsigned l) = pa_expected q rsigned l.
Proof.
  intros q g l fuel Hd Hf.
  replace fuel with (S (length (filter i_enc l)) + (fuel - S (length (filter i_enc l))))%nat by lia.
  set (n := (fuel - S (length (filter i_enc l)))%nat). clearbody n.
  apply pyval_eqb_eq. change (pa_ok n q g l = true).
  destruct Hd as [H3|[Hs H5]].
  - pose proof (pa_table_full n) as T. rewrite forallb_forall in T. specialize (T q (in_all_bool q)).
    rewrite forallb_forall in T. specialize (T g (in_all_bool g)).
    rewrite forallb_forall in T. apply T, in_lists_upto, H3.
  - pose proof (pa_table_small n) as T. rewrite forallb_forall in T. specialize (T q (in_all_bool q)).
    rewrite forallb_forall in T. specialize (T g (in_all_bool g)).
    rewrite forallb_forall in T. apply T, in_small_upto; assumption.
Qed.

(* ... and so classed by the handlers of _parse_response as Model.verify_all of that Response *)
Definition exc_of (v : pyval) : option string := match v with PExc n => Some n | _ => None end.

Lemma exc_of_expected q g l : exc_of (pa_expected q g l) = verify_all_exc q (count_items l) (sched_of g l).
Proof. unfold pa_expected. destruct (verify_all_exc q (count_items l) (sched_of g l)); reflexivity. Qed.

Theorem src2_parse_assertion_verify_all : forall (only_md q : bool) (mm : mmsg) (fuel : nat),
  (length (mm_asl mm) <= 3)%nat -> (length (enc_of (mm_asl mm)) < fuel)%nat ->
  outcome_of_name (exc_of (pa_view (pa_run fuel q (r_signed mm) (items_of only_md mm))))
  = verify_all q (count_ok (mm_asl mm)) (schedule only_md mm).
Proof.
  intros only q mm fuel H3 Hf.
  rewrite src2_parse_assertion_is_model.
  - rewrite exc_of_expected, count_items_of, sched_of_items. apply verify_all_exc_outcome.
  - left. unfold items_of. rewrite map_length. exact H3.
  - unfold items_of. rewrite filter_map_comm, map_length. exact Hf.
Qed.

(* the externals are what the model's sub-functions say: _assertion = run_chk (KPlain / KRest), and on one assertion
   that is the verify_exc of c01_source2_assertion *)
Lemma ext_assertion_plain q s im :
  ext_assertion (pa_self q false []) (mk_asn (code_of s im)) (PBool false)
  = match verify_exc q s im with Some n => PExc n | None => PBool true end.
Proof. destruct q, s, im; reflexivity. Qed.
