(* C01/Spec.v — the property as a truth table over the observable "identity produced".
   Written from the property text: the four signature states of the text (absent, valid,
   corrupted, valid under an untrusted key) are DERIVED here from what is on the wire (who signed,
   was the signed content or the signature altered, WHAT the signature's References select, which Issuer the signed element names, what its
   KeyInfo ships) and from whom the SP trusts — not from the code's way of picking certificates.
   The single-message view of round 1 (spec / satisfied over Model.input) is kept below. *)
From Coq Require Import Bool String List.
From Verif Require Base.Str.
From Verif Require Import C01.Model.
Import ListNotations.

(* the option values in force: documented defaults want_response_signed = True, the two other
   want_* False, only_use_keys_in_metadata = True *)
Definition in_force (v : optv) (documented_default : bool) : bool :=
  match v with Unset => documented_default | B b => b | StrTrue => true end.

Definition wr_c (c : config) := in_force (c_wr c) true.
Definition wa_c (c : config) := in_force (c_wa c) false.
Definition wor_c (c : config) := in_force (c_wor c) false.
Definition only_md (c : config) := in_force (c_only c) true.

(* the signing keys the federation metadata held by the SP publishes for an entity *)
Definition md_trusts (w : who) (k : key) : bool :=
  match w, k with
  | WIdp, KIdp | WIdp, KIdp2 => true        (* idpenc is published for encryption only *)
  | WOther, KOther => true
  | _, _ => false
  end.
Definition md_knows (w : who) : bool := match w with WIdp | WOther => true | WUnknown | WNone => false end.

(* the key that made the signature travels in the signature's own KeyInfo *)
Definition ships_signer (g : sgn) : bool :=
  match ki g with
  | KiSigner => true
  | KiIdp => match signer g with KIdp => true | _ => false end
  | KiNone => false
  end.

(* a key is trusted for the issuer the signed element names when the metadata publishes it as a
   signing key of that issuer; documented opt-out (only_use_keys_in_metadata = False, "the
   certificate contained in a SAML message will be used for signature verification"): for an issuer
   without any metadata key, the key shipped in the message *)
Definition trusted (c : config) (w : who) (g : sgn) : bool :=
  md_trusts w (signer g) || (negb (only_md c) && negb (md_knows w) && ships_signer g).

(* what a signature vouches for: the References that digest the element carrying the signature (its
   own ID, by name or by xpointer, or the whole document).  A Reference to another element, to nothing
   or to something outside the document says nothing about this element. *)
Definition ref_covers_own (t : rtarget) : bool :=
  match t with ROwn | RXPtr | REmpty | RNoUri => true | ROther | RBare | RDangling | RExternal => false end.
Definition covers_own (s : shape) : bool := existsb ref_covers_own (refs s).
(* "every signature present": the element carries no further ds:Signature (the extra one of the
   abstract input never verifies) *)
Definition sole (s : shape) : bool := match xsig s with XNone | XIn _ _ _ => true | XBefore | XAfter => false end.
(* round 6: a signature borne by a DESCENDANT of the element (an assertion in its Advice, say) is a signature on that
   descendant, not on the element: it neither vouches for the element nor spoils the element's own signature *)

(* a signature VERIFIES THE ELEMENT when it is intact, digests that very element, is the only one the
   element carries, and was made by a trusted key; present signatures that are not intact / do not
   cover the element / come with a second one count as "corrupted" *)
Definition state (c : config) (w : who) (s : option sgn) : sigst :=
  match s with
  | None => Absent
  | Some g => if corrupt g || negb (covers_own (shp g)) || negb (sole (shp g)) then Corrupt
              else if trusted c w g then Valid else Untrusted
  end.

(* SAML core 5.4 (XML Signature profile): one Reference, to the ID of the enclosing element; exclusive
   canonicalisation (with or without comments); the enveloped-signature transform, optionally together
   with one exclusive canonicalisation transform, nothing else; no ds:Object; one ds:Signature.
   Only such signatures have to be accepted. *)
Definition is_exc (t : talg) : bool := match t with TExc | TExcWC => true | TEnv | TInc => false end.
(* the schema puts ds:Signature right after saml:Issuer, ahead of everything that can hold further elements: in an
   element as the schema wants it no other ds:Signature precedes the element's own *)
Definition in_place (s : shape) : bool := match xsig s with XIn true _ _ => false | _ => true end.
Definition in_profile (s : shape) : bool :=
  match refs s with [ROwn] => true | _ => false end
  && match c14n s with CExc | CExcWC => true | CInc => false end
  && match trs s with [TEnv] => true | [TEnv; t] => is_exc t | [t; TEnv] => is_exc t | _ => false end
  && negb (obj s) && sole s && in_place s.
Definition sig_in_profile (s : option sgn) : bool := match s with None => true | Some g => in_profile (shp g) end.

Definition r_state (c : config) (m : msg) : sigst := state c (r_who m) (m_rs m).
Definition a_state (c : config) (m : msg) : sigst := state c (a_who m) (m_as m).

Definition ok (s : sigst) : Prop := s = Absent \/ s = Valid.

(* every signature present verifies and the demanded signatures are carried *)
Definition satisfied_m (c : config) (m : msg) : Prop :=
  ok (r_state c m) /\ ok (a_state c m)
  /\ (wr_c c = true -> r_state c m = Valid) /\ (wa_c c = true -> a_state c m = Valid)
  /\ (wor_c c = true -> r_state c m = Valid \/ a_state c m = Valid).

(* "otherwise valid": a binding the SP unravels, an assertion that names its issuer, a Response
   that — if it names an issuer — names the one of the assertion, and signatures in the form the SAML
   XML Signature profile prescribes *)
Definition otherwise_valid (m : msg) : Prop :=
  m_bind m <> PAOS /\ a_who m <> WNone /\ (r_who m = WNone \/ r_who m = a_who m)
  /\ sig_in_profile (m_rs m) = true /\ sig_in_profile (m_as m) = true.

Definition spec_m (c : config) (m : msg) (identity : bool) : Prop :=
  (identity = true -> satisfied_m c m) /\ (satisfied_m c m -> otherwise_valid m -> identity = true).

(* a long-lived SP: whatever it consumed before, every message of the sequence obeys the table *)
Definition spec_seq (c : config) (ms : list msg) (ids : list bool) : Prop := Forall2 (spec_m c) ms ids.

Definition ok_b (s : sigst) : bool := match s with Absent | Valid => true | _ => false end.
Definition valid_b (s : sigst) : bool := match s with Valid => true | _ => false end.

Definition sat_b (wr wa wor : bool) (sr sa : sigst) : bool :=
  ok_b sr && ok_b sa && implb wr (valid_b sr) && implb wa (valid_b sa) && implb wor (valid_b sr || valid_b sa).

Definition satisfied_m_b (c : config) (m : msg) : bool :=
  sat_b (wr_c c) (wa_c c) (wor_c c) (r_state c m) (a_state c m).

Definition is_paos (b : bind) : bool := match b with PAOS => true | _ => false end.

Definition otherwise_valid_b (m : msg) : bool :=
  negb (is_paos (m_bind m)) && has_issuer (a_who m) && (negb (has_issuer (r_who m)) || who_eqb (r_who m) (a_who m))
  && sig_in_profile (m_rs m) && sig_in_profile (m_as m).

Definition spec_m_b (c : config) (m : msg) (identity : bool) : bool :=
  implb identity (satisfied_m_b c m) && implb (satisfied_m_b c m && otherwise_valid_b m) identity.

Fixpoint spec_seq_b (c : config) (ms : list msg) (ids : list bool) : bool :=
  match ms, ids with
  | [], [] => true
  | m :: ms', i :: ids' => spec_m_b c m i && spec_seq_b c ms' ids'
  | _, _ => false
  end.

(* ---- round 4: the options are the service provider's, however they reach the client ----------------
   "every setting of the service provider's signature options": what the deployer wrote for the SP —
   True / False, as booleans or as the strings "true" / "false", in the service/sp section of the
   configuration or set for the SP on the loaded configuration object (after fix 6bdc97cd: any text
   that says a boolean, see `says`) — and nothing else: neither the
   class of the configuration object (SPConfig, IdPConfig, Config), nor its current context, nor the way
   the client got it (object, factory, file, dict), nor a further service section of the same entity. *)
(* A boolean written as text says what it says, whatever the case and the blanks around it: true / yes /
   on / 1, false / no / off / 0 (the empty text demands nothing); any other text says nothing, and a service
   provider whose options cannot be read must not come into being: no identity from any message. *)
Definition says (s : string) : option bool :=
  let w := Str.lower (Str.strip s) in
  match find (String.eqb w) ["true"; "yes"; "on"; "1"]%string with
  | Some _ => Some true
  | None => match find (String.eqb w) ["false"; "no"; "off"; "0"; ""]%string with Some _ => Some false | None => None end
  end.
Definition meant_v (v : pv) : option optv :=
  match v with PB b => Some (B b) | PT s => match says s with Some b => Some (B b) | None => None end end.
Definition meant (w : written) : option optv :=
  match w with WUnset => Some Unset | WDict v | WSet v => meant_v v end.
Definition meant_config (k : client) : option config :=
  match meant (k_wr k), meant (k_wa k), meant (k_wor k) with
  | Some a, Some b, Some c => Some {| c_wr := a; c_wa := b; c_wor := c; c_only := k_only k |}
  | _, _, _ => None
  end.
Definition spec_client (k : client) (ms : list msg) (ids : list bool) : Prop :=
  match meant_config k with
  | Some c => spec_seq c ms ids
  | None => length ids = length ms /\ Forall (fun i => i = false) ids
  end.
Definition spec_client_b (k : client) (ms : list msg) (ids : list bool) : bool :=
  match meant_config k with
  | Some c => spec_seq_b c ms ids
  | None => Nat.eqb (length ids) (length ms) && forallb negb ids
  end.

(* ---- the single-message view of round 1: states given, Response and assertion of the IdP ---------- *)

Definition wr (x : input) := in_force (o_wr x) true.
Definition wa (x : input) := in_force (o_wa x) false.
Definition wor (x : input) := in_force (o_wor x) false.

Definition satisfied (x : input) : Prop :=
  ok (rs x) /\ ok (as_ x)
  /\ (wr x = true -> rs x = Valid) /\ (wa x = true -> as_ x = Valid)
  /\ (wor x = true -> rs x = Valid \/ as_ x = Valid).

Definition spec (x : input) (identity : bool) : Prop :=
  (identity = true -> satisfied x) /\ (satisfied x -> binding x <> PAOS -> identity = true).

Definition satisfied_b (x : input) : bool := sat_b (wr x) (wa x) (wor x) (rs x) (as_ x).

Definition spec_b (x : input) (identity : bool) : bool :=
  implb identity (satisfied_b x) && implb (satisfied_b x && negb (is_paos (binding x))) identity.

(* ---- round 5: a Response with several assertions ------------------------------------------------------
   "every signature present on the Response or on the assertion that is used verifies": a Response may carry
   several assertions, plain and encrypted, in any order (SAML core 3.2.2), and the receiver builds the identity
   out of ALL of them (the attributes of every assertion are merged, the subject is taken from one of them): every
   assertion is used.  So: every signature present on the Response or on ANY of its assertions verifies; where
   signed assertions are demanded, EVERY assertion carries a valid signature; the either-or option is satisfied
   by a valid signature on the Response or on every assertion.  A Response without any assertion yields no
   identity.  Acceptance is owed only within the documented limitation of the receiver (exactly one plain or
   exactly one encrypted assertion - saml2int), when every assertion names its issuer, the Response names none
   or the one of every assertion, and the signatures have the profile form. *)
Definition x_state (c : config) (x : asn) : sigst := state c (x_who x) (x_sig x).
Definition rr_state (c : config) (mm : mmsg) : sigst := state c (mm_rwho mm) (mm_rs mm).

Definition satisfied_mm (c : config) (mm : mmsg) : Prop :=
  ok (rr_state c mm) /\ Forall (fun x => ok (x_state c x)) (mm_asl mm)
  /\ (wr_c c = true -> rr_state c mm = Valid)
  /\ (wa_c c = true -> Forall (fun x => x_state c x = Valid) (mm_asl mm))
  /\ (wor_c c = true -> rr_state c mm = Valid \/ Forall (fun x => x_state c x = Valid) (mm_asl mm)).

Definition otherwise_valid_mm (mm : mmsg) : Prop :=
  mm_bind mm <> PAOS
  /\ (length (filter (fun x => negb (x_enc x)) (mm_asl mm)) = 1 \/ length (filter x_enc (mm_asl mm)) = 1)
  /\ Forall (fun x => x_who x <> WNone /\ (mm_rwho mm = WNone \/ mm_rwho mm = x_who x) /\ sig_in_profile (x_sig x) = true) (mm_asl mm)
  /\ sig_in_profile (mm_rs mm) = true
  (* the repaired number rule (/repo fix 6a3bb24f): several assertions are put into ONE report, which only a signature of
     the Response covers: acceptance of more than one assertion is owed only when the Response is signed *)
  /\ (length (mm_asl mm) <= 1 \/ mm_rs mm <> None).

Definition spec_mm (c : config) (mm : mmsg) (identity : bool) : Prop :=
  (identity = true -> mm_asl mm <> [] /\ satisfied_mm c mm) /\ (satisfied_mm c mm -> otherwise_valid_mm mm -> identity = true).

Definition satisfied_mm_b (c : config) (mm : mmsg) : bool :=
  ok_b (rr_state c mm) && forallb (fun x => ok_b (x_state c x)) (mm_asl mm)
  && implb (wr_c c) (valid_b (rr_state c mm))
  && implb (wa_c c) (forallb (fun x => valid_b (x_state c x)) (mm_asl mm))
  && implb (wor_c c) (valid_b (rr_state c mm) || forallb (fun x => valid_b (x_state c x)) (mm_asl mm)).

Definition otherwise_valid_mm_b (mm : mmsg) : bool :=
  negb (is_paos (mm_bind mm))
  && (Nat.eqb (length (filter (fun x => negb (x_enc x)) (mm_asl mm))) 1 || Nat.eqb (length (filter x_enc (mm_asl mm))) 1)
  && forallb (fun x => has_issuer (x_who x) && (negb (has_issuer (mm_rwho mm)) || who_eqb (mm_rwho mm) (x_who x)) && sig_in_profile (x_sig x)) (mm_asl mm)
  && sig_in_profile (mm_rs mm)
  && (Nat.leb (length (mm_asl mm)) 1 || match mm_rs mm with Some _ => true | None => false end).

Definition nonempty {A} (l : list A) : bool := match l with [] => false | _ => true end.

Definition spec_mm_b (c : config) (mm : mmsg) (identity : bool) : bool :=
  implb identity (nonempty (mm_asl mm) && satisfied_mm_b c mm) && implb (satisfied_mm_b c mm && otherwise_valid_mm_b mm) identity.


Definition spec_seq_mm (c : config) (ms : list mmsg) (ids : list bool) : Prop := Forall2 (spec_mm c) ms ids.
Fixpoint spec_seq_mm_b (c : config) (ms : list mmsg) (ids : list bool) : bool :=
  match ms, ids with
  | [], [] => true
  | m :: ms', i :: ids' => spec_mm_b c m i && spec_seq_mm_b c ms' ids'
  | _, _ => false
  end.
Definition spec_client_mm (k : client) (ms : list mmsg) (ids : list bool) : Prop :=
  match meant_config k with
  | Some c => spec_seq_mm c ms ids
  | None => length ids = length ms /\ Forall (fun i => i = false) ids
  end.
Definition spec_client_mm_b (k : client) (ms : list mmsg) (ids : list bool) : bool :=
  match meant_config k with
  | Some c => spec_seq_mm_b c ms ids
  | None => Nat.eqb (length ids) (length ms) && forallb negb ids
  end.

(* ---- round 6: the keys that open an EncryptedAssertion ---------------------------------------------------
   "the assertion that is used": an EncryptedAssertion can be used only by a receiver that holds the private key of
   the certificate it was encrypted for - its configured key, or the key pair the application made for this very
   request and hands over with the Response (outstanding_certs[InResponseTo]).  What the receiver cannot open it
   does not use.  "accepted, whether its assertion is sent in clear or encrypted": encrypted for a key the receiver
   holds - whichever of them. *)
Definition holds_key (o : ocerts) (r : dkey) : bool :=
  match r with
  | DConfigured => true
  | _ => match o with OThis ks => existsb (dkey_eqb r) ks | OAbsent | OEmpty | OElse _ => false end
  end.
Definition can_read (x : xmsg) : bool := holds_key (x_oc x) (x_rcpt x).
Definition used (x : xmsg) : mmsg :=
  if can_read x then xm x else with_asl (xm x) (filter (fun a => negb (x_enc a)) (mm_asl (xm x))).

Definition spec_x (c : config) (x : xmsg) (identity : bool) : Prop :=
  (identity = true -> mm_asl (used x) <> [] /\ satisfied_mm c (used x))
  /\ (satisfied_mm c (xm x) -> otherwise_valid_mm (xm x) -> can_read x = true -> identity = true).
Definition spec_x_b (c : config) (x : xmsg) (identity : bool) : bool :=
  implb identity (nonempty (mm_asl (used x)) && satisfied_mm_b c (used x))
  && implb (satisfied_mm_b c (xm x) && otherwise_valid_mm_b (xm x) && can_read x) identity.

Definition spec_seq_x (c : config) (xs : list xmsg) (ids : list bool) : Prop := Forall2 (spec_x c) xs ids.
Fixpoint spec_seq_x_b (c : config) (xs : list xmsg) (ids : list bool) : bool :=
  match xs, ids with
  | [], [] => true
  | x :: xs', i :: ids' => spec_x_b c x i && spec_seq_x_b c xs' ids'
  | _, _ => false
  end.
Definition spec_client_x (k : client) (xs : list xmsg) (ids : list bool) : Prop :=
  match meant_config k with
  | Some c => spec_seq_x c xs ids
  | None => length ids = length xs /\ Forall (fun i => i = false) ids
  end.
Definition spec_client_x_b (k : client) (xs : list xmsg) (ids : list bool) : bool :=
  match meant_config k with
  | Some c => spec_seq_x_b c xs ids
  | None => Nat.eqb (length ids) (length xs) && forallb negb ids
  end.
