(* C01/Spec.v — the property as a truth table over the observable "identity produced". *)
From Coq Require Import Bool List.
From Verif Require Import C01.Model.

(* the option values in force: documented defaults want_response_signed = True, others False *)
Definition in_force (v : optv) (documented_default : bool) : bool :=
  match v with Unset => documented_default | B b => b | StrTrue => true end.

Definition wr (x : input) := in_force (o_wr x) true.
Definition wa (x : input) := in_force (o_wa x) false.
Definition wor (x : input) := in_force (o_wor x) false.

Definition ok (s : sigst) : Prop := s = Absent \/ s = Valid.

(* every signature present verifies and the demanded signatures are carried *)
Definition satisfied (x : input) : Prop :=
  ok (rs x) /\ ok (as_ x)
  /\ (wr x = true -> rs x = Valid) /\ (wa x = true -> as_ x = Valid)
  /\ (wor x = true -> rs x = Valid \/ as_ x = Valid).

Definition spec (x : input) (identity : bool) : Prop :=
  (identity = true -> satisfied x) /\ (satisfied x -> binding x <> PAOS -> identity = true).

Definition ok_b (s : sigst) : bool := match s with Absent | Valid => true | _ => false end.
Definition valid_b (s : sigst) : bool := match s with Valid => true | _ => false end.

Definition satisfied_b (x : input) : bool :=
  ok_b (rs x) && ok_b (as_ x)
  && implb (wr x) (valid_b (rs x)) && implb (wa x) (valid_b (as_ x))
  && implb (wor x) (valid_b (rs x) || valid_b (as_ x)).

Definition is_paos (b : bind) : bool := match b with PAOS => true | _ => false end.

Definition spec_b (x : input) (identity : bool) : bool :=
  implb identity (satisfied_b x) && implb (satisfied_b x && negb (is_paos (binding x))) identity.
