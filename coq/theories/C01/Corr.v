From Coq Require Import Bool List.
From Verif Require Import Base.Run C01.Model C01.Spec.
Import ListNotations.

(* one case = one Saml2Client (one configuration, reaching it in one way: Model.client) consuming a
   sequence of messages (each a Response with a LIST of assertions, round 5, its EncryptedAssertions made for one
   certificate and consumed with one outstanding_certs argument, round 6); for every message the identity
   (or not) observed on the real implementation *)
Definition case := (client * list (xmsg * bool))%type.

Definition cfg (wr wa wor only : optv) : config := {| c_wr := wr; c_wa := wa; c_wor := wor; c_only := only |}.
Definition sg (k : key) (i : kinfo) (c : bool) : option sgn := Some {| signer := k; ki := i; corrupt := c; shp := std |}.
(* a signature of another shape: References, CanonicalizationMethod, Transforms, ds:Object, second ds:Signature *)
Definition sgx (k : key) (i : kinfo) (c : bool) (rf : list rtarget) (ca : calg) (t : list talg) (o : bool) (x : extra) : option sgn :=
  Some {| signer := k; ki := i; corrupt := c; shp := {| refs := rf; c14n := ca; trs := t; obj := o; xsig := x |} |}.
(* a Response with one assertion (the messages of rounds 1-4) *)
Definition st (rw aw : who) (r a : option sgn) (e : bool) (b : bind) (obs : bool) : xmsg * bool :=
  (plain_msg (embed {| r_who := rw; a_who := aw; m_rs := r; m_as := a; m_enc := e; m_bind := b |}), obs).
(* round 5: a Response with the given assertions (issuer, signature, sent encrypted), in document order *)
Definition asr (w : who) (s : option sgn) (e : bool) : asn := {| x_who := w; x_sig := s; x_enc := e |}.
Definition stm (rw : who) (r : option sgn) (l : list asn) (b : bind) (obs : bool) : xmsg * bool :=
  (plain_msg {| mm_rwho := rw; mm_rs := r; mm_asl := l; mm_bind := b |}, obs).
(* round 6: the same message with its EncryptedAssertions made for the certificate of `r`, consumed with
   outstanding_certs = o (st / stm: the configured key, no outstanding_certs) *)
Definition stk (r : dkey) (o : ocerts) (p : xmsg * bool) : xmsg * bool :=
  ({| xm := xm (fst p); x_rcpt := r; x_oc := o |}, snd p).
(* the clients of rounds 1-3: an SPConfig loaded from a dict and handed over as config= *)
Definition mk (c : config) (steps : list (xmsg * bool)) : case := (client_of c, steps).
(* round 4: delivery, assigned context, second service section, the three options as written *)
Definition mkc (d : deliver) (a : option octx) (p : bool) (wr wa wor : written) (only : optv) (steps : list (xmsg * bool)) : case :=
  ({| k_deliver := d; k_assigned := a; k_proxy := p; k_wr := wr; k_wa := wa; k_wor := wor; k_only := only |}, steps).

(* the four signature states of the single-message truth table, as in round 1 *)
Definition sAbsent := sgn_of Absent.
Definition sValid := sgn_of Valid.
Definition sCorrupt := sgn_of Corrupt.
Definition sUntrusted := sgn_of Untrusted.

Definition bool_list_eqb (a b : list bool) : bool :=
  Nat.eqb (length a) (length b) && forallb (fun p => Bool.eqb (fst p) (snd p)) (combine a b).

Definition agrees (c : case) : bool := bool_list_eqb (client_run_x (fst c) (map fst (snd c))) (map snd (snd c)).
Definition holds (c : case) : bool := spec_client_x_b (fst c) (map fst (snd c)) (map snd (snd c)).
Definition cls (c : case) : nat := 0.
Definition run := run_cases agrees holds cls.
(* per message: (model, observed, satisfied by what is used, satisfied, otherwise valid, the receiver holds the key,
   state of the Response signature, of each assertion's) *)
Definition explain (c : case) :=
  (current_ctx (fst c), read_config (fst c), meant_config (fst c),
   match read_config (fst c), meant_config (fst c) with
   | Some rc, Some mc =>
       map (fun p => (parse_xmsg rc (fst p), snd p, satisfied_mm_b mc (used (fst p)), satisfied_mm_b mc (xm (fst p)),
                      otherwise_valid_mm_b (xm (fst p)), can_read (fst p), rr_state mc (xm (fst p)),
                      map (x_state mc) (mm_asl (xm (fst p))))) (snd c)
   | _, _ => map (fun p => (false, snd p, false, false, false, false, Absent, @nil sigst)) (snd c)    (* no client: no identity *)
   end).
