From Coq Require Import Bool List.
From Verif Require Import Base.Run C01.Model C01.Spec.
Import ListNotations.

(* one case = one Saml2Client (one configuration, reaching it in one way: Model.client) consuming a
   sequence of messages (each a Response with a LIST of assertions, round 5); for every message the identity
   (or not) observed on the real implementation *)
Definition case := (client * list (mmsg * bool))%type.

Definition cfg (wr wa wor only : optv) : config := {| c_wr := wr; c_wa := wa; c_wor := wor; c_only := only |}.
Definition sg (k : key) (i : kinfo) (c : bool) : option sgn := Some {| signer := k; ki := i; corrupt := c; shp := std |}.
(* a signature of another shape: References, CanonicalizationMethod, Transforms, ds:Object, second ds:Signature *)
Definition sgx (k : key) (i : kinfo) (c : bool) (rf : list rtarget) (ca : calg) (t : list talg) (o : bool) (x : extra) : option sgn :=
  Some {| signer := k; ki := i; corrupt := c; shp := {| refs := rf; c14n := ca; trs := t; obj := o; xsig := x |} |}.
(* a Response with one assertion (the messages of rounds 1-4) *)
Definition st (rw aw : who) (r a : option sgn) (e : bool) (b : bind) (obs : bool) : mmsg * bool :=
  (embed {| r_who := rw; a_who := aw; m_rs := r; m_as := a; m_enc := e; m_bind := b |}, obs).
(* round 5: a Response with the given assertions (issuer, signature, sent encrypted), in document order *)
Definition asr (w : who) (s : option sgn) (e : bool) : asn := {| x_who := w; x_sig := s; x_enc := e |}.
Definition stm (rw : who) (r : option sgn) (l : list asn) (b : bind) (obs : bool) : mmsg * bool :=
  ({| mm_rwho := rw; mm_rs := r; mm_asl := l; mm_bind := b |}, obs).
(* the clients of rounds 1-3: an SPConfig loaded from a dict and handed over as config= *)
Definition mk (c : config) (steps : list (mmsg * bool)) : case := (client_of c, steps).
(* round 4: delivery, assigned context, second service section, the three options as written *)
Definition mkc (d : deliver) (a : option octx) (p : bool) (wr wa wor : written) (only : optv) (steps : list (mmsg * bool)) : case :=
  ({| k_deliver := d; k_assigned := a; k_proxy := p; k_wr := wr; k_wa := wa; k_wor := wor; k_only := only |}, steps).

(* the four signature states of the single-message truth table, as in round 1 *)
Definition sAbsent := sgn_of Absent.
Definition sValid := sgn_of Valid.
Definition sCorrupt := sgn_of Corrupt.
Definition sUntrusted := sgn_of Untrusted.

Definition bool_list_eqb (a b : list bool) : bool :=
  Nat.eqb (length a) (length b) && forallb (fun p => Bool.eqb (fst p) (snd p)) (combine a b).

Definition agrees (c : case) : bool := bool_list_eqb (client_run_mm (fst c) (map fst (snd c))) (map snd (snd c)).
Definition holds (c : case) : bool := spec_client_mm_b (fst c) (map fst (snd c)) (map snd (snd c)).
Definition cls (c : case) : nat := 0.
Definition run := run_cases agrees holds cls.
(* per message: (model, observed, satisfied, otherwise valid, state of the Response signature, of each assertion's) *)
Definition explain (c : case) :=
  (current_ctx (fst c), read_config (fst c), meant_config (fst c),
   match read_config (fst c), meant_config (fst c) with
   | Some rc, Some mc =>
       map (fun p => (parse_mmsg rc (fst p), snd p, satisfied_mm_b mc (fst p),
                      otherwise_valid_mm_b (fst p), rr_state mc (fst p), map (x_state mc) (mm_asl (fst p)))) (snd c)
   | _, _ => map (fun p => (false, snd p, false, false, Absent, @nil sigst)) (snd c)    (* no client: no identity *)
   end).
