From Coq Require Import Bool List.
From Verif Require Import Base.Run C01.Model C01.Spec.
Import ListNotations.

(* one case = one Saml2Client (one configuration) consuming a sequence of messages; for every
   message the identity (or not) observed on the real implementation *)
Definition case := (config * list (msg * bool))%type.

Definition cfg (wr wa wor only : optv) : config := {| c_wr := wr; c_wa := wa; c_wor := wor; c_only := only |}.
Definition sg (k : key) (i : kinfo) (c : bool) : option sgn := Some {| signer := k; ki := i; corrupt := c; shp := std |}.
(* a signature of another shape: References, CanonicalizationMethod, Transforms, ds:Object, second ds:Signature *)
Definition sgx (k : key) (i : kinfo) (c : bool) (rf : list rtarget) (ca : calg) (t : list talg) (o : bool) (x : extra) : option sgn :=
  Some {| signer := k; ki := i; corrupt := c; shp := {| refs := rf; c14n := ca; trs := t; obj := o; xsig := x |} |}.
Definition st (rw aw : who) (r a : option sgn) (e : bool) (b : bind) (obs : bool) : msg * bool :=
  ({| r_who := rw; a_who := aw; m_rs := r; m_as := a; m_enc := e; m_bind := b |}, obs).
Definition mk (c : config) (steps : list (msg * bool)) : case := (c, steps).

(* the four signature states of the single-message truth table, as in round 1 *)
Definition sAbsent := sgn_of Absent.
Definition sValid := sgn_of Valid.
Definition sCorrupt := sgn_of Corrupt.
Definition sUntrusted := sgn_of Untrusted.

Definition bool_list_eqb (a b : list bool) : bool :=
  Nat.eqb (length a) (length b) && forallb (fun p => Bool.eqb (fst p) (snd p)) (combine a b).

Definition agrees (c : case) : bool := bool_list_eqb (sp_run (fst c) (map fst (snd c))) (map snd (snd c)).
Definition holds (c : case) : bool := spec_seq_b (fst c) (map fst (snd c)) (map snd (snd c)).
Definition cls (c : case) : nat := 0.
Definition run := run_cases agrees holds cls.
(* per message: (model, observed, satisfied, otherwise valid, state of the Response signature, of the assertion's) *)
Definition explain (c : case) :=
  map (fun p => (parse_message (fst c) (fst p), snd p, satisfied_m_b (fst c) (fst p), otherwise_valid_b (fst p),
                 r_state (fst c) (fst p), a_state (fst c) (fst p))) (snd c).
