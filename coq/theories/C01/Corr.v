From Coq Require Import Bool List.
From Verif Require Import Base.Run C01.Model C01.Spec.

Definition case := (input * bool)%type.
Definition mk (wr wa wor : optv) (rs as_ : sigst) (enc : bool) (b : bind) (obs : bool) : case :=
  ({| o_wr := wr; o_wa := wa; o_wor := wor; rs := rs; as_ := as_; enc := enc; binding := b |}, obs).
Definition agrees (c : case) : bool := Bool.eqb (parse_response (fst c)) (snd c).
Definition holds (c : case) : bool := spec_b (fst c) (snd c).
Definition cls (c : case) : nat := 0.
Definition run := run_cases agrees holds cls.
Definition explain (c : case) := (parse_response (fst c), satisfied_b (fst c)).
