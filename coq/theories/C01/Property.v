(* C01/Property.v — property theorems only. *)
From Coq Require Import Bool List String.
From Verif Require Import Base.Py Base.Py2 Base.Str C01.Model C01.Spec C01.Proofs C01.Keys C01.Source2 C01.Source2pa.
From VerifGen Require Import C01Tables C01Src2 C01Src2p C01Src2a.
Import ListNotations.

(* C01: for every setting of the three want_* options and of only_use_keys_in_metadata (unset / True /
   False / "true"), every Issuer the Response and the assertion name (the IdP, another federation
   member, an entity without metadata, none), every signature on either (absent, or made by any of the
   six keys, intact or not, shipping no / its own / the IdP's certificate in KeyInfo), plain or
   encrypted assertion and binding: identity iff every present signature verifies under a key trusted
   for the issuer the signed element names and the demanded signatures are carried (PAOS is never
   unravelled; an assertion without Issuer or a Response naming another issuer than its assertion is
   not "otherwise valid").  Round 3: every signature has a SHAPE (the list of its References' targets:
   own ID / another element of the document / whole document / xpointer / "#" / dangling / external;
   canonicalisation; Transform list; ds:Object; a second ds:Signature child before or after it), lists
   of any length; a signature counts as verifying only when it digests the element that carries it and
   is the only one; signatures outside the SAML XML Signature profile need not be accepted. *)
Theorem c01_policy : forall c m, spec_m c m (parse_message c m).
Proof. exact policy_holds_m. Qed.
Print Assumptions c01_policy.

Theorem c01_spec_reflect : forall c m i, spec_m_b c m i = true <-> spec_m c m i.
Proof. exact spec_m_b_iff. Qed.
Print Assumptions c01_spec_reflect.

(* regenerated-table obligation: the defaults in the source are the documented ones *)
Theorem c01_defaults :
  want_response_signed_default = true /\ want_assertions_signed_default = false
  /\ want_assertions_or_response_signed_default = false
  /\ only_use_keys_in_metadata_default = true.
Proof. exact defaults_as_documented. Qed.
Print Assumptions c01_defaults.

(* the single-message truth table of round 1 (the four signature states given; Response and assertion
   of the IdP; 4^3 x 4 x 4 x 2 x 4 = 8192 cells): an instance of c01_policy, kept because C09 composes
   with it *)
Theorem c01_policy_single : forall x, spec x (parse_response x).
Proof. exact policy_holds. Qed.
Print Assumptions c01_policy_single.

Theorem c01_spec_single_reflect : forall x i, spec_b x i = true <-> spec x i.
Proof. exact spec_b_iff. Qed.
Print Assumptions c01_spec_single_reflect.

(* a long-lived SP: every message of every sequence obeys the table, whatever was consumed before
   (no bound on the length of the sequence) *)
Theorem c01_sequence : forall c ms, spec_seq c ms (sp_run c ms).
Proof. exact sequence_holds. Qed.
Print Assumptions c01_sequence.

Theorem c01_spec_seq_reflect : forall c ms ids, spec_seq_b c ms ids = true <-> spec_seq c ms ids.
Proof. exact spec_seq_b_iff. Qed.
Print Assumptions c01_spec_seq_reflect.

Theorem c01_history_independent :
  forall c pre m, sp_run c (pre ++ [m])%list = (sp_run c pre ++ [parse_message c m])%list.
Proof. exact history_independent. Qed.
Print Assumptions c01_history_independent.

(* with only_use_keys_in_metadata in force (the default) a message cannot vouch for its own key:
   what its KeyInfo ships is irrelevant, and an identity needs every present signature to be intact
   and made by a signing key that the metadata publishes for the issuer the signed element names *)
Theorem c01_keyinfo_ignored :
  forall c m, only_md c = true -> parse_message c (strip_ki m) = parse_message c m.
Proof. exact keyinfo_ignored. Qed.
Print Assumptions c01_keyinfo_ignored.

Theorem c01_identity_needs_metadata_keys :
  forall c m, only_md c = true -> parse_message c m = true ->
              vouched (r_who m) (m_rs m) /\ vouched (a_who m) (m_as m).
Proof. exact identity_needs_metadata_keys. Qed.
Print Assumptions c01_identity_needs_metadata_keys.

(* the validators table of _check_signature + the only-Signature-child test let through exactly the
   signatures in the form of the SAML XML Signature profile (Spec.in_profile), for Reference and
   Transform lists of any length *)
Theorem c01_profile_gate : forall s, passes s = in_profile s.
Proof. exact gate_is_profile. Qed.
Print Assumptions c01_profile_gate.

(* signature wrapping: whatever the options, no identity from a message that carries a signature whose
   Reference selects another element, the whole document, nothing, ... or that has a second ds:Signature *)
Theorem c01_identity_needs_profile :
  forall c m, parse_message c m = true -> sig_in_profile (m_rs m) = true /\ sig_in_profile (m_as m) = true.
Proof. exact identity_needs_profile. Qed.
Print Assumptions c01_identity_needs_profile.

(* ---- round 4: how the options reach the client ---------------------------------------------------------
   A client is a configuration dict (options of the SP written as True / False or as ANY text — true / yes / on / 1,
   false / no / off / 0 / "" in any case, blanks around ignored, say a boolean; any other word says none — under
   service/sp, or set for the SP on the loaded object; possibly a service/idp section next to it) loaded into a
   configuration object of any class (SPConfig, IdPConfig, Config), with any current context (the class's own, the
   type given to config_factory, one assigned by the application), handed to Saml2Client as object, through
   config_factory, as file or as dict.  For every such client and every sequence of messages: identity iff the
   signatures satisfy the options THE DEPLOYER WROTE FOR THE SP; a client with an unreadable option is not built
   (fix 6bdc97cd) and yields no identity. *)
Theorem c01_client : forall k ms, spec_client k ms (client_run k ms).
Proof. exact client_holds. Qed.
Print Assumptions c01_client.

Theorem c01_spec_client_reflect : forall k ms ids, spec_client_b k ms ids = true <-> spec_client k ms ids.
Proof. exact spec_client_b_iff. Qed.
Print Assumptions c01_spec_client_reflect.

(* class of the configuration object, assigned context, delivery and a second service section are irrelevant *)
Theorem c01_surface_irrelevant :
  forall d a p d' a' p' w1 w2 w3 o ms,
  client_run {| k_deliver := d; k_assigned := a; k_proxy := p; k_wr := w1; k_wa := w2; k_wor := w3; k_only := o |} ms
  = client_run {| k_deliver := d'; k_assigned := a'; k_proxy := p'; k_wr := w1; k_wa := w2; k_wor := w3; k_only := o |} ms.
Proof. exact surface_irrelevant. Qed.
Print Assumptions c01_surface_irrelevant.

(* ... and so is the spelling of the values *)
Theorem c01_spelling_irrelevant :
  forall k k' ms, meant_config k = meant_config k' -> client_run k ms = client_run k' ms.
Proof. exact spelling_irrelevant. Qed.
Print Assumptions c01_spelling_irrelevant.

(* the clients of the earlier rounds (SPConfig from a dict) are an instance *)
Theorem c01_client_of : forall c ms, client_run (client_of c) ms = sp_run c ms.
Proof. exact client_of_run. Qed.
Print Assumptions c01_client_of.

(* an option the deployer wrote as a word that says no boolean: no client, no identity from any message *)
Theorem c01_unreadable_no_identity :
  forall k ms, meant_config k = None -> client_run k ms = map (fun _ => false) ms.
Proof. exact unreadable_no_identity. Qed.
Print Assumptions c01_unreadable_no_identity.

(* what Base.__init__ reads (fix 6bdc97cd) is what the text of the property means, for every str *)
Theorem c01_reading : forall k, read_config k = meant_config k.
Proof. exact read_config_meant. Qed.
Print Assumptions c01_reading.

(* the reading before the fix (kept as Model.client_run_v0) agrees on the spellings of the earlier rounds *)
Theorem c01_reading_v0_old_spellings :
  forall k ms, old_spelling (k_wr k) -> old_spelling (k_wa k) -> old_spelling (k_wor k) -> client_run_v0 k ms = client_run k ms.
Proof. exact reading_v0_agrees_on_old_spellings. Qed.
Print Assumptions c01_reading_v0_old_spellings.

(* ---- round 5: a Response with several assertions -------------------------------------------------------------
   A Response carries a LIST of assertions (any number, plain and encrypted in any document order, each with its own
   Issuer and signature).  Identity iff the list is admitted by the receiver's number rule and every signature present
   on the Response or on ANY assertion verifies and the demanded signatures are carried - by EVERY assertion where
   assertions are to be signed.  Model.parse_mmsg follows parse_assertion check by check (plain assertions, then the
   signatures of all decrypted assertions, then their remaining checks; the first failure decides the exception and
   so the second pass of _parse_response). *)
Theorem c01_multi : forall c mm, spec_mm c mm (parse_mmsg c mm).
Proof. exact policy_holds_mm. Qed.
Print Assumptions c01_multi.

Theorem c01_spec_multi_reflect : forall c mm i, spec_mm_b c mm i = true <-> spec_mm c mm i.
Proof. exact spec_mm_b_iff. Qed.
Print Assumptions c01_spec_multi_reflect.

(* the walk over the assertions in closed form: the number rule, and the verdict of the earlier rounds on the Response
   taken together with every single one of its assertions *)
Theorem c01_multi_decomposition :
  forall c mm, parse_mmsg c mm = negb (several_unsigned mm)
                                 && (count_ok (mm_asl mm) && forallb (fun x => parse_message c (as_msg mm x)) (mm_asl mm)).
Proof. exact decomposition. Qed.
Print Assumptions c01_multi_decomposition.

(* the model follows /repo fix 6a3bb24f (C02-F4: several individually signed assertions in an unsigned Response were merged
   into one report): parse_assertion now ends with `len(self.assertions) > 1 and not self.response.signature ->
   InvalidAssertion`.  The fix is conservative: today's walk refuses what the walk before it (Model.parse_mmsg_v0) refused
   and, besides that, exactly the Responses with more than one assertion that carry no signature of their own; the walk
   before it was the plain decomposition *)
Theorem c01_multi_fix_conservative :
  forall c mm, parse_mmsg c mm = negb (several_unsigned mm) && parse_mmsg_v0 c mm.
Proof. exact fix_conservative. Qed.
Print Assumptions c01_multi_fix_conservative.

Theorem c01_multi_v0_decomposition :
  forall c mm, parse_mmsg_v0 c mm = count_ok (mm_asl mm) && forallb (fun x => parse_message c (as_msg mm x)) (mm_asl mm).
Proof. exact decomposition_v0. Qed.
Print Assumptions c01_multi_v0_decomposition.

(* whatever the options: no identity unless the signature of EVERY assertion that carries one verifies - the second
   encrypted assertion as much as the first *)
Theorem c01_multi_every_assertion_verified :
  forall c mm, parse_mmsg c mm = true -> forall x, In x (mm_asl mm) -> x_sig x <> None -> x_state c x = Valid.
Proof. exact identity_needs_every_assertion. Qed.
Print Assumptions c01_multi_every_assertion_verified.

(* the document order of the assertions is irrelevant for the verdict *)
Theorem c01_multi_order_irrelevant :
  forall c mm l l', Permutation.Permutation l l' -> parse_mmsg c (with_assertions mm l) = parse_mmsg c (with_assertions mm l').
Proof. exact order_irrelevant. Qed.
Print Assumptions c01_multi_order_irrelevant.

(* the messages, sequences and clients of the earlier rounds are the instance "one assertion per Response" *)
Theorem c01_multi_embed :
  forall c m, parse_mmsg c (embed m) = parse_message c m /\ forall i, spec_mm_b c (embed m) i = spec_m_b c m i.
Proof. intros c m. split; [apply parse_mmsg_embed | intros i; apply spec_mm_b_embed]. Qed.
Print Assumptions c01_multi_embed.

Theorem c01_multi_client_embed :
  forall k ms, client_run_mm k (map embed ms) = client_run k ms
               /\ forall ids, spec_client_mm_b k (map embed ms) ids = spec_client_b k ms ids.
Proof. intros k ms. split; [apply client_run_embed | intros ids; apply spec_client_mm_b_embed]. Qed.
Print Assumptions c01_multi_client_embed.

(* every client (round 4), every sequence of such Responses *)
Theorem c01_multi_client : forall k ms, spec_client_mm k ms (client_run_mm k ms).
Proof. exact client_holds_mm. Qed.
Print Assumptions c01_multi_client.

Theorem c01_spec_multi_client_reflect : forall k ms ids, spec_client_mm_b k ms ids = true <-> spec_client_mm k ms ids.
Proof. exact spec_client_mm_b_iff. Qed.
Print Assumptions c01_spec_multi_client_reflect.

(* ---- source tie, translator v2: the functions below are re-translated from the source text of /repo on every
   run (coq/gen/C01Src2.v, C01Src2p.v); each theorem says that the translated function, applied to the encoded
   model input, yields the encoded output of the model function it mirrors (proofs: C01/Source2.v) ---- *)

(* sigver.py SecurityContext.correctly_signed_response = Model.load_response; externals (XML parser, _check_signature,
   class_name) universally quantified under the hypotheses shown *)
Theorem c01_source2_correctly_signed_response :
  forall (parse_resp : pyval -> pyval) (check_sig : pyval -> pyval -> pyval -> pyval -> pyval)
         (class_name_ext : pyval -> pyval) (xml origdoc : pyval) (present : bool) (v : vres),
  is_bad xml = false -> is_bad origdoc = false ->
  parse_resp xml = enc_parsed present ->
  is_bad (class_name_ext (enc_parsed present)) = false ->
  check_sig xml (enc_parsed present) (class_name_ext (enc_parsed present)) origdoc = enc_vres (enc_parsed present) v ->
  forall (self must ovc : pyval) (req : bool),
  src2_correctly_signed_response parse_resp check_sig class_name_ext self xml must origdoc ovc (PBool req) (PObj nil)
  = enc_loaded present (load_response req (sres_of present v)).
Proof. exact src2_correctly_signed_response_is_model. Qed.
Print Assumptions c01_source2_correctly_signed_response.

(* response.py AuthnResponse._assertion = Model.verify_assertions (requirement, verification, issuer comparison);
   the other checks of the assertion are "otherwise valid" *)
Theorem c01_source2_assertion :
  forall (check_sig3 : pyval -> pyval -> pyval -> pyval)
         (class_name_ext issuer_ext authn_statement_ok_ext condition_ok_ext get_subject_ext : pyval -> pyval)
         (q present : bool) (v : vres) (ri ai : option string) (xs : string),
  match ai with Some t => end_ascii (strip t) = true | None => True end ->
  is_bad (class_name_ext (enc_assertion present ai)) = false ->
  check_sig3 (enc_assertion present ai) (class_name_ext (enc_assertion present ai)) (PStr xs) = enc_vres (enc_assertion present ai) v ->
  issuer_ext (enc_self q xs) = enc_ostr ri ->
  (forall s : pyval, is_bad (authn_statement_ok_ext s) = false) ->
  (forall s : pyval, condition_ok_ext s = PBool true) ->
  (forall s : pyval, is_bad (get_subject_ext s) = false) ->
  src2_assertion check_sig3 class_name_ext issuer_ext authn_statement_ok_ext condition_ok_ext get_subject_ext
                 (enc_self q xs) (enc_assertion present ai) (PBool false)
  = match verify_exc q (sres_of present v) (im_s ri ai) with Some n => PExc n | None => PBool true end.
Proof. exact src2_assertion_is_model. Qed.
Print Assumptions c01_source2_assertion.

(* entity.py Entity._parse_response (desugared) = Model.core, with the name of the exception: for every option
   setting, finding on the Response and on the assertion, issuer comparison and binding; with / without
   accepted_time_diff and return_addrs.  The externals answer what the model's sub-functions say (the ext_ functions of Source2.v) *)
Theorem c01_source2_parse_response :
  forall (time_diff with_addrs wr wa wor : bool) (r a : sres) (im : bool) (b : bind),
  parse_response_run time_diff with_addrs wr wa wor r a im b = enc_result wr wa wor (core_exc wr wa wor r a im b).
Proof. exact src2_parse_response_is_model. Qed.
Print Assumptions c01_source2_parse_response.

Theorem c01_source2_core_exc :
  forall wr wa wor r a im b,
  match core_exc wr wa wor r a im b with RIdentity => true | RExc _ => false end = core wr wa wor r a im b.
Proof. exact core_exc_core. Qed.
Print Assumptions c01_source2_core_exc.

(* response.py AuthnResponse.__init__: want_response_signed / want_assertions_signed /
   want_assertions_or_response_signed become require_response_signature / require_signature /
   require_signature_or_response_signature *)
Theorem c01_source2_authn_response_init :
  forall wa wor wr : bool,
  flags_of (state_of (authn_response_init_run (PBool wa) (PBool wor) (PBool wr))) = PList [PBool wr; PBool wa; PBool wor].
Proof. exact src2_authn_response_init_is_model. Qed.
Print Assumptions c01_source2_authn_response_init.

(* client_base.py Base.__init__ = Model.resolve on the regenerated defaults *)
Theorem c01_source2_base_init :
  forall o_wr o_wa o_wor : optv,
  options_of (state_of (base_init_run o_wr o_wa o_wor))
  = PList [PBool (resolve o_wr want_response_signed_default); PBool (resolve o_wa want_assertions_signed_default);
           PBool (resolve o_wor want_assertions_or_response_signed_default)].
Proof. exact src2_base_init_is_model. Qed.
Print Assumptions c01_source2_base_init.

(* client_base.py Base.parse_authn_request_response (desugared): the keywords _parse_response is called with *)
Theorem c01_source2_parse_authn_request_response :
  forall (wr wa wor : bool) (b : bind),
  src2_parse_authn_request_response ext_service_urls echo_parse_response ext_add_info ext_session_info
    (sp_ready wr wa wor) (PStr "<xml/>") (PStr (bind_uri b)) (PObj [("req-1", PStr "/")]) PNone PNone
  = echo_parse_response PNone (PStr "<xml/>") enc_cls (PStr "assertion_consumer_service") (PStr (bind_uri b))
      (PObj [("outstanding_queries", PObj [("req-1", PStr "/")]); ("outstanding_certs", PNone);
             ("allow_unsolicited", PBool false); ("want_assertions_signed", PBool wa);
             ("want_assertions_or_response_signed", PBool wor); ("want_response_signed", PBool wr);
             ("return_addrs", acs); ("entity_id", PStr "https://sp.example.org/sp.xml"); ("attribute_converters", PList []);
             ("allow_unknown_attributes", PBool false); ("conv_info", PNone)]).
Proof. exact src2_parse_authn_request_response_plumbing. Qed.
Print Assumptions c01_source2_parse_authn_request_response.

(* the chain Base.__init__ -> parse_authn_request_response -> _parse_response -> AuthnResponse.__init__ -> two
   passes, from the CONFIGURED option values to the verdict = Model.parse_message *)
Theorem c01_source2_chain :
  forall (c : config) (m : msg),
  let r := look (resolve (c_only c) only_use_keys_in_metadata_default) (r_who m) (r_schema_ok m) (m_rs m) in
  let a := look (resolve (c_only c) only_use_keys_in_metadata_default) (a_issuer m) (has_issuer (a_who m)) (m_as m) in
  match outcome_of (chain_run (state_of (base_init_run (c_wr c) (c_wa c) (c_wor c))) r a (issuers_match m) (m_bind m))
  with RIdentity => true | RExc _ => false end
  = parse_message c m.
Proof. exact src2_chain_parse_message. Qed.
Print Assumptions c01_source2_chain.

(* round 4: client_base.py Base.__init__ on a configuration OBJECT: self.config.getattr answers per context (the
   three options as stored for the SP under "sp", `other` under "idp" / "aa" / "", the current context for None): the
   options of the SP section are read as Model.as_optv reads them — a str by what it says, SAMLError for an unreadable
   word —, whatever the current context and whatever sits elsewhere; for the sampled stored triples (Source2.all_triples) *)
Theorem c01_source2_base_init_object :
  forall (o_wr o_wa o_wor other : sval) (cur : octx),
  listed_b (o_wr, o_wa, o_wor) = true -> In other all_other ->
  state_of (base_init_ctx o_wr o_wa o_wor other cur) = base_init_expected o_wr o_wa o_wor.
Proof. exact base_init_ctx_state. Qed.
Print Assumptions c01_source2_base_init_object.

Theorem c01_source2_base_init_client :
  forall k : client, listed k ->
  match read_config k with
  | Some c => options_of (state_of (base_init_client k))
              = PList [PBool (resolve (c_wr c) want_response_signed_default); PBool (resolve (c_wa c) want_assertions_signed_default);
                       PBool (resolve (c_wor c) want_assertions_or_response_signed_default)]
  | None => state_of (base_init_client k) = PExc "SAMLError"
  end.
Proof. exact src2_base_init_client_is_model. Qed.
Print Assumptions c01_source2_base_init_client.

(* the chain from the configuration object of a client to the verdict = the model of that client *)
Theorem c01_source2_chain_client :
  forall (k : client) (c : config) (m : msg), listed k -> read_config k = Some c ->
  let r := look (resolve (c_only c) only_use_keys_in_metadata_default) (r_who m) (r_schema_ok m) (m_rs m) in
  let a := look (resolve (c_only c) only_use_keys_in_metadata_default) (a_issuer m) (has_issuer (a_who m)) (m_as m) in
  match outcome_of (chain_run (state_of (base_init_client k)) r a (issuers_match m) (m_bind m))
  with RIdentity => true | RExc _ => false end
  = parse_message c m.
Proof. exact src2_chain_client. Qed.
Print Assumptions c01_source2_chain_client.

(* ---- round 5, source tie of response.py AuthnResponse.parse_assertion (coq/gen/C01Src2a.v; the two `while` loops are
   recursion on `fuel`, out of fuel = PErr).  Run on a Response with the LIST l of assertions (each: what is found on its
   signature, the issuer comparison, sent plain / encrypted) by the engine of Source2pa.v (decrypt_keys opens ONE
   EncryptedData per call, DecryptError when none is left; response_from_string / find_encrypt_data read the text as it
   then is; _assertion and decrypt_assertions answer what Model.run_chk says), with ANY fuel above the number of
   EncryptedData: it ends with the exception of the first failing check of the model's walk (number rule; plain
   assertions; signatures of ALL decrypted assertions; their remaining checks; since fix 6a3bb24f the repaired number
   rule: more than one processed assertion in a Response without signature) or with True and
   self.assertions = all decrypted assertions followed by the plain ones, self.assertion the first of them,
   self.response.encrypted_assertion emptied, self.xmlstr the fully decrypted text.  Domain: every list of at most 3
   assertions (20^0 + .. + 20^3 = 8421), and the lists of at most 5 over {no / good / bad signature} x {plain, encrypted}
   (9331), each with a signed and an unsigned Response, by one evaluation each with a free surplus of fuel. *)
Theorem c01_source2_parse_assertion :
  forall (q rsigned : bool) (l : list item) (fuel : nat),
  in_domain l -> (List.length (filter i_enc l) < fuel)%nat ->
  pa_view (pa_run fuel q rsigned l) = pa_expected q rsigned l.
Proof. exact src2_parse_assertion_is_model. Qed.
Print Assumptions c01_source2_parse_assertion.

(* ... which the handlers of _parse_response class as Model.verify_all (the `response.verify` of Model.core_gen) of that
   Response, for every Response with at most 3 assertions *)
Theorem c01_source2_parse_assertion_verify_all :
  forall (only_md q : bool) (mm : mmsg) (fuel : nat),
  (List.length (mm_asl mm) <= 3)%nat -> (List.length (enc_of (mm_asl mm)) < fuel)%nat ->
  outcome_of_name (exc_of (pa_view (pa_run fuel q (r_signed mm) (items_of only_md mm))))
  = verify_all q (count_ok (mm_asl mm)) (schedule only_md mm).
Proof. exact src2_parse_assertion_verify_all. Qed.
Print Assumptions c01_source2_parse_assertion_verify_all.

(* the names of the exceptions are a refinement of the model's outcomes *)
Theorem c01_source2_parse_assertion_exc :
  forall q okc sch, outcome_of_name (verify_all_exc q okc sch) = verify_all q okc sch.
Proof. exact verify_all_exc_outcome. Qed.
Print Assumptions c01_source2_parse_assertion_exc.

(* ---- round 6 (a): which ds:Signature the engine verifies versus which one the library inspects ----------
   xmlsec1 verifies the FIRST ds:Signature in document order at or below --node-id; the profile validators read the
   Signature CHILD.  With the guard of the code (_is_the_only_signature_child) the verdict computed through the
   engine's choice (Model.check_signature_with, Model.engine_verify) is the verdict of Model.check_signature, for every
   signature shape, every signature of a descendant (ahead of or after the child; valid, altered, by any key). *)
Theorem c01_engine_tie :
  forall only w ok g, check_signature_with only_signature_child only w ok g = check_signature only w ok g.
Proof. exact check_signature_engine. Qed.
Print Assumptions c01_engine_tie.

(* a guard that only counts the Signature CHILDREN agrees on every element whose Signature stands where the schema puts it *)
Theorem c01_engine_tie_children_only_in_place :
  forall only w ok g, in_place (shp g) = true ->
  check_signature_with one_signature_child only w ok g = check_signature_with only_signature_child only w ok g.
Proof. exact children_only_agrees_in_place. Qed.
Print Assumptions c01_engine_tie_children_only_in_place.

(* a signature of a descendant AFTER the element's own Signature child does not change the verdict *)
Theorem c01_nested_after_irrelevant :
  forall only w ok k i cr rf ca t o nk nb,
  check_signature only w ok {| signer := k; ki := i; corrupt := cr; shp := {| refs := rf; c14n := ca; trs := t; obj := o; xsig := XIn false nk nb |} |}
  = check_signature only w ok {| signer := k; ki := i; corrupt := cr; shp := {| refs := rf; c14n := ca; trs := t; obj := o; xsig := XNone |} |}.
Proof. exact nested_after_irrelevant. Qed.
Print Assumptions c01_nested_after_irrelevant.

(* ---- round 6 (b): the keys that open an EncryptedAssertion (configured / per request through outstanding_certs) ----
   THE PROPERTY for every configuration, every Response (any list of assertions), every recipient certificate of its
   EncryptedAssertions and every outstanding_certs argument: an identity only from assertions the receiver can read,
   all their signatures and the Response's verifying and the options met; a Response that satisfies the options, is
   otherwise valid and is encrypted for a key the receiver holds - configured or made for the request - is accepted. *)
Theorem c01_keys : forall c x, spec_x c x (parse_xmsg c x).
Proof. exact policy_holds_x. Qed.
Print Assumptions c01_keys.

Theorem c01_spec_keys_reflect : forall c x i, spec_x_b c x i = true <-> spec_x c x i.
Proof. exact spec_x_b_iff. Qed.
Print Assumptions c01_spec_keys_reflect.

(* a receiver that holds the key: the verdict of the earlier rounds, whichever key it is and however it was handed over *)
Theorem c01_keys_readable : forall c x, can_read x = true -> parse_xmsg c x = parse_mmsg c (xm x).
Proof. exact readable_is_mmsg. Qed.
Print Assumptions c01_keys_readable.

Theorem c01_keys_irrelevant :
  forall c mm r o r' o', holds_key o r = true -> holds_key o' r' = true ->
  parse_xmsg c {| xm := mm; x_rcpt := r; x_oc := o |} = parse_xmsg c {| xm := mm; x_rcpt := r'; x_oc := o' |}.
Proof. exact keys_irrelevant. Qed.
Print Assumptions c01_keys_irrelevant.

(* what the receiver cannot open contributes nothing: the verdict is the walk of the plain assertions, under the number
   rule of what the Response carries *)
Theorem c01_keys_unreadable :
  forall c x, can_read x = false ->
  parse_xmsg c x = count_ok (mm_asl (xm x)) && nonempty_l (plain_of (mm_asl (xm x)))
                   && parse_walk true c (with_asl (xm x) (plain_of (mm_asl (xm x)))).
Proof. exact unreadable_plain_only. Qed.
Print Assumptions c01_keys_unreadable.

(* the keys the code actually tries (request keys, then the configured ones) are the keys the receiver holds *)
Theorem c01_keys_tried : forall o r, opens (request_keys o) r = holds_key o r.
Proof. exact opens_holds. Qed.
Print Assumptions c01_keys_tried.

(* clients and sequences; the cases of the earlier rounds are the instance "configured key, no outstanding_certs" *)
Theorem c01_keys_client : forall k xs, spec_client_x k xs (client_run_x k xs).
Proof. exact client_holds_x. Qed.
Print Assumptions c01_keys_client.

Theorem c01_spec_keys_client_reflect : forall k xs ids, spec_client_x_b k xs ids = true <-> spec_client_x k xs ids.
Proof. exact spec_client_x_b_iff. Qed.
Print Assumptions c01_spec_keys_client_reflect.

Theorem c01_keys_embed :
  forall k ms ids, client_run_x k (map plain_msg ms) = client_run_mm k ms
                   /\ spec_client_x_b k (map plain_msg ms) ids = spec_client_mm_b k ms ids.
Proof. intros k ms ids. split; [apply client_run_plain | apply spec_client_x_b_plain]. Qed.
Print Assumptions c01_keys_embed.

(* a retry pass that is not given the keys of the request (seeded change C01-b) agrees as long as the configured key is
   the recipient *)
Theorem c01_keys_retry_bare_configured :
  forall c mm o, parse_xmsg_retry_bare c {| xm := mm; x_rcpt := DConfigured; x_oc := o |}
                 = parse_xmsg c {| xm := mm; x_rcpt := DConfigured; x_oc := o |}.
Proof. exact retry_bare_agrees_configured. Qed.
Print Assumptions c01_keys_retry_bare_configured.
