(* C01/Property.v — property theorems only. *)
From Coq Require Import Bool List.
From Verif Require Import C01.Model C01.Spec C01.Proofs.
From VerifGen Require Import C01Tables.
Import ListNotations.

(* C01: for every setting of the three want_* options and of only_use_keys_in_metadata (unset / True /
   False / "true"), every Issuer the Response and the assertion name (the IdP, another federation
   member, an entity without metadata, none), every signature on either (absent, or made by any of the
   six keys, intact or not, shipping no / its own / the IdP's certificate in KeyInfo), plain or
   encrypted assertion and binding: identity iff every present signature verifies under a key trusted
   for the issuer the signed element names and the demanded signatures are carried (PAOS is never
   unravelled; an assertion without Issuer or a Response naming another issuer than its assertion is
   not "otherwise valid"). *)
Theorem c01_policy : forall c m, spec_m c m (parse_message c m).
Proof. exact policy_holds_m. Qed.
Print Assumptions c01_policy.

Theorem c01_spec_reflect : forall c m i, spec_m_b c m i = true <-> spec_m c m i.
Proof. exact spec_m_b_iff. Qed.
Print Assumptions c01_spec_reflect.

(* regenerated-table obligation: the defaults in the source are the documented ones *)
Theorem c01_defaults :
  want_response_signed_default = true /\ want_assertions_signed_default = false
  /\ want_assertions_or_response_signed_default = false
  /\ only_use_keys_in_metadata_default = true.
Proof. exact defaults_as_documented. Qed.
Print Assumptions c01_defaults.

(* the single-message truth table of round 1 (the four signature states given; Response and assertion
   of the IdP; 4^3 x 4 x 4 x 2 x 4 = 8192 cells): an instance of c01_policy, kept because C09 composes
   with it *)
Theorem c01_policy_single : forall x, spec x (parse_response x).
Proof. exact policy_holds. Qed.
Print Assumptions c01_policy_single.

Theorem c01_spec_single_reflect : forall x i, spec_b x i = true <-> spec x i.
Proof. exact spec_b_iff. Qed.
Print Assumptions c01_spec_single_reflect.

(* a long-lived SP: every message of every sequence obeys the table, whatever was consumed before
   (no bound on the length of the sequence) *)
Theorem c01_sequence : forall c ms, spec_seq c ms (sp_run c ms).
Proof. exact sequence_holds. Qed.
Print Assumptions c01_sequence.

Theorem c01_spec_seq_reflect : forall c ms ids, spec_seq_b c ms ids = true <-> spec_seq c ms ids.
Proof. exact spec_seq_b_iff. Qed.
Print Assumptions c01_spec_seq_reflect.

Theorem c01_history_independent :
  forall c pre m, sp_run c (pre ++ [m]) = sp_run c pre ++ [parse_message c m].
Proof. exact history_independent. Qed.
Print Assumptions c01_history_independent.

(* with only_use_keys_in_metadata in force (the default) a message cannot vouch for its own key:
   what its KeyInfo ships is irrelevant, and an identity needs every present signature to be intact
   and made by a signing key that the metadata publishes for the issuer the signed element names *)
Theorem c01_keyinfo_ignored :
  forall c m, only_md c = true -> parse_message c (strip_ki m) = parse_message c m.
Proof. exact keyinfo_ignored. Qed.
Print Assumptions c01_keyinfo_ignored.

Theorem c01_identity_needs_metadata_keys :
  forall c m, only_md c = true -> parse_message c m = true ->
              vouched (r_who m) (m_rs m) /\ vouched (a_who m) (m_as m).
Proof. exact identity_needs_metadata_keys. Qed.
Print Assumptions c01_identity_needs_metadata_keys.
