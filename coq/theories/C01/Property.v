(* C01/Property.v — property theorems only. *)
From Coq Require Import Bool List.
From Verif Require Import C01.Model C01.Spec C01.Proofs.
From VerifGen Require Import C01Tables.

(* C01: for every option setting (unset / True / False / "true"), Response and assertion signature
   state, plain or encrypted assertion and binding: identity iff every present signature verifies
   and the demanded signatures are carried (PAOS is never unravelled). *)
Theorem c01_policy : forall x, spec x (parse_response x).
Proof. exact policy_holds. Qed.
Print Assumptions c01_policy.

Theorem c01_spec_reflect : forall x i, spec_b x i = true <-> spec x i.
Proof. exact spec_b_iff. Qed.
Print Assumptions c01_spec_reflect.

(* regenerated-table obligation: the defaults in the source are the documented ones *)
Theorem c01_defaults :
  want_response_signed_default = true /\ want_assertions_signed_default = false
  /\ want_assertions_or_response_signed_default = false.
Proof. exact defaults_as_documented. Qed.
Print Assumptions c01_defaults.
